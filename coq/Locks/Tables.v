(** Checks over the generated table gen/LockGen.v (definitions; the obligations and the
    soundness lemmas that tie them to Locks.v are in TableProofs.v). *)
From Coq Require Import String List Bool Arith.
From P9V Require Import Locks.Sym Locks.Locks gen.LockGen.
Import ListNotations.
Open Scope string_scope.

Definition class_of (m : string) : cls :=
  match find (fun x => String.eqb (fst x) m) contract with Some (_, c) => c | None => CUndoc end.

(** The checks below are evaluated on the held set RECOMPUTED from the site's plan (its ordered
    Lock/Unlock steps) by [pheld]; [paths_match] cross-checks it against the set the generator's
    own bookkeeping emitted. *)
Definition carries (st : site) : bool :=
  match s_kind st with KCall _ _ _ | KAcq _ _ | KField _ _ _ => true | _ => false end.
Definition eheld (st : site) : list (slock * bool) := if carries st then pheld (s_path st) else s_held st.

Fixpoint held_eqb (a b : list (slock * bool)) : bool :=
  match a, b with
  | [], [] => true
  | x :: a', y :: b' => slock_eqb (fst x) (fst y) && Bool.eqb (snd x) (snd y) && held_eqb a' b'
  | _, _ => false
  end.
Definition paths_match (st : site) : bool := negb (carries st) || held_eqb (rev (pheld (s_path st))) (s_held st).

(** ** C07: provided class >= documented class, on the node of the receiver File *)
Definition call_ok (st : site) : bool :=
  match s_kind st with
  | KCall m recv entry =>
      let h := eheld st in
      match class_of m with
      | CRead => has h SRename && (has h (SOp recv) || hasW h SRename)
      | CWrite => has h SRename && (hasW h (SOp recv) || hasW h SRename) &&
                  match entry with Some e => hasW h (SOp e) || hasW h SRename | None => true end
      | CGlobal => hasW h SRename
      | CNone | CUndoc => true
      end
  | _ => true
  end.

(** Open is called with the fidRef's openMu held, and [opened] is read under the node lock
    (or the global lock) and written under openMu and the node lock *)
Definition open_ok (st : site) : bool :=
  let h := eheld st in
  match s_kind st with
  | KCall "Open" (NOf r) _ => hasW h (SOpen r)
  | KCall "Open" _ _ => false
  | KField "opened" r w => (has h (SOp (NOf r)) || hasW h SRename) && (negb w || hasW h (SOpen r))
  | _ => true
  end.

(** ** C16: ordering discipline on symbolic locks *)
Definition sclass (l : slock) : nat :=
  match l with
  | SOpen _ => 0 | SRename => 1 | SOp _ => 2 | SFid _ => 3 | SChild _ => 4 | SRecv _ => 5
  | STag _ | SSend _ | SOther _ => 6
  end.

Definition snode_of (l : slock) : option snode := match l with SOp n | SChild n => Some n | _ => None end.

(** [below a b]: b is a strict descendant of a, read off the syntax *)
Fixpoint below_child (a b : snode) : bool :=       (* b = NChild^k a, k >= 1 *)
  match b with NChild b' _ => snode_eqb a b' || below_child a b' | _ => false end.
Fixpoint below_parent (a b : snode) : bool :=      (* a = NParent^k b, k >= 1 *)
  match a with NParent a' => snode_eqb a' b || below_parent a' b | _ => false end.
Definition below (a b : snode) : bool := below_child a b || below_parent a b.

Definition known_distinct (facts : list (snode * snode)) (a b : snode) : bool :=
  below a b || below b a ||
  existsb (fun f => (snode_eqb (fst f) a && snode_eqb (snd f) b) || (snode_eqb (fst f) b && snode_eqb (snd f) a)) facts.

Definition is_child (l : slock) : bool := match l with SChild _ => true | _ => false end.

(** one request of [l] while holding [h] (conditions (i)-(iv) of Locks.acq_ok, symbolically) *)
Definition sacq_ok (facts : list (snode * snode)) (h : list (slock * bool)) (l : slock) : bool :=
  (if hasW h SRename
   then is_child l &&
        forallb (fun x => match fst x, l with
                          | SChild a, SChild b => known_distinct facts a b
                          | _, _ => true end) h
   else forallb (fun x => Nat.ltb (sclass (fst x)) (sclass l) ||
                          (Nat.eqb (sclass (fst x)) (sclass l) &&
                           match snode_of (fst x), snode_of l with Some a, Some b => below a b | _, _ => false end)) h)
  && (negb (existsb (fun x => is_child (fst x)) h) || has h SRename).

(** every step of a plan is permitted: an acquisition satisfies the discipline w.r.t. the locks held
    at that point (recomputed), a release releases a lock that is held *)
Fixpoint path_ok (h : list (slock * bool)) (p : list pact) : bool :=
  match p with
  | [] => true
  | PA l w facts :: r => sacq_ok facts h l && path_ok ((l, w) :: h) r
  | PR l :: r => has h l && path_ok (filter (fun x => negb (slock_eqb l (fst x))) h) r
  end.

(** the plan of a site, including the acquisition itself for an acquisition site *)
Definition full_path (st : site) : list pact :=
  match s_kind st with
  | KAcq l w => s_path st ++ [PA l w (s_facts st)]
  | _ => s_path st
  end.

Definition acq_site_ok (st : site) : bool := negb (carries st) || path_ok [] (full_path st).

(** backend calls may block for as long as the backend likes: none is made while holding a
    connection-wide or leaf mutex; under a childMu only with the global lock held for writing *)
Definition call_leaf_ok (st : site) : bool :=
  match s_kind st with
  | KCall _ _ _ =>
      forallb (fun x => match fst x with
                        | SRename | SOp _ | SOpen _ => true
                        | SChild _ => hasW (eheld st) SRename
                        | _ => false end) (eheld st)
  | _ => true
  end.

(** guarded maps: the designated mutex is held (for writing when the access writes);
    the one listed exception: stop() reads cs.fids after pendingWg.Wait() returned, when no
    goroutine of the connection is left (sites of kind KWait show Wait itself holds nothing) *)
Definition access_exception (st : site) : bool :=
  match s_kind st with
  | KAccess "fids" _ false => String.eqb (s_root st) "connState.stop" && String.eqb (s_fn st) "connState.stop"
  | _ => false
  end.

Definition rw_lock (l : slock) : bool := match l with SRename | SOp _ | SChild _ => true | _ => false end.

Definition access_ok (st : site) : bool :=
  match s_kind st with
  | KAccess _ want w => (if w && rw_lock want then hasW (s_held st) want else has (s_held st) want) || access_exception st
  | _ => true
  end.

(** waiting for another goroutine (flush, stop) and dispatching a handler happen with nothing held *)
Definition wait_ok (st : site) : bool :=
  match s_kind st with
  | KWait _ | KDispatch => match s_held st with [] => true | _ => false end
  | _ => true
  end.

(** a panic inside a backend call is recovered in connState.handle: every lock held around a
    backend call must be released by a deferred Unlock (lock clause of C15) *)
Definition panic_safe (st : site) : bool :=
  match s_kind st with KCall _ _ _ => match s_undeferred st with [] => true | _ => false end | _ => true end.

(** functions of package p9 outside the interpreted files that take a lock: none *)
Definition outside_ok : bool := match outside_lockers with [] => true | _ => false end.

(** ** per handler summary (table (a)): handler, method, provided locks *)
Definition handler_calls : list (string * string * snode * list (slock * bool)) :=
  flat_map (fun st => match s_kind st with KCall m recv _ => [(s_root st, m, recv, s_held st)] | _ => [] end) sites.
