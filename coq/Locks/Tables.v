(** Checks over the generated table gen/LockGen.v (definitions; the obligations and the
    soundness lemmas that tie them to Locks.v are in TableProofs.v). *)
From Coq Require Import String List Bool Arith.
From P9V Require Import Locks.Sym Locks.Locks gen.LockGen.
Import ListNotations.
Open Scope string_scope.

Definition class_of (m : string) : cls :=
  match find (fun x => String.eqb (fst x) m) contract with Some (_, c) => c | None => CUndoc end.

(** The checks below are evaluated on the held set RECOMPUTED from the site's plan (its ordered
    Lock/Unlock steps) by [pheld]; [paths_match] cross-checks it against the set the generator's
    own bookkeeping emitted. *)
Definition carries (st : site) : bool :=
  match s_kind st with KCall _ _ _ | KAcq _ _ | KField _ _ _ => true | _ => false end.
Definition eheld (st : site) : list (slock * bool) := if carries st then pheld (s_path st) else s_held st.

Fixpoint held_eqb (a b : list (slock * bool)) : bool :=
  match a, b with
  | [], [] => true
  | x :: a', y :: b' => slock_eqb (fst x) (fst y) && Bool.eqb (snd x) (snd y) && held_eqb a' b'
  | _, _ => false
  end.
Definition paths_match (st : site) : bool := negb (carries st) || held_eqb (rev (pheld (s_path st))) (s_held st).

(** ** C07: provided class >= documented class, on the node of the receiver File *)
Definition call_ok (st : site) : bool :=
  match s_kind st with
  | KCall m recv entry =>
      let h := eheld st in
      match class_of m with
      | CRead => has h SRename && (has h (SOp recv) || hasW h SRename)
      | CWrite => has h SRename && (hasW h (SOp recv) || hasW h SRename) &&
                  match entry with Some e => hasW h (SOp e) || hasW h SRename | None => true end
      | CGlobal => hasW h SRename
      | CNone | CUndoc => true
      end
  | _ => true
  end.

(** Open is called with the fidRef's openMu held, and [opened] is read under the node lock
    (or the global lock) and written under openMu and the node lock *)
Definition open_ok (st : site) : bool :=
  let h := eheld st in
  match s_kind st with
  | KCall "Open" (NOf r) _ => hasW h (SOpen r)
  | KCall "Open" _ _ => false
  | KField "opened" r w => (has h (SOp (NOf r)) || hasW h SRename) &&
                           (negb (w || String.eqb (s_root st) "tlopen.handle") || hasW h (SOpen r))   (* written, and in Tlopen also tested, inside openMu *)
  | _ => true
  end.

(** ** C07: "same path => same path node".  Every fidRef the server builds carries the path node of its
    File: the node assigned to [pathNode:] is the node the File lives on (a File walked/created from
    directory node n under name x lives on n.pathNodeFor(x); a clone on the cloned ref's node; the
    attach root on the server's pathTree), and its [parent:] is the fidRef of that node's parent. *)
Definition new_ref_ok (st : site) : bool :=
  match s_kind st with
  | KNew file node parent =>
      snode_eqb node file &&
      match parent with
      | None => true
      | Some pn => match node with
                   | NChild n _ => snode_eqb n pn
                   | _ => snode_eqb pn (NParent node)
                   end
      end &&
      match node with NVar _ | NMaybeParent _ => false | _ => true end
  | _ => true
  end.

(** ** C16: ordering discipline on symbolic locks *)
Definition sclass (l : slock) : nat :=
  match l with
  | SOpen _ => 0 | SRename => 1 | SOp _ => 2 | SFid _ => 3 | SChild _ => 4 | SRecv _ => 5
  | STag _ | SSend _ | SOther _ => 6
  end.

Definition snode_of (l : slock) : option snode := match l with SOp n | SChild n => Some n | _ => None end.

(** [below a b]: b is a strict descendant of a, read off the syntax *)
Fixpoint below_child (a b : snode) : bool :=       (* b = NChild^k a, k >= 1 *)
  match b with NChild b' _ => snode_eqb a b' || below_child a b' | _ => false end.
Fixpoint below_parent (a b : snode) : bool :=      (* a = NParent^k b, k >= 1 *)
  match a with NParent a' => snode_eqb a' b || below_parent a' b | _ => false end.
Definition below (a b : snode) : bool := below_child a b || below_parent a b.

Definition known_distinct (facts : list (snode * snode)) (a b : snode) : bool :=
  below a b || below b a ||
  existsb (fun f => (snode_eqb (fst f) a && snode_eqb (snd f) b) || (snode_eqb (fst f) b && snode_eqb (snd f) a)) facts.

Definition is_child (l : slock) : bool := match l with SChild _ => true | _ => false end.

(** one request of [l] while holding [h] (conditions (i)-(iv) of Locks.acq_ok, symbolically) *)
Definition sacq_ok (facts : list (snode * snode)) (h : list (slock * bool)) (l : slock) : bool :=
  (if hasW h SRename
   then is_child l &&
        forallb (fun x => match fst x, l with
                          | SChild a, SChild b => known_distinct facts a b
                          | _, _ => true end) h
   else forallb (fun x => Nat.ltb (sclass (fst x)) (sclass l) ||
                          (Nat.eqb (sclass (fst x)) (sclass l) &&
                           match snode_of (fst x), snode_of l with Some a, Some b => below a b | _, _ => false end)) h)
  && (negb (existsb (fun x => is_child (fst x)) h) || has h SRename).

(** every step of a plan is permitted: an acquisition satisfies the discipline w.r.t. the locks held
    at that point (recomputed), a release releases a lock that is held *)
Fixpoint path_ok (h : list (slock * bool)) (p : list pact) : bool :=
  match p with
  | [] => true
  | PA l w facts :: r => sacq_ok facts h l && path_ok ((l, w) :: h) r
  | PR l :: r => has h l && path_ok (filter (fun x => negb (slock_eqb l (fst x))) h) r
  end.

(** the plan of a site, including the acquisition itself for an acquisition site *)
Definition full_path (st : site) : list pact :=
  match s_kind st with
  | KAcq l w => s_path st ++ [PA l w (s_facts st)]
  | _ => s_path st
  end.

Definition acq_site_ok (st : site) : bool := negb (carries st) || path_ok [] (full_path st).

(** backend calls may block for as long as the backend likes: none is made while holding a
    connection-wide or leaf mutex; under a childMu only with the global lock held for writing *)
Definition call_leaf_ok (st : site) : bool :=
  match s_kind st with
  | KCall _ _ _ =>
      forallb (fun x => match fst x with
                        | SRename | SOp _ | SOpen _ => true
                        | SChild _ => hasW (eheld st) SRename
                        | _ => false end) (eheld st)
  | _ => true
  end.

(** guarded maps: the designated mutex is held (for writing when the access writes);
    the one listed exception: stop() reads cs.fids after pendingWg.Wait() returned, when no
    goroutine of the connection is left (sites of kind KWait show Wait itself holds nothing) *)
Definition access_exception (st : site) : bool :=
  match s_kind st with
  | KAccess "fids" _ false => String.eqb (s_root st) "connState.stop" && String.eqb (s_fn st) "connState.stop"
  | _ => false
  end.

Definition rw_lock (l : slock) : bool := match l with SRename | SOp _ | SChild _ => true | _ => false end.

Definition access_ok (st : site) : bool :=
  match s_kind st with
  | KAccess _ want w => (if w && rw_lock want then hasW (s_held st) want else has (s_held st) want) || access_exception st
  | _ => true
  end.

(** name -> node and fidRef -> name RESOLUTION in the path tree: a rename re-binds names to nodes holding only
    renameMu (for writing), so what a handler resolves -- the node it then locks for a child ([pathNodeFor] reads
    [childNodes]), the name it hands to the backend ([nameFor]) -- is still what the tree says when the backend
    call runs only if the resolution itself happens with renameMu held.  Stated on the MAP (every access to
    [childNodes], whichever function makes it), and on [pathNode.nameFor] by name ([childRefNames] is also
    touched by the release of a dying fidRef, which needs no stable name).  (Necessary, not sufficient: unlink
    and create re-bind a name under the parent's opMu, which [call_ok] demands for the calls concerned.) *)
Definition resolve_ok (st : site) : bool :=
  match s_kind st with
  | KAccess m _ _ => if String.eqb m "childNodes" || String.eqb (s_fn st) "pathNode.nameFor" then has (s_held st) SRename else true
  | KAcq _ _ => if String.eqb (s_fn st) "pathNode.nameFor" then has (s_held st) SRename else true
  | _ => true
  end.
(** ... and the table does contain resolutions (the obligation is not vacuous) *)
Definition resolve_sites : nat :=
  List.length (filter (fun st => match s_kind st with KAccess m _ _ => String.eqb m "childNodes" | _ => false end) sites).

(** waiting for another goroutine (flush, stop) and dispatching a handler happen with nothing held *)
Definition wait_ok (st : site) : bool :=
  match s_kind st with
  | KWait _ | KDispatch => match s_held st with [] => true | _ => false end
  | _ => true
  end.

(** a panic inside a backend call is recovered in connState.handle: every lock held around a
    backend call must be released by a deferred Unlock (lock clause of C15) *)
Definition panic_safe (st : site) : bool :=
  match s_kind st with KCall _ _ _ => match s_undeferred st with [] => true | _ => false end | _ => true end.

(** functions of package p9 outside the interpreted files that take a lock: none *)
Definition outside_ok : bool := match outside_lockers with [] => true | _ => false end.

(** ** per handler summary (table (a)): handler, method, provided locks *)
Definition handler_calls : list (string * string * snode * list (slock * bool)) :=
  flat_map (fun st => match s_kind st with KCall m recv _ => [(s_root st, m, recv, s_held st)] | _ => [] end) sites.

(** ** completeness: what the tables must contain (hand-written from the File interface and the protocol;
    a call or a map access that disappears from the generated table — moved to a place the generator does
    not follow, reached through a method value, ... — re-opens an obligation) *)
Definition expected_contract : list (string * cls) := [
  ("Walk", CRead); ("WalkGetAttr", CRead); ("StatFS", CNone); ("GetAttr", CRead); ("SetAttr", CWrite); ("Close", CNone);
  ("Open", CRead); ("ReadAt", CRead); ("WriteAt", CRead); ("SetXattr", CUndoc); ("GetXattr", CUndoc); ("ListXattrs", CUndoc);
  ("RemoveXattr", CUndoc); ("FSync", CRead); ("Lock", CUndoc); ("Create", CWrite); ("Mkdir", CWrite); ("Symlink", CWrite);
  ("Link", CWrite); ("Mknod", CWrite); ("Rename", CUndoc); ("RenameAt", CGlobal); ("UnlinkAt", CWrite); ("Readdir", CRead);
  ("Readlink", CRead); ("Renamed", CGlobal) ].

Definition cls_eqb (a b : cls) : bool :=
  match a, b with CNone, CNone | CRead, CRead | CWrite, CWrite | CGlobal, CGlobal | CUndoc, CUndoc => true | _, _ => false end.
Fixpoint contract_eqb (a b : list (string * cls)) : bool :=
  match a, b with
  | [], [] => true
  | (m, c) :: a', (m', c') :: b' => String.eqb m m' && cls_eqb c c' && contract_eqb a' b'
  | _, _ => false
  end.

(** handler (request type) -> backend methods it must reach *)
Definition expected_calls : list (string * list string) := [
  ("tattach.handle", ["GetAttr"; "Walk"; "WalkGetAttr"; "Close"]);
  ("tclunk.handle", ["Close"; "SetXattr"; "RemoveXattr"]);
  ("tremove.handle", ["UnlinkAt"; "Close"]);
  ("tlopen.handle", ["Open"]);
  ("tlcreate.handle", ["Create"; "Close"]); ("tucreate.handle", ["Create"; "Close"]);
  ("tsymlink.handle", ["Symlink"]); ("tusymlink.handle", ["Symlink"]);
  ("tlink.handle", ["Link"]);
  ("trenameat.handle", ["RenameAt"; "Renamed"; "Close"]);
  ("trename.handle", ["RenameAt"; "Renamed"; "Close"]);
  ("tunlinkat.handle", ["UnlinkAt"]);
  ("treadlink.handle", ["Readlink"]);
  ("tread.handle", ["ReadAt"]); ("twrite.handle", ["WriteAt"]);
  ("tmknod.handle", ["Mknod"]); ("tumknod.handle", ["Mknod"]);
  ("tmkdir.handle", ["Mkdir"]); ("tumkdir.handle", ["Mkdir"]);
  ("tgetattr.handle", ["GetAttr"]); ("tsetattr.handle", ["SetAttr"]);
  ("txattrwalk.handle", ["GetXattr"; "ListXattrs"; "Close"]);
  ("treaddir.handle", ["Readdir"]); ("tfsync.handle", ["FSync"]); ("tstatfs.handle", ["StatFS"]); ("tlock.handle", ["Lock"]);
  ("twalk.handle", ["Walk"; "WalkGetAttr"; "GetAttr"; "Close"]);   (* every walk step needs the type of the new file *)
  ("twalkgetattr.handle", ["WalkGetAttr"; "Walk"; "GetAttr"; "Close"]);
  ("connState.stop", ["Close"]) ].

Definition has_call (root m : string) : bool :=
  existsb (fun st => String.eqb (s_root st) root && match s_kind st with KCall m' _ _ => String.eqb m m' | _ => false end) sites.
Definition calls_complete : bool :=
  forallb (fun e => forallb (has_call (fst e)) (snd e)) expected_calls &&
  (* every method of the File interface the server may call is called from somewhere (Rename never is, by its documentation) *)
  forallb (fun e => String.eqb (fst e) "Rename" || existsb (fun st => match s_kind st with KCall m _ _ => String.eqb m (fst e) | _ => false end) sites) expected_contract &&
  (* no handler reaches the backend beyond the expected methods (any handler may drop a last reference: Close) *)
  forallb (fun st => match s_kind st with
                     | KCall m _ _ => String.eqb m "Close" || existsb (fun e => String.eqb (fst e) (s_root st) && existsb (String.eqb m) (snd e)) expected_calls
                     | _ => true end) sites.

(** guarded map -> functions that must show accesses to it (read and write) *)
Definition expected_access : list (string * string * bool) := [
  ("fids", "connState.LookupFID", false); ("fids", "connState.InsertFID", true); ("fids", "connState.DeleteFID", true); ("fids", "connState.stop", false);
  ("tags", "connState.StartTag", true); ("tags", "connState.ClearTag", true); ("tags", "connState.TagDone", false);
  ("childNodes", "pathNode.pathNodeFor", true); ("childNodes", "pathNode.forEachChildNode", false); ("childNodes", "pathNode.addPathNodeFor", true);
  ("childNodes", "pathNode.removeWithName", true);
  ("childRefs", "pathNode.forEachChildRef", false); ("childRefs", "pathNode.addChildLocked", true); ("childRefs", "pathNode.removeChild", true);
  ("childRefs", "pathNode.removeWithName", true);
  ("childRefNames", "pathNode.nameFor", false); ("childRefNames", "pathNode.addChildLocked", true); ("childRefNames", "pathNode.removeChild", true);
  ("childRefNames", "pathNode.removeWithName", true);
  ("cache", "pool.Get", true); ("cache", "pool.Put", true);
  ("pending", "Client.sendRecv", true); ("pending", "Client.handleOne", true);
  ("paths", "Mapper.QIDFor", true) ].

(** completeness is asked per MAP and access mode, not per function name: the table must contain at least as many
    distinct functions reading / writing each guarded map as the reviewed list above names (so that the generator
    cannot silently lose the accessors of a map), whatever those functions are called -- extracting a helper or
    renaming a method is not an alarm; every accessor that does exist is checked by [access_ok] / [resolve_ok] *)
Definition accessors (m : string) (w : bool) : list string :=
  nodup String.string_dec
    (flat_map (fun st => match s_kind st with
                         | KAccess m' _ w' => if String.eqb m m' && Bool.eqb w w' then [s_fn st] else []
                         | _ => [] end) sites).
Definition expected_count (m : string) (w : bool) : nat :=
  List.length (filter (fun e => let '(m', _, w') := e in String.eqb m m' && Bool.eqb w w') expected_access).
Definition access_complete : bool :=
  forallb (fun e => let '(m, _, w) := e in Nat.leb (expected_count m w) (List.length (accessors m w))) expected_access.

(** the fidRef constructions the protocol needs: attach root, walk step, clone, create, xattr walk *)
Definition new_complete : bool :=
  forallb (fun r => existsb (fun st => String.eqb (s_root st) r && match s_kind st with KNew _ _ _ => true | _ => false end) sites)
          ["tattach.handle"; "twalk.handle"; "tlcreate.handle"; "txattrwalk.handle"].

(** ** "same path => same path node", the source side.
    Path nodes live in exactly three places: the one tree root of the Server (shared by all its connections),
    the [pathNode] of a fidRef, and the [childNodes] map of a path node.  A pathNode is constructed in exactly
    two places: NewServer (the root, once per server) and pathNodeFor (stored into [childNodes] under the
    name asked for).  A root kept per connection, a fidRef given a private node, a second constructor:
    each re-opens this obligation (and [new_ref_ok] for the fidRef literal concerned).  With these sources
    Locks/NodeId.v proves that walking one path twice ends on one node. *)
Definition expected_node_fields : list (string * string) := [("Server", "ptr"); ("fidRef", "ptr"); ("pathNode", "map")].
Definition expected_node_allocs : list (string * string) :=
  [("NewServer", "field:Server"); ("newPathNode", "return"); ("pathNode.pathNodeFor", "childNodes[...]")].

Fixpoint spairs_eqb (a b : list (string * string)) : bool :=
  match a, b with
  | [], [] => true
  | (x, y) :: a', (x', y') :: b' => String.eqb x x' && String.eqb y y' && spairs_eqb a' b'
  | _, _ => false
  end.

(** pathNodeFor's lookup-or-make is atomic: every store to [childNodes] in pathNodeFor holds that node's childMu
    for writing, and the same run of pathNodeFor (same root, same node) shows a read of [childNodes] with
    that write lock held — the re-check after re-locking (NodeId.node_for is that atomic step) *)
Definition in_node_for (st : site) (w : bool) : option slock :=
  match s_kind st with
  | KAccess "childNodes" want w' => if String.eqb (s_fn st) "pathNode.pathNodeFor" && Bool.eqb w w' then Some want else None
  | _ => None
  end.
Definition node_for_atomic : bool :=
  existsb (fun st => match in_node_for st true with Some _ => true | None => false end) sites &&
  forallb (fun st => match in_node_for st true with
                     | Some want =>
                         hasW (s_held st) want &&
                         existsb (fun st' => String.eqb (s_root st') (s_root st) &&
                                             match in_node_for st' false with
                                             | Some want' => slock_eqb want want' && hasW (s_held st') want'
                                             | None => false end) sites
                     | None => true end) sites.

Definition node_identity_ok : bool :=
  spairs_eqb node_fields expected_node_fields && spairs_eqb node_allocs expected_node_allocs && node_for_atomic.

(** ** C07: "Open is invoked at most once on a File" across fidRefs.
    C07_open_once is about ONE fidRef (its openMu, its opened flag).  Two fidRefs may stand for one File only
    when one BORROWS the other's (Txattrwalk: [file: ref.file]); such a fidRef must never become openable:
    its literal sets neither [mode] (so CanOpen(mode) is false: Tlopen is refused before File.Open) nor
    [opened] / [openFlags], and no assignment outside the literals gives a fidRef a mode, an opened flag or a
    File except the ones listed (the attach root's mode from GetAttr; Tlopen's own flag and flags, under openMu).
    Every other literal is given a File that was just obtained from the backend (a local variable). *)
Definition borrows_file (e : string) : bool :=
  (* a selector x.file: the File of an existing fidRef *)
  let n := String.length e in
  (5 <=? n)%nat && String.eqb (String.substring (n - 5) 5 e) ".file".
Definition open_owner_lit_ok (l : string * string * list string) : bool :=
  let '(_, file, fields) := l in
  if borrows_file file
  then negb (existsb (fun f => String.eqb f "mode" || String.eqb f "opened" || String.eqb f "openFlags") fields)
  else negb (existsb (fun c => Ascii.eqb c (Ascii.ascii_of_nat 46)) (list_ascii_of_string file)).   (* no '.': a plain local, the File just obtained *)
Definition expected_ref_field_writes : list (string * string) :=
  [("tattach.handle", "mode"); ("tlopen.handle", "opened"); ("tlopen.handle", "openFlags")].
Definition open_owner_ok : bool :=
  forallb open_owner_lit_ok fidref_literals &&
  spairs_eqb ref_field_writes expected_ref_field_writes.

(** ** C16: reference counts of fidRefs reached through the path tree.  A fidRef stays registered in its parent's
    [childRefs] until its destructor (count reached 0: File.Close, then removeChild) has finished, and no lock
    covers that window (Tclunk takes no rename lock).  So a fidRef found by ranging over [childRefs] (rename and
    unlink notifications) may be dying: it may only be acquired with TryIncRef — an unconditional IncRef would
    resurrect it (0 -> 1), call Renamed on a File being closed and run the destructor a second time.
    Every other IncRef in the server is made by a holder of a reference (fid table entry under fidMu, the
    request's own lookup, a fidRef under construction). *)
Definition ref_ok (st : site) : bool :=
  match s_kind st with
  | KRef op weak => negb weak || String.eqb op "TryIncRef"
  | _ => true
  end.
Definition is_weak_try (st : site) : bool := match s_kind st with KRef "TryIncRef" true => true | _ => false end.
(** non-vacuity, without naming functions: two different places acquire weak references (the rename callback
    and the notification below a renamed directory), and ordinary IncRefs are in the table as well *)
Definition weak_refs_seen : bool :=
  existsb (fun a => is_weak_try a && existsb (fun b => is_weak_try b && negb (String.eqb (s_pos a) (s_pos b))) sites) sites &&
  existsb (fun st => match s_kind st with KRef "IncRef" false => true | _ => false end) sites.
