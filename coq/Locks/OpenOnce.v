(** C07_open_once: Tlopen requests in flight on one fidRef (tlopen.handle: openMu, the check of
    [opened], File.Open and the update of [opened] all inside openMu).  Any number of threads
    (threads are indexed by all of nat), all interleavings. *)
From Coq Require Import Arith Bool Lia.

Inductive pc := Idle | Held | InOpen | After (ok : bool) | Done.

Record ostate := mkO {
  pcs : nat -> pc;          (* one Tlopen per index *)
  mu : option nat;          (* holder of fidRef.openMu *)
  opened : bool;            (* fidRef.opened *)
  started : nat;            (* File.Open calls started *)
  succeeded : nat;          (* File.Open calls that returned without error *)
  late : nat }.             (* File.Open calls started after one had succeeded *)

Definition set (f : nat -> pc) (i : nat) (p : pc) : nat -> pc := fun k => if Nat.eqb k i then p else f k.

Inductive ostep : ostate -> ostate -> Prop :=
| OLock s i : pcs s i = Idle -> mu s = None ->
    ostep s (mkO (set (pcs s) i Held) (Some i) (opened s) (started s) (succeeded s) (late s))
| ORefuse s i : pcs s i = Held -> opened s = true ->                    (* "opened already": EINVAL *)
    ostep s (mkO (set (pcs s) i (After false)) (mu s) (opened s) (started s) (succeeded s) (late s))
| OCall s i : pcs s i = Held -> opened s = false ->                     (* ref.file.Open(t.Flags) *)
    ostep s (mkO (set (pcs s) i InOpen) (mu s) (opened s) (S (started s)) (succeeded s)
                 (late s + if Nat.ltb 0 (succeeded s) then 1 else 0))
| ORetOk s i : pcs s i = InOpen ->                                      (* success: ref.opened = true, inside the locks *)
    ostep s (mkO (set (pcs s) i (After true)) (mu s) true (started s) (S (succeeded s)) (late s))
| ORetErr s i : pcs s i = InOpen ->                                     (* the backend failed: the fid stays unopened, a later Tlopen may try again *)
    ostep s (mkO (set (pcs s) i (After false)) (mu s) (opened s) (started s) (succeeded s) (late s))
| OUnlock s i b : pcs s i = After b ->
    ostep s (mkO (set (pcs s) i Done) None (opened s) (started s) (succeeded s) (late s)).

Definition oinit : ostate := mkO (fun _ => Idle) None false 0 0 0.

Inductive oreach : ostate -> Prop :=
| OR0 : oreach oinit
| ORS s s' : oreach s -> ostep s s' -> oreach s'.

Definition critical (p : pc) : bool := match p with Held | InOpen | After _ => true | _ => false end.

Definition OInv (s : ostate) : Prop :=
  (forall i, critical (pcs s i) = true -> mu s = Some i) /\
  succeeded s = (if opened s then 1 else 0) /\
  late s = 0 /\
  (forall i, pcs s i = InOpen -> opened s = false).

Lemma set_same : forall f i p, set f i p i = p.
Proof. intros. unfold set. rewrite Nat.eqb_refl. reflexivity. Qed.
Lemma set_other : forall f i p k, k <> i -> set f i p k = f k.
Proof. intros. unfold set. destruct (Nat.eqb_spec k i); congruence. Qed.

Lemma crit_unique : forall s i k, (forall i, critical (pcs s i) = true -> mu s = Some i) ->
  critical (pcs s i) = true -> critical (pcs s k) = true -> k = i.
Proof. intros s i k I1 Hi Hk. pose proof (I1 i Hi) as A. pose proof (I1 k Hk) as B. congruence. Qed.

Lemma OInv_step : forall s s', OInv s -> ostep s s' -> OInv s'.
Proof.
  intros s s' [I1 [I2 [I3 I4]]] H.
  inversion H as [s0 i Hp Hm|s0 i Hp Ho|s0 i Hp Ho|s0 i Hp|s0 i Hp|s0 i b Hp]; subst s0 s'; unfold OInv; cbn;
    (split; [|split; [|split]]).
  (* OLock *)
  - intros k Hk. destruct (Nat.eq_dec k i) as [->|N]; auto.
    rewrite set_other in Hk by auto. rewrite (I1 k Hk) in Hm. discriminate.
  - exact I2.
  - exact I3.
  - intros k Hk. destruct (Nat.eq_dec k i) as [->|N]; [rewrite set_same in Hk; discriminate|].
    rewrite set_other in Hk by auto. eauto.
  (* ORefuse *)
  - intros k Hk. destruct (Nat.eq_dec k i) as [->|N]; [apply I1; rewrite Hp; reflexivity|].
    rewrite set_other in Hk by auto. auto.
  - exact I2.
  - exact I3.
  - intros k Hk. destruct (Nat.eq_dec k i) as [->|N]; [rewrite set_same in Hk; discriminate|].
    rewrite set_other in Hk by auto. eauto.
  (* OCall *)
  - intros k Hk. destruct (Nat.eq_dec k i) as [->|N]; [apply I1; rewrite Hp; reflexivity|].
    rewrite set_other in Hk by auto. auto.
  - exact I2.
  - rewrite I2, Ho. cbn. lia.
  - intros k Hk. exact Ho.
  (* ORetOk *)
  - intros k Hk. destruct (Nat.eq_dec k i) as [->|N]; [apply I1; rewrite Hp; reflexivity|].
    rewrite set_other in Hk by auto. auto.
  - rewrite I2, (I4 i Hp). reflexivity.
  - exact I3.
  - intros k Hk. destruct (Nat.eq_dec k i) as [->|N]; [rewrite set_same in Hk; discriminate|].
    rewrite set_other in Hk by auto. exfalso. apply N.
    apply (crit_unique s i k I1); [rewrite Hp|rewrite Hk]; reflexivity.
  (* ORetErr *)
  - intros k Hk. destruct (Nat.eq_dec k i) as [->|N]; [apply I1; rewrite Hp; reflexivity|].
    rewrite set_other in Hk by auto. auto.
  - exact I2.
  - exact I3.
  - intros k Hk. destruct (Nat.eq_dec k i) as [->|N]; [rewrite set_same in Hk; discriminate|].
    rewrite set_other in Hk by auto. eauto.
  (* OUnlock *)
  - intros k Hk. destruct (Nat.eq_dec k i) as [->|N]; [rewrite set_same in Hk; discriminate|].
    rewrite set_other in Hk by auto. exfalso. apply N.
    apply (crit_unique s i k I1); [rewrite Hp; reflexivity|exact Hk].
  - exact I2.
  - exact I3.
  - intros k Hk. destruct (Nat.eq_dec k i) as [->|N]; [rewrite set_same in Hk; discriminate|].
    rewrite set_other in Hk by auto. eauto.
Qed.

Lemma OInv_reach : forall s, oreach s -> OInv s.
Proof.
  intros s H. induction H.
  - unfold OInv, oinit; cbn. repeat split; auto; intros; discriminate.
  - eapply OInv_step; eauto.
Qed.

(** File.Open calls on one fidRef never overlap, at most one of them succeeds, and none starts
    after one has succeeded (a failed Open leaves the fid unopened: a later Tlopen may retry) *)
Theorem open_once : forall s, oreach s ->
  (forall i j, pcs s i = InOpen -> pcs s j = InOpen -> i = j) /\ succeeded s <= 1 /\ late s = 0.
Proof.
  intros s H. destruct (OInv_reach s H) as [I1 [I2 [I3 I4]]]. repeat split; auto.
  - intros i j Hi Hj. eapply crit_unique; eauto; [rewrite Hj|rewrite Hi]; reflexivity.
  - rewrite I2. destruct (opened s); lia.
Qed.

(** the hypotheses are satisfiable: two Tlopen in flight, the first succeeds, the second is refused *)
Example open_once_run : exists s, oreach s /\ succeeded s = 1 /\ pcs s 0 = Done /\ pcs s 1 = After false.
Proof.
  eexists. split.
  - eapply ORS. eapply ORS. eapply ORS. eapply ORS. eapply ORS. eapply ORS. apply OR0.
    + apply (OLock _ 0); reflexivity.
    + apply (OCall _ 0); reflexivity.
    + apply (ORetOk _ 0); reflexivity.
    + apply (OUnlock _ 0 true); reflexivity.
    + apply (OLock _ 1); reflexivity.
    + apply (ORefuse _ 1); reflexivity.
  - cbn. auto.
Qed.
