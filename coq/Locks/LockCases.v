(** Observations of the real server (harness/p9: c07 and c16 test files) against the lock model
    instantiated from the generated table, evaluated by vm_compute in coq/cases/. *)
From Coq Require Import String List Bool Arith Ascii NArith.
From P9V Require Import Locks.Sym gen.LockGen Locks.Tables.
Import ListNotations.
Open Scope string_scope.

Record rq := mkRq {
  q_root : string; q_method : string; q_recv : snode;
  q_refs : list (string * list string);     (* symbolic fidRef -> path of its node *)
  q_names : list (string * string);         (* symbolic name -> entry name *)
  q_conn : string; q_fid : string;          (* connection, identity of the target fidRef *)
  q_node : list string;                     (* node the observed backend call acts on *)
  q_entry : option (list string);           (* UnlinkAt: node of the entry *)
  q_probe : nat * nat * nat;              (* TryLock probes from inside the call: renameMu, opMu of the node, opMu of the entry;
                                               0 free, 1 read-held, 2 write-held, 3 not determined *)
  q_fidkey : string }.                      (* table name of the fidRef the request's own fid denotes ("fid:<T-message field>") *)

(** one event of the backend monitor; ids, nodes (path#inode) and handles are numbered by the driver (binary N) *)
Record ev := mkEv { e_enter : bool; e_id : N; e_m : string; e_node : N; e_entry : N; e_h : N }.

Inductive lcase :=
| COpens (opens : nat)                              (* max number of File.Open calls on one backend File (two fids on one File: Txattrwalk) *)
| CRv (a b : rq) (entered bdone : bool) (opens : nat)
| CLog (events : list ev)
| CIso (client : nat) (concurrent alone : list N)
| CAnswered (issued answered : N) (shutdown : bool)
| CProbe (answered : bool).

(** ** instantiating symbolic locks for one request *)
Fixpoint base_name (s : string) : string :=
  match s with
  | EmptyString => EmptyString
  | String c r => if Ascii.eqb c "@"%char then EmptyString else String c (base_name r)
  end.

Fixpoint assoc {A} (k : string) (l : list (string * A)) : option A :=
  match l with [] => None | (k', v) :: r => if String.eqb k k' then Some v else assoc k r end.

Definition ref_path (q : rq) (r : string) : option (list string) :=
  match assoc r (q_refs q) with Some p => Some p | None => assoc (base_name r) (q_refs q) end.

Fixpoint npath (q : rq) (n : snode) : option (list string) :=
  match n with
  | NOf r => ref_path q r
  | NChild m x => match npath q m with
                  | Some p => Some (List.app p [match assoc x (q_names q) with Some y => y | None => x end])
                  | None => None end
  | NParent m => match npath q m with Some p => Some (removelast p) | None => None end
  | NTree => Some []
  | _ => None
  end.

Inductive ck := KRen | KOp (p : list string) | KOpenK (f : string) | KFidK (c : string) | KTagK (c : string)
              | KSendK (c : string) | KRecvK (c : string) | KChildK (p : list string) | KOth (s : string) | KUnknown.

Definition inst (q : rq) (l : slock) : ck :=
  match l with
  | SRename => KRen
  | SOp n => match npath q n with Some p => KOp p | None => KUnknown end
  | SChild n => match npath q n with Some p => KChildK p | None => KUnknown end
  | SOpen r => if String.eqb r (q_fidkey q) then KOpenK (q_fid q) else KUnknown
  | SFid _ => KFidK (q_conn q) | STag _ => KTagK (q_conn q) | SSend _ => KSendK (q_conn q) | SRecv _ => KRecvK (q_conn q)
  | SOther s => KOth s
  end.

Fixpoint path_eqb (a b : list string) : bool :=
  match a, b with
  | [], [] => true
  | x :: a', y :: b' => String.eqb x y && path_eqb a' b'
  | _, _ => false
  end.

Definition ck_eqb (a b : ck) : bool :=
  match a, b with
  | KRen, KRen => true
  | KOp p, KOp q | KChildK p, KChildK q => path_eqb p q
  | KOpenK x, KOpenK y | KFidK x, KFidK y | KTagK x, KTagK y | KSendK x, KSendK y | KRecvK x, KRecvK y | KOth x, KOth y => String.eqb x y
  | _, _ => false
  end.

(** names of variables of inlined functions carry "@function": the harness names them without *)
Fixpoint strip_node (n : snode) : snode :=
  match n with
  | NOf r => NOf (base_name r)
  | NChild m x => NChild (strip_node m) x
  | NParent m => NParent (strip_node m)
  | NMaybeParent m => NMaybeParent (strip_node m)
  | NTree => NTree
  | NVar x => NVar (base_name x)
  end.

Definition site_of (q : rq) : option site :=
  find (fun st => String.eqb (s_root st) (q_root q) &&
                  match s_kind st with
                  | KCall m r _ => String.eqb m (q_method q) && snode_eqb (strip_node r) (strip_node (q_recv q))
                  | _ => false end) sites.

(** the model's decision: while [a] is inside its backend call, can [b] reach its own?
    [b] must take every lock on its way (those it releases again included) *)
Definition may_enter (a b : rq) : option bool :=
  match site_of a, site_of b with
  | Some sa, Some sb =>
      Some (negb (existsb (fun y => existsb (fun x => (snd x || snd y) && ck_eqb (inst a (fst x)) (inst b (fst y))) (s_held sa))
                          (List.app (s_pre sb) (s_held sb))))
  | _, _ => None
  end.

(** the table's claim about the locks around a call against what TryLock/TryRLock saw from inside it *)
Definition mode_of (h : list (slock * bool)) (l : slock) : nat := if hasW h l then 2 else if has h l then 1 else 0.
Definition probe_ok (claim seen : nat) : bool := Nat.eqb seen 3 || Nat.eqb claim seen.
Definition probes_agree (q : rq) : bool :=
  match site_of q with
  | Some st =>
      let h := eheld st in
      let '(pr, pn, pe) := q_probe q in
      probe_ok (mode_of h SRename) pr && probe_ok (mode_of h (SOp (match s_kind st with KCall _ r _ => r | _ => NTree end))) pn &&
      match s_kind st with KCall _ _ (Some e) => probe_ok (mode_of h (SOp e)) pe | _ => true end
  | None => false
  end.

(** ** the documented contract on concrete calls (independent of the lock tables) *)
Definition opt_path_is (o : option (list string)) (p : list string) : bool :=
  match o with Some e => path_eqb e p | None => false end.

(** [same]: both calls act on one node; [ea_nb]: the first call's UnlinkAt entry is the second's node; [eb_na]: vice versa *)
Definition doc_conflict_b (ma mb : string) (same ea_nb eb_na : bool) : bool :=
  match class_of ma, class_of mb with
  | CGlobal, (CRead | CWrite | CGlobal) => true
  | (CRead | CWrite), CGlobal => true
  | CWrite, CRead => same || ea_nb
  | CWrite, CWrite => same || ea_nb || eb_na
  | CRead, CWrite => same || eb_na
  | _, _ => false
  end.

Definition doc_conflict (ma mb : string) (na nb : list string) (ea eb : option (list string)) : bool :=
  doc_conflict_b ma mb (path_eqb na nb) (opt_path_is ea nb) (opt_path_is eb na).

(** the overlap monitor's log: no call enters while a conflicting one is in progress; and (File
    lifecycle, shared reference counts) Close starts once per File and nothing starts on a File after it *)
Definition ev_entry_is (a e : ev) : bool :=
  String.eqb (e_m a) "UnlinkAt" && negb (N.eqb (e_entry a) 0) && N.eqb (e_entry a) (e_node e).

Fixpoint log_ok (active : list ev) (closing : list N) (l : list ev) : bool :=
  match l with
  | [] => true
  | e :: r =>
      if e_enter e
      then forallb (fun a => negb (doc_conflict_b (e_m a) (e_m e) (N.eqb (e_node a) (e_node e)) (ev_entry_is a e) (ev_entry_is e a))) active
           && negb (existsb (N.eqb (e_h e)) closing)
           && log_ok (e :: active) (if String.eqb (e_m e) "Close" then e_h e :: closing else closing) r
      else log_ok (filter (fun a => negb (N.eqb (e_id a) (e_id e))) active) closing r
  end.

Fixpoint nats_eqb (a b : list N) : bool :=
  match a, b with
  | [], [] => true
  | x :: a', y :: b' => N.eqb x y && nats_eqb a' b'
  | _, _ => false
  end.

(** does the lock model agree with what the implementation did? *)
Definition agrees (c : lcase) : bool :=
  match c with
  | CRv a b entered bdone _ =>
      probes_agree a &&
      match may_enter a b with
      | Some m => if negb entered && bdone then true      (* b returned without making the call: nothing observed *)
                  else Bool.eqb m entered
      | None => false                                      (* the request is not in the generated table *)
      end
  | _ => true
  end.

(** the property itself, on the observed behaviour only *)
Definition property_holds (c : lcase) : bool :=
  match c with
  | CRv a b entered _ opens =>
      (negb entered || negb (doc_conflict (q_method a) (q_method b) (q_node a) (q_node b) (q_entry a) (q_entry b)))
      && Nat.leb opens 1
  | COpens opens => Nat.leb opens 1
  | CLog events => log_ok [] [] events
  | CIso _ conc alone => nats_eqb conc alone
  | CAnswered issued answered shutdown => N.eqb issued answered && shutdown
  | CProbe answered => answered
  end.

Fixpoint failing (f : lcase -> bool) (i : nat) (l : list lcase) : list nat :=
  match l with
  | [] => []
  | c :: r => if f c then failing f (S i) r else i :: failing f (S i) r
  end.

Definition mismatches (l : list lcase) : list nat := failing agrees 0 l.
Definition property_failures (l : list lcase) : list nat := failing property_holds 0 l.
