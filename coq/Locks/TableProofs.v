(** Obligations over gen/LockGen.v and the lemmas tying them to the lock model. *)
From Coq Require Import String List Bool Arith Lia.
From P9V Require Import Locks.Sym Locks.Locks Locks.LockProofs Locks.Order gen.LockGen Locks.Tables.
Import ListNotations.
Open Scope string_scope.

(** ** the finite table checks (re-evaluated on every run over the regenerated table) *)
Lemma all_sites : forall f, forallb f sites = true -> forall st, In st sites -> f st = true.
Proof. intros f H st Hin. rewrite forallb_forall in H. auto. Qed.

Lemma classes_ok : forall st, In st sites -> call_ok st = true.
Proof. apply all_sites. vm_compute. reflexivity. Qed.
Lemma open_sites_ok : forall st, In st sites -> open_ok st = true.
Proof. apply all_sites. vm_compute. reflexivity. Qed.
Lemma edges_ok : forall st, In st sites -> acq_site_ok st = true.
Proof. apply all_sites. vm_compute. reflexivity. Qed.
Lemma calls_not_under_leaf : forall st, In st sites -> call_leaf_ok st = true.
Proof. apply all_sites. vm_compute. reflexivity. Qed.
Lemma guarded_ok : forall st, In st sites -> access_ok st = true.
Proof. apply all_sites. vm_compute. reflexivity. Qed.
Lemma waits_ok : forall st, In st sites -> wait_ok st = true.
Proof. apply all_sites. vm_compute. reflexivity. Qed.
Lemma calls_panic_safe : forall st, In st sites -> panic_safe st = true.
Proof. apply all_sites. vm_compute. reflexivity. Qed.
Lemma no_outside_lockers : outside_ok = true.
Proof. vm_compute. reflexivity. Qed.

(** the table is not vacuous: it contains the sites the properties talk about *)
Definition count (f : site -> bool) := length (filter f sites).
Lemma table_nonvacuous :
  Nat.leb 20 (count (fun st => match s_kind st with KCall _ _ _ => true | _ => false end)) &&
  Nat.leb 20 (count (fun st => match s_kind st with KAcq _ _ => true | _ => false end)) &&
  Nat.leb 20 (count (fun st => match s_kind st with KAccess _ _ _ => true | _ => false end)) &&
  existsb (fun st => match s_kind st with KCall "Open" _ _ => true | _ => false end) sites &&
  existsb (fun st => match s_kind st with KCall "RenameAt" _ _ => true | _ => false end) sites &&
  existsb (fun st => match s_kind st with KCall "Renamed" _ _ => true | _ => false end) sites &&
  existsb (fun st => match s_kind st with KCall "UnlinkAt" _ (Some _) => true | _ => false end) sites &&
  existsb (fun st => match s_kind st with KAcq (SChild _) _ => hasW (s_held st) SRename | _ => false end) sites = true.
Proof. vm_compute. reflexivity. Qed.

(** ** concrete locks *)
Definition node := list string.

Inductive clock :=
| RenameMu | OpMu (n : node) | OpenMu (r : string) | FidMu (c : string) | TagMu (c : string)
| SendMu (c : string) | RecvMu (c : string) | ChildMu (n : node) | OtherMu (s : string).

Definition clock_eq_dec : forall a b : clock, {a = b} + {a <> b}.
Proof. decide equality; try apply string_dec; apply (list_eq_dec string_dec). Defined.
Definition clock_eqb (a b : clock) : bool := if clock_eq_dec a b then true else false.
Lemma clock_eqb_spec : forall a b, clock_eqb a b = true <-> a = b.
Proof. intros a b. unfold clock_eqb. destruct (clock_eq_dec a b); split; auto; discriminate. Qed.

Section Valuation.
  Variable rho : snode -> node.

  Definition vl (l : slock) : clock :=
    match l with
    | SRename => RenameMu | SOp n => OpMu (rho n) | SOpen r => OpenMu r | SFid c => FidMu c | STag c => TagMu c
    | SSend c => SendMu c | SRecv c => RecvMu c | SChild n => ChildMu (rho n) | SOther s => OtherMu s
    end.
  Definition vh (h : list (slock * bool)) : list (clock * bool) := map (fun x => (vl (fst x), snd x)) h.

  Lemma vh_in : forall h l w, In (l, w) h -> In (vl l, w) (vh h).
  Proof. intros h l w H. unfold vh. apply in_map_iff. exists (l, w). auto. Qed.
End Valuation.

(** ** C07: backend calls *)
Record ccall := mkCall { c_m : string; c_node : node; c_entry : option node; c_guard : list (clock * bool) }.

Definition node_eqb (a b : node) : bool := if list_eq_dec string_dec a b then true else false.
Definition ccall_eqb (a b : ccall) : bool :=
  String.eqb (c_m a) (c_m b) && node_eqb (c_node a) (c_node b).
Lemma ccall_eqb_refl : forall c, ccall_eqb c c = true.
Proof. intros c. unfold ccall_eqb, node_eqb. rewrite String.eqb_refl. destruct (list_eq_dec string_dec (c_node c) (c_node c)); auto. Qed.

(** what the documented class of a method demands of the locks around a call *)
Definition cprovides (c : ccall) : Prop :=
  let g := c_guard c in
  match class_of (c_m c) with
  | CRead => (exists w, In (RenameMu, w) g) /\ ((exists w, In (OpMu (c_node c), w) g) \/ In (RenameMu, true) g)
  | CWrite => (exists w, In (RenameMu, w) g) /\ (In (OpMu (c_node c), true) g \/ In (RenameMu, true) g) /\
              (forall e, c_entry c = Some e -> In (OpMu e, true) g \/ In (RenameMu, true) g)
  | CGlobal => In (RenameMu, true) g
  | CNone | CUndoc => True
  end.

(** which pairs of calls the File documentation promises never to run at the same time *)
Definition conflicts (c1 c2 : ccall) : Prop :=
  match class_of (c_m c1), class_of (c_m c2) with
  | CGlobal, (CRead | CWrite | CGlobal) => True
  | (CRead | CWrite), CGlobal => True
  | CWrite, (CRead | CWrite) => c_node c1 = c_node c2 \/ c_entry c1 = Some (c_node c2) \/ (class_of (c_m c2) = CWrite /\ c_entry c2 = Some (c_node c1))
  | CRead, CWrite => c_node c1 = c_node c2 \/ c_entry c2 = Some (c_node c1)
  | _, _ => False
  end.

Lemma conflict_shares_lock : forall c1 c2, cprovides c1 -> cprovides c2 -> conflicts c1 c2 ->
  exists l w1 w2, In (l, w1) (c_guard c1) /\ In (l, w2) (c_guard c2) /\ w1 || w2 = true.
Proof.
  intros c1 c2 P1 P2 C. unfold cprovides, conflicts in *.
  destruct (class_of (c_m c1)) eqn:E1; destruct (class_of (c_m c2)) eqn:E2; try contradiction; cbn in *.
  - (* read / write *)
    destruct P1 as [[wr1 R1] O1]. destruct P2 as [[wr2 R2] [O2 X2]].
    destruct O1 as [[w1 O1]|G1]; [|exists RenameMu, true, wr2; auto].
    destruct C as [C|C].
    + destruct O2 as [O2|G2]; [|exists RenameMu, wr1, true; repeat split; auto; apply orb_true_r].
      exists (OpMu (c_node c1)), w1, true. rewrite C in *. repeat split; auto. apply orb_true_r.
    + destruct (X2 _ C) as [O|G2]; [|exists RenameMu, wr1, true; repeat split; auto; apply orb_true_r].
      exists (OpMu (c_node c1)), w1, true. repeat split; auto. apply orb_true_r.
  - destruct P1 as [[wr1 R1] _]. exists RenameMu, wr1, true. repeat split; auto. apply orb_true_r.
  - (* write / read *)
    destruct P1 as [[wr1 R1] [O1 X1]]. destruct P2 as [[wr2 R2] O2].
    destruct O2 as [[w2 O2]|G2]; [|exists RenameMu, wr1, true; repeat split; auto; apply orb_true_r].
    destruct C as [C|[C|[C _]]]; [| |discriminate].
    + destruct O1 as [O1|G1]; [|exists RenameMu, true, wr2; auto].
      exists (OpMu (c_node c1)), true, w2. rewrite <- C in *. auto.
    + destruct (X1 _ C) as [O|G1]; [|exists RenameMu, true, wr2; auto].
      exists (OpMu (c_node c2)), true, w2. auto.
  - (* write / write *)
    destruct P1 as [[wr1 R1] [O1 X1]]. destruct P2 as [[wr2 R2] [O2 X2]].
    destruct C as [C|[C|[_ C]]].
    + destruct O1 as [O1|G1]; [|exists RenameMu, true, wr2; auto].
      destruct O2 as [O2|G2]; [|exists RenameMu, wr1, true; repeat split; auto; apply orb_true_r].
      exists (OpMu (c_node c1)), true, true. rewrite <- C in *. auto.
    + destruct (X1 _ C) as [O|G1]; [|exists RenameMu, true, wr2; auto].
      destruct O2 as [O2|G2]; [|exists RenameMu, wr1, true; repeat split; auto; apply orb_true_r].
      exists (OpMu (c_node c2)), true, true. auto.
    + destruct (X2 _ C) as [O|G2]; [|exists RenameMu, wr1, true; repeat split; auto; apply orb_true_r].
      destruct O1 as [O1|G1]; [|exists RenameMu, true, wr2; auto].
      exists (OpMu (c_node c1)), true, true. auto.
  - destruct P1 as [[wr1 R1] _]. exists RenameMu, wr1, true. repeat split; auto. apply orb_true_r.
  - destruct P2 as [[wr2 R2] _]. exists RenameMu, true, wr2. auto.
  - destruct P2 as [[wr2 R2] _]. exists RenameMu, true, wr2. auto.
  - exists RenameMu, true, true. auto.
Qed.

Notation cthread := (thread clock ccall).
Notation creachable := (reachable clock clock_eqb ccall ccall_eqb).
Notation cgplan := (gplan clock clock_eqb ccall ccall_eqb c_guard).

(** C07_contract (corollary of mutex): in every interleaving of any number of request
    threads (any number of connections) whose plans keep each call inside its guard, two
    calls the documentation declares exclusive are never in progress together. *)
Theorem contract : forall plans, (forall p, In p plans -> cgplan [] [] p) ->
  forall s, creachable plans s ->
  forall i j ti tj c1 c2, i <> j -> nth_error s i = Some ti -> nth_error s j = Some tj ->
    In c1 (inside ti) -> In c2 (inside tj) -> cprovides c1 -> cprovides c2 -> conflicts c1 c2 -> False.
Proof.
  intros plans Hp s Hr i j ti tj c1 c2 Hij Hi Hj H1 H2 P1 P2 C.
  destruct (conflict_shares_lock c1 c2 P1 P2 C) as [l [w1 [w2 [G1 [G2 W]]]]].
  eapply (mutex clock clock_eqb ccall ccall_eqb c_guard plans Hp s Hr i j ti tj c1 c2 l w1 w2); eauto.
Qed.

(** the call a site makes, and the plan of the thread fragment that reaches it, for a valuation of the symbolic nodes *)
Definition site_call (rho : snode -> node) (st : site) : option ccall :=
  match s_kind st with
  | KCall m recv entry => Some (mkCall m (rho recv) (option_map rho entry) (vh rho (s_held st)))
  | _ => None
  end.

Definition bracket (g : list (clock * bool)) (mid : list (act clock ccall)) : list (act clock ccall) :=
  map (fun x => Acq (fst x) (snd x)) g ++ mid ++ map (fun x => Rel (fst x)) (rev g).

Definition call_plan (c : ccall) : list (act clock ccall) := bracket (c_guard c) [Enter c; Exit c].

(** every backend call site of the table provides what the documentation demands, whatever the nodes are *)
Theorem site_calls_provide : forall st, In st sites -> forall rho c, site_call rho st = Some c -> cprovides c.
Proof.
  intros st Hin rho c Hc. pose proof (classes_ok st Hin) as K. unfold call_ok in K. unfold site_call in Hc.
  destruct (s_kind st) as [| m recv entry | | | |] eqn:EK; try discriminate. inversion Hc; subst c; clear Hc.
  unfold cprovides; cbn. destruct (class_of m); auto.
  - apply andb_true_iff in K. destruct K as [K1 K2]. apply has_In in K1. destruct K1 as [w K1]. split.
    + exists w. apply (vh_in rho _ _ _ K1).
    + apply orb_true_iff in K2. destruct K2 as [K2|K2].
      * apply has_In in K2. destruct K2 as [w2 K2]. left. exists w2. apply (vh_in rho _ _ _ K2).
      * right. apply hasW_In in K2. apply (vh_in rho _ _ _ K2).
  - apply andb_true_iff in K. destruct K as [K K3]. apply andb_true_iff in K. destruct K as [K1 K2].
    apply has_In in K1. destruct K1 as [w K1]. split; [exists w; apply (vh_in rho _ _ _ K1)|]. split.
    + apply orb_true_iff in K2. destruct K2 as [K2|K2]; apply hasW_In in K2; [left|right]; apply (vh_in rho _ _ _ K2).
    + intros e He. destruct entry as [e0|]; cbn in He; inversion He; subst e.
      apply orb_true_iff in K3. destruct K3 as [K3|K3]; apply hasW_In in K3; [left|right]; apply (vh_in rho _ _ _ K3).
  - apply hasW_In in K. apply (vh_in rho _ _ _ K).
Qed.

(** ... and the thread fragment around it keeps the call inside its guard *)
Lemma gplan_rels : forall (ls : list (clock * bool)) h, cgplan h [] (map (fun x => Rel (fst x)) ls).
Proof. induction ls as [|l ls IH]; intros h; cbn; split; auto; try (intros c []). Qed.

Lemma gplan_acqs : forall (g : list (clock * bool)) h tail,
  cgplan (rev g ++ h) [] tail -> cgplan h [] (map (fun x => Acq (fst x) (snd x)) g ++ tail).
Proof.
  induction g as [|[l w] g IH]; intros h tail H; cbn in *; auto.
  split; [intros c []|]. apply IH. rewrite <- app_assoc in H. exact H.
Qed.

Theorem call_plan_guarded : forall c, cgplan [] [] (call_plan c).
Proof.
  intros c. unfold call_plan, bracket. apply gplan_acqs. rewrite app_nil_r. cbn.
  split; [intros x []|]. split.
  - intros x [<-|[]]. intros y Hy. apply in_rev. rewrite rev_involutive. exact Hy.
  - unfold remove_call. cbn. rewrite ccall_eqb_refl. cbn. apply gplan_rels.
Qed.

(** ** C16: one symbolic request is a permitted request under every valuation that respects
    the tree relations the symbolic names express *)
Definition crank (l : clock) : nat * nat :=
  match l with
  | OpenMu _ => (0, 0) | RenameMu => (1, 0) | OpMu n => (2, length n) | FidMu _ => (3, 0)
  | ChildMu n => (4, length n) | RecvMu _ => (5, 0) | TagMu _ | SendMu _ | OtherMu _ => (6, 0)
  end.
Definition cchildish (l : clock) : bool := match l with ChildMu _ => true | _ => false end.

Notation cacq_ok := (acq_ok clock clock_eqb crank RenameMu cchildish).
Notation coplan := (oplan clock clock_eqb ccall crank RenameMu cchildish).

Section Sound.
  Variable rho : snode -> node.
  Variable facts : list (snode * snode).
  (** the valuation respects the names: a node written as a descendant is strictly deeper ... *)
  Hypothesis rho_below : forall a b, below a b = true -> length (rho a) < length (rho b).
  (** ... and nodes the code compared and found different are different *)
  Hypothesis rho_facts : forall a b, In (a, b) facts -> rho a <> rho b.

  Lemma crank_class : forall l, fst (crank (vl rho l)) = sclass l.
  Proof. destruct l; reflexivity. Qed.

  Lemma vl_rename : forall l, vl rho l = RenameMu -> l = SRename.
  Proof. destruct l; cbn; intro H; try discriminate; auto. Qed.

  Lemma gateW_agree : forall h, has_gateW clock clock_eqb RenameMu (vh rho h) = hasW h SRename.
  Proof.
    unfold has_gateW, hasW, vh. induction h as [|[l w] h IH]; cbn [existsb map fst snd]; auto. rewrite IH. f_equal. f_equal.
    unfold clock_eqb. destruct (clock_eq_dec (vl rho l) RenameMu) as [E|E].
    - apply vl_rename in E. subst. reflexivity.
    - destruct l; cbn in *; auto; congruence.
  Qed.

  Lemma distinct_sound : forall a b, known_distinct facts a b = true -> rho a <> rho b.
  Proof.
    intros a b H. unfold known_distinct in H. apply orb_true_iff in H. destruct H as [H|H].
    - apply orb_true_iff in H. destruct H as [H|H]; apply rho_below in H; intro E; rewrite E in H; lia.
    - apply existsb_exists in H. destruct H as [[x y] [Hin H]]. cbn in H.
      apply orb_true_iff in H. destruct H as [H|H]; apply andb_true_iff in H; destruct H as [H1 H2];
        apply snode_eqb_eq in H1; apply snode_eqb_eq in H2; subst.
      + apply rho_facts; auto.
      + intro E. symmetry in E. revert E. apply rho_facts; auto.
  Qed.

  Theorem sacq_sound : forall h l, sacq_ok facts h l = true -> cacq_ok (vh rho h) (vl rho l).
  Proof.
    intros h l H. unfold sacq_ok in H. apply andb_true_iff in H. destruct H as [H H4].
    unfold acq_ok. rewrite gateW_agree.
    assert (IV : forall l' w', In (l', w') (vh rho h) -> cchildish l' = true -> exists wg, In (RenameMu, wg) (vh rho h)).
    { intros l' w' Hin Hc. apply orb_true_iff in H4. destruct H4 as [N|G].
      - exfalso. apply negb_true_iff in N. unfold vh in Hin. apply in_map_iff in Hin. destruct Hin as [[x wx] [E Hx]].
        inversion E; subst. assert (existsb (fun x => is_child (fst x)) h = true).
        { apply existsb_exists. exists (x, w'). split; auto. destruct x; cbn in Hc; try discriminate; auto. }
        congruence.
      - apply has_In in G. destruct G as [wg G]. exists wg. apply (vh_in rho _ _ _ G). }
    destruct (hasW h SRename) eqn:EG.
    - apply andb_true_iff in H. destruct H as [Hc Hd]. rewrite forallb_forall in Hd. split; [|split; auto].
      + intro Hin. apply in_map_iff in Hin. destruct Hin as [[l' w'] [E Hin]]. cbn in E.
        unfold vh in Hin. apply in_map_iff in Hin. destruct Hin as [[x wx] [E2 Hx]]. cbn in E2.
        assert (EX : vl rho x = vl rho l) by congruence. clear E E2.
        specialize (Hd _ Hx). cbn in Hd. destruct l; cbn in Hc; try discriminate.
        destruct x; cbn in EX; try discriminate. inversion EX as [E3]. revert E3. apply distinct_sound; auto.
      + destruct l; cbn in Hc; try discriminate. reflexivity.
    - rewrite forallb_forall in H.
      assert (R : forall x wx, In (x, wx) h -> rlt (crank (vl rho x)) (crank (vl rho l))).
      { intros x wx Hx. specialize (H _ Hx). cbn in H. unfold rlt. rewrite !crank_class.
        apply orb_true_iff in H. destruct H as [H|H].
        - apply Nat.ltb_lt in H. left; auto.
        - apply andb_true_iff in H. destruct H as [Hc Hb]. apply Nat.eqb_eq in Hc. right. split; auto.
          destruct x, l; cbn in Hb; try discriminate; cbn; apply rho_below; auto. }
      split; [|split; auto].
      + intro Hin. apply in_map_iff in Hin. destruct Hin as [[l' w'] [E Hin]]. cbn in E.
        unfold vh in Hin. apply in_map_iff in Hin. destruct Hin as [[x wx] [E2 Hx]]. cbn in E2.
        assert (EX : vl rho x = vl rho l) by congruence. clear E E2.
        specialize (R _ _ Hx). rewrite EX in R. revert R. apply rlt_irrefl.
      + intros l' w' Hin. unfold vh in Hin. apply in_map_iff in Hin. destruct Hin as [[x wx] [E2 Hx]]. inversion E2; subst.
        eapply R; eauto.
  Qed.
End Sound.

(** every acquisition site of the table, with all the requests on the way to it, is permitted under every respectful valuation *)
Theorem site_requests_sound : forall st, In st sites -> forall l w, s_kind st = KAcq l w ->
  forall rho, (forall a b, below a b = true -> length (rho a) < length (rho b)) ->
              (forall a b, In (a, b) (s_facts st) -> rho a <> rho b) ->
  cacq_ok (vh rho (s_held st)) (vl rho l).
Proof.
  intros st Hin l w EK rho R1 R2. pose proof (edges_ok st Hin) as K. unfold acq_site_ok in K. rewrite EK in K.
  apply sacq_sound with (facts := s_facts st); auto.
  (* the last link of the chain is the request itself *)
  assert (G : forall rest h, chain_ok (s_facts st) h (rest ++ [(l, w)]) = true -> sacq_ok (s_facts st) (h ++ rest) l = true).
  { induction rest as [|x rest IH]; intros h C; cbn in C.
    - rewrite app_nil_r. apply andb_true_iff in C. tauto.
    - apply andb_true_iff in C. destruct C as [_ C]. specialize (IH _ C). rewrite <- app_assoc in IH. exact IH. }
  apply (G (s_held st) []). exact K.
Qed.
