(** Obligations over gen/LockGen.v and the lemmas tying them to the lock model. *)
From Coq Require Import String List Bool Arith Lia.
From P9V Require Import Locks.Sym Locks.Locks Locks.LockProofs Locks.Order gen.LockGen Locks.Tables.
Import ListNotations.
Open Scope string_scope.

(** ** the finite table checks (re-evaluated on every run over the regenerated table) *)
Lemma all_sites : forall f, forallb f sites = true -> forall st, In st sites -> f st = true.
Proof. intros f H st Hin. rewrite forallb_forall in H. auto. Qed.

Lemma classes_ok : forall st, In st sites -> call_ok st = true.
Proof. apply all_sites. vm_compute. reflexivity. Qed.
Lemma open_sites_ok : forall st, In st sites -> open_ok st = true.
Proof. apply all_sites. vm_compute. reflexivity. Qed.
Lemma edges_ok : forall st, In st sites -> acq_site_ok st = true.
Proof. apply all_sites. vm_compute. reflexivity. Qed.
Lemma plans_match : forall st, In st sites -> paths_match st = true.
Proof. apply all_sites. vm_compute. reflexivity. Qed.
Lemma calls_not_under_leaf : forall st, In st sites -> call_leaf_ok st = true.
Proof. apply all_sites. vm_compute. reflexivity. Qed.
Lemma guarded_ok : forall st, In st sites -> access_ok st = true.
Proof. apply all_sites. vm_compute. reflexivity. Qed.
Lemma resolves_ok : forall st, In st sites -> resolve_ok st = true.
Proof. apply all_sites. vm_compute. reflexivity. Qed.
Lemma resolves_present : Nat.leb 1 resolve_sites = true.
Proof. vm_compute. reflexivity. Qed.
Lemma waits_ok : forall st, In st sites -> wait_ok st = true.
Proof. apply all_sites. vm_compute. reflexivity. Qed.
Lemma calls_panic_safe : forall st, In st sites -> panic_safe st = true.
Proof. apply all_sites. vm_compute. reflexivity. Qed.
Lemma new_refs_ok : forall st, In st sites -> new_ref_ok st = true.
Proof. apply all_sites. vm_compute. reflexivity. Qed.
Lemma contract_pinned : contract_eqb contract expected_contract = true.
Proof. vm_compute. reflexivity. Qed.
Lemma tables_complete : calls_complete && access_complete && new_complete = true.
Proof. vm_compute. reflexivity. Qed.
Lemma no_outside_lockers : outside_ok = true.
Proof. vm_compute. reflexivity. Qed.
Lemma open_owner : open_owner_ok = true.
Proof. vm_compute. reflexivity. Qed.

Lemma node_identity : node_identity_ok = true.
Proof. vm_compute. reflexivity. Qed.
Lemma refs_ok : forall st, In st sites -> ref_ok st = true.
Proof. apply all_sites. vm_compute. reflexivity. Qed.
Lemma weak_refs_nonvacuous : weak_refs_seen = true.
Proof. vm_compute. reflexivity. Qed.

(** the table is not vacuous: it contains the sites the properties talk about *)
Definition count (f : site -> bool) := length (filter f sites).
Lemma table_nonvacuous :
  Nat.leb 20 (count (fun st => match s_kind st with KCall _ _ _ => true | _ => false end)) &&
  Nat.leb 20 (count (fun st => match s_kind st with KAcq _ _ => true | _ => false end)) &&
  Nat.leb 20 (count (fun st => match s_kind st with KAccess _ _ _ => true | _ => false end)) &&
  existsb (fun st => match s_kind st with KCall "Open" _ _ => true | _ => false end) sites &&
  existsb (fun st => match s_kind st with KCall "RenameAt" _ _ => true | _ => false end) sites &&
  existsb (fun st => match s_kind st with KCall "Renamed" _ _ => true | _ => false end) sites &&
  existsb (fun st => match s_kind st with KCall "UnlinkAt" _ (Some _) => true | _ => false end) sites &&
  existsb (fun st => match s_kind st with KAcq (SChild _) _ => hasW (s_held st) SRename | _ => false end) sites = true.
Proof. vm_compute. reflexivity. Qed.

(** ** concrete locks *)
Definition node := list string.

Inductive clock :=
| RenameMu | OpMu (n : node) | OpenMu (r : string) | FidMu (c : string) | TagMu (c : string)
| SendMu (c : string) | RecvMu (c : string) | ChildMu (n : node) | OtherMu (s : string).

Definition clock_eq_dec : forall a b : clock, {a = b} + {a <> b}.
Proof. decide equality; try apply string_dec; apply (list_eq_dec string_dec). Defined.
Definition clock_eqb (a b : clock) : bool := if clock_eq_dec a b then true else false.
Lemma clock_eqb_spec : forall a b, clock_eqb a b = true <-> a = b.
Proof. intros a b. unfold clock_eqb. destruct (clock_eq_dec a b); split; auto; discriminate. Qed.

Section Valuation.
  Variable rho : snode -> node.

  Definition vl (l : slock) : clock :=
    match l with
    | SRename => RenameMu | SOp n => OpMu (rho n) | SOpen r => OpenMu r | SFid c => FidMu c | STag c => TagMu c
    | SSend c => SendMu c | SRecv c => RecvMu c | SChild n => ChildMu (rho n) | SOther s => OtherMu s
    end.
  Definition vh (h : list (slock * bool)) : list (clock * bool) := map (fun x => (vl (fst x), snd x)) h.

  Lemma vh_in : forall h l w, In (l, w) h -> In (vl l, w) (vh h).
  Proof. intros h l w H. unfold vh. apply in_map_iff. exists (l, w). auto. Qed.
End Valuation.

(** ** C07: backend calls *)
Record ccall := mkCall { c_m : string; c_node : node; c_entry : option node; c_guard : list (clock * bool) }.

Definition node_eqb (a b : node) : bool := if list_eq_dec string_dec a b then true else false.
Definition ccall_eqb (a b : ccall) : bool :=
  String.eqb (c_m a) (c_m b) && node_eqb (c_node a) (c_node b).
Lemma ccall_eqb_refl : forall c, ccall_eqb c c = true.
Proof. intros c. unfold ccall_eqb, node_eqb. rewrite String.eqb_refl. destruct (list_eq_dec string_dec (c_node c) (c_node c)); auto. Qed.

(** what the documented class of a method demands of the locks around a call *)
Definition cprovides (c : ccall) : Prop :=
  let g := c_guard c in
  match class_of (c_m c) with
  | CRead => (exists w, In (RenameMu, w) g) /\ ((exists w, In (OpMu (c_node c), w) g) \/ In (RenameMu, true) g)
  | CWrite => (exists w, In (RenameMu, w) g) /\ (In (OpMu (c_node c), true) g \/ In (RenameMu, true) g) /\
              (forall e, c_entry c = Some e -> In (OpMu e, true) g \/ In (RenameMu, true) g)
  | CGlobal => In (RenameMu, true) g
  | CNone | CUndoc => True
  end.

(** which pairs of calls the File documentation promises never to run at the same time *)
Definition conflicts (c1 c2 : ccall) : Prop :=
  match class_of (c_m c1), class_of (c_m c2) with
  | CGlobal, (CRead | CWrite | CGlobal) => True
  | (CRead | CWrite), CGlobal => True
  | CWrite, (CRead | CWrite) => c_node c1 = c_node c2 \/ c_entry c1 = Some (c_node c2) \/ (class_of (c_m c2) = CWrite /\ c_entry c2 = Some (c_node c1))
  | CRead, CWrite => c_node c1 = c_node c2 \/ c_entry c2 = Some (c_node c1)
  | _, _ => False
  end.

Lemma conflict_shares_lock : forall c1 c2, cprovides c1 -> cprovides c2 -> conflicts c1 c2 ->
  exists l w1 w2, In (l, w1) (c_guard c1) /\ In (l, w2) (c_guard c2) /\ w1 || w2 = true.
Proof.
  intros c1 c2 P1 P2 C. unfold cprovides, conflicts in *.
  destruct (class_of (c_m c1)) eqn:E1; destruct (class_of (c_m c2)) eqn:E2; try contradiction; cbn in *.
  - (* read / write *)
    destruct P1 as [[wr1 R1] O1]. destruct P2 as [[wr2 R2] [O2 X2]].
    destruct O1 as [[w1 O1]|G1]; [|exists RenameMu, true, wr2; auto].
    destruct C as [C|C].
    + destruct O2 as [O2|G2]; [|exists RenameMu, wr1, true; repeat split; auto; apply orb_true_r].
      exists (OpMu (c_node c1)), w1, true. rewrite C in *. repeat split; auto. apply orb_true_r.
    + destruct (X2 _ C) as [O|G2]; [|exists RenameMu, wr1, true; repeat split; auto; apply orb_true_r].
      exists (OpMu (c_node c1)), w1, true. repeat split; auto. apply orb_true_r.
  - destruct P1 as [[wr1 R1] _]. exists RenameMu, wr1, true. repeat split; auto. apply orb_true_r.
  - (* write / read *)
    destruct P1 as [[wr1 R1] [O1 X1]]. destruct P2 as [[wr2 R2] O2].
    destruct O2 as [[w2 O2]|G2]; [|exists RenameMu, wr1, true; repeat split; auto; apply orb_true_r].
    destruct C as [C|[C|[C _]]]; [| |discriminate].
    + destruct O1 as [O1|G1]; [|exists RenameMu, true, wr2; auto].
      exists (OpMu (c_node c1)), true, w2. rewrite <- C in *. auto.
    + destruct (X1 _ C) as [O|G1]; [|exists RenameMu, true, wr2; auto].
      exists (OpMu (c_node c2)), true, w2. auto.
  - (* write / write *)
    destruct P1 as [[wr1 R1] [O1 X1]]. destruct P2 as [[wr2 R2] [O2 X2]].
    destruct C as [C|[C|[_ C]]].
    + destruct O1 as [O1|G1]; [|exists RenameMu, true, wr2; auto].
      destruct O2 as [O2|G2]; [|exists RenameMu, wr1, true; repeat split; auto; apply orb_true_r].
      exists (OpMu (c_node c1)), true, true. rewrite <- C in *. auto.
    + destruct (X1 _ C) as [O|G1]; [|exists RenameMu, true, wr2; auto].
      destruct O2 as [O2|G2]; [|exists RenameMu, wr1, true; repeat split; auto; apply orb_true_r].
      exists (OpMu (c_node c2)), true, true. auto.
    + destruct (X2 _ C) as [O|G2]; [|exists RenameMu, wr1, true; repeat split; auto; apply orb_true_r].
      destruct O1 as [O1|G1]; [|exists RenameMu, true, wr2; auto].
      exists (OpMu (c_node c1)), true, true. auto.
  - destruct P1 as [[wr1 R1] _]. exists RenameMu, wr1, true. repeat split; auto. apply orb_true_r.
  - destruct P2 as [[wr2 R2] _]. exists RenameMu, true, wr2. auto.
  - destruct P2 as [[wr2 R2] _]. exists RenameMu, true, wr2. auto.
  - exists RenameMu, true, true. auto.
Qed.

Notation cthread := (thread clock ccall).
Notation creachable := (reachable clock clock_eqb ccall ccall_eqb).
Notation cgplan := (gplan clock clock_eqb ccall ccall_eqb c_guard).

(** C07_contract (corollary of mutex): in every interleaving of any number of request
    threads (any number of connections) whose plans keep each call inside its guard, two
    calls the documentation declares exclusive are never in progress together. *)
Theorem contract : forall plans, (forall p, In p plans -> cgplan [] [] p) ->
  forall s, creachable plans s ->
  forall i j ti tj c1 c2, i <> j -> nth_error s i = Some ti -> nth_error s j = Some tj ->
    In c1 (inside ti) -> In c2 (inside tj) -> cprovides c1 -> cprovides c2 -> conflicts c1 c2 -> False.
Proof.
  intros plans Hp s Hr i j ti tj c1 c2 Hij Hi Hj H1 H2 P1 P2 C.
  destruct (conflict_shares_lock c1 c2 P1 P2 C) as [l [w1 [w2 [G1 [G2 W]]]]].
  eapply (mutex clock clock_eqb ccall ccall_eqb c_guard plans Hp s Hr i j ti tj c1 c2 l w1 w2); eauto.
Qed.

(** the call a site makes, and the plan of the thread fragment that reaches it, for a valuation of the symbolic nodes *)
Definition site_call (rho : snode -> node) (st : site) : option ccall :=
  match s_kind st with
  | KCall m recv entry => Some (mkCall m (rho recv) (option_map rho entry) (vh rho (pheld (s_path st))))
  | _ => None
  end.

Definition bracket (g : list (clock * bool)) (mid : list (act clock ccall)) : list (act clock ccall) :=
  map (fun x => Acq (fst x) (snd x)) g ++ mid ++ map (fun x => Rel (fst x)) (rev g).

Definition call_plan (c : ccall) : list (act clock ccall) := bracket (c_guard c) [Enter c; Exit c].

(** every backend call site of the table provides what the documentation demands, whatever the nodes are *)
Theorem site_calls_provide : forall st, In st sites -> forall rho c, site_call rho st = Some c -> cprovides c.
Proof.
  intros st Hin rho c Hc. pose proof (classes_ok st Hin) as K. unfold call_ok, eheld, carries in K. unfold site_call in Hc.
  destruct (s_kind st) as [| m recv entry | | | | | |] eqn:EK; try discriminate. inversion Hc; subst c; clear Hc.
  unfold cprovides; cbn. destruct (class_of m); auto.
  - apply andb_true_iff in K. destruct K as [K1 K2]. apply has_In in K1. destruct K1 as [w K1]. split.
    + exists w. apply (vh_in rho _ _ _ K1).
    + apply orb_true_iff in K2. destruct K2 as [K2|K2].
      * apply has_In in K2. destruct K2 as [w2 K2]. left. exists w2. apply (vh_in rho _ _ _ K2).
      * right. apply hasW_In in K2. apply (vh_in rho _ _ _ K2).
  - apply andb_true_iff in K. destruct K as [K K3]. apply andb_true_iff in K. destruct K as [K1 K2].
    apply has_In in K1. destruct K1 as [w K1]. split; [exists w; apply (vh_in rho _ _ _ K1)|]. split.
    + apply orb_true_iff in K2. destruct K2 as [K2|K2]; apply hasW_In in K2; [left|right]; apply (vh_in rho _ _ _ K2).
    + intros e He. destruct entry as [e0|]; cbn in He; inversion He; subst e.
      apply orb_true_iff in K3. destruct K3 as [K3|K3]; apply hasW_In in K3; [left|right]; apply (vh_in rho _ _ _ K3).
  - apply hasW_In in K. apply (vh_in rho _ _ _ K).
Qed.

(** ... and the thread fragment around it keeps the call inside its guard *)
Lemma gplan_rels : forall (ls : list (clock * bool)) h, cgplan h [] (map (fun x => Rel (fst x)) ls).
Proof. induction ls as [|l ls IH]; intros h; cbn; split; auto; try (intros c []). Qed.

Lemma gplan_acqs : forall (g : list (clock * bool)) h tail,
  cgplan (rev g ++ h) [] tail -> cgplan h [] (map (fun x => Acq (fst x) (snd x)) g ++ tail).
Proof.
  induction g as [|[l w] g IH]; intros h tail H; cbn in *; auto.
  split; [intros c []|]. apply IH. rewrite <- app_assoc in H. exact H.
Qed.

Theorem call_plan_guarded : forall c, cgplan [] [] (call_plan c).
Proof.
  intros c. unfold call_plan, bracket. apply gplan_acqs. rewrite app_nil_r. cbn.
  split; [intros x []|]. split.
  - intros x [<-|[]]. intros y Hy. apply in_rev. rewrite rev_involutive. exact Hy.
  - unfold remove_call. cbn. rewrite ccall_eqb_refl. cbn. apply gplan_rels.
Qed.

(** ** C16: one symbolic request is a permitted request under every valuation that respects
    the tree relations the symbolic names express *)
Definition crank (l : clock) : nat * nat :=
  match l with
  | OpenMu _ => (0, 0) | RenameMu => (1, 0) | OpMu n => (2, length n) | FidMu _ => (3, 0)
  | ChildMu n => (4, length n) | RecvMu _ => (5, 0) | TagMu _ | SendMu _ | OtherMu _ => (6, 0)
  end.
Definition cchildish (l : clock) : bool := match l with ChildMu _ => true | _ => false end.

Notation cacq_ok := (acq_ok clock clock_eqb crank RenameMu cchildish).
Notation coplan := (oplan clock clock_eqb ccall crank RenameMu cchildish).

Section Sound.
  Variable rho : snode -> node.
  Variable D : snode -> Prop.     (* the symbolic nodes the plan mentions *)
  (** the valuation respects the names it is asked about: a node written as a descendant is strictly deeper *)
  Hypothesis rho_below : forall a b, D a -> D b -> below a b = true -> length (rho a) < length (rho b).

  Definition lock_in_D (l : slock) : Prop := forall n, snode_of l = Some n -> D n.
  Definition held_in_D (h : list (slock * bool)) : Prop := forall x, In x h -> lock_in_D (fst x).

  Lemma crank_class : forall l, fst (crank (vl rho l)) = sclass l.
  Proof. destruct l; reflexivity. Qed.

  Lemma vl_rename : forall l, vl rho l = RenameMu -> l = SRename.
  Proof. destruct l; cbn; intro H; try discriminate; auto. Qed.

  Lemma gateW_agree : forall h, has_gateW clock clock_eqb RenameMu (vh rho h) = hasW h SRename.
  Proof.
    unfold has_gateW, hasW, vh. induction h as [|[l w] h IH]; cbn [existsb map fst snd]; auto. rewrite IH. f_equal. f_equal.
    unfold clock_eqb. destruct (clock_eq_dec (vl rho l) RenameMu) as [E|E].
    - apply vl_rename in E. subst. reflexivity.
    - destruct l; cbn in *; auto; congruence.
  Qed.

  Section Facts.
    Variable facts : list (snode * snode).
    (** nodes the code compared and found different are different *)
    Hypothesis rho_facts : forall a b, In (a, b) facts -> rho a <> rho b.

    Lemma distinct_sound : forall a b, D a -> D b -> known_distinct facts a b = true -> rho a <> rho b.
    Proof.
      intros a b Da Db H. unfold known_distinct in H. apply orb_true_iff in H. destruct H as [H|H].
      - apply orb_true_iff in H. destruct H as [H|H]; apply rho_below in H; auto; intro E; rewrite E in H; lia.
      - apply existsb_exists in H. destruct H as [[x y] [Hin H]]. cbn in H.
        apply orb_true_iff in H. destruct H as [H|H]; apply andb_true_iff in H; destruct H as [H1 H2];
          apply snode_eqb_eq in H1; apply snode_eqb_eq in H2; subst.
        + apply rho_facts; auto.
        + intro E. symmetry in E. revert E. apply rho_facts; auto.
    Qed.

    Theorem sacq_sound : forall h l, held_in_D h -> lock_in_D l -> sacq_ok facts h l = true -> cacq_ok (vh rho h) (vl rho l).
    Proof.
      intros h l DH DL H. unfold sacq_ok in H. apply andb_true_iff in H. destruct H as [H H4].
      unfold acq_ok. rewrite gateW_agree.
      assert (IV : forall l' w', In (l', w') (vh rho h) -> cchildish l' = true -> exists wg, In (RenameMu, wg) (vh rho h)).
      { intros l' w' Hin Hc. apply orb_true_iff in H4. destruct H4 as [N|G].
        - exfalso. apply negb_true_iff in N. unfold vh in Hin. apply in_map_iff in Hin. destruct Hin as [[x wx] [E Hx]].
          inversion E; subst. assert (existsb (fun x => is_child (fst x)) h = true).
          { apply existsb_exists. exists (x, w'). split; auto. destruct x; cbn in Hc; try discriminate; auto. }
          congruence.
        - apply has_In in G. destruct G as [wg G]. exists wg. apply (vh_in rho _ _ _ G). }
      destruct (hasW h SRename) eqn:EG.
      - apply andb_true_iff in H. destruct H as [Hc Hd]. rewrite forallb_forall in Hd. split; [|split; auto].
        + intro Hin. apply in_map_iff in Hin. destruct Hin as [[l' w'] [E Hin]]. cbn in E.
          unfold vh in Hin. apply in_map_iff in Hin. destruct Hin as [[x wx] [E2 Hx]]. cbn in E2.
          assert (EX : vl rho x = vl rho l) by congruence. clear E E2.
          specialize (Hd _ Hx). cbn in Hd. destruct l; cbn in Hc; try discriminate.
          destruct x; cbn in EX; try discriminate. inversion EX as [E3]. revert E3.
          apply distinct_sound; auto; try (apply (DH _ Hx); reflexivity); try (apply DL; reflexivity).
        + destruct l; cbn in Hc; try discriminate. reflexivity.
      - rewrite forallb_forall in H.
        assert (R : forall x wx, In (x, wx) h -> rlt (crank (vl rho x)) (crank (vl rho l))).
        { intros x wx Hx. specialize (H _ Hx). cbn in H. unfold rlt. rewrite !crank_class.
          apply orb_true_iff in H. destruct H as [H|H].
          - apply Nat.ltb_lt in H. left; auto.
          - apply andb_true_iff in H. destruct H as [Hc Hb]. apply Nat.eqb_eq in Hc. right. split; auto.
            destruct x, l; cbn in Hb; try discriminate; cbn; apply rho_below; auto;
              try (apply (DH _ Hx); reflexivity); try (apply DL; reflexivity). }
        split; [|split; auto].
        + intro Hin. apply in_map_iff in Hin. destruct Hin as [[l' w'] [E Hin]]. cbn in E.
          unfold vh in Hin. apply in_map_iff in Hin. destruct Hin as [[x wx] [E2 Hx]]. cbn in E2.
          assert (EX : vl rho x = vl rho l) by congruence. clear E E2.
          specialize (R _ _ Hx). rewrite EX in R. revert R. apply rlt_irrefl.
        + intros l' w' Hin. unfold vh in Hin. apply in_map_iff in Hin. destruct Hin as [[x wx] [E2 Hx]]. inversion E2; subst.
          eapply R; eauto.
    Qed.
  End Facts.

  (** ** plans: the concrete thread fragment of a symbolic plan, and what it holds *)
  Definition vact (a : pact) : act clock ccall :=
    match a with PA l w _ => Acq (vl rho l) w | PR l => Rel (vl rho l) end.
  Definition vacts (p : list pact) : list (act clock ccall) := map vact p.

  Fixpoint path_facts (p : list pact) : list (snode * snode) :=
    match p with [] => [] | PA _ _ f :: r => f ++ path_facts r | PR _ :: r => path_facts r end.

  (** the valuation does not identify two locks held together (consequence of the discipline, kept as invariant) *)
  Definition nodup_h (h : list (slock * bool)) := NoDup (map fst (vh rho h)).

  Lemma nodup_inj : forall h x y, nodup_h h -> In x h -> In y h -> vl rho (fst x) = vl rho (fst y) -> x = y.
  Proof.
    unfold nodup_h. induction h as [|z h IH]; intros x y N Hx Hy E; [destruct Hx|].
    cbn in N. inversion N as [|? ? Hn N']; subst.
    destruct Hx as [->|Hx]; destruct Hy as [->|Hy]; auto.
    - exfalso. apply Hn. rewrite E. apply in_map_iff. exists (vl rho (fst y), snd y). split; auto.
      unfold vh. apply in_map_iff. exists y. auto.
    - exfalso. apply Hn. rewrite <- E. apply in_map_iff. exists (vl rho (fst x), snd x). split; auto.
      unfold vh. apply in_map_iff. exists x. auto.
  Qed.

  Lemma filter_commute : forall l h, (forall x, In x h -> vl rho (fst x) = vl rho l -> fst x = l) ->
    remove_lock clock clock_eqb (vl rho l) (vh rho h) = vh rho (filter (fun x => negb (slock_eqb l (fst x))) h).
  Proof.
    intros l h. induction h as [|x h IH]; intros A; cbn; auto.
    assert (A' : forall y, In y h -> vl rho (fst y) = vl rho l -> fst y = l) by (intros; apply A; auto; right; auto).
    unfold clock_eqb at 1. destruct (clock_eq_dec (vl rho l) (vl rho (fst x))) as [E|E]; cbn.
    - assert (fst x = l) by (apply A; auto; left; auto). subst l.
      rewrite (proj2 (slock_eqb_eq (fst x) (fst x)) eq_refl). cbn. apply IH; auto.
    - destruct (slock_eqb l (fst x)) eqn:S.
      + apply slock_eqb_eq in S. subst l. congruence.
      + cbn. f_equal. apply IH; auto.
  Qed.

  Lemma nodup_filter : forall f h, nodup_h h -> nodup_h (filter f h).
  Proof.
    unfold nodup_h. intros f. induction h as [|x h IH]; intros N; cbn; auto.
    cbn in N. inversion N as [|? ? Hn N']; subst. destruct (f x); cbn; auto.
    constructor; auto. intro Hin. apply Hn. apply in_map_iff in Hin. destruct Hin as [[c w] [E Hin]].
    unfold vh in Hin. apply in_map_iff in Hin. destruct Hin as [y [Ey Hy]]. apply filter_In in Hy. destruct Hy as [Hy _].
    apply in_map_iff. exists (c, w). split; auto. unfold vh. apply in_map_iff. exists y. auto.
  Qed.

  Lemma release_alias_free : forall h l, nodup_h h -> has h l = true ->
    forall x, In x h -> vl rho (fst x) = vl rho l -> fst x = l.
  Proof.
    intros h l N H x Hx E. apply has_In in H. destruct H as [w Hl].
    assert (x = (l, w)) by (eapply nodup_inj; eauto). subst. reflexivity.
  Qed.

  Fixpoint path_in_D (p : list pact) : Prop :=
    match p with [] => True | PA l _ _ :: r => lock_in_D l /\ path_in_D r | PR _ :: r => path_in_D r end.

  Lemma held_in_D_cons : forall h l w, held_in_D h -> lock_in_D l -> held_in_D ((l, w) :: h).
  Proof. intros h l w H L x [<-|Hx]; auto. Qed.
  Lemma held_in_D_filter : forall f h, held_in_D h -> held_in_D (filter f h).
  Proof. intros f h H x Hx. apply filter_In in Hx. destruct Hx; auto. Qed.

  (** C16: a permitted symbolic plan is a plan permitted by discipline D, for the continuation [tail] *)
  Lemma path_oplan : forall p h tail, path_ok h p = true -> nodup_h h -> held_in_D h -> path_in_D p ->
    (forall a b, In (a, b) (path_facts p) -> rho a <> rho b) ->
    (nodup_h (pheld_from h p) -> coplan (vh rho (pheld_from h p)) tail) ->
    coplan (vh rho h) (vacts p ++ tail).
  Proof.
    induction p as [|a p IH]; intros h tail K N DH DP F T; cbn in *; auto.
    destruct a as [l w f|l]; cbn in *.
    - apply andb_true_iff in K. destruct K as [K1 K2]. destruct DP as [DL DP].
      assert (A : cacq_ok (vh rho h) (vl rho l)).
      { apply sacq_sound with (facts := f); auto. intros a b Hab. apply F. apply in_or_app. left; auto. }
      split; auto. apply (IH ((l, w) :: h)); auto.
      + unfold nodup_h. cbn. constructor; auto. destruct A as [A _]. exact A.
      + apply held_in_D_cons; auto.
      + intros a b Hab. apply F. apply in_or_app. right; auto.
    - apply andb_true_iff in K. destruct K as [K1 K2].
      rewrite (filter_commute l h (release_alias_free h l N K1)).
      apply IH; auto. apply nodup_filter; auto. apply held_in_D_filter; auto.
  Qed.

  (** what the model's thread holds after the fragment equals the recomputed symbolic set *)
  Fixpoint mrun (h : list (clock * bool)) (acts : list (act clock ccall)) : list (clock * bool) :=
    match acts with
    | [] => h
    | Acq l w :: r => mrun ((l, w) :: h) r
    | Rel l :: r => mrun (remove_lock clock clock_eqb l h) r
    | _ :: r => mrun h r
    end.

  Lemma path_mrun : forall p h, path_ok h p = true -> nodup_h h -> held_in_D h -> path_in_D p ->
    (forall a b, In (a, b) (path_facts p) -> rho a <> rho b) ->
    mrun (vh rho h) (vacts p) = vh rho (pheld_from h p).
  Proof.
    induction p as [|a p IH]; intros h K N DH DP F; cbn in *; auto.
    destruct a as [l w f|l]; cbn in *.
    - apply andb_true_iff in K. destruct K as [K1 K2]. destruct DP as [DL DP].
      assert (A : cacq_ok (vh rho h) (vl rho l)).
      { apply sacq_sound with (facts := f); auto. intros a b Hab. apply F. apply in_or_app. left; auto. }
      apply (IH ((l, w) :: h)); auto.
      + unfold nodup_h. cbn. constructor; auto. destruct A as [A _]. exact A.
      + apply held_in_D_cons; auto.
      + intros a b Hab. apply F. apply in_or_app. right; auto.
    - apply andb_true_iff in K. destruct K as [K1 K2].
      rewrite (filter_commute l h (release_alias_free h l N K1)).
      apply IH; auto. apply nodup_filter; auto. apply held_in_D_filter; auto.
  Qed.
End Sound.

(** releasing everything held ends the plan *)
Definition rel_all (h : list (clock * bool)) : list (act clock ccall) := map (fun x => Rel (fst x)) h.

Lemma oplan_rel_all : forall h h', (forall x, In x h' -> In (fst x) (map fst h)) -> coplan h' (rel_all h).
Proof.
  induction h as [|[l w] h IH]; intros h' A; cbn.
  - destruct h' as [|x h']; auto. destruct (A x (or_introl eq_refl)).
  - apply IH. intros x Hx. unfold remove_lock in Hx. apply filter_In in Hx. destruct Hx as [Hx Hn].
    destruct (A x Hx) as [E|E]; auto. cbn in E. subst l. apply negb_true_iff in Hn.
    rewrite (proj2 (clock_eqb_spec (fst x) (fst x)) eq_refl) in Hn. discriminate.
Qed.

Lemma gplan_acts : forall acts h tail,
  (forall a, In a acts -> match a with Acq _ _ | Rel _ => True | _ => False end) ->
  cgplan (mrun h acts) [] tail -> cgplan h [] (acts ++ tail).
Proof.
  induction acts as [|a acts IH]; intros h tail A H; cbn in *; auto.
  assert (A' : forall b, In b acts -> match b with Acq _ _ | Rel _ => True | _ => False end) by (intros; apply A; auto).
  pose proof (A a (or_introl eq_refl)) as Ha.
  destruct a; try contradiction; (split; [intros c []|]); apply IH; auto.
Qed.

Lemma vacts_lock_only : forall rho p a, In a (vacts rho p) -> match a with Acq _ _ | Rel _ => True | _ => False end.
Proof. intros rho p a H. unfold vacts in H. apply in_map_iff in H. destruct H as [x [<- _]]. destruct x; cbn; auto. Qed.

(** the symbolic nodes a plan mentions, and what a valuation has to respect about them *)
Fixpoint path_nodes (p : list pact) : list snode :=
  match p with
  | [] => []
  | PA l _ _ :: r => match snode_of l with Some n => n :: path_nodes r | None => path_nodes r end
  | PR _ :: r => path_nodes r
  end.

Definition respects (rho : snode -> node) (p : list pact) : Prop :=
  (forall a b, In a (path_nodes p) -> In b (path_nodes p) -> below a b = true -> length (rho a) < length (rho b)) /\
  (forall a b, In (a, b) (path_facts p) -> rho a <> rho b).

Lemma path_in_nodes : forall p q, (forall n, In n (path_nodes p) -> In n q) -> path_in_D (fun n => In n q) p.
Proof.
  induction p as [|a p IH]; intros q H; cbn; auto. destruct a as [l w f|l]; cbn in *.
  - split.
    + intros n E. apply H. rewrite E. left; auto.
    + apply IH. intros n Hn. apply H. destruct (snode_of l); auto. right; auto.
  - apply IH; auto.
Qed.

(** the thread fragment of a site: its plan, (the call), then releasing whatever is held *)
Definition site_thread (rho : snode -> node) (st : site) : list (act clock ccall) :=
  let p := full_path st in
  vacts rho p ++
  match site_call rho st with Some c => [Enter c; Exit c] | None => [] end ++
  rel_all (vh rho (pheld p)).

(** C16: every site's thread fragment obeys discipline D — from the plans alone *)
Theorem site_thread_oplan : forall st, In st sites -> carries st = true ->
  forall rho, respects rho (full_path st) -> coplan [] (site_thread rho st).
Proof.
  intros st Hin C rho [R1 R2]. pose proof (edges_ok st Hin) as K. unfold acq_site_ok in K. rewrite C in K. cbn in K.
  unfold site_thread. apply (path_oplan rho (fun n => In n (path_nodes (full_path st))) R1 (full_path st) [] _ K); auto.
  - constructor.
  - intros x [].
  - apply path_in_nodes; auto.
  - intros _. fold (pheld (full_path st)).
    assert (G : forall h, coplan h (rel_all h)) by (intros h; apply oplan_rel_all; intros x Hx; apply in_map; auto).
    destruct (site_call rho st); cbn; apply G.
Qed.

(** C07: the fragment keeps the call inside its guard, and the guard is what the plan holds there *)
Theorem site_thread_gplan : forall st, In st sites -> forall rho c, site_call rho st = Some c ->
  respects rho (full_path st) -> cgplan [] [] (site_thread rho st).
Proof.
  intros st Hin rho c Hc [R1 R2].
  assert (C : carries st = true) by (unfold site_call in Hc; unfold carries; destruct (s_kind st); try discriminate; auto).
  assert (FP : full_path st = s_path st) by (unfold site_call in Hc; unfold full_path; destruct (s_kind st); try discriminate; auto).
  pose proof (edges_ok st Hin) as K. unfold acq_site_ok in K. rewrite C in K. cbn in K.
  unfold site_thread. rewrite Hc. apply gplan_acts; [apply vacts_lock_only|].
  change (@nil (clock * bool)) with (vh rho []) at 1.
  assert (HD : held_in_D (fun n => In n (path_nodes (full_path st))) []) by (intros x []).
  rewrite (path_mrun rho (fun n => In n (path_nodes (full_path st))) R1 (full_path st) [] K (NoDup_nil _) HD (path_in_nodes _ _ (fun n H => H)) R2).
  fold (pheld (full_path st)).
  assert (G : c_guard c = vh rho (pheld (full_path st))).
  { unfold site_call in Hc. rewrite FP. destruct (s_kind st); try discriminate. inversion Hc; reflexivity. }
  cbn. split; [intros x []|]. split.
  - intros x [<-|[]]. rewrite G. intros y Hy; exact Hy.
  - unfold remove_call. cbn. rewrite ccall_eqb_refl. cbn. apply gplan_rels.
Qed.

(** every acquisition site: the request itself is permitted under every respectful valuation *)
Theorem site_requests_sound : forall st, In st sites -> forall l w, s_kind st = KAcq l w ->
  forall rho, respects rho (full_path st) ->
  coplan [] (site_thread rho st).
Proof.
  intros st Hin l w EK rho R. apply site_thread_oplan; auto. unfold carries. rewrite EK. reflexivity.
Qed.

(** C16, end to end: any number of threads, each running the fragment of some site of the table under
    its own valuation of the symbolic names: no reachable state has every unfinished thread blocked *)
Theorem sites_no_deadlock : forall (ths : list (site * (snode -> node))),
  (forall st rho, In (st, rho) ths -> In st sites /\ carries st = true /\ respects rho (full_path st)) ->
  forall s, creachable (map (fun x => site_thread (snd x) (fst x)) ths) s ->
  (exists i t, nth_error s i = Some t /\ rest t <> []) ->
  ~ (forall i t, nth_error s i = Some t -> rest t <> [] -> blocked clock ccall s i).
Proof.
  intros ths H s Hr. apply (no_deadlock clock clock_eqb clock_eqb_spec ccall ccall_eqb crank RenameMu cchildish (map (fun x => site_thread (snd x) (fst x)) ths)); auto.
  intros p Hp. apply in_map_iff in Hp. destruct Hp as [[st rho] [<- Hin]]. destruct (H st rho Hin) as [A [B C]].
  cbn. apply site_thread_oplan; auto.
Qed.

(** C07, end to end: threads running site fragments; two documented-exclusive calls never overlap *)
Theorem sites_contract : forall (ths : list (site * (snode -> node))),
  (forall st rho, In (st, rho) ths -> In st sites /\ respects rho (full_path st) /\ exists c, site_call rho st = Some c) ->
  forall s, creachable (map (fun x => site_thread (snd x) (fst x)) ths) s ->
  forall i j ti tj c1 c2, i <> j -> nth_error s i = Some ti -> nth_error s j = Some tj ->
    In c1 (inside ti) -> In c2 (inside tj) -> cprovides c1 -> cprovides c2 -> conflicts c1 c2 -> False.
Proof.
  intros ths H s Hr. apply (contract (map (fun x => site_thread (snd x) (fst x)) ths)); auto.
  intros p Hp. apply in_map_iff in Hp. destruct Hp as [[st rho] [<- Hin]]. destruct (H st rho Hin) as [A [B [c C]]].
  cbn. eapply site_thread_gplan; eauto.
Qed.

(** the valuation hypotheses are satisfiable for every site of the table: a canonical valuation
    (fidRef names as distinct deep paths) respects every plan *)
Fixpoint rho_ex (n : snode) : node :=
  match n with
  | NOf r => ["r3"; "r2"; "r1"; r]
  | NChild m x => List.app (rho_ex m) [x]
  | NParent m => removelast (rho_ex m)
  | NMaybeParent m => "mp" :: rho_ex m
  | NTree => []
  | NVar x => ["v3"; "v2"; "v1"; x]
  end.

Definition respects_b (rho : snode -> node) (p : list pact) : bool :=
  forallb (fun a => forallb (fun b => negb (below a b) || Nat.ltb (length (rho a)) (length (rho b))) (path_nodes p)) (path_nodes p)
  && forallb (fun f => negb (node_eqb (rho (fst f)) (rho (snd f)))) (path_facts p).

Lemma respects_b_sound : forall rho p, respects_b rho p = true -> respects rho p.
Proof.
  intros rho p H. unfold respects_b in H. apply andb_true_iff in H. destruct H as [H1 H2]. split.
  - intros a b Ha Hb Hab. rewrite forallb_forall in H1. specialize (H1 a Ha). rewrite forallb_forall in H1.
    specialize (H1 b Hb). rewrite Hab in H1. cbn in H1. apply Nat.ltb_lt in H1. exact H1.
  - intros a b Hab E. rewrite forallb_forall in H2. specialize (H2 _ Hab). cbn in H2. rewrite E in H2.
    unfold node_eqb in H2. destruct (list_eq_dec string_dec (rho b) (rho b)); [discriminate|congruence].
Qed.

Lemma canonical_respects_b : forall st, In st sites -> respects_b rho_ex (full_path st) = true.
Proof. apply all_sites. vm_compute. reflexivity. Qed.

Theorem canonical_respects : forall st, In st sites -> respects rho_ex (full_path st).
Proof. intros st H. apply respects_b_sound. apply canonical_respects_b; auto. Qed.
