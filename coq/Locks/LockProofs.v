(** Mutual exclusion (inductive invariant over all interleavings, any number of threads). *)
From Coq Require Import List Bool Arith Lia.
From P9V Require Import Locks.Locks.
Import ListNotations.

Section Proofs.
  Variable lock : Type.
  Variable lock_eqb : lock -> lock -> bool.
  Variable call : Type.
  Variable call_eqb : call -> call -> bool.
  Variable guard : call -> list (lock * bool).

  Notation thread := (thread lock call).
  Notation state := (state lock call).
  Notation upd := (upd lock call).
  Notation holds := (holds lock call).
  Notation step := (step lock lock_eqb call call_eqb).
  Notation reachable := (reachable lock lock_eqb call call_eqb).
  Notation gplan := (gplan lock lock_eqb call call_eqb guard).

  Lemma nth_upd_same : forall (s : state) i t t', nth_error s i = Some t -> nth_error (upd s i t') i = Some t'.
  Proof.
    induction s as [|x s IH]; intros [|i] t t' H; cbn in *; try discriminate; auto.
    eapply IH; eauto.
  Qed.

  Lemma nth_upd_other : forall (s : state) i j t', i <> j -> nth_error (upd s i t') j = nth_error s j.
  Proof.
    induction s as [|x s IH]; intros [|i] [|j] t' H; cbn; auto; try congruence.
  Qed.

  Lemma length_upd : forall (s : state) i t', length (upd s i t') = length s.
  Proof. induction s as [|x s IH]; intros [|i] t'; cbn; auto. Qed.

  Lemma in_remove_lock : forall l x h, In x (remove_lock lock lock_eqb l h) -> In x h.
  Proof. intros l x h H. unfold remove_lock in H. apply filter_In in H. tauto. Qed.

  Lemma in_remove_call : forall c x ins, In x (remove_call call call_eqb c ins) -> In x ins.
  Proof. intros c x ins H. unfold remove_call in H. apply filter_In in H. tauto. Qed.

  (** no two threads hold one lock unless both hold it for reading *)
  Definition Excl (s : state) :=
    forall i j l wi wj, i <> j -> holds s i l wi -> holds s j l wj -> wi = false /\ wj = false.

  Lemma holds_upd_other : forall (s : state) k t' j l w, j <> k -> holds (upd s k t') j l w -> holds s j l w.
  Proof. intros s k t' j l w Hn [t [Hnth Hin]]. rewrite nth_upd_other in Hnth by auto. exists t; auto. Qed.

  Lemma holds_upd_same : forall (s : state) k t t' l w, nth_error s k = Some t -> holds (upd s k t') k l w -> In (l, w) (held t').
  Proof. intros s k t t' l w Hk [t0 [Hnth Hin]]. rewrite (nth_upd_same _ _ _ _ Hk) in Hnth. inversion Hnth; subst; auto. Qed.

  (** what thread [k] holds after its step: what it held before, or the lock just acquired (free for it) *)
  Lemma tstep_held : forall (s : state) k t t', tstep lock lock_eqb call call_eqb s k t t' ->
    forall l w, In (l, w) (held t') -> In (l, w) (held t) \/ free_for lock call s k l w.
  Proof.
    intros s k t t' Hs l w Hin. inversion Hs; subst; cbn in *; auto.
    - destruct Hin as [Heq|Hin]; [inversion Heq; subst; auto|auto].
    - left. eapply in_remove_lock; eauto.
  Qed.

  Lemma Excl_step : forall s s', Excl s -> step s s' -> Excl s'.
  Proof.
    intros s s' HE Hs. inversion Hs as [s0 k t t' Hk Ht]; subst.
    intros i j l wi wj Hij Hi Hj.
    destruct (Nat.eq_dec i k) as [->|Hik]; destruct (Nat.eq_dec j k) as [->|Hjk]; try congruence.
    - apply holds_upd_other in Hj; auto.
      pose proof (holds_upd_same _ _ _ _ _ _ Hk Hi) as Hin.
      destruct (tstep_held _ _ _ _ Ht _ _ Hin) as [Hold|Hfree].
      + apply (HE k j l wi wj Hij); [exists t; auto|auto].
      + apply (Hfree j wj); auto.
    - apply holds_upd_other in Hi; auto.
      pose proof (holds_upd_same _ _ _ _ _ _ Hk Hj) as Hin.
      destruct (tstep_held _ _ _ _ Ht _ _ Hin) as [Hold|Hfree].
      + apply (HE i k l wi wj Hij); [auto|exists t; auto].
      + destruct (Hfree i wi) as [A B]; auto.
    - apply holds_upd_other in Hi; auto. apply holds_upd_other in Hj; auto. exact (HE i j l wi wj Hij Hi Hj).
  Qed.

  Lemma nth_init : forall plans i t, nth_error (init lock call plans) i = Some t -> exists p, t = mkT [] [] p /\ nth_error plans i = Some p.
  Proof.
    intros plans i t H. unfold init in H. rewrite nth_error_map in H.
    destruct (nth_error plans i) eqn:E; cbn in H; inversion H; eauto.
  Qed.

  Lemma Excl_init : forall plans, Excl (init lock call plans).
  Proof. intros plans i j l wi wj _ [t [Hn Hin]] _. apply nth_init in Hn. destruct Hn as [p [-> _]]. destruct Hin. Qed.

  Theorem excl_reachable : forall plans s, reachable plans s -> Excl s.
  Proof. intros plans s H. induction H. apply Excl_init. eapply Excl_step; eauto. Qed.

  (** generic thread invariant: a predicate on (held, inside, rest) kept by every own step *)
  Section ThreadInv.
    Variable TI : thread -> Prop.
    Hypothesis TI_step : forall s k t t', TI t -> tstep lock lock_eqb call call_eqb s k t t' -> TI t'.

    Lemma thread_inv : forall plans, (forall p, In p plans -> TI (mkT [] [] p)) ->
      forall s, reachable plans s -> forall i t, nth_error s i = Some t -> TI t.
    Proof.
      intros plans H0 s Hr. induction Hr as [|s s' Hr IH Hs]; intros i t Hn.
      - apply nth_init in Hn. destruct Hn as [p [-> Hp]]. apply H0. eapply nth_error_In; eauto.
      - inversion Hs as [s0 k tk tk' Hk Ht]; subst.
        destruct (Nat.eq_dec i k) as [->|Hik].
        + rewrite (nth_upd_same _ _ _ _ Hk) in Hn. inversion Hn; subst. eapply TI_step; eauto.
        + rewrite nth_upd_other in Hn by auto. eauto.
    Qed.
  End ThreadInv.

  Lemma gplan_head : forall h ins p, gplan h ins p -> forall c, In c ins -> incl (guard c) h.
  Proof. intros h ins p H. destruct p; cbn in H; tauto. Qed.

  Lemma gplan_step : forall s k t t', gplan (held t) (inside t) (rest t) -> tstep lock lock_eqb call call_eqb s k t t' ->
    gplan (held t') (inside t') (rest t').
  Proof. intros s k t t' H Hs. inversion Hs; subst; cbn in *; tauto. Qed.

  (** C07_mutex: for every interleaving of any number of threads whose plans keep each
      backend call inside its guard, two calls whose guards share a lock, one of them
      for writing, are never in progress at the same time. *)
  Theorem mutex : forall plans, (forall p, In p plans -> gplan [] [] p) ->
    forall s, reachable plans s ->
    forall i j ti tj c1 c2 l w1 w2, i <> j -> nth_error s i = Some ti -> nth_error s j = Some tj ->
      In c1 (inside ti) -> In c2 (inside tj) -> In (l, w1) (guard c1) -> In (l, w2) (guard c2) ->
      w1 || w2 = true -> False.
  Proof.
    intros plans Hp s Hr i j ti tj c1 c2 l w1 w2 Hij Hi Hj Hc1 Hc2 Hg1 Hg2 Hw.
    pose proof (thread_inv (fun t => gplan (held t) (inside t) (rest t)) gplan_step plans Hp s Hr) as GI.
    pose proof (gplan_head _ _ _ (GI _ _ Hi) _ Hc1 _ Hg1) as H1.
    pose proof (gplan_head _ _ _ (GI _ _ Hj) _ Hc2 _ Hg2) as H2.
    destruct (excl_reachable _ _ Hr i j l w1 w2 Hij) as [A B]; [exists ti; auto|exists tj; auto|].
    subst; discriminate.
  Qed.

  (** reader/writer counts are consistent: a write holder is the only holder *)
  Corollary writer_alone : forall plans s, reachable plans s ->
    forall i j l w, i <> j -> holds s i l true -> holds s j l w -> False.
  Proof. intros plans s Hr i j l w Hij Hi Hj. destruct (excl_reachable _ _ Hr i j l true w Hij Hi Hj); discriminate. Qed.

  (** every step consumes one action: runs are finite *)
  Lemma remaining_upd : forall (s : state) k t t', nth_error s k = Some t ->
    remaining lock call (upd s k t') + length (rest t) = remaining lock call s + length (rest t').
  Proof.
    induction s as [|x s IH]; intros [|k] t t' H; cbn in *; try discriminate.
    - inversion H; subst. lia.
    - specialize (IH _ _ t' H). unfold remaining in IH. lia.
  Qed.

  Theorem step_decreases : forall s s', step s s' -> remaining lock call s' < remaining lock call s.
  Proof.
    intros s s' Hs. inversion Hs as [s0 k t t' Hk Ht]; subst.
    pose proof (remaining_upd _ _ _ t' Hk) as E.
    inversion Ht; subst; cbn [rest length] in E; lia.
  Qed.

End Proofs.
