(** C16 / C07: from thread FRAGMENTS to RUNS.

    Order.no_deadlock and TableProofs.contract are stated for threads whose plan is any list of actions
    satisfying [oplan [] p] / [gplan [] [] p].  TableProofs instantiates them with one site fragment per
    thread.  A goroutine of the server does not stop after one fragment: a connection serves request after
    request, and one handler passes through several lock episodes (lookup under fidMu, the body under
    renameMu/opMu, the deferred DecRef under childMu ...).  This file lifts both theorems to threads that run
    ANY FINITE SUCCESSION of fragments, each under its own valuation (the fids, names and nodes of successive
    requests differ): discipline D and the guard discipline are closed under concatenation of plans that end
    with nothing held and no call in progress.

    What is still NOT proved: that the execution of a whole Go handler IS such a succession of the table's
    fragments (the generator follows every path to every site; the fragments are path prefixes closed by a
    release of everything held).  *)
From Coq Require Import List Bool Arith Lia String.
From P9V Require Import Locks.Sym Locks.Locks Locks.LockProofs Locks.Order gen.LockGen Locks.Tables Locks.TableProofs.
Import ListNotations.

Section Final.
  Variable lock : Type.
  Variable lock_eqb : lock -> lock -> bool.
  Variable call : Type.
  Variable call_eqb : call -> call -> bool.
  Variable rank : lock -> nat * nat.
  Variable gate : lock.
  Variable childish : lock -> bool.

  Notation act := (act lock call).
  Notation oplan := (oplan lock lock_eqb call rank gate childish).

  (** what a thread holds / is inside of after running the whole plan *)
  Fixpoint pfinal (h : list (lock * bool)) (ins : list call) (p : list act) : list (lock * bool) * list call :=
    match p with
    | [] => (h, ins)
    | Acq l w :: p' => pfinal ((l, w) :: h) ins p'
    | Rel l :: p' => pfinal (remove_lock lock lock_eqb l h) ins p'
    | Enter c :: p' => pfinal h (c :: ins) p'
    | Exit c :: p' => pfinal h (remove_call call call_eqb c ins) p'
    | Tau :: p' => pfinal h ins p'
    end.

  Lemma pfinal_app : forall p q h ins, pfinal h ins (p ++ q) = pfinal (fst (pfinal h ins p)) (snd (pfinal h ins p)) q.
  Proof. induction p as [|a p IH]; intros q h ins; cbn; auto. destruct a; apply IH. Qed.

  (** a plan obeying D ends with nothing held (that is part of [oplan]) *)
  Lemma oplan_final : forall p h ins, oplan h p -> fst (pfinal h ins p) = [].
  Proof. induction p as [|a p IH]; intros h ins H; cbn in *; auto. destruct a; cbn in H; try apply IH; tauto. Qed.

  Lemma oplan_app : forall p q h, oplan h p -> oplan [] q -> oplan h (p ++ q).
  Proof.
    induction p as [|a p IH]; intros q h Hp Hq; cbn in *.
    - subst h. exact Hq.
    - destruct a; cbn in Hp |- *; try (apply IH; tauto). destruct Hp as [A B]. split; auto.
  Qed.

  Lemma oplan_concat : forall ps, (forall p, In p ps -> oplan [] p) -> oplan [] (List.concat ps).
  Proof.
    induction ps as [|p ps IH]; intros H; cbn; auto.
    apply oplan_app; [apply H; left; auto|apply IH; intros q Hq; apply H; right; auto].
  Qed.

  Variable guard : call -> list (lock * bool).
  Notation gplan := (gplan lock lock_eqb call call_eqb guard).

  Lemma gplan_app : forall p q h ins, gplan h ins p ->
    gplan (fst (pfinal h ins p)) (snd (pfinal h ins p)) q -> gplan h ins (p ++ q).
  Proof.
    induction p as [|a p IH]; intros q h ins Hp Hq; cbn in *; auto.
    destruct Hp as [G Hp]. split; auto. destruct a; apply IH; auto.
  Qed.

  Definition closed (p : list act) : Prop := pfinal [] [] p = ([], []).

  Lemma gplan_concat : forall ps, (forall p, In p ps -> gplan [] [] p /\ closed p) -> gplan [] [] (List.concat ps).
  Proof.
    induction ps as [|p ps IH]; intros H; cbn.
    - split; auto. intros c [].
    - destruct (H p (or_introl eq_refl)) as [G C]. apply gplan_app; auto. rewrite C. cbn.
      apply IH. intros q Hq. apply H. right; auto.
  Qed.

  Lemma closed_concat : forall ps, (forall p, In p ps -> closed p) -> closed (List.concat ps).
  Proof.
    induction ps as [|p ps IH]; intros H; cbn; [reflexivity|].
    unfold closed. rewrite pfinal_app. rewrite (H p (or_introl eq_refl)). cbn. apply IH. intros q Hq; apply H; right; auto.
  Qed.
End Final.

Notation cpfinal := (pfinal clock clock_eqb ccall ccall_eqb).
Notation cclosed := (closed clock clock_eqb ccall ccall_eqb).

(** lock-only actions do not touch the calls in progress *)
Lemma pfinal_lock_only : forall acts h ins tail,
  (forall a, In a acts -> match a with Acq _ _ | Rel _ => True | _ => False end) ->
  snd (cpfinal h ins (acts ++ tail)) = snd (cpfinal (mrun h acts) ins tail).
Proof.
  induction acts as [|a acts IH]; intros h ins tail A; cbn; auto.
  assert (A' : forall b, In b acts -> match b with Acq _ _ | Rel _ => True | _ => False end) by (intros; apply A; right; auto).
  pose proof (A a (or_introl eq_refl)) as Ha. destruct a; try contradiction; cbn; apply IH; auto.
Qed.

Lemma pfinal_rels_inside : forall (ls : list (clock * bool)) h ins, snd (cpfinal h ins (rel_all ls)) = ins.
Proof. unfold rel_all. induction ls as [|l ls IH]; intros h ins; cbn; auto. Qed.

(** a site fragment ends with nothing held and no call in progress *)
Theorem site_thread_closed : forall st, In st sites -> carries st = true ->
  forall rho, respects rho (full_path st) -> cclosed (site_thread rho st).
Proof.
  intros st Hin C rho R. unfold closed.
  pose proof (site_thread_oplan st Hin C rho R) as O.
  assert (F : fst (cpfinal [] [] (site_thread rho st)) = []) by (exact (oplan_final clock clock_eqb ccall ccall_eqb crank RenameMu cchildish _ _ _ O)).
  assert (I : snd (cpfinal [] [] (site_thread rho st)) = []).
  { unfold site_thread. rewrite pfinal_lock_only by apply vacts_lock_only.
    destruct (site_call rho st) as [c|]; cbn.
    - unfold remove_call. cbn. rewrite ccall_eqb_refl. cbn. apply pfinal_rels_inside.
    - apply pfinal_rels_inside. }
  destruct (cpfinal [] [] (site_thread rho st)) as [h ins]. cbn in *. subst. reflexivity.
Qed.

(** a RUN: the fragments of any finite succession of sites, each under its own valuation *)
Definition run_thread (run : list (site * (snode -> node))) : list (act clock ccall) :=
  List.concat (map (fun x => site_thread (snd x) (fst x)) run).

(** C16 for runs: any number of goroutines, each running any finite succession of site fragments (successive
    lock episodes of one request, then the next request of the connection, ...): no reachable state has
    every unfinished thread blocked *)
Theorem runs_no_deadlock : forall (ths : list (list (site * (snode -> node)))),
  (forall run st rho, In run ths -> In (st, rho) run -> In st sites /\ carries st = true /\ respects rho (full_path st)) ->
  forall s, creachable (map run_thread ths) s ->
  (exists i t, nth_error s i = Some t /\ rest t <> []) ->
  ~ (forall i t, nth_error s i = Some t -> rest t <> [] -> blocked clock ccall s i).
Proof.
  intros ths H s Hr.
  apply (no_deadlock clock clock_eqb clock_eqb_spec ccall ccall_eqb crank RenameMu cchildish (map run_thread ths)); auto.
  intros p Hp. apply in_map_iff in Hp. destruct Hp as [run [<- Hin]]. unfold run_thread.
  apply (oplan_concat clock clock_eqb ccall ccall_eqb). intros q Hq. apply in_map_iff in Hq. destruct Hq as [[st rho] [<- Hx]].
  destruct (H run st rho Hin Hx) as [A [B C]]. cbn. apply site_thread_oplan; auto.
Qed.

(** C07 for runs: two calls the documentation declares exclusive are never in progress together, in any
    interleaving of any number of goroutines each running any finite succession of call-site fragments *)
Theorem runs_contract : forall (ths : list (list (site * (snode -> node)))),
  (forall run st rho, In run ths -> In (st, rho) run ->
     In st sites /\ respects rho (full_path st) /\ exists c, site_call rho st = Some c) ->
  forall s, creachable (map run_thread ths) s ->
  forall i j ti tj c1 c2, i <> j -> nth_error s i = Some ti -> nth_error s j = Some tj ->
    In c1 (inside ti) -> In c2 (inside tj) -> cprovides c1 -> cprovides c2 -> conflicts c1 c2 -> False.
Proof.
  intros ths H s Hr. apply (contract (map run_thread ths)); auto.
  intros p Hp. apply in_map_iff in Hp. destruct Hp as [run [<- Hin]]. unfold run_thread.
  apply gplan_concat. intros q Hq. apply in_map_iff in Hq. destruct Hq as [[st rho] [<- Hx]].
  destruct (H run st rho Hin Hx) as [A [B [c C]]]. cbn. split.
  - eapply site_thread_gplan; eauto.
  - apply site_thread_closed; auto.
    unfold site_call in C. unfold carries. destruct (s_kind st); try discriminate; auto.
Qed.

(** satisfiable and non-trivial: a run of three fragments under the canonical valuation *)
Lemma run_example_ok : forall a b c, In a sites -> In b sites -> In c sites ->
  carries a = true -> carries b = true -> carries c = true ->
  respects rho_ex (full_path a) -> respects rho_ex (full_path b) -> respects rho_ex (full_path c) ->
  coplan [] (run_thread [(a, rho_ex); (b, rho_ex); (c, rho_ex)]).
Proof.
  intros a b c Ha Hb Hc Ca Cb Cc Ra Rb Rc. unfold run_thread. apply (oplan_concat clock clock_eqb ccall ccall_eqb).
  intros q [<-|[<-|[<-|[]]]]; cbn; apply site_thread_oplan; auto.
Qed.

(** NO LOCK OUTLIVES ITS RUN: in every reachable state of any number of goroutines running runs of fragments,
    a goroutine that has finished its run holds no lock (and while it runs, what it holds is what discipline D
    allows at that point of its plan).  With [runs_no_deadlock] and [step_decreases] (every step consumes an
    action): every execution ends with every goroutine finished and every lock free. *)
Theorem runs_finished_hold_nothing : forall (ths : list (list (site * (snode -> node)))),
  (forall run st rho, In run ths -> In (st, rho) run -> In st sites /\ carries st = true /\ respects rho (full_path st)) ->
  forall s, creachable (map run_thread ths) s ->
  forall i t, nth_error s i = Some t -> rest t = [] -> held t = [].
Proof.
  intros ths H s Hr i t Hn Hrest.
  assert (TI : coplan (held t) (rest t)).
  { refine (thread_inv clock clock_eqb ccall ccall_eqb (fun t => coplan (held t) (rest t)) _ (map run_thread ths) _ s Hr i t Hn).
    - intros s0 k t0 t0' Ht Hs. inversion Hs; subst; cbn in *; tauto.
    - intros p Hp. apply in_map_iff in Hp. destruct Hp as [run [<- Hin]]. unfold run_thread. cbn.
      apply (oplan_concat clock clock_eqb ccall ccall_eqb). intros q Hq. apply in_map_iff in Hq. destruct Hq as [[st rho] [<- Hx]].
      destruct (H run st rho Hin Hx) as [A [B C]]. cbn. apply site_thread_oplan; auto. }
  rewrite Hrest in TI. exact TI.
Qed.
