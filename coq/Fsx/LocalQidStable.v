(** C19 (localfs QIDs): localToQid gives a (dev, ino) pair the same path on
    every call, whatever was looked up in between.  Needs nothing about
    encodeLikely (a pure function) nor about the counter (it may even wrap):
    entries of the fallback table are only ever added for keys that are absent. *)
From Coq Require Import NArith List Bool.
From P9V Require Import gen.ConstGen Fsx.Qid.
Import ListNotations.
Open Scope N_scope.

Lemma key_eqb_eq' a b : key_eqb a b = true <-> a = b.
Proof.
  destruct a, b. unfold key_eqb. cbn. rewrite andb_true_iff, !N.eqb_eq.
  split; [intros [-> ->]; reflexivity|intros H; inversion H; auto].
Qed.

Fixpoint lrun_w (t : list (key * N)) (n : N) (h : list key) : list (key * N) * N :=
  match h with
  | [] => (t, n)
  | (d, i) :: r => let '(_, t', n') := local_to_qid t n d i in lrun_w t' n' r
  end.

Lemma local_to_qid_grows t n d i r t' n' :
  local_to_qid t n d i = (r, t', n') ->
  (forall k v, klookup k t = Some v -> klookup k t' = Some v) /\
  (encodeLikely d i = None -> klookup (d, i) t' = Some r) /\
  (forall q, encodeLikely d i = Some q -> r = q).
Proof.
  unfold local_to_qid, local_to_qid_g. destruct (encodeLikely d i) as [q|] eqn:E.
  - intros [= <- <- <-]. repeat split; auto; [discriminate|intros q' [= ->]; reflexivity].
  - destruct (klookup (d, i) t) as [v|] eqn:L.
    + intros [= <- <- <-]. repeat split; auto. discriminate.
    + intros [= <- <- <-]. split; [|split; [|discriminate]].
      * intros k v X. cbn. destruct (key_eqb k (d, i)) eqn:E0; [|exact X].
        apply key_eqb_eq' in E0. subst k. congruence.
      * intros _. cbn. replace (key_eqb (d, i) (d, i)) with true; [reflexivity|].
        symmetry. now apply key_eqb_eq'.
Qed.

Lemma lrun_w_grows h : forall t n t' n', lrun_w t n h = (t', n') ->
  forall k v, klookup k t = Some v -> klookup k t' = Some v.
Proof.
  induction h as [|[d i] h IH]; intros t n t' n' H; cbn in H.
  - inversion H; subst. auto.
  - destruct (local_to_qid t n d i) as [[r t1] n1] eqn:E.
    destruct (local_to_qid_grows _ _ _ _ _ _ _ E) as (X & _). intros k v Hk. eapply IH; eauto.
Qed.

Theorem local_to_qid_stable t1 n1 d i r t2 n2 h t3 n3 r' t4 n4 :
  local_to_qid t1 n1 d i = (r, t2, n2) -> lrun_w t2 n2 h = (t3, n3) ->
  local_to_qid t3 n3 d i = (r', t4, n4) -> r' = r.
Proof.
  intros L1 R L2.
  destruct (local_to_qid_grows _ _ _ _ _ _ _ L1) as (_ & S1 & Q1).
  destruct (encodeLikely d i) as [q|] eqn:E.
  - destruct (local_to_qid_grows _ _ _ _ _ _ _ L2) as (_ & _ & Q2). rewrite E in Q2.
    rewrite (Q1 q eq_refl), (Q2 q eq_refl). reflexivity.
  - specialize (S1 eq_refl). pose proof (lrun_w_grows _ _ _ _ _ R _ _ S1) as S3.
    unfold local_to_qid, local_to_qid_g in L2. rewrite E, S3 in L2. now inversion L2.
Qed.
