(** C20: encodeLikely is injective and stays below 2^63 (bit lemmas: a mask of
    consecutive ones is div/mod, [lor] of disjoint ranges is [+]). *)
From Coq Require Import NArith List Bool Lia ZArith ZifyN ZifyBool.
From P9V Require Import gen.ConstGen Fsx.Qid.
Import ListNotations.
Open Scope N_scope.
Ltac Zify.zify_post_hook ::= Z.div_mod_to_equations.

Lemma land_mask_shift x k s :
  N.land x (N.shiftl (N.ones k) s) = N.shiftl (N.land (N.shiftr x s) (N.ones k)) s.
Proof.
  apply N.bits_inj. intros n. rewrite N.land_spec.
  destruct (N.ltb_spec n s) as [Hlt|Hge].
  - rewrite !N.shiftl_spec_low by exact Hlt. apply andb_false_r.
  - rewrite !N.shiftl_spec_high' by exact Hge. rewrite N.land_spec, N.shiftr_spec'.
    replace (n - s + s) with n by lia. reflexivity.
Qed.

(** (x & (ones k << s)) >> t  for t <= s  is  ((x / 2^s) mod 2^k) * 2^(s-t) *)
Lemma extract_field x k s t : t <= s ->
  N.shiftr (N.land x (N.shiftl (N.ones k) s)) t = ((x / 2 ^ s) mod 2 ^ k) * 2 ^ (s - t).
Proof.
  intros H. rewrite land_mask_shift, N.shiftr_shiftl_l by exact H.
  now rewrite N.shiftl_mul_pow2, N.land_ones, N.shiftr_div_pow2.
Qed.

Lemma lor_disjoint a b n : a < 2 ^ n -> N.lor a (b * 2 ^ n) = a + b * 2 ^ n.
Proof.
  intros Ha. assert (Z : N.land a (b * 2 ^ n) = 0).
  { apply N.bits_inj_0. intros m. rewrite N.land_spec, <- N.shiftl_mul_pow2.
    destruct (N.ltb_spec m n) as [Hlt|Hge].
    - rewrite N.shiftl_spec_low by exact Hlt. apply andb_false_r.
    - rewrite <- (N.mod_small a (2 ^ n)) by exact Ha. now rewrite N.mod_pow2_bits_high. }
  now rewrite N.add_nocarry_lxor, N.lxor_lor.
Qed.

Lemma nOnes_ones n : nOnes n = N.ones n.
Proof. unfold nOnes, N.ones. now rewrite N.sub_1_r. Qed.

(** unix.Major / unix.Minor in arithmetic *)
Definition major_a (d : N) : N := (d / 2 ^ 8) mod 2 ^ 12 + ((d / 2 ^ 44) mod 2 ^ 20) * 2 ^ 12.
Definition minor_a (d : N) : N := d mod 2 ^ 8 + ((d / 2 ^ 20) mod 2 ^ 24) * 2 ^ 8.

Lemma unix_major_arith d : unix_major d = major_a d.
Proof.
  unfold unix_major, major_a.
  change 0xfff00 with (N.shiftl (N.ones 12) 8). change 0xfffff00000000000 with (N.shiftl (N.ones 20) 44).
  rewrite !extract_field by lia. change (8 - 8) with 0. change (44 - 32) with 12.
  rewrite N.pow_0_r, N.mul_1_r. apply lor_disjoint. apply N.mod_lt. discriminate.
Qed.

Lemma unix_minor_arith d : unix_minor d = minor_a d.
Proof.
  unfold unix_minor, minor_a.
  change 0xff with (N.shiftl (N.ones 8) 0). change 0x00000ffffff00000 with (N.shiftl (N.ones 24) 20).
  rewrite !extract_field by lia. change (0 - 0) with 0. change (20 - 12) with 8.
  rewrite N.pow_0_r, N.mul_1_r, N.div_1_r. apply lor_disjoint. apply N.mod_lt. discriminate.
Qed.

(** what a successful encodeLikely means, in arithmetic *)
Lemma encodeLikely_some d i q : d < two64 -> i < two64 ->
  encodeLikely d i = Some q ->
  i < 2 ^ 39 /\ d < 2 ^ 32 /\ major_a d <= 4095 /\ minor_a d <= 4095 /\
  q = i + minor_a d * 2 ^ 39 + major_a d * 2 ^ 51.
Proof.
  intros Hd Hi. unfold encodeLikely.
  unfold localfs_inodeLikelyBits, localfs_devUpperBits, localfs_devUpperOffset,
         localfs_devMajorLikelyBits, localfs_devMinorLikelyBits.
  rewrite !nOnes_ones, N.ldiff_ones_r, unix_major_arith, unix_minor_arith.
  unfold shl64. rewrite !N.shiftl_mul_pow2, N.shiftr_div_pow2.
  destruct (N.eqb_spec (i / 2 ^ 39 * 2 ^ 39) 0) as [Ei|]; [|discriminate]. cbn [negb].
  assert (Hi39 : i < 2 ^ 39).
  { change (2 ^ 39) with 549755813888 in *. lia. }
  replace ((N.ones 32 * 2 ^ 32) mod two64) with (N.shiftl (N.ones 32) 32) by reflexivity.
  rewrite land_mask_shift, N.shiftl_mul_pow2, N.land_ones, N.shiftr_div_pow2.
  destruct (N.eqb_spec ((d / 2 ^ 32) mod 2 ^ 32 * 2 ^ 32) 0) as [Ed|]; [|discriminate]. cbn [negb].
  assert (Hd32 : d < 2 ^ 32).
  { unfold two64 in Hd. change (2 ^ 32) with 4294967296 in *. lia. }
  change (N.ones 12) with 4095.
  destruct (N.ltb_spec 4095 (major_a d)) as [|Hmaj]; [discriminate|].
  destruct (N.ltb_spec 4095 (minor_a d)) as [|Hmin]; [discriminate|].
  intros [= <-]. repeat split; auto.
  rewrite N.land_ones, (N.mod_small i) by exact Hi39.
  change (39 + 12) with 51.
  rewrite (N.mod_small (minor_a d * 2 ^ 39)), (N.mod_small (major_a d * 2 ^ 51)).
  - rewrite (lor_disjoint i (minor_a d) 39) by exact Hi39.
    rewrite lor_disjoint; [reflexivity|].
    change (2 ^ 39) with 549755813888 in *. change (2 ^ 51) with 2251799813685248. lia.
  - unfold two64. change (2 ^ 51) with 2251799813685248. lia.
  - unfold two64. change (2 ^ 39) with 549755813888. lia.
Qed.

Lemma dev_from_major_minor d d' : d < 2 ^ 32 -> d' < 2 ^ 32 ->
  major_a d = major_a d' -> minor_a d = minor_a d' -> d = d'.
Proof.
  unfold major_a, minor_a.
  change (2 ^ 8) with 256. change (2 ^ 12) with 4096. change (2 ^ 44) with 17592186044416.
  change (2 ^ 20) with 1048576. change (2 ^ 24) with 16777216. change (2 ^ 32) with 4294967296.
  intros. lia.
Qed.

Theorem encodeLikely_inj d i d' i' q :
  d < two64 -> i < two64 -> d' < two64 -> i' < two64 ->
  encodeLikely d i = Some q -> encodeLikely d' i' = Some q -> d = d' /\ i = i'.
Proof.
  intros Hd Hi Hd' Hi' H H'.
  apply encodeLikely_some in H as (A1 & A2 & A3 & A4 & A5); auto.
  apply encodeLikely_some in H' as (B1 & B2 & B3 & B4 & B5); auto.
  assert (E : i = i' /\ minor_a d = minor_a d' /\ major_a d = major_a d').
  { generalize dependent (major_a d). generalize dependent (minor_a d).
    generalize dependent (major_a d'). generalize dependent (minor_a d').
    change (2 ^ 39) with 549755813888 in *. change (2 ^ 51) with 2251799813685248.
    intros. lia. }
  destruct E as (-> & Em & EM). split; [|reflexivity]. now apply dev_from_major_minor.
Qed.

Theorem encodeLikely_below d i q : d < two64 -> i < two64 -> encodeLikely d i = Some q -> q < 2 ^ 63.
Proof.
  intros Hd Hi H. apply encodeLikely_some in H as (A1 & A2 & A3 & A4 & ->); auto.
  generalize dependent (major_a d). generalize dependent (minor_a d).
  change (2 ^ 39) with 549755813888 in *. change (2 ^ 51) with 2251799813685248. change (2 ^ 63) with 9223372036854775808.
  intros. lia.
Qed.

Example encodeLikely_ex :
  encodeLikely 0x801 12345 = Some (12345 + 1 * 2 ^ 39 + 8 * 2 ^ 51)      (* major 8, minor 1 *)
  /\ encodeLikely 0xfffff 549755813887 = Some (2 ^ 63 - 1 - 0xf00 * 2 ^ 39) (* major 0xfff, minor 0xff, ino 2^39-1 *)
  /\ encodeLikely 0x801 549755813888 = None                              (* ino = 2^39 *)
  /\ encodeLikely 0x1000000 1 = None                                     (* minor 0x1000: 13 bits *)
  /\ encodeLikely 0x100000801 1 = None.                                  (* upper device bits *)
Proof. vm_compute. repeat split. Qed.
