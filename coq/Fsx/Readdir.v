(** C19 model, part 1: QIDs, directory entries, [fsimpl/readdir.Readdir], the
    Rreaddir truncation of [p9/messages.go] and the count clamps of
    [p9/handlers.go] (treaddir) and [p9/client_file.go] (Readdir).
    Definitions only; proofs are in ReaddirProofs.v.  Stdlib lists + lia. *)
From Coq Require Import NArith String List.
From P9V Require Import Base.Str gen.ConstGen.
Import ListNotations.
Open Scope N_scope.

Record qid := mkQid { q_type : N; q_version : N; q_path : N }.
Record dirent := mkDirent { d_qid : qid; d_off : N; d_type : N; d_name : string }.

Definition qid_eqb (a b : qid) : bool :=
  (q_type a =? q_type b) && (q_version a =? q_version b) && (q_path a =? q_path b).
Definition dirent_eqb (a b : dirent) : bool :=
  qid_eqb (d_qid a) (d_qid b) && (d_off a =? d_off b) && (d_type a =? d_type b) && String.eqb (d_name a) (d_name b).

(** [takeN n l] / [dropN n l]: l[:min n len] and l[min n len:] with an [N] count
    (a count near 2^32 must never become a unary number). *)
Fixpoint takeN {A} (n : N) (l : list A) : list A :=
  match l with
  | [] => []
  | x :: r => if n =? 0 then [] else x :: takeN (n - 1) r
  end.
Fixpoint dropN {A} (n : N) (l : list A) : list A :=
  match l with
  | [] => []
  | x :: r => if n =? 0 then l else dropN (n - 1) r
  end.

Definition lenN {A} (l : list A) : N := N.of_nat (List.length l).

(** Entries for [l], the first one numbered [start + 1]:
      Dirent{QID: qids[name], Type: qids[name].Type, Offset: offset + i + 1, Name: name} *)
Fixpoint number_from (q : string -> qid) (start : N) (l : list string) : list dirent :=
  match l with
  | [] => []
  | n :: r => mkDirent (q n) (start + 1) (q_type (q n)) n :: number_from q (start + 1) r
  end.

(** readdir.Readdir(offset, count, names, qids).
      if offset >= len(names) { return nil }
      end := int(min(offset+uint64(count), uint64(len(names))))
      names[offset:end]
    [offset + uint64(count)] cannot wrap: offset < len(names) <= 2^63-1 (a Go
    slice length is an int) and count < 2^32, so the sum is below 2^64; hence
    also end >= offset and the slice expression cannot panic. *)
Definition static_readdir (q : string -> qid) (names : list string) (offset count : N) : list dirent :=
  if lenN names <=? offset then []
  else let e := N.min (offset + count) (lenN names) in
       number_from q offset (takeN (e - offset) (dropN offset names)).

(** Encoded size of one entry: qid[13] offset[8] type[1] len[2] name. *)
Definition entry_size (d : dirent) : N := 24 + N.of_nat (String.length (d_name d)).

(** rreaddir.encode: entries are appended to a scratch buffer one by one; the
    loop stops at the first entry that makes the buffer longer than Count; the
    payload is the buffer up to the last entry that still fitted. *)
Fixpoint wire_trunc (acc count : N) (es : list dirent) : list dirent :=
  match es with
  | [] => []
  | d :: r => if count <? acc + entry_size d then [] else d :: wire_trunc (acc + entry_size d) count r
  end.

(** connState.maxReplyPayload (msize 0 = not negotiated -> maximumLength) *)
Definition max_reply_payload (msize : N) : N :=
  let m := if msize =? 0 then p9_maximumLength else msize in
  if m <? 11 then 0 else m - 11.

(** treaddir.handle on an opened directory fid whose File.Readdir is [rd]:
    the File sees the requested Count; the reply is cut to whole entries within
    min(Count, msize - 11). *)
Definition server_readdir (msize : N) (rd : N -> N -> list dirent) (offset count : N) : list dirent :=
  wire_trunc 0 (N.min count (max_reply_payload msize)) (rd offset count).

(** clientFile.Readdir: [max := messageSize - (headerLength + 4)] is a uint32
    subtraction (wraps when messageSize < 11); count is lowered to it. *)
Definition client_clamp (msize count : N) : N :=
  N.min count ((msize + 4294967296 - 11) mod 4294967296).

(** client + server on one connection with negotiated [msize]; decoding the
    payload gives back the entries that were encoded (C01). *)
Definition remote_readdir (msize : N) (rd : N -> N -> list dirent) (offset count : N) : list dirent :=
  server_readdir msize rd offset (client_clamp msize count).
