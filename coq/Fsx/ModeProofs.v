(** C20: the finite-domain theorems about Mode.v (7 types x 4096 permission words,
    vm_compute lifted with forallb_forall). *)
From Coq Require Import NArith List Bool Lia.
From P9V Require Import gen.ConstGen Fsx.Mode.
Import ListNotations.
Open Scope N_scope.

Lemma In_Nrange n p : p < N.of_nat n -> In p (Nrange n).
Proof.
  intros H. unfold Nrange. apply in_map_iff. exists (N.to_nat p). split; [apply N2Nat.id|].
  apply in_seq. lia.
Qed.

Lemma all_modes_ok : forallb (fun t => forallb (mode_ok t) (Nrange 4096)) valid_types = true.
Proof. vm_compute. reflexivity. Qed.

Lemma mode_ok_all t p : In t valid_types -> p < 4096 -> mode_ok t p = true.
Proof.
  intros Ht Hp. pose proof all_modes_ok as H. rewrite forallb_forall in H.
  specialize (H t Ht). rewrite forallb_forall in H. apply H. apply In_Nrange. exact Hp.
Qed.

Theorem mode_roundtrip t p : In t valid_types -> p < 4096 ->
  ModeFromOS (OSMode (N.lor t p)) = N.lor t p.
Proof.
  intros Ht Hp. pose proof (mode_ok_all t p Ht Hp) as H. unfold mode_ok in H.
  rewrite !andb_true_iff in H. destruct H as (((H & _) & _) & _). now apply N.eqb_eq.
Qed.

Theorem qidtype_matches t p : In t valid_types -> p < 4096 ->
  FileType (N.lor t p) = t /\ QIDType (N.lor t p) = qidtype_of_type t /\
  QIDType (ModeFromOS (OSMode (N.lor t p))) = QIDType (N.lor t p).
Proof.
  intros Ht Hp. pose proof (mode_ok_all t p Ht Hp) as H. unfold mode_ok in H.
  rewrite !andb_true_iff in H. destruct H as (((_ & H1) & H2) & H3).
  repeat split; now apply N.eqb_eq.
Qed.

(** for every mode word whatever: the QID type is a function of the type bits only *)
Theorem qidtype_of_filetype m : QIDType m = qidtype_of_type (FileType m).
Proof. reflexivity. Qed.

Lemma all_stat_ok : forallb (fun t => forallb (stat_ok t) (Nrange 4096)) valid_types = true.
Proof. vm_compute. reflexivity. Qed.

(** for every kind of file and every permission word: the FileMode localfs derives
    from the stat result is the st_mode itself (what GetAttr reports as Attr.Mode),
    and the QID type info() computes is the one the table gives that file type *)
Theorem stat_mode_and_type t p : In t valid_types -> p < 4096 ->
  ModeFromOS (os_mode_of_stat (N.lor t p)) = N.lor t p /\
  info_type (N.lor t p) = qidtype_of_type t /\ info_type (N.lor t p) = QIDType (N.lor t p).
Proof.
  intros Ht Hp. pose proof all_stat_ok as H. rewrite forallb_forall in H.
  specialize (H t Ht). rewrite forallb_forall in H. specialize (H p (In_Nrange 4096 p Hp)).
  unfold stat_ok in H. rewrite !andb_true_iff in H. destruct H as ((H1 & H2) & H3).
  repeat split; now apply N.eqb_eq.
Qed.
