(** C20: the localfs fallback table under every interleaving of concurrent
    localToQid calls (Load, atomic Add, atomic LoadOrStore): each pair keeps one
    path for good, distinct pairs get distinct paths, all above 2^63. *)
From Coq Require Import NArith List Bool Lia ZArith ZifyN ZifyBool ZifyNat.
From P9V Require Import gen.ConstGen Fsx.Qid Fsx.QidArith.
Import ListNotations.
Open Scope N_scope.

(** The unbounded counter ("ideal" model).  Everything is proved of it first;
    below, the uint64 model of Qid.v is shown to coincide with it as long as fewer
    than 2^63 steps are taken (every allocation is a step), and the theorems are
    restated for the uint64 model under that explicit bound. *)
Notation fstep1_i := (fstep1g (fun n => n + 1)).
Notation fstep_i := (fstepg (fun n => n + 1)).
Notation frun_i := (frung (fun n => n + 1)).
Notation local_to_qid_i := (local_to_qid_g (fun n => n + 1)).

Lemma key_eqb_eq a b : key_eqb a b = true <-> a = b.
Proof.
  destruct a, b. unfold key_eqb. cbn. rewrite andb_true_iff, !N.eqb_eq.
  split; [intros [-> ->]; reflexivity|intros H; inversion H; auto].
Qed.
Lemma key_eqb_refl a : key_eqb a a = true.
Proof. now apply key_eqb_eq. Qed.

Lemma nth_upd {A} (l : list A) : forall i j x,
  nth_error (upd i x l) j =
  if Nat.eqb i j then match nth_error l i with Some _ => Some x | None => None end else nth_error l j.
Proof.
  induction l as [|y l IH]; intros i j x.
  - destruct i, j; cbn; try reflexivity; destruct (Nat.eqb _ _); reflexivity.
  - destruct i as [|i], j as [|j]; cbn; try reflexivity. apply IH.
Qed.

Record FInv (s : fstate) : Prop := {
  fi_next : next0 <= f_next s;
  fi_rng : forall k v, klookup k (f_tbl s) = Some v -> next0 < v <= f_next s;
  fi_inj : forall k k' v, klookup k (f_tbl s) = Some v -> klookup k' (f_tbl s) = Some v -> k = k';
  fi_pend : forall i k v, nth_error (f_thr s) i = Some (FStore k v) ->
                          next0 < v <= f_next s /\ forall k', klookup k' (f_tbl s) <> Some v;
  fi_uniq : forall i j k k' v, nth_error (f_thr s) i = Some (FStore k v) ->
                               nth_error (f_thr s) j = Some (FStore k' v) -> i = j;
  fi_done : forall i k r, nth_error (f_thr s) i = Some (FDone k r) -> klookup k (f_tbl s) = Some r
}.

Lemma finit_inv keys : FInv (finit keys).
Proof.
  unfold finit. split; cbn; try discriminate; try lia.
  - intros i k v H. apply nth_error_In, in_map_iff in H as (? & ? & _). discriminate.
  - intros i j k k' v H. apply nth_error_In, in_map_iff in H as (? & ? & _). discriminate.
  - intros i k r H. apply nth_error_In, in_map_iff in H as (? & ? & _). discriminate.
Qed.

Ltac nthcase H i j :=
  rewrite nth_upd in H; destruct (Nat.eqb_spec i j); [subst j|].

Lemma fstep_inv s i : FInv s -> FInv (fstep_i s i).
Proof.
  intros I. unfold fstepg. destruct (nth_error (f_thr s) i) as [p|] eqn:Ep; [|exact I].
  destruct I as [Inx Irng Iinj Ipend Iuniq Idone].
  destruct p as [k|k|k v|k r]; cbn [fstep1g].
  - (* Load *)
    destruct (klookup k (f_tbl s)) as [v|] eqn:El; split; cbn [f_tbl f_next f_thr]; auto.
    + intros j k0 v0 H. nthcase H i j; [rewrite Ep in H; discriminate|eauto].
    + intros j j' k0 k1 v0 H H'. nthcase H i j; [rewrite Ep in H; discriminate|].
      nthcase H' i j'; [rewrite Ep in H'; discriminate|eauto].
    + intros j k0 r H. nthcase H i j; [rewrite Ep in H; inversion H; subst; exact El|eauto].
    + intros j k0 v0 H. nthcase H i j; [rewrite Ep in H; discriminate|eauto].
    + intros j j' k0 k1 v0 H H'. nthcase H i j; [rewrite Ep in H; discriminate|].
      nthcase H' i j'; [rewrite Ep in H'; discriminate|eauto].
    + intros j k0 r H. nthcase H i j; [rewrite Ep in H; discriminate|eauto].
  - (* Add *)
    split; cbn [f_tbl f_next f_thr]; auto.
    + lia.
    + intros k0 v H. specialize (Irng _ _ H). lia.
    + intros j k0 v0 H. nthcase H i j.
      * rewrite Ep in H. inversion H; subst. split; [lia|]. intros k' Hk. specialize (Irng _ _ Hk). lia.
      * destruct (Ipend _ _ _ H) as (R & N). split; [lia|exact N].
    + intros j j' k0 k1 v0 H H'. nthcase H i j; nthcase H' i j'; auto.
      * rewrite Ep in H. inversion H; subst. destruct (Ipend _ _ _ H') as (R & _). lia.
      * rewrite Ep in H'. inversion H'; subst. destruct (Ipend _ _ _ H) as (R & _). lia.
      * eauto.
    + intros j k0 r H. nthcase H i j; [rewrite Ep in H; discriminate|eauto].
  - (* LoadOrStore *)
    destruct (Ipend _ _ _ Ep) as (Rv & Nv).
    destruct (klookup k (f_tbl s)) as [v'|] eqn:El; split; cbn [f_tbl f_next f_thr]; auto.
    + intros j k0 v0 H. nthcase H i j; [rewrite Ep in H; discriminate|eauto].
    + intros j j' k0 k1 v0 H H'. nthcase H i j; [rewrite Ep in H; discriminate|].
      nthcase H' i j'; [rewrite Ep in H'; discriminate|eauto].
    + intros j k0 r H. nthcase H i j; [rewrite Ep in H; inversion H; subst; exact El|eauto].
    + intros k0 v0. cbn [klookup]. destruct (key_eqb k0 k); [intros [= <-]; exact Rv|apply Irng].
    + intros k0 k1 v0. cbn [klookup].
      destruct (key_eqb k0 k) eqn:E0; destruct (key_eqb k1 k) eqn:E1.
      * apply key_eqb_eq in E0, E1. congruence.
      * intros [= <-] H. exfalso. exact (Nv _ H).
      * intros H [= <-]. exfalso. exact (Nv _ H).
      * apply Iinj.
    + intros j k0 v0 H. nthcase H i j; [rewrite Ep in H; discriminate|].
      destruct (Ipend _ _ _ H) as (R & N). split; [exact R|].
      intros k'. cbn [klookup]. destruct (key_eqb k' k); [|apply N].
      intros [= ->]. apply n. symmetry. eapply Iuniq; eauto.
    + intros j j' k0 k1 v0 H H'. nthcase H i j; [rewrite Ep in H; discriminate|].
      nthcase H' i j'; [rewrite Ep in H'; discriminate|eauto].
    + intros j k0 r H. cbn [klookup]. nthcase H i j.
      * rewrite Ep in H. inversion H; subst. now rewrite key_eqb_refl.
      * destruct (key_eqb k0 k) eqn:E0; [|eauto].
        apply key_eqb_eq in E0. subst k0. specialize (Idone _ _ _ H). congruence.
  - (* returned already *)
    split; cbn [f_tbl f_next f_thr]; auto.
    + intros j k0 v0 H. nthcase H i j; [rewrite Ep in H; discriminate|eauto].
    + intros j j' k0 k1 v0 H H'. nthcase H i j; [rewrite Ep in H; discriminate|].
      nthcase H' i j'; [rewrite Ep in H'; discriminate|eauto].
    + intros j k0 r0 H. nthcase H i j; [rewrite Ep in H; inversion H; subst; eauto|eauto].
Qed.

Lemma frun_inv sched : forall s, FInv s -> FInv (frun_i s sched).
Proof.
  unfold frung. induction sched as [|i sched IH]; intros s I; cbn; [exact I|].
  apply IH. now apply fstep_inv.
Qed.

(** a returned result is never revised, the table entry it came from stays *)
Lemma fstep_done_stable s i j k r :
  nth_error (f_thr s) j = Some (FDone k r) -> nth_error (f_thr (fstep_i s i)) j = Some (FDone k r).
Proof.
  intros H. unfold fstepg. destruct (nth_error (f_thr s) i) as [p|] eqn:Ep; [|exact H].
  destruct (fstep1_i (f_tbl s) (f_next s) p) as [[t n] p'] eqn:E. cbn [f_thr].
  rewrite nth_upd. destruct (Nat.eqb_spec i j) as [->|]; [|exact H].
  rewrite Ep. rewrite Ep in H. inversion H; subst. cbn in E. inversion E; subst. reflexivity.
Qed.

Lemma frun_done_stable sched : forall s j k r,
  nth_error (f_thr s) j = Some (FDone k r) -> nth_error (f_thr (frun_i s sched)) j = Some (FDone k r).
Proof.
  unfold frung. induction sched as [|i sched IH]; intros s j k r H; cbn; [exact H|].
  apply IH. now apply fstep_done_stable.
Qed.

(** C20_fallback: any number of concurrent lookups of any pairs, any schedule,
    looked at any time and again any time later: results that were returned
    stay, the same pair always gets the same path, different pairs different
    paths, every path is above 2^63 (so never a compact encoding). *)
Theorem fallback_all_interleavings_i keys sched sched2 i j k k' r r' :
  let s := frun_i (finit keys) sched in
  let s2 := frun_i s sched2 in
  nth_error (f_thr s) i = Some (FDone k r) ->
  nth_error (f_thr s2) j = Some (FDone k' r') ->
  nth_error (f_thr s2) i = Some (FDone k r) /\
  (k = k' <-> r = r') /\ 2 ^ 63 < r /\ 2 ^ 63 < r'.
Proof.
  intros s s2 Hi Hj.
  assert (I2 : FInv s2) by (apply frun_inv, frun_inv, finit_inv).
  assert (Hi2 := frun_done_stable sched2 s _ _ _ Hi). fold s2 in Hi2.
  split; [exact Hi2|].
  pose proof (fi_done _ I2 _ _ _ Hi2) as L1. pose proof (fi_done _ I2 _ _ _ Hj) as L2.
  split; [split|].
  - intros <-. congruence.
  - intros <-. eapply (fi_inj _ I2); eauto.
  - change (2 ^ 63) with next0. split; [apply (fi_rng _ I2 _ _ L1)|apply (fi_rng _ I2 _ _ L2)].
Qed.

(** the uninterleaved function is the three steps run in a row *)
Lemma local_to_qid_is_run_i t n d i : encodeLikely d i = None ->
  forall thr0, let s := mkF t n (FStart (d, i) :: thr0) in
  let s' := frun_i s [0%nat; 0%nat; 0%nat] in
  let '(r, t', n') := local_to_qid_i t n d i in
  f_tbl s' = t' /\ f_next s' = n' /\ nth_error (f_thr s') 0 = Some (FDone (d, i) r).
Proof.
  intros E thr0. unfold local_to_qid_g. rewrite E. cbn.
  destruct (klookup (d, i) t) eqn:L; cbn; [rewrite ?L; cbn; auto|].
  rewrite L. cbn. auto.
Qed.

(** sequential histories: a path handed out for a pair is handed out again on
    every later call, whatever was looked up in between *)
Fixpoint lrun_i (t : list (key * N)) (n : N) (h : list key) : list (key * N) * N :=
  match h with
  | [] => (t, n)
  | (d, i) :: r => let '(_, t', n') := local_to_qid_i t n d i in lrun_i t' n' r
  end.

Definition LInv (t : list (key * N)) (n : N) : Prop :=
  next0 <= n /\ (forall k v, klookup k t = Some v -> next0 < v <= n) /\
  (forall k k' v, klookup k t = Some v -> klookup k' t = Some v -> k = k').

Lemma local_to_qid_inv_i t n d i r t' n' :
  LInv t n -> local_to_qid_i t n d i = (r, t', n') ->
  LInv t' n' /\ (forall k v, klookup k t = Some v -> klookup k t' = Some v) /\
  (encodeLikely d i = None -> klookup (d, i) t' = Some r) /\
  (encodeLikely d i = Some r \/ encodeLikely d i = None).
Proof.
  intros (Hn & Hr & Hi) H. unfold local_to_qid_g in H.
  destruct (encodeLikely d i) as [q|] eqn:E.
  - inversion H; subst. split; [split; [|split]; assumption|]. split; [auto|]. split; [discriminate|left; reflexivity].
  - destruct (klookup (d, i) t) as [v|] eqn:L.
    + inversion H; subst. split; [split; [|split]; assumption|]. split; [auto|]. split; [intros _; exact L|right; reflexivity].
    + inversion H; subst. clear H. split; [|split; [|split]]; auto.
      * split; [lia|]. split.
        -- intros k v. cbn. destruct (key_eqb k (d, i)); [intros [= <-]; lia|]. intros X. specialize (Hr _ _ X). lia.
        -- intros k k' v. cbn. destruct (key_eqb k (d, i)) eqn:E0; destruct (key_eqb k' (d, i)) eqn:E1.
           ++ apply key_eqb_eq in E0, E1. congruence.
           ++ intros [= <-] X. specialize (Hr _ _ X). lia.
           ++ intros X [= <-]. specialize (Hr _ _ X). lia.
           ++ apply Hi.
      * intros k v X. cbn. destruct (key_eqb k (d, i)) eqn:E0; [|exact X].
        apply key_eqb_eq in E0. subst k. congruence.
      * intros _. cbn. now rewrite key_eqb_refl.
Qed.

Lemma lrun_inv h : forall t n t' n', LInv t n -> lrun_i t n h = (t', n') ->
  LInv t' n' /\ forall k v, klookup k t = Some v -> klookup k t' = Some v.
Proof.
  induction h as [|[d i] h IH]; intros t n t' n' I H; cbn in H.
  - inversion H; subst. auto.
  - destruct (local_to_qid_i t n d i) as [[r t1] n1] eqn:E.
    destruct (local_to_qid_inv_i _ _ _ _ _ _ _ I E) as (I1 & X1 & _).
    destruct (IH _ _ _ _ I1 H) as (I2 & X2). auto.
Qed.

Theorem local_to_qid_stable_injective_i h1 h2 d i d' i' r r' t1 n1 t2 n2 t3 n3 t4 n4 :
  d < two64 -> i < two64 -> d' < two64 -> i' < two64 ->
  lrun_i [] next0 h1 = (t1, n1) -> local_to_qid_i t1 n1 d i = (r, t2, n2) ->
  lrun_i t2 n2 h2 = (t3, n3) -> local_to_qid_i t3 n3 d' i' = (r', t4, n4) ->
  ((d, i) = (d', i') <-> r = r').
Proof.
  intros Hd Hi Hd' Hi' R1 L1 R2 L2.
  assert (I0 : LInv [] next0) by (repeat split; cbn; try discriminate; lia).
  destruct (lrun_inv _ _ _ _ _ I0 R1) as (I1 & _).
  destruct (local_to_qid_inv_i _ _ _ _ _ _ _ I1 L1) as (I2 & _ & S1 & C1).
  destruct (lrun_inv _ _ _ _ _ I2 R2) as (I3 & X23).
  destruct (local_to_qid_inv_i _ _ _ _ _ _ _ I3 L2) as (I4 & X34 & S2 & C2).
  destruct I4 as (_ & Hr4 & Hi4).
  destruct C1 as [C1|C1]; destruct C2 as [C2|C2].
  - split; [intros [= <- <-]; congruence|intros <-]. destruct (encodeLikely_inj _ _ _ _ _ Hd Hi Hd' Hi' C1 C2). congruence.
  - specialize (S2 C2). apply Hr4 in S2. pose proof (encodeLikely_below _ _ _ Hd Hi C1) as B.
    change (2 ^ 63) with next0 in B. split; [intros [= <- <-]; congruence|lia].
  - specialize (S1 C1). apply X23, X34, Hr4 in S1. pose proof (encodeLikely_below _ _ _ Hd' Hi' C2) as B.
    change (2 ^ 63) with next0 in B. split; [intros [= <- <-]; congruence|lia].
  - specialize (S1 C1). specialize (S2 C2). apply X23, X34 in S1.
    split; [intros [= <- <-]; congruence|intros <-; eapply Hi4; eauto].
Qed.

(** what the value key is for: keyed by pointer, the second lookup of the same
    unlikely pair gets another path *)
Lemma ptrkey_refuted :
  let '(r1, t1, n1) := local_to_qid_ptrkey [] next0 0x100000801 7 in
  let '(r2, _, _) := local_to_qid_ptrkey t1 n1 0x100000801 7 in
  r1 <> r2.
Proof. vm_compute. discriminate. Qed.

(** what the second look of LoadOrStore is for: with a miss path that stores without looking again (a map behind an
    RWMutex, read lock for the lookup, write lock for the insertion), two first lookups of one pair that both miss
    before either stores are handed two paths, and only the later one is ever returned again *)
Lemma unchecked_store_refuted :
  let k := (0x100000801, 7) in
  let s := frun_unchecked (finit [k; k; k]) [0; 1; 0; 1; 2]%nat in
  f_thr s = [FDone k (next0 + 1); FDone k (next0 + 2); FDone k (next0 + 2)].
Proof. vm_compute. reflexivity. Qed.

(** * the uint64 counter: coincides with the unbounded one below the bound *)
Lemma inc64_small n : n + 1 < two64 -> inc64 n = n + 1.
Proof. intros H. unfold inc64. now apply N.mod_small. Qed.

Lemma fstep_eq_i s i : f_next s + 1 < two64 -> fstep s i = fstep_i s i.
Proof.
  intros H. unfold fstep, fstepg. destruct (nth_error (f_thr s) i) as [p|]; [|reflexivity].
  destruct p; cbn [fstep1g]; try reflexivity. now rewrite inc64_small.
Qed.

Lemma fstep_i_next s i : f_next (fstep_i s i) <= f_next s + 1.
Proof.
  unfold fstepg. destruct (nth_error (f_thr s) i) as [p|]; [|lia].
  destruct p as [k|k|k v|k r]; cbn [fstep1g]; try destruct (klookup k (f_tbl s)); cbn [f_next]; lia.
Qed.

Lemma frun_eq_i sched : forall s, f_next s + N.of_nat (length sched) < two64 -> frun s sched = frun_i s sched.
Proof.
  unfold frun, frung. induction sched as [|i sched IH]; intros s H; [reflexivity|].
  cbn [fold_left length] in *. change (fstepg inc64 s i) with (fstep s i).
  rewrite fstep_eq_i by lia. apply IH. pose proof (fstep_i_next s i). lia.
Qed.

Lemma frun_app inc s a b : frung inc s (a ++ b) = frung inc (frung inc s a) b.
Proof. unfold frung. apply fold_left_app. Qed.

(** C20_fallback for the uint64 model: any number of concurrent lookups, any
    schedule of fewer than 2^63 steps in total (each allocation is one step) *)
Theorem fallback_all_interleavings keys sched sched2 i j k k' r r' :
  N.of_nat (length sched + length sched2) < 2 ^ 63 ->
  let s := frun (finit keys) sched in
  let s2 := frun s sched2 in
  nth_error (f_thr s) i = Some (FDone k r) ->
  nth_error (f_thr s2) j = Some (FDone k' r') ->
  nth_error (f_thr s2) i = Some (FDone k r) /\
  (k = k' <-> r = r') /\ 2 ^ 63 < r /\ 2 ^ 63 < r'.
Proof.
  intros Hb s s2.
  assert (E1 : s = frun_i (finit keys) sched).
  { unfold s. apply frun_eq_i. cbn [finit f_next]. unfold next0, two64. change (2 ^ 63) with 9223372036854775808 in Hb. lia. }
  assert (E2 : s2 = frun_i (frun_i (finit keys) sched) sched2).
  { unfold s2, s. unfold frun. rewrite <- !frun_app. apply (frun_eq_i (sched ++ sched2)).
    cbn [finit f_next]. rewrite app_length. unfold next0, two64. change (2 ^ 63) with 9223372036854775808 in Hb. lia. }
  rewrite E1, E2. apply fallback_all_interleavings_i.
Qed.

(** sequential histories, uint64 counter *)
Fixpoint lrun (t : list (key * N)) (n : N) (h : list key) : list (key * N) * N :=
  match h with
  | [] => (t, n)
  | (d, i) :: r => let '(_, t', n') := local_to_qid t n d i in lrun t' n' r
  end.

Lemma local_to_qid_eq_i t n d i : n + 1 < two64 -> local_to_qid t n d i = local_to_qid_i t n d i.
Proof. intros H. unfold local_to_qid, local_to_qid_g. now rewrite inc64_small. Qed.

Lemma local_to_qid_i_next t n d i r t' n' : local_to_qid_i t n d i = (r, t', n') -> n' <= n + 1.
Proof.
  unfold local_to_qid_g. destruct (encodeLikely d i); [intros [= _ _ <-]; lia|].
  destruct (klookup (d, i) t); intros [= _ _ <-]; lia.
Qed.

Lemma lrun_eq_i h : forall t n t' n', n + N.of_nat (length h) < two64 ->
  lrun t n h = (t', n') -> lrun_i t n h = (t', n') /\ n' <= n + N.of_nat (length h).
Proof.
  induction h as [|[d i] h IH]; intros t n t' n' Hb H; cbn [lrun lrun_i length] in *.
  - inversion H; subst. split; [reflexivity|lia].
  - rewrite local_to_qid_eq_i in H by lia.
    destruct (local_to_qid_i t n d i) as [[r t1] n1] eqn:E.
    pose proof (local_to_qid_i_next _ _ _ _ _ _ _ E) as Hn.
    destruct (IH t1 n1 t' n') as (A & B); [lia|exact H|]. split; [exact A|lia].
Qed.

(** C20 for the whole localToQid with its uint64 counter: fewer than 2^63 calls in all *)
Theorem local_to_qid_stable_injective h1 h2 d i d' i' r r' t1 n1 t2 n2 t3 n3 t4 n4 :
  N.of_nat (length h1 + length h2) + 2 < 2 ^ 63 ->
  d < two64 -> i < two64 -> d' < two64 -> i' < two64 ->
  lrun [] next0 h1 = (t1, n1) -> local_to_qid t1 n1 d i = (r, t2, n2) ->
  lrun t2 n2 h2 = (t3, n3) -> local_to_qid t3 n3 d' i' = (r', t4, n4) ->
  ((d, i) = (d', i') <-> r = r').
Proof.
  intros Hb Hd Hi Hd' Hi' R1 L1 R2 L2.
  change (2 ^ 63) with 9223372036854775808 in Hb.
  assert (B0 : next0 = 9223372036854775808) by reflexivity. assert (B1 : two64 = 18446744073709551616) by reflexivity.
  rewrite Nat2N.inj_add in Hb.
  destruct (lrun_eq_i h1 [] next0 t1 n1) as (R1' & N1); [lia|exact R1|].
  rewrite local_to_qid_eq_i in L1 by lia.
  pose proof (local_to_qid_i_next _ _ _ _ _ _ _ L1) as N2.
  destruct (lrun_eq_i h2 t2 n2 t3 n3) as (R2' & N3); [lia|exact R2|].
  rewrite local_to_qid_eq_i in L2 by lia.
  eapply local_to_qid_stable_injective_i; eauto.
Qed.

(** the uninterleaved function is the three steps of the interleaving model (both with the uint64 counter) *)
Lemma local_to_qid_is_run t n d i : encodeLikely d i = None ->
  forall thr0, let s := mkF t n (FStart (d, i) :: thr0) in
  let s' := frun s [0%nat; 0%nat; 0%nat] in
  let '(r, t', n') := local_to_qid t n d i in
  f_tbl s' = t' /\ f_next s' = n' /\ nth_error (f_thr s') 0 = Some (FDone (d, i) r).
Proof.
  intros E thr0. unfold local_to_qid, local_to_qid_g. rewrite E. cbn.
  destruct (klookup (d, i) t) eqn:L; cbn; [rewrite ?L; cbn; auto|].
  rewrite L. cbn. auto.
Qed.
