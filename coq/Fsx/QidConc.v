(** C20: the localfs fallback table under every interleaving of concurrent
    localToQid calls (Load, atomic Add, atomic LoadOrStore): each pair keeps one
    path for good, distinct pairs get distinct paths, all above 2^63. *)
From Coq Require Import NArith List Bool Lia ZArith ZifyN ZifyBool ZifyNat.
From P9V Require Import gen.ConstGen Fsx.Qid Fsx.QidArith.
Import ListNotations.
Open Scope N_scope.

Lemma key_eqb_eq a b : key_eqb a b = true <-> a = b.
Proof.
  destruct a, b. unfold key_eqb. cbn. rewrite andb_true_iff, !N.eqb_eq.
  split; [intros [-> ->]; reflexivity|intros H; inversion H; auto].
Qed.
Lemma key_eqb_refl a : key_eqb a a = true.
Proof. now apply key_eqb_eq. Qed.

Lemma nth_upd {A} (l : list A) : forall i j x,
  nth_error (upd i x l) j =
  if Nat.eqb i j then match nth_error l i with Some _ => Some x | None => None end else nth_error l j.
Proof.
  induction l as [|y l IH]; intros i j x.
  - destruct i, j; cbn; try reflexivity; destruct (Nat.eqb _ _); reflexivity.
  - destruct i as [|i], j as [|j]; cbn; try reflexivity. apply IH.
Qed.

Record FInv (s : fstate) : Prop := {
  fi_next : next0 <= f_next s;
  fi_rng : forall k v, klookup k (f_tbl s) = Some v -> next0 < v <= f_next s;
  fi_inj : forall k k' v, klookup k (f_tbl s) = Some v -> klookup k' (f_tbl s) = Some v -> k = k';
  fi_pend : forall i k v, nth_error (f_thr s) i = Some (FStore k v) ->
                          next0 < v <= f_next s /\ forall k', klookup k' (f_tbl s) <> Some v;
  fi_uniq : forall i j k k' v, nth_error (f_thr s) i = Some (FStore k v) ->
                               nth_error (f_thr s) j = Some (FStore k' v) -> i = j;
  fi_done : forall i k r, nth_error (f_thr s) i = Some (FDone k r) -> klookup k (f_tbl s) = Some r
}.

Lemma finit_inv keys : FInv (finit keys).
Proof.
  unfold finit. split; cbn; try discriminate; try lia.
  - intros i k v H. apply nth_error_In, in_map_iff in H as (? & ? & _). discriminate.
  - intros i j k k' v H. apply nth_error_In, in_map_iff in H as (? & ? & _). discriminate.
  - intros i k r H. apply nth_error_In, in_map_iff in H as (? & ? & _). discriminate.
Qed.

Ltac nthcase H i j :=
  rewrite nth_upd in H; destruct (Nat.eqb_spec i j); [subst j|].

Lemma fstep_inv s i : FInv s -> FInv (fstep s i).
Proof.
  intros I. unfold fstep. destruct (nth_error (f_thr s) i) as [p|] eqn:Ep; [|exact I].
  destruct I as [Inx Irng Iinj Ipend Iuniq Idone].
  destruct p as [k|k|k v|k r]; cbn [fstep1].
  - (* Load *)
    destruct (klookup k (f_tbl s)) as [v|] eqn:El; split; cbn [f_tbl f_next f_thr]; auto.
    + intros j k0 v0 H. nthcase H i j; [rewrite Ep in H; discriminate|eauto].
    + intros j j' k0 k1 v0 H H'. nthcase H i j; [rewrite Ep in H; discriminate|].
      nthcase H' i j'; [rewrite Ep in H'; discriminate|eauto].
    + intros j k0 r H. nthcase H i j; [rewrite Ep in H; inversion H; subst; exact El|eauto].
    + intros j k0 v0 H. nthcase H i j; [rewrite Ep in H; discriminate|eauto].
    + intros j j' k0 k1 v0 H H'. nthcase H i j; [rewrite Ep in H; discriminate|].
      nthcase H' i j'; [rewrite Ep in H'; discriminate|eauto].
    + intros j k0 r H. nthcase H i j; [rewrite Ep in H; discriminate|eauto].
  - (* Add *)
    split; cbn [f_tbl f_next f_thr]; auto.
    + lia.
    + intros k0 v H. specialize (Irng _ _ H). lia.
    + intros j k0 v0 H. nthcase H i j.
      * rewrite Ep in H. inversion H; subst. split; [lia|]. intros k' Hk. specialize (Irng _ _ Hk). lia.
      * destruct (Ipend _ _ _ H) as (R & N). split; [lia|exact N].
    + intros j j' k0 k1 v0 H H'. nthcase H i j; nthcase H' i j'; auto.
      * rewrite Ep in H. inversion H; subst. destruct (Ipend _ _ _ H') as (R & _). lia.
      * rewrite Ep in H'. inversion H'; subst. destruct (Ipend _ _ _ H) as (R & _). lia.
      * eauto.
    + intros j k0 r H. nthcase H i j; [rewrite Ep in H; discriminate|eauto].
  - (* LoadOrStore *)
    destruct (Ipend _ _ _ Ep) as (Rv & Nv).
    destruct (klookup k (f_tbl s)) as [v'|] eqn:El; split; cbn [f_tbl f_next f_thr]; auto.
    + intros j k0 v0 H. nthcase H i j; [rewrite Ep in H; discriminate|eauto].
    + intros j j' k0 k1 v0 H H'. nthcase H i j; [rewrite Ep in H; discriminate|].
      nthcase H' i j'; [rewrite Ep in H'; discriminate|eauto].
    + intros j k0 r H. nthcase H i j; [rewrite Ep in H; inversion H; subst; exact El|eauto].
    + intros k0 v0. cbn [klookup]. destruct (key_eqb k0 k); [intros [= <-]; exact Rv|apply Irng].
    + intros k0 k1 v0. cbn [klookup].
      destruct (key_eqb k0 k) eqn:E0; destruct (key_eqb k1 k) eqn:E1.
      * apply key_eqb_eq in E0, E1. congruence.
      * intros [= <-] H. exfalso. exact (Nv _ H).
      * intros H [= <-]. exfalso. exact (Nv _ H).
      * apply Iinj.
    + intros j k0 v0 H. nthcase H i j; [rewrite Ep in H; discriminate|].
      destruct (Ipend _ _ _ H) as (R & N). split; [exact R|].
      intros k'. cbn [klookup]. destruct (key_eqb k' k); [|apply N].
      intros [= ->]. apply n. symmetry. eapply Iuniq; eauto.
    + intros j j' k0 k1 v0 H H'. nthcase H i j; [rewrite Ep in H; discriminate|].
      nthcase H' i j'; [rewrite Ep in H'; discriminate|eauto].
    + intros j k0 r H. cbn [klookup]. nthcase H i j.
      * rewrite Ep in H. inversion H; subst. now rewrite key_eqb_refl.
      * destruct (key_eqb k0 k) eqn:E0; [|eauto].
        apply key_eqb_eq in E0. subst k0. specialize (Idone _ _ _ H). congruence.
  - (* returned already *)
    split; cbn [f_tbl f_next f_thr]; auto.
    + intros j k0 v0 H. nthcase H i j; [rewrite Ep in H; discriminate|eauto].
    + intros j j' k0 k1 v0 H H'. nthcase H i j; [rewrite Ep in H; discriminate|].
      nthcase H' i j'; [rewrite Ep in H'; discriminate|eauto].
    + intros j k0 r0 H. nthcase H i j; [rewrite Ep in H; inversion H; subst; eauto|eauto].
Qed.

Lemma frun_inv sched : forall s, FInv s -> FInv (frun s sched).
Proof.
  unfold frun. induction sched as [|i sched IH]; intros s I; cbn; [exact I|].
  apply IH. now apply fstep_inv.
Qed.

(** a returned result is never revised, the table entry it came from stays *)
Lemma fstep_done_stable s i j k r :
  nth_error (f_thr s) j = Some (FDone k r) -> nth_error (f_thr (fstep s i)) j = Some (FDone k r).
Proof.
  intros H. unfold fstep. destruct (nth_error (f_thr s) i) as [p|] eqn:Ep; [|exact H].
  destruct (fstep1 (f_tbl s) (f_next s) p) as [[t n] p'] eqn:E. cbn [f_thr].
  rewrite nth_upd. destruct (Nat.eqb_spec i j) as [->|]; [|exact H].
  rewrite Ep. rewrite Ep in H. inversion H; subst. cbn in E. inversion E; subst. reflexivity.
Qed.

Lemma frun_done_stable sched : forall s j k r,
  nth_error (f_thr s) j = Some (FDone k r) -> nth_error (f_thr (frun s sched)) j = Some (FDone k r).
Proof.
  unfold frun. induction sched as [|i sched IH]; intros s j k r H; cbn; [exact H|].
  apply IH. now apply fstep_done_stable.
Qed.

(** C20_fallback: any number of concurrent lookups of any pairs, any schedule,
    looked at any time and again any time later: results that were returned
    stay, the same pair always gets the same path, different pairs different
    paths, every path is above 2^63 (so never a compact encoding). *)
Theorem fallback_all_interleavings keys sched sched2 i j k k' r r' :
  let s := frun (finit keys) sched in
  let s2 := frun s sched2 in
  nth_error (f_thr s) i = Some (FDone k r) ->
  nth_error (f_thr s2) j = Some (FDone k' r') ->
  nth_error (f_thr s2) i = Some (FDone k r) /\
  (k = k' <-> r = r') /\ 2 ^ 63 < r /\ 2 ^ 63 < r'.
Proof.
  intros s s2 Hi Hj.
  assert (I2 : FInv s2) by (apply frun_inv, frun_inv, finit_inv).
  assert (Hi2 := frun_done_stable sched2 s _ _ _ Hi). fold s2 in Hi2.
  split; [exact Hi2|].
  pose proof (fi_done _ I2 _ _ _ Hi2) as L1. pose proof (fi_done _ I2 _ _ _ Hj) as L2.
  split; [split|].
  - intros <-. congruence.
  - intros <-. eapply (fi_inj _ I2); eauto.
  - change (2 ^ 63) with next0. split; [apply (fi_rng _ I2 _ _ L1)|apply (fi_rng _ I2 _ _ L2)].
Qed.

(** the uninterleaved function is the three steps run in a row *)
Lemma local_to_qid_is_run t n d i : encodeLikely d i = None ->
  forall thr0, let s := mkF t n (FStart (d, i) :: thr0) in
  let s' := frun s [0%nat; 0%nat; 0%nat] in
  let '(r, t', n') := local_to_qid t n d i in
  f_tbl s' = t' /\ f_next s' = n' /\ nth_error (f_thr s') 0 = Some (FDone (d, i) r).
Proof.
  intros E thr0. unfold local_to_qid. rewrite E. cbn.
  destruct (klookup (d, i) t) eqn:L; cbn; [rewrite ?L; cbn; auto|].
  rewrite L. cbn. auto.
Qed.

(** sequential histories: a path handed out for a pair is handed out again on
    every later call, whatever was looked up in between *)
Fixpoint lrun (t : list (key * N)) (n : N) (h : list key) : list (key * N) * N :=
  match h with
  | [] => (t, n)
  | (d, i) :: r => let '(_, t', n') := local_to_qid t n d i in lrun t' n' r
  end.

Definition LInv (t : list (key * N)) (n : N) : Prop :=
  next0 <= n /\ (forall k v, klookup k t = Some v -> next0 < v <= n) /\
  (forall k k' v, klookup k t = Some v -> klookup k' t = Some v -> k = k').

Lemma local_to_qid_inv t n d i r t' n' :
  LInv t n -> local_to_qid t n d i = (r, t', n') ->
  LInv t' n' /\ (forall k v, klookup k t = Some v -> klookup k t' = Some v) /\
  (encodeLikely d i = None -> klookup (d, i) t' = Some r) /\
  (encodeLikely d i = Some r \/ encodeLikely d i = None).
Proof.
  intros (Hn & Hr & Hi) H. unfold local_to_qid in H.
  destruct (encodeLikely d i) as [q|] eqn:E.
  - inversion H; subst. split; [split; [|split]; assumption|]. split; [auto|]. split; [discriminate|left; reflexivity].
  - destruct (klookup (d, i) t) as [v|] eqn:L.
    + inversion H; subst. split; [split; [|split]; assumption|]. split; [auto|]. split; [intros _; exact L|right; reflexivity].
    + inversion H; subst. clear H. split; [|split; [|split]]; auto.
      * split; [lia|]. split.
        -- intros k v. cbn. destruct (key_eqb k (d, i)); [intros [= <-]; lia|]. intros X. specialize (Hr _ _ X). lia.
        -- intros k k' v. cbn. destruct (key_eqb k (d, i)) eqn:E0; destruct (key_eqb k' (d, i)) eqn:E1.
           ++ apply key_eqb_eq in E0, E1. congruence.
           ++ intros [= <-] X. specialize (Hr _ _ X). lia.
           ++ intros X [= <-]. specialize (Hr _ _ X). lia.
           ++ apply Hi.
      * intros k v X. cbn. destruct (key_eqb k (d, i)) eqn:E0; [|exact X].
        apply key_eqb_eq in E0. subst k. congruence.
      * intros _. cbn. now rewrite key_eqb_refl.
Qed.

Lemma lrun_inv h : forall t n t' n', LInv t n -> lrun t n h = (t', n') ->
  LInv t' n' /\ forall k v, klookup k t = Some v -> klookup k t' = Some v.
Proof.
  induction h as [|[d i] h IH]; intros t n t' n' I H; cbn in H.
  - inversion H; subst. auto.
  - destruct (local_to_qid t n d i) as [[r t1] n1] eqn:E.
    destruct (local_to_qid_inv _ _ _ _ _ _ _ I E) as (I1 & X1 & _).
    destruct (IH _ _ _ _ I1 H) as (I2 & X2). auto.
Qed.

Theorem local_to_qid_stable_injective h1 h2 d i d' i' r r' t1 n1 t2 n2 t3 n3 t4 n4 :
  d < two64 -> i < two64 -> d' < two64 -> i' < two64 ->
  lrun [] next0 h1 = (t1, n1) -> local_to_qid t1 n1 d i = (r, t2, n2) ->
  lrun t2 n2 h2 = (t3, n3) -> local_to_qid t3 n3 d' i' = (r', t4, n4) ->
  ((d, i) = (d', i') <-> r = r').
Proof.
  intros Hd Hi Hd' Hi' R1 L1 R2 L2.
  assert (I0 : LInv [] next0) by (repeat split; cbn; try discriminate; lia).
  destruct (lrun_inv _ _ _ _ _ I0 R1) as (I1 & _).
  destruct (local_to_qid_inv _ _ _ _ _ _ _ I1 L1) as (I2 & _ & S1 & C1).
  destruct (lrun_inv _ _ _ _ _ I2 R2) as (I3 & X23).
  destruct (local_to_qid_inv _ _ _ _ _ _ _ I3 L2) as (I4 & X34 & S2 & C2).
  destruct I4 as (_ & Hr4 & Hi4).
  destruct C1 as [C1|C1]; destruct C2 as [C2|C2].
  - split; [intros [= <- <-]; congruence|intros <-]. destruct (encodeLikely_inj _ _ _ _ _ Hd Hi Hd' Hi' C1 C2). congruence.
  - specialize (S2 C2). apply Hr4 in S2. pose proof (encodeLikely_below _ _ _ Hd Hi C1) as B.
    change (2 ^ 63) with next0 in B. split; [intros [= <- <-]; congruence|lia].
  - specialize (S1 C1). apply X23, X34, Hr4 in S1. pose proof (encodeLikely_below _ _ _ Hd' Hi' C2) as B.
    change (2 ^ 63) with next0 in B. split; [intros [= <- <-]; congruence|lia].
  - specialize (S1 C1). specialize (S2 C2). apply X23, X34 in S1.
    split; [intros [= <- <-]; congruence|intros <-; eapply Hi4; eauto].
Qed.

(** what the value key is for: keyed by pointer, the second lookup of the same
    unlikely pair gets another path *)
Lemma ptrkey_refuted :
  let '(r1, t1, n1) := local_to_qid_ptrkey [] next0 0x100000801 7 in
  let '(r2, _, _) := local_to_qid_ptrkey t1 n1 0x100000801 7 in
  r1 <> r2.
Proof. vm_compute. discriminate. Qed.
