(** Model of fsimpl/qids (PathGenerator, Mapper, the wrapper file) and of how
    staticfs and composefs assign QIDs in Readdir, Walk and GetAttr.
    Sequential semantics (QIDFor runs under Mapper.mu, so a run of concurrent
    requests is some sequence of whole QIDFor calls; the interleaved model is
    in MapperConc.v).  Definitions only. *)
From Coq Require Import NArith String List Bool.
From P9V Require Import Base.Str gen.ConstGen Fsx.Readdir Fsx.Qid.
Import ListNotations.
Open Scope list_scope.
Open Scope N_scope.

(** A Mapper is named by (generator, index): Mappers made with the same
    *PathGenerator share the first component. *)
Definition mid := (nat * nat)%type.
Definition mkey := (mid * N)%type.          (* Mapper, source path: one key of that Mapper's [paths] *)

Definition mid_eqb (a b : mid) : bool := Nat.eqb (fst a) (fst b) && Nat.eqb (snd a) (snd b).
Definition mkey_eqb (a b : mkey) : bool := mid_eqb (fst a) (fst b) && (snd a =? snd b).

Fixpoint tlookup (k : mkey) (t : list (mkey * N)) : option N :=
  match t with
  | [] => None
  | (k', v) :: r => if mkey_eqb k k' then Some v else tlookup k r
  end.

(** all [paths] maps together, and the counter of every PathGenerator *)
Record mstate := mkM { m_tbl : list (mkey * N); m_gen : nat -> N }.
Definition m_init : mstate := mkM [] (fun _ => 0).

(** Mapper.QIDFor: type and version kept; path looked up, else NewPath() = ++uids
    stored.  uids is a uint64: the increment wraps at 2^64 ([inc64]). *)
Definition qid_for (s : mstate) (m : mid) (q : qid) : qid * mstate :=
  match tlookup (m, q_path q) (m_tbl s) with
  | Some p => (mkQid (q_type q) (q_version q) p, s)
  | None =>
      let p := inc64 (m_gen s (fst m)) in
      (mkQid (q_type q) (q_version q) p,
       mkM (((m, q_path q), p) :: m_tbl s) (fun g => if Nat.eqb g (fst m) then p else m_gen s g))
  end.

(** qidTransformFile wrappers around a File, innermost first *)
Fixpoint apply_chain (s : mstate) (c : list mid) (q : qid) : qid * mstate :=
  match c with
  | [] => (q, s)
  | m :: r => let '(q', s') := qid_for s m q in apply_chain s' r q'
  end.

(** A File as far as QIDs go: what the innermost File's GetAttr reports and the
    wrappers around it. *)
Record file := mkFile { f_base : qid; f_chain : list mid }.
Definition getattr (s : mstate) (f : file) : qid * mstate := apply_chain s (f_chain f) (f_base f).

(** A directory: composefs root ([d_stored = None]: Readdir asks every mount's
    GetAttr) or staticfs dir ([d_stored = Some qids]: a.qids, filled by WithFile).
    [d_ents]: name -> the File stored for it (already wrapped with its own Mapper),
    in sorted-name order.  [d_wrap]: wrappers around the directory File itself
    (it is a mount of an outer composefs, possibly several levels). *)
Record dir := mkDir { d_ents : list (string * file); d_stored : option (string -> qid); d_wrap : list mid }.

Fixpoint assoc {A} (n : string) (l : list (string * A)) : option A :=
  match l with
  | [] => None
  | (n', a) :: r => if String.eqb n n' then Some a else assoc n r
  end.

(** composefs root.Readdir, first loop: qids[name] = mounts[name].GetAttr() *)
Fixpoint getattr_all (s : mstate) (l : list (string * file)) : list (string * qid) * mstate :=
  match l with
  | [] => ([], s)
  | (n, f) :: r =>
      let '(q, s1) := getattr s f in
      let '(qs, s2) := getattr_all s1 r in
      ((n, q) :: qs, s2)
  end.

Definition zero_qid : qid := mkQid 0 0 0.       (* Go's zero value for a missing map key *)

(** wrapper Readdir: dirents[i].QID = m.QIDFor(dirents[i].QID), in order; Type is not touched *)
Fixpoint remap_entries (s : mstate) (m : mid) (es : list dirent) : list dirent * mstate :=
  match es with
  | [] => ([], s)
  | d :: r =>
      let '(q, s1) := qid_for s m (d_qid d) in
      let '(r', s2) := remap_entries s1 m r in
      (mkDirent q (d_off d) (d_type d) (d_name d) :: r', s2)
  end.
Fixpoint remap_page (s : mstate) (ws : list mid) (es : list dirent) : list dirent * mstate :=
  match ws with
  | [] => (es, s)
  | m :: r => let '(es', s') := remap_entries s m es in remap_page s' r es'
  end.

Definition dir_readdir (s : mstate) (d : dir) (offset count : N) : list dirent * mstate :=
  let names := map fst (d_ents d) in
  match d_stored d with
  | Some st => remap_page s (d_wrap d) (static_readdir st names offset count)
  | None =>
      let '(qs, s1) := getattr_all s (d_ents d) in
      let q := fun n => match assoc n qs with Some x => x | None => zero_qid end in
      remap_page s1 (d_wrap d) (static_readdir q names offset count)
  end.

(** Walk([name]) on the (wrapped) directory.
    composefs: mounts[name].Walk(nil) gives no QIDs and a clone with the same
    wrappers, so GetAttr is asked; staticfs: a.qids[name] and a.files[name].
    Then each wrapper around the directory maps the QID and wraps the File. *)
Definition dir_walk (s : mstate) (d : dir) (n : string) : option (qid * file * mstate) :=
  match assoc n (d_ents d) with
  | None => None                                   (* ENOENT *)
  | Some f =>
      let '(q0, s0) := match d_stored d with
                       | Some st => (st n, s)
                       | None => getattr s f
                       end in
      let '(q, s1) := apply_chain s0 (d_wrap d) q0 in
      Some (q, mkFile (f_base f) (f_chain f ++ d_wrap d), s1)
  end.

(** staticfs.WithFile for the [i]-th file of an attacher with generator [g]:
    ReadOnlyFile has QID path 0 and type regular; the file is wrapped with a
    new Mapper; a.qids[name] = its GetAttr now. *)
Definition static_file (g i : nat) : file := mkFile (mkQid p9_TypeRegular 0 0) [(g, i)].
Fixpoint static_new (s : mstate) (g : nat) (i : nat) (names : list string)
  : list (string * file) * list (string * qid) * mstate :=
  match names with
  | [] => ([], [], s)
  | n :: r =>
      let '(q, s1) := getattr s (static_file g i) in
      let '(fs, qs, s2) := static_new s1 g (S i) r in
      ((n, static_file g i) :: fs, (n, q) :: qs, s2)
  end.
Definition stored_of (qs : list (string * qid)) : string -> qid :=
  fun n => match assoc n qs with Some x => x | None => zero_qid end.

(** composefs.WithMount / WithFile / WithDir: the File is wrapped with a new
    Mapper [(g, i)] on the composefs's generator [g]; a mounted directory is then
    seen through that wrapper. *)
Definition mount_file (g i : nat) (f : file) : file := mkFile (f_base f) (f_chain f ++ [(g, i)]).
Definition mount_dir (g i : nat) (d : dir) : dir := mkDir (d_ents d) (d_stored d) (d_wrap d ++ [(g, i)]).
Definition root_qid : qid := mkQid p9_TypeDir 0 0.

(** A mount's own identity changes after the file system was built (the host
    directory behind a localfs mount is replaced, a file bumps its QID version):
    the File stored under [n] now reports [q] from GetAttr.  composefs asks the
    mount at every Readdir / Walk, so the root directory after the change is
    simply the directory with the new base. *)
Definition set_base (n : string) (q : qid) (l : list (string * file)) : list (string * file) :=
  map (fun nf => if String.eqb n (fst nf) then (fst nf, mkFile q (f_chain (snd nf))) else nf) l.
Definition dir_set_base (n : string) (q : qid) (d : dir) : dir :=
  mkDir (set_base n q (d_ents d)) (d_stored d) (d_wrap d).

(** the variant that remembers, per mount, the QID its GetAttr gave when it was mounted
    (as staticfs does for its immutable files): Readdir answers from that table *)
Definition dir_cache_at_mount (s : mstate) (d : dir) : dir * mstate :=
  let '(qs, s1) := getattr_all s (d_ents d) in
  (mkDir (d_ents d) (Some (fun n => match assoc n qs with Some x => x | None => zero_qid end)) (d_wrap d), s1).
