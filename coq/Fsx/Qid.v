(** C20 model: localfs QID paths (fsimpl/localfs/system_unix.go).
    [encodeLikely] with the masks and shifts of the code over [N] (uint64
    arguments), [unix.Major]/[unix.Minor] of golang.org/x/sys/unix (Linux),
    and the fallback table of [localToQid] (sync.Map keyed by the devino VALUE,
    counter nextQid starting at 2^63).  Definitions only. *)
From Coq Require Import NArith List Bool.
From P9V Require Import gen.ConstGen.
Import ListNotations.
Open Scope N_scope.

Definition two64 : N := 18446744073709551616.
Definition shl64 (x n : N) : N := (N.shiftl x n) mod two64.      (* uint64 << *)

(** nOnes(n) = (uint64(1) << n) - 1 *)
Definition nOnes (n : N) : N := N.shiftl 1 n - 1.

(** unix.Major / unix.Minor:
      major := uint32((dev & 0x00000000000fff00) >> 8);  major |= uint32((dev & 0xfffff00000000000) >> 32)
      minor := uint32((dev & 0x00000000000000ff) >> 0);  minor |= uint32((dev & 0x00000ffffff00000) >> 12) *)
Definition unix_major (dev : N) : N :=
  N.lor (N.shiftr (N.land dev 0xfff00) 8) (N.shiftr (N.land dev 0xfffff00000000000) 32).
Definition unix_minor (dev : N) : N :=
  N.lor (N.shiftr (N.land dev 0xff) 0) (N.shiftr (N.land dev 0x00000ffffff00000) 12).

(** encodeLikely(dev, ino).  [ino & ^inoLikely] on a uint64 is [N.ldiff]. *)
Definition encodeLikely (dev ino : N) : option N :=
  let inoLikely := nOnes localfs_inodeLikelyBits in
  if negb (N.ldiff ino inoLikely =? 0) then None else
  let upperUnlikely := shl64 (nOnes localfs_devUpperBits) localfs_devUpperOffset in
  if negb (N.land dev upperUnlikely =? 0) then None else
  let major := unix_major dev in
  if nOnes localfs_devMajorLikelyBits <? major then None else
  let minor := unix_minor dev in
  if nOnes localfs_devMinorLikelyBits <? minor then None else
  let q := N.land ino inoLikely in
  let q := N.lor q (shl64 minor localfs_inodeLikelyBits) in
  let q := N.lor q (shl64 major (localfs_inodeLikelyBits + localfs_devMinorLikelyBits)) in
  Some q.

(** * the fallback table *)
Definition key := (N * N)%type.                       (* devino{dev, ino} *)
Definition key_eqb (a b : key) : bool := (fst a =? fst b) && (snd a =? snd b).
Fixpoint klookup (k : key) (t : list (key * N)) : option N :=
  match t with
  | [] => None
  | (k', v) :: r => if key_eqb k k' then Some v else klookup k r
  end.

Definition next0 : N := 9223372036854775808.          (* nextQid.Store(1 << 63) in init() *)

(** One call of localToQid for an unlikely pair, as the steps other calls can
    interleave with:   qids.Load(di)  ->  nextQid.Add(1)  ->  qids.LoadOrStore(di, v). *)
Inductive fpc :=
| FStart (k : key)            (* before Load *)
| FAdd (k : key)              (* Load missed; before nextQid.Add(1) *)
| FStore (k : key) (v : N)    (* holds v; before LoadOrStore *)
| FDone (k : key) (r : N).    (* returned r *)

Record fstate := mkF { f_tbl : list (key * N); f_next : N; f_thr : list fpc }.

Fixpoint upd {A} (i : nat) (x : A) (l : list A) : list A :=
  match l, i with
  | [], _ => []
  | _ :: r, O => x :: r
  | y :: r, S j => y :: upd j x r
  end.

(** nextQid and PathGenerator.uids are uint64 counters: Add(1) wraps at 2^64. *)
Definition inc64 (n : N) : N := (n + 1) mod two64.

(** [inc]: how the counter advances ([inc64] in the code; the proofs also use
    the unbounded [fun n => n + 1] and show the two coincide below the bound) *)
Definition fstep1g (inc : N -> N) (t : list (key * N)) (n : N) (p : fpc) : list (key * N) * N * fpc :=
  match p with
  | FStart k => match klookup k t with Some v => (t, n, FDone k v) | None => (t, n, FAdd k) end
  | FAdd k => let v := inc n in (t, v, FStore k v)
  | FStore k v => match klookup k t with Some v' => (t, n, FDone k v') | None => ((k, v) :: t, n, FDone k v) end
  | FDone _ _ => (t, n, p)
  end.

(** thread [i] takes its next step *)
Definition fstepg (inc : N -> N) (s : fstate) (i : nat) : fstate :=
  match nth_error (f_thr s) i with
  | None => s
  | Some p => let '(t, n, p') := fstep1g inc (f_tbl s) (f_next s) p in mkF t n (upd i p' (f_thr s))
  end.

Definition frung (inc : N -> N) (s : fstate) (sched : list nat) : fstate := fold_left (fstepg inc) sched s.
Definition finit (keys : list key) : fstate := mkF [] next0 (map FStart keys).

Definition fstep1 := fstep1g inc64.
Definition fstep := fstepg inc64.
Definition frun := frung inc64.

(** localToQid as a function (a call that is not interleaved with another) *)
Definition local_to_qid_g (inc : N -> N) (t : list (key * N)) (n : N) (dev ino : N) : N * list (key * N) * N :=
  match encodeLikely dev ino with
  | Some q => (q, t, n)
  | None =>
      match klookup (dev, ino) t with
      | Some v => (v, t, n)
      | None => let v := inc n in
                match klookup (dev, ino) t with          (* LoadOrStore *)
                | Some v' => (v', t, v)
                | None => (v, ((dev, ino), v) :: t, v)
                end
      end
  end.
Definition local_to_qid := local_to_qid_g inc64.

(** The table keyed by pointer (before fix 92a69d1): a fresh pointer is never
    found, every call stores a new entry. *)
Definition local_to_qid_ptrkey (t : list (key * N)) (n : N) (dev ino : N) : N * list (key * N) * N :=
  match encodeLikely dev ino with
  | Some q => (q, t, n)
  | None => let v := inc64 n in (v, ((dev, ino), v) :: t, v)
  end.

(** The fallback table as a plain map behind an RWMutex whose miss path does not look again:
      RLock; q, ok := qids[di]; RUnlock; if ok return q;  Lock; nextQid++; qids[di] = nextQid; Unlock; return nextQid
    Two atomic steps per call (each critical section is one); the second OVERWRITES ([klookup] finds the newest entry). *)
Definition fstep1_unchecked (t : list (key * N)) (n : N) (p : fpc) : list (key * N) * N * fpc :=
  match p with
  | FStart k => match klookup k t with Some v => (t, n, FDone k v) | None => (t, n, FAdd k) end
  | FAdd k => let v := inc64 n in ((k, v) :: t, v, FDone k v)
  | _ => (t, n, p)
  end.
Definition fstep_unchecked (s : fstate) (i : nat) : fstate :=
  match nth_error (f_thr s) i with
  | None => s
  | Some p => let '(t, n, p') := fstep1_unchecked (f_tbl s) (f_next s) p in mkF t n (upd i p' (f_thr s))
  end.
Definition frun_unchecked (s : fstate) (sched : list nat) : fstate := fold_left fstep_unchecked sched s.
