(** C19: proofs about Readdir.v, LocalDir.v, Paging.v. *)
From Coq Require Import NArith String List Lia ZArith ZifyN ZifyBool ZifyNat.
From P9V Require Import Base.Str gen.ConstGen Fsx.Readdir Fsx.LocalDir Fsx.Paging.
Import ListNotations.
Open Scope list_scope.
Open Scope N_scope.

(** * takeN / dropN *)
Lemma takeN_firstn {A} (l : list A) : forall n, takeN n l = firstn (N.to_nat n) l.
Proof.
  induction l as [|x l IH]; intros n; cbn [takeN].
  - now rewrite firstn_nil.
  - destruct (N.eqb_spec n 0) as [->|Hn]; [reflexivity|].
    replace (N.to_nat n) with (S (N.to_nat (n - 1))) by lia. cbn [firstn]. now rewrite IH.
Qed.

Lemma dropN_skipn {A} (l : list A) : forall n, dropN n l = skipn (N.to_nat n) l.
Proof.
  induction l as [|x l IH]; intros n; cbn [dropN].
  - now rewrite skipn_nil.
  - destruct (N.eqb_spec n 0) as [->|Hn]; [reflexivity|].
    replace (N.to_nat n) with (S (N.to_nat (n - 1))) by lia. cbn [skipn]. now rewrite IH.
Qed.

Lemma takeN_0 {A} (l : list A) : takeN 0 l = [].
Proof. destruct l; reflexivity. Qed.

Lemma takeN_dropN {A} n (l : list A) : takeN n l ++ dropN n l = l.
Proof. rewrite takeN_firstn, dropN_skipn. apply firstn_skipn. Qed.

Lemma dropN_0 {A} (l : list A) : dropN 0 l = l.
Proof. destruct l; reflexivity. Qed.

Lemma skipn_add {A} (l : list A) : forall a b, skipn (a + b) l = skipn a (skipn b l).
Proof.
  induction l as [|x l IH]; intros a b.
  - now rewrite !skipn_nil.
  - destruct b as [|b]; [now rewrite Nat.add_0_r|].
    rewrite Nat.add_succ_r. cbn [skipn]. apply IH.
Qed.

Lemma dropN_split {A} (l r1 r2 : list A) off :
  dropN off l = r1 ++ r2 -> dropN (off + lenN r1) l = r2.
Proof.
  rewrite !dropN_skipn. intros H. unfold lenN.
  replace (N.to_nat (off + N.of_nat (length r1))) with (length r1 + N.to_nat off)%nat by lia.
  rewrite skipn_add, H, skipn_app, Nat.sub_diag, skipn_all. reflexivity.
Qed.

Lemma dropN_nil_iff {A} (l : list A) off : dropN off l = [] <-> lenN l <= off.
Proof.
  rewrite dropN_skipn. unfold lenN. split; intros H.
  - assert (L : length (skipn (N.to_nat off) l) = 0%nat) by now rewrite H.
    rewrite skipn_length in L. lia.
  - apply skipn_all2. lia.
Qed.

Lemma dropN_length {A} (l : list A) off : length (dropN off l) = (length l - N.to_nat off)%nat.
Proof. rewrite dropN_skipn. apply skipn_length. Qed.

(** * number_from *)
Lemma number_from_app q l1 : forall s l2,
  number_from q s (l1 ++ l2) = number_from q s l1 ++ number_from q (s + lenN l1) l2.
Proof.
  induction l1 as [|n l1 IH]; intros s l2; cbn [number_from app].
  - unfold lenN; cbn. now rewrite N.add_0_r.
  - rewrite IH. replace (s + 1 + lenN l1) with (s + lenN (n :: l1)) by (unfold lenN; cbn [length]; lia). reflexivity.
Qed.

Lemma number_from_names q l : forall s, map d_name (number_from q s l) = l.
Proof. induction l as [|n l IH]; intros s; cbn; [reflexivity|now rewrite IH]. Qed.

Lemma number_from_length q l : forall s, length (number_from q s l) = length l.
Proof. induction l as [|n l IH]; intros s; cbn; [reflexivity|now rewrite IH]. Qed.

Lemma number_from_nil q s l : number_from q s l = [] -> l = [].
Proof. destruct l; [reflexivity|discriminate]. Qed.

Lemma last_off_number_from q l : forall s, last_off (number_from q s l) s = s + lenN l.
Proof.
  unfold last_off. induction l as [|n l IH] using rev_ind; intros s.
  - cbn. unfold lenN; cbn. lia.
  - rewrite number_from_app. cbn [number_from]. rewrite rev_app_distr. cbn.
    unfold lenN. rewrite app_length. cbn. lia.
Qed.

(** entry [i] (from 0) of [number_from q s l] carries Offset [s + i + 1], QID [q name] and its type *)
Lemma number_from_nth q l : forall s i d,
  nth_error (number_from q s l) i = Some d ->
  exists n, nth_error l i = Some n /\ d = mkDirent (q n) (s + N.of_nat i + 1) (q_type (q n)) n.
Proof.
  induction l as [|n l IH]; intros s i d H; destruct i as [|i]; cbn in H; try discriminate.
  - inversion H; subst. exists n. split; [reflexivity|]. f_equal. lia.
  - apply IH in H as (m & Hm & ->). exists m. split; [exact Hm|]. f_equal. lia.
Qed.

(** * What one Readdir call must return for paging to work: the entries of a
      prefix of what follows [offset], numbered from [offset + 1], not empty unless
      nothing follows. *)
Definition is_page (q : string -> qid) (names : list string) (off : N) (es : list dirent) : Prop :=
  exists r1 r2, dropN off names = r1 ++ r2 /\ es = number_from q off r1 /\ (dropN off names <> [] -> r1 <> []).

Lemma static_is_page q names off cnt : 1 <= cnt -> is_page q names off (static_readdir q names off cnt).
Proof.
  intros Hc. unfold static_readdir.
  destruct (N.leb_spec (lenN names) off) as [Hge|Hlt].
  - exists [], []. apply dropN_nil_iff in Hge. rewrite Hge. repeat split; auto.
  - set (k := N.min (off + cnt) (lenN names) - off).
    exists (takeN k (dropN off names)), (dropN k (dropN off names)).
    split; [now rewrite takeN_dropN|]. split; [reflexivity|].
    intros _ Hnil. rewrite takeN_firstn in Hnil.
    assert (L : length (firstn (N.to_nat k) (dropN off names)) = 0%nat) by now rewrite Hnil.
    rewrite firstn_length, dropN_length in L. unfold lenN in *. lia.
Qed.

(** the static result written without [min]: the first [count] names after [offset] *)
Lemma static_readdir_spec q names off cnt :
  static_readdir q names off cnt = number_from q off (takeN cnt (dropN off names)).
Proof.
  unfold static_readdir. destruct (N.leb_spec (lenN names) off) as [Hge|Hlt].
  - apply dropN_nil_iff in Hge. now rewrite Hge.
  - f_equal. rewrite !takeN_firstn.
    assert (L := dropN_length names off). unfold lenN in *.
    destruct (N.le_ge_cases (off + cnt) (N.of_nat (length names))) as [H|H].
    + rewrite N.min_l by exact H. f_equal. lia.
    + rewrite N.min_r by exact H. rewrite !firstn_all2; auto; lia.
Qed.

(** * wire truncation *)
Lemma wire_trunc_prefix q cnt r : forall acc s,
  exists r1 r2, r = r1 ++ r2 /\ wire_trunc acc cnt (number_from q s r) = number_from q s r1 /\
    (forall n r', r = n :: r' -> acc + 24 + N.of_nat (String.length n) <= cnt -> r1 <> []).
Proof.
  induction r as [|n r IH]; intros acc s.
  - exists [], []. repeat split; auto. intros; discriminate.
  - cbn [number_from wire_trunc]. unfold entry_size at 1. cbn [d_name].
    destruct (N.ltb_spec cnt (acc + (24 + N.of_nat (String.length n)))) as [Hlt|Hge].
    + exists [], (n :: r). repeat split; auto. intros n' r' E Hfit. inversion E; subst. lia.
    + destruct (IH (acc + entry_size (mkDirent (q n) (s + 1) (q_type (q n)) n)) (s + 1)) as (r1 & r2 & -> & Hw & _).
      exists (n :: r1), r2. split; [reflexivity|]. split.
      * cbn [number_from]. now rewrite Hw.
      * intros; discriminate.
Qed.

Lemma wire_trunc_is_page q names off cnt es :
  is_page q names off es ->
  (forall n, In n names -> 24 + N.of_nat (String.length n) <= cnt) ->
  is_page q names off (wire_trunc 0 cnt es).
Proof.
  intros (r1 & r2 & Hd & -> & Hne) Hfit.
  destruct (wire_trunc_prefix q cnt r1 0 off) as (a & b & -> & Hw & Hfirst).
  exists a, (b ++ r2). split; [now rewrite Hd, app_assoc|]. split; [exact Hw|].
  intros Hnn. specialize (Hne Hnn).
  destruct (a ++ b) as [|n r'] eqn:E; [congruence|].
  apply (Hfirst n r' eq_refl).
  assert (I : In n (dropN off names)) by (rewrite Hd; left; reflexivity).
  assert (I' : In n names).
  { rewrite dropN_skipn in I. rewrite <- (firstn_skipn (N.to_nat off) names). apply in_or_app. now right. }
  specialize (Hfit n I'). lia.
Qed.

(** * the paged listing *)
Lemma is_page_progress q names off es :
  is_page q names off es -> es <> [] -> off < last_off es off /\ last_off es off <= lenN names.
Proof.
  intros (r1 & r2 & Hd & -> & _) Hne. rewrite last_off_number_from.
  assert (r1 <> []) by (intros ->; now apply Hne).
  assert (L := dropN_length names off). rewrite Hd, app_length in L.
  destruct r1; [congruence|]. unfold lenN in *. cbn [length] in *. lia.
Qed.

Lemma page_loop_complete q names rd :
  (forall off, is_page q names off (rd off)) ->
  forall fuel off, (length (dropN off names) < fuel)%nat ->
  exists pages, page_loop fuel rd off = Some pages /\
                concat pages = number_from q off (dropN off names) /\
                Forall (fun p => p <> []) pages.
Proof.
  intros Hrd. induction fuel as [|f IH]; intros off Hf; [lia|].
  cbn [page_loop]. destruct (Hrd off) as (r1 & r2 & Hd & Hes & Hne).
  destruct (rd off) as [|e es] eqn:E.
  - exists []. split; [reflexivity|]. split; [|constructor].
    symmetry in Hes. apply number_from_nil in Hes. subst r1.
    destruct (dropN off names) eqn:D; [reflexivity|]. exfalso. apply Hne; [discriminate|reflexivity].
  - rewrite Hes, last_off_number_from.
    assert (Hr1 : r1 <> []) by (intros ->; discriminate).
    assert (Hd2 := dropN_split _ _ _ _ Hd).
    destruct (IH (off + lenN r1)) as (pages & Hp & Hc & Hall).
    { rewrite Hd2. rewrite Hd, app_length in Hf. destruct r1; [congruence|]. cbn [length] in Hf. lia. }
    rewrite Hp. exists (number_from q off r1 :: pages). split; [reflexivity|]. split.
    + cbn [concat]. rewrite Hc, Hd2, Hd, number_from_app. reflexivity.
    + constructor; [|exact Hall]. rewrite <- Hes. discriminate.
Qed.

Theorem listing_complete q names rd :
  (forall off, is_page q names off (rd off)) ->
  listing (S (length names)) rd = Some (number_from q 0 names).
Proof.
  intros Hrd. unfold listing.
  destruct (page_loop_complete q names rd Hrd (S (length names)) 0) as (pages & Hp & Hc & _).
  - rewrite dropN_0. lia.
  - rewrite Hp. cbn. now rewrite Hc, dropN_0.
Qed.

(** every page of the listing is non-empty and moves the offset strictly forward *)
Theorem listing_progress q names rd :
  (forall off, is_page q names off (rd off)) ->
  exists pages, page_loop (S (length names)) rd 0 = Some pages /\ Forall (fun p => p <> []) pages /\
    forall off es, rd off = es -> es <> [] -> off < last_off es off.
Proof.
  intros Hrd.
  destruct (page_loop_complete q names rd Hrd (S (length names)) 0) as (pages & Hp & _ & Hall).
  - rewrite dropN_0. lia.
  - exists pages. repeat split; auto. intros off es <- Hne. now apply (is_page_progress q names).
Qed.

(** exactly once *)
Lemma listing_names_once q names l :
  l = number_from q 0 names -> NoDup names ->
  map d_name l = names /\ NoDup (map d_name l) /\
  (forall n, In n names -> exists! i, exists d, nth_error l i = Some d /\ d_name d = n).
Proof.
  intros -> Hnd. rewrite number_from_names. repeat split; auto.
  intros n Hin. apply In_nth_error in Hin as (i & Hi).
  exists i. split.
  - assert (Hlt : (i < length (number_from q 0 names))%nat)
      by (rewrite number_from_length; apply nth_error_Some; congruence).
    destruct (nth_error (number_from q 0 names) i) as [d|] eqn:E; [|apply nth_error_None in E; lia].
    exists d. split; [reflexivity|]. apply number_from_nth in E as (m & Hm & ->). cbn. congruence.
  - intros j (d & Hj & Hn). apply number_from_nth in Hj as (m & Hm & ->). cbn in Hn. subst m.
    eapply NoDup_nth_error; eauto. apply nth_error_Some. congruence.
    rewrite Hi. symmetry. exact Hm.
Qed.

(** * static / compose readdir: direct and through the server *)
Theorem static_direct_complete q names cnt : 1 <= cnt ->
  listing (S (length names)) (fun off => static_readdir q names off cnt) = Some (number_from q 0 names).
Proof. intros H. apply listing_complete. intros off. now apply static_is_page. Qed.

Lemma server_is_page q names msize rd cnt off :
  (forall o, is_page q names o (rd o cnt)) ->
  (forall n, In n names -> 24 + N.of_nat (String.length n) <= N.min cnt (max_reply_payload msize)) ->
  is_page q names off (server_readdir msize rd off cnt).
Proof. intros Hrd Hfit. unfold server_readdir. apply wire_trunc_is_page; auto. Qed.

Theorem server_complete q names msize rd cnt :
  (forall o, is_page q names o (rd o cnt)) ->
  (forall n, In n names -> 24 + N.of_nat (String.length n) <= N.min cnt (max_reply_payload msize)) ->
  listing (S (length names)) (fun off => server_readdir msize rd off cnt) = Some (number_from q 0 names).
Proof. intros Hrd Hfit. apply listing_complete. intros off. now apply server_is_page. Qed.

Theorem static_server_complete q names msize cnt :
  (forall n, In n names -> 24 + N.of_nat (String.length n) <= N.min cnt (max_reply_payload msize)) ->
  listing (S (length names)) (fun off => server_readdir msize (static_readdir q names) off cnt)
  = Some (number_from q 0 names).
Proof.
  intros Hfit. destruct names as [|n0 names'] eqn:En.
  - reflexivity.
  - rewrite <- En in *. apply server_complete; [|exact Hfit].
    intros o. apply static_is_page. specialize (Hfit n0). rewrite En in Hfit. specialize (Hfit (or_introl eq_refl)). lia.
Qed.

Theorem static_remote_complete q names msize cnt :
  (forall n, In n names -> 24 + N.of_nat (String.length n) <= N.min (client_clamp msize cnt) (max_reply_payload msize)) ->
  listing (S (length names)) (fun off => remote_readdir msize (static_readdir q names) off cnt)
  = Some (number_from q 0 names).
Proof. intros Hfit. unfold remote_readdir. now apply static_server_complete. Qed.

(** * localfs *)
(** what the loop delivers from the names not yet read, as a function *)
Fixpoint loc_spec (q : string -> qid) (rest : list string) (cursor off room : N) : list dirent :=
  match rest with
  | [] => []
  | n :: r =>
      if room =? 0 then []
      else let c := cursor + 1 in
           if c <=? off then loc_spec q r c off room
           else mkDirent (q n) c (q_type (q n)) n :: loc_spec q r c off (room - 1)
  end.

Lemma skipn_cons_nth {A} (l : list A) : forall p n r,
  skipn p l = n :: r -> nth_error l p = Some n /\ skipn (S p) l = r.
Proof.
  induction l as [|x l IH]; intros p n r H.
  - rewrite skipn_nil in H. discriminate.
  - destruct p as [|p]; cbn in *.
    + inversion H; subst. split; reflexivity.
    + apply IH in H. exact H.
Qed.

Lemma skipn_nil_nth {A} (l : list A) : forall p, skipn p l = [] -> nth_error l p = None.
Proof.
  intros p H. apply nth_error_None.
  assert (L : length (skipn p l) = 0%nat) by now rewrite H.
  rewrite skipn_length in L. lia.
Qed.

Lemma local_loop_spec q names : forall fuel pos off cnt acc,
  (length (skipn pos names) < fuel)%nat -> lenN acc <= cnt ->
  exists s', local_loop fuel q (mkStream names pos) (N.of_nat pos) off cnt acc
             = Some (acc ++ loc_spec q (skipn pos names) (N.of_nat pos) off (cnt - lenN acc), s')
             /\ s_names s' = names.
Proof.
  induction fuel as [|f IH]; intros pos off cnt acc Hf Hacc; [lia|].
  cbn [local_loop].
  destruct (N.ltb_spec (lenN acc) cnt) as [Hlt|Hge].
  - unfold readdirnames1. cbn [s_names s_pos].
    destruct (skipn pos names) as [|n r] eqn:E.
    + rewrite (skipn_nil_nth _ _ E). eexists. split; [cbn; now rewrite app_nil_r|reflexivity].
    + destruct (skipn_cons_nth _ _ _ _ E) as (Hn & Hr). rewrite Hn.
      cbn [loc_spec]. destruct (N.eqb_spec (cnt - lenN acc) 0) as [H0|_]; [lia|].
      replace (N.of_nat pos + 1) with (N.of_nat (S pos)) by lia.
      destruct (N.leb_spec (N.of_nat (S pos)) off) as [Hle|Hgt].
      * destruct (IH (S pos) off cnt acc) as (s' & Hs & Hnm); [rewrite Hr; cbn in Hf; lia|exact Hacc|].
        rewrite Hs, Hr. eexists; split; [reflexivity|exact Hnm].
      * destruct (IH (S pos) off cnt (acc ++ [mkDirent (q n) (N.of_nat (S pos)) (q_type (q n)) n]))
          as (s' & Hs & Hnm).
        { rewrite Hr. cbn in Hf. lia. }
        { unfold lenN in *. rewrite app_length. cbn [length]. lia. }
        rewrite Hs, Hr. eexists; split; [|exact Hnm].
        rewrite <- app_assoc. cbn [app].
        replace (cnt - lenN (acc ++ [mkDirent (q n) (N.of_nat (S pos)) (q_type (q n)) n])) with (cnt - lenN acc - 1)
          by (unfold lenN; rewrite app_length; cbn [length]; lia).
        reflexivity.
  - assert (cnt - lenN acc = 0) as -> by lia.
    exists (mkStream names pos). split; [|reflexivity].
    destruct (skipn pos names); cbn; now rewrite app_nil_r.
Qed.

Lemma loc_spec_after q rest : forall c off room, off <= c ->
  loc_spec q rest c off room = number_from q c (takeN room rest).
Proof.
  induction rest as [|n r IH]; intros c off room H; cbn [loc_spec takeN number_from]; [reflexivity|].
  destruct (N.eqb_spec room 0); [reflexivity|].
  destruct (N.leb_spec (c + 1) off); [lia|]. cbn [number_from]. rewrite IH by lia. reflexivity.
Qed.

Lemma loc_spec_skip q rest : forall c off room, c <= off -> 1 <= room ->
  loc_spec q rest c off room = number_from q off (takeN room (dropN (off - c) rest)).
Proof.
  induction rest as [|n r IH]; intros c off room H Hr; cbn [loc_spec dropN]; [reflexivity|].
  destruct (N.eqb_spec room 0); [lia|].
  destruct (N.eqb_spec (off - c) 0) as [E|E].
  - assert (c = off) by lia. subst c. destruct (N.leb_spec (off + 1) off); [lia|].
    cbn [takeN]. destruct (N.eqb_spec room 0); [lia|]. cbn [number_from].
    rewrite loc_spec_after by lia. reflexivity.
  - destruct (N.leb_spec (c + 1) off); [|lia].
    rewrite IH by lia. do 3 f_equal. lia.
Qed.

(** one localfs Readdir call: whatever position the previous call left the
    stream at, the result is the first [count] entries after [offset] — the
    same function as the static Readdir *)
Theorem local_readdir_spec q s off cnt :
  exists s', local_readdir q s off cnt = Some (number_from q off (takeN cnt (dropN off (s_names s))), s')
             /\ s_names s' = s_names s.
Proof.
  unfold local_readdir, seek0.
  destruct (local_loop_spec q (s_names s) (S (length (s_names s))) 0 off cnt []) as (s' & Hs & Hn).
  - cbn. lia.
  - unfold lenN; cbn; lia.
  - change (N.of_nat 0) with 0 in Hs. rewrite Hs. exists s'. split; [|exact Hn].
    cbn [app skipn]. f_equal. f_equal. unfold lenN; cbn [length N.of_nat]. rewrite N.sub_0_r.
    destruct (N.eqb_spec cnt 0) as [->|Hc].
    + rewrite takeN_0. destruct (s_names s); reflexivity.
    + rewrite loc_spec_skip by lia. now rewrite N.sub_0_r.
Qed.

Theorem local_static_agree q s off cnt :
  option_map fst (local_readdir q s off cnt) = Some (static_readdir q (s_names s) off cnt).
Proof.
  destruct (local_readdir_spec q s off cnt) as (s' & -> & _). cbn. now rewrite static_readdir_spec.
Qed.

(** paging over the stateful reader reduces to paging over the function *)
Lemma page_loop_st_pure {S} (I : S -> Prop) (rd : S -> N -> option (list dirent * S)) (f : N -> list dirent) :
  (forall st off, I st -> exists st', rd st off = Some (f off, st') /\ I st') ->
  forall fuel st off, I st -> page_loop_st fuel rd st off = page_loop fuel f off.
Proof.
  intros H. induction fuel as [|n IH]; intros st off Hst; [reflexivity|].
  cbn [page_loop_st page_loop]. destruct (H st off Hst) as (st' & -> & Hst').
  destruct (f off); [reflexivity|]. now rewrite IH.
Qed.

Theorem local_direct_complete q s cnt : 1 <= cnt ->
  option_map (@concat dirent)
    (page_loop_st (S (length (s_names s))) (fun st off => local_readdir q st off cnt) s 0)
  = Some (number_from q 0 (s_names s)).
Proof.
  intros Hc.
  rewrite (page_loop_st_pure (fun st => s_names st = s_names s) _ (fun off => static_readdir q (s_names s) off cnt)).
  - apply (static_direct_complete q (s_names s) cnt Hc).
  - intros st off Hst. destruct (local_readdir_spec q st off cnt) as (s' & Hs & Hn).
    exists s'. rewrite Hs, Hst, static_readdir_spec. split; [reflexivity|congruence].
  - reflexivity.
Qed.

(** through the server: the File is called with the requested count, the reply is truncated *)
Theorem local_server_complete q s msize cnt :
  (forall n, In n (s_names s) -> 24 + N.of_nat (String.length n) <= N.min cnt (max_reply_payload msize)) ->
  option_map (@concat dirent)
    (page_loop_st (S (length (s_names s)))
       (fun st off => match local_readdir q st off cnt with
                      | Some (es, st') => Some (wire_trunc 0 (N.min cnt (max_reply_payload msize)) es, st')
                      | None => None end) s 0)
  = Some (number_from q 0 (s_names s)).
Proof.
  intros Hfit.
  rewrite (page_loop_st_pure (fun st => s_names st = s_names s) _
             (fun off => server_readdir msize (static_readdir q (s_names s)) off cnt)).
  - apply (static_server_complete q (s_names s) msize cnt Hfit).
  - intros st off Hst. destruct (local_readdir_spec q st off cnt) as (s' & Hs & Hn).
    exists s'. rewrite Hs, Hst. unfold server_readdir. rewrite static_readdir_spec. split; [reflexivity|congruence].
  - reflexivity.
Qed.

(** what the rewind and the [<=] are for: the loop of the code before fix
    1247c49 loses and repeats entries (5 entries, pages of 2) *)
Open Scope string_scope.
Lemma local_old_refuted :
  let q := fun _ : string => mkQid 0 0 0 in
  let s0 := mkStream ["a"; "b"; "c"; "d"; "e"] 0 in
  option_map (fun pages => map d_name (concat pages))
    (page_loop_st 6 (fun st off => local_readdir_old q st off 2) s0 0%N)
  = Some ["a"; "b"; "c"; "d"; "e"] -> False.
Proof. vm_compute. discriminate. Qed.
