(** C20 model: p9.FileMode <-> os.FileMode (p9/p9.go ModeFromOS, OSMode,
    QIDType, FileType) over [N] bit masks.  Definitions only; the finite-domain
    theorems are in ModeProofs.v. *)
From Coq Require Import NArith List Bool Lia.
From P9V Require Import gen.ConstGen.
Import ListNotations.
Open Scope N_scope.

(** io/fs FileMode bits (Go standard library; fixed by the Go 1 compatibility promise) *)
Definition os_ModeDir : N := 2147483648.        (* 1 << 31 *)
Definition os_ModeSymlink : N := 134217728.     (* 1 << 27 *)
Definition os_ModeDevice : N := 67108864.       (* 1 << 26 *)
Definition os_ModeNamedPipe : N := 33554432.    (* 1 << 25 *)
Definition os_ModeSocket : N := 16777216.       (* 1 << 24 *)
Definition os_ModeSetuid : N := 8388608.        (* 1 << 23 *)
Definition os_ModeSetgid : N := 4194304.        (* 1 << 22 *)
Definition os_ModeCharDevice : N := 2097152.    (* 1 << 21 *)
Definition os_ModeSticky : N := 1048576.        (* 1 << 20 *)
Definition os_ModePerm : N := 511.

Definition has (m bit : N) : bool := negb (N.land m bit =? 0).
Definition is_type (m t : N) : bool := N.land m p9_FileModeMask =? t.

(** func ModeFromOS(mode os.FileMode) FileMode *)
Definition ModeFromOS (mode : N) : N :=
  let m := N.land mode os_ModePerm in
  let m := N.lor m
    (if has mode os_ModeDir then p9_ModeDirectory
     else if has mode os_ModeSymlink then p9_ModeSymlink
     else if has mode os_ModeSocket then p9_ModeSocket
     else if has mode os_ModeNamedPipe then p9_ModeNamedPipe
     else if has mode os_ModeCharDevice then p9_ModeCharacterDevice
     else if has mode os_ModeDevice then p9_ModeBlockDevice
     else p9_ModeRegular) in
  let m := if has mode os_ModeSetuid then N.lor m p9_Setuid else m in
  let m := if has mode os_ModeSetgid then N.lor m p9_Setgid else m in
  let m := if has mode os_ModeSticky then N.lor m p9_Sticky else m in
  m.

(** func (m FileMode) OSMode() os.FileMode *)
Definition OSMode (m : N) : N :=
  let o := N.land m p9_AllPermissions in
  let o := N.lor o
    (if is_type m p9_ModeDirectory then os_ModeDir
     else if is_type m p9_ModeSymlink then os_ModeSymlink
     else if is_type m p9_ModeSocket then os_ModeSocket
     else if is_type m p9_ModeNamedPipe then os_ModeNamedPipe
     else if is_type m p9_ModeCharacterDevice then N.lor os_ModeCharDevice os_ModeDevice
     else if is_type m p9_ModeBlockDevice then os_ModeDevice
     else 0) in
  let o := if has m p9_Setuid then N.lor o os_ModeSetuid else o in
  let o := if has m p9_Setgid then N.lor o os_ModeSetgid else o in
  let o := if has m p9_Sticky then N.lor o os_ModeSticky else o in
  o.

(** func (m FileMode) QIDType() QIDType *)
Definition QIDType (m : N) : N :=
  if is_type m p9_ModeDirectory then p9_TypeDir
  else if is_type m p9_ModeSocket || is_type m p9_ModeNamedPipe || is_type m p9_ModeCharacterDevice then p9_TypeAppendOnly
  else if is_type m p9_ModeSymlink then p9_TypeSymlink
  else p9_TypeRegular.

Definition FileType (m : N) : N := N.land m p9_FileModeMask.

(** the seven valid file types *)
Definition valid_types : list N :=
  [p9_ModeSocket; p9_ModeSymlink; p9_ModeRegular; p9_ModeBlockDevice; p9_ModeDirectory;
   p9_ModeCharacterDevice; p9_ModeNamedPipe].

(** the QID type the table in p9.go gives each file type *)
Definition qidtype_of_type (t : N) : N :=
  if t =? p9_ModeDirectory then p9_TypeDir
  else if (t =? p9_ModeSocket) || (t =? p9_ModeNamedPipe) || (t =? p9_ModeCharacterDevice) then p9_TypeAppendOnly
  else if t =? p9_ModeSymlink then p9_TypeSymlink
  else p9_TypeRegular.

Definition Nrange (n : nat) : list N := map N.of_nat (seq 0 n).


(** every type x every 12-bit permission value (setuid, setgid, sticky, rwxrwxrwx) *)
Definition mode_ok (t p : N) : bool :=
  let m := N.lor t p in
  (ModeFromOS (OSMode m) =? m) && (FileType m =? t) && (QIDType m =? qidtype_of_type t)
  && (QIDType (ModeFromOS (OSMode m)) =? QIDType m).







(** * from the kernel's st_mode to os.FileMode (Go's os.fillFileStatFromSys on Linux:
      fs.mode = FileMode(st.Mode & 0777); switch st.Mode & S_IFMT { S_IFBLK: ModeDevice; S_IFCHR: ModeDevice|ModeCharDevice;
      S_IFDIR: ModeDir; S_IFIFO: ModeNamedPipe; S_IFLNK: ModeSymlink; S_IFREG: nothing; S_IFSOCK: ModeSocket };
      S_ISGID -> ModeSetgid; S_ISUID -> ModeSetuid; S_ISVTX -> ModeSticky).  Standard library, modelled by hand and
      compared with the real os.Lstat on files of every kind by the harness. *)
Definition S_IFMT : N := 61440.
Definition os_mode_of_stat (st : N) : N :=
  let m := N.land st 511 in
  let ty := N.land st S_IFMT in
  let m := N.lor m
    (if ty =? 24576 then os_ModeDevice
     else if ty =? 8192 then N.lor os_ModeDevice os_ModeCharDevice
     else if ty =? 16384 then os_ModeDir
     else if ty =? 4096 then os_ModeNamedPipe
     else if ty =? 40960 then os_ModeSymlink
     else if ty =? 49152 then os_ModeSocket
     else 0) in
  let m := if has st 1024 then N.lor m os_ModeSetgid else m in
  let m := if has st 2048 then N.lor m os_ModeSetuid else m in
  let m := if has st 512 then N.lor m os_ModeSticky else m in
  m.

(** localfs info(): qid.Type = p9.ModeFromOS(fi.Mode()).QIDType(), fi from (l)stat *)
Definition info_type (st_mode : N) : N := QIDType (ModeFromOS (os_mode_of_stat st_mode)).

Definition stat_ok (t p : N) : bool :=
  let st := N.lor t p in
  (ModeFromOS (os_mode_of_stat st) =? st) && (info_type st =? qidtype_of_type t) && (info_type st =? QIDType st).


