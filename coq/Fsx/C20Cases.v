(** C20: observations of the real code compared with the models of Qid.v,
    QidMap.v and Mode.v, and the property evaluated on the observations alone. *)
From Coq Require Import NArith String List Bool.
From P9V Require Import Base.Str gen.ConstGen Fsx.Readdir Fsx.Qid Fsx.QidMap Fsx.Mode.
Import ListNotations.
Open Scope list_scope.
Open Scope N_scope.

Inductive c20case :=
| CEnc (dev ino : N) (ok : bool) (q : N)                 (* encodeLikely(dev, ino) = (q, ok) *)
| CHist (h : list (N * N * N))                           (* every localToQid call since process start, in order: dev, ino, path *)
| CConc (h : list (N * N * N)) (c : list (N * N * N))    (* the same history, then the results of concurrent calls *)
| CModes (t : N) (l : list (N * N * N))                  (* for p = 0..4095, m = t|p: OSMode m, ModeFromOS (OSMode m), QIDType m *)
| CFromOS (l : list (N * N * N))                         (* os.FileMode, ModeFromOS, its QIDType *)
| CMapSeq (h : list (N * N * N))                         (* Mapper index (one generator), source path, path returned; from fresh *)
| CMapConc (h : list (N * N * N)) (c : list (N * N * N)) (* that history, then results of concurrent QIDFor calls *)
| CFsConc (l : list (string * N))
(** real files through Local.info and its use sites.  Row: st_mode (lstat), os.FileInfo.Mode(), Attr.Mode from GetAttr,
    dev, ino, then QID types and QID paths seen by info(), Walk, GetAttr, Readdir, Open (999 = not applicable). *)
| CInfo (rows : list (N * N * N * N * N * list N * list N)).                       (* name, QID path seen by some concurrent Walk/GetAttr/Readdir through composefs *)

(** * model side *)
Fixpoint replay_l2q (t : list (key * N)) (n : N) (h : list (N * N * N)) : bool * (list (key * N) * N) :=
  match h with
  | [] => (true, (t, n))
  | (d, i, r) :: rest =>
      let '(r', t', n') := local_to_qid t n d i in
      if r' =? r then replay_l2q t' n' rest else (false, (t', n'))
  end.

Fixpoint replay_map (s : mstate) (h : list (N * N * N)) : bool * mstate :=
  match h with
  | [] => (true, s)
  | (m, src, r) :: rest =>
      let '(q, s') := qid_for s (0%nat, N.to_nat m) (mkQid 0 0 src) in
      if q_path q =? r then replay_map s' rest else (false, s')
  end.

Fixpoint modes_ok (t p : N) (l : list (N * N * N)) : bool :=
  match l with
  | [] => true
  | (os, back, qt) :: r =>
      let m := N.lor t p in
      (OSMode m =? os) && (ModeFromOS os =? back) && (QIDType m =? qt) && modes_ok t (p + 1) r
  end.

Definition agrees (c : c20case) : bool :=
  match c with
  | CEnc d i ok q => match encodeLikely d i with Some q' => ok && (q =? q') | None => negb ok && (q =? 0) end
  | CHist h => fst (replay_l2q [] next0 h)
  | CConc h c =>
      let '(ok, (t, n)) := replay_l2q [] next0 h in
      ok && forallb (fun '(d, i, r) =>
                       match encodeLikely d i with
                       | Some q => r =? q
                       | None => match klookup (d, i) t with
                                 | Some v => r =? v                              (* known pair: the stored path *)
                                 | None => (n <? r) && (r <? n + 4294967296)   (* fresh: allocated after the history *)
                                 end
                       end) c
  | CModes t l => Nat.eqb (List.length l) 4096 && modes_ok t 0 l
  | CFromOS l => forallb (fun '(os, m, qt) => (ModeFromOS os =? m) && (QIDType m =? qt)) l
  | CMapSeq h => fst (replay_map m_init h)
  | CMapConc h c =>
      let '(ok, s) := replay_map m_init h in
      ok && forallb (fun '(m, src, r) =>
                       match tlookup ((0%nat, N.to_nat m), src) (m_tbl s) with
                       | Some v => r =? v
                       | None => (m_gen s 0%nat <? r) && (r <? m_gen s 0%nat + 4294967296)
                       end) c
  | CFsConc l => forallb (fun '(_, p) => negb (p =? 0)) l
  | CInfo rows =>
      forallb (fun '(st, os, attr, dev, ino, tys, ps) =>
                 (os_mode_of_stat st =? os) && (ModeFromOS os =? st) && (attr =? st) &&
                 forallb (fun ty => (ty =? 999) || (ty =? info_type st)) tys &&
                 match encodeLikely dev ino with
                 | Some q => forallb (fun p => (p =? 999) || (p =? q)) ps
                 | None => true
                 end) rows
  end.

(** * the property on the observation *)
(** same key <-> same value, over all pairs of observations *)
Fixpoint consistent1 {K} (eqk : K -> K -> bool) (k : K) (v : N) (l : list (K * N)) : bool :=
  match l with
  | [] => true
  | (k', v') :: r => Bool.eqb (eqk k k') (v =? v') && consistent1 eqk k v r
  end.
Fixpoint consistent {K} (eqk : K -> K -> bool) (l : list (K * N)) : bool :=
  match l with
  | [] => true
  | (k, v) :: r => consistent1 eqk k v r && consistent eqk r
  end.

Definition kv (x : N * N * N) : (N * N) * N := let '(a, b, r) := x in ((a, b), r).
Definition pair_eqb (a b : N * N) : bool := (fst a =? fst b) && (snd a =? snd b).

Fixpoint modes_prop (t p : N) (l : list (N * N * N)) : bool :=
  match l with
  | [] => true
  | (os, back, qt) :: r =>
      (back =? N.lor t p) && (qt =? qidtype_of_type t) && modes_prop t (p + 1) r
  end.

Definition property_holds (c : c20case) : bool :=
  match c with
  | CEnc d i ok q => negb ok || (q <? 2 ^ 63)
  | CHist h => consistent pair_eqb (map kv h)
  | CConc h c => consistent pair_eqb (map kv (h ++ c))
  | CModes t l => Nat.eqb (List.length l) 4096 && modes_prop t 0 l
  | CFromOS l => forallb (fun '(os, m, qt) => qt =? qidtype_of_type (FileType m)) l
  | CMapSeq h => consistent pair_eqb (map kv h) && forallb (fun '(_, _, r) => negb (r =? 0)) h
  | CMapConc h c => consistent pair_eqb (map kv (h ++ c)) && forallb (fun '(_, _, r) => negb (r =? 0)) (h ++ c)
  | CFsConc l => consistent String.eqb l
  | CInfo rows =>
      (* the QID type at every use site is the one of the file type GetAttr reports; one path per file, distinct files distinct paths *)
      forallb (fun '(st, os, attr, dev, ino, tys, ps) =>
                 forallb (fun ty => (ty =? 999) || (ty =? qidtype_of_type (FileType attr))) tys &&
                 match ps with
                 | p0 :: r => forallb (fun p => (p =? 999) || (p =? p0)) r
                 | [] => true
                 end) rows
      && consistent pair_eqb (map (fun '(st, os, attr, dev, ino, tys, ps) => ((dev, ino), hd 0 ps)) rows)
  end.

Fixpoint failing (f : c20case -> bool) (i : nat) (l : list c20case) : list nat :=
  match l with
  | [] => []
  | c :: r => if f c then failing f (S i) r else i :: failing f (S i) r
  end.
Definition mismatches (l : list c20case) : list nat := failing agrees 0 l.
Definition property_failures (l : list c20case) : list nat := failing property_holds 0 l.
