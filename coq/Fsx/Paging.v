(** C19 model, part 3: the paged listing.  The caller asks for the page after
    [offset], starting with 0; the next offset is the Offset of the last entry
    received; an empty page ends the listing.  [rd offset] is one Readdir call
    (any of the file systems, direct or through client and server). *)
From Coq Require Import NArith String List.
From P9V Require Import Base.Str Fsx.Readdir.
Import ListNotations.
Open Scope N_scope.

Definition last_off (es : list dirent) (dflt : N) : N :=
  match rev es with
  | [] => dflt
  | d :: _ => d_off d
  end.

(** [None] = out of fuel (excluded by the theorems: fuel [len + 1] suffices) *)
Fixpoint page_loop (fuel : nat) (rd : N -> list dirent) (offset : N) : option (list (list dirent)) :=
  match fuel with
  | O => None
  | S f =>
      match rd offset with
      | [] => Some []
      | es => option_map (cons es) (page_loop f rd (last_off es offset))
      end
  end.

Definition listing (fuel : nat) (rd : N -> list dirent) : option (list dirent) :=
  option_map (@concat dirent) (page_loop fuel rd 0).

(** A stateful reader (localfs: the stream position is carried from call to call) *)
Fixpoint page_loop_st {S : Type} (fuel : nat) (rd : S -> N -> option (list dirent * S)) (st : S) (offset : N)
  : option (list (list dirent)) :=
  match fuel with
  | O => None
  | Datatypes.S f =>
      match rd st offset with
      | None => None
      | Some ([], _) => Some []
      | Some (es, st') => option_map (cons es) (page_loop_st f rd st' (last_off es offset))
      end
  end.
