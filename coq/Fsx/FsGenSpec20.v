(** Obligations of C20 over gen/FsGen19.v and gen/FsGen20.v (those of C19 are in FsGenSpec19.v): what the models in coq/Fsx transcribe from the
    source, compared SEMANTICALLY where go2coq can extract it (comparisons
    normalised to (smaller, op, larger) with widening conversions and
    parentheses removed; additive constants, shift amounts and mask widths as
    numbers, proved equal to the constants the models use; structural facts as
    booleans).  Text equality remains only for the statement sequences of
    Mapper.QIDFor and localToQid and the stat/append tail of the localfs loop,
    rendered by go/printer (insensitive to re-formatting).  An edit that breaks
    one of these breaks C19_source_shape / C20_source_shape and sends the check
    into its search for a concrete failing input. *)
From Coq Require Import String List Bool NArith.
From P9V Require Import gen.ConstGen gen.FsGen20 Fsx.Qid.
Import ListNotations.
Open Scope string_scope.

Fixpoint strs_eqb (a b : list string) : bool :=
  match a, b with
  | [], [] => true
  | x :: a', y :: b' => String.eqb x y && strs_eqb a' b'
  | _, _ => false
  end.
Definition cmp_eqb (a b : string * string * string) : bool :=
  let '(a1, a2, a3) := a in let '(b1, b2, b3) := b in String.eqb a1 b1 && String.eqb a2 b2 && String.eqb a3 b3.
Fixpoint terms_eqb (a b : list (string * N)) : bool :=
  match a, b with
  | [], [] => true
  | (x, n) :: a', (y, m) :: b' => String.eqb x y && N.eqb n m && terms_eqb a' b'
  | _, _ => false
  end.

(** the meaning of an extracted comparison operator *)
Definition cmp_sem (op : string) : option (N -> N -> bool) :=
  if String.eqb op "<" then Some N.ltb else if String.eqb op "<=" then Some N.leb
  else if String.eqb op "==" then Some N.eqb else None.

(** * C20 *)
Definition fs_qid_shape_ok : bool :=
  (* encodeLikely: widths and shift amounts are the constants the model uses *)
  N.eqb fs_enc_ino_bits localfs_inodeLikelyBits
  && N.eqb fs_enc_upper_bits localfs_devUpperBits && N.eqb fs_enc_upper_offset localfs_devUpperOffset
  && String.eqb fs_enc_major_def "unix.Major(dev)" && String.eqb fs_enc_minor_def "unix.Minor(dev)"
  && String.eqb fs_enc_q_init "(ino & inoLikely)"
  && terms_eqb fs_enc_or_terms [("minor", localfs_inodeLikelyBits); ("major", (localfs_inodeLikelyBits + localfs_devMinorLikelyBits)%N)]
  && strs_eqb fs_enc_shape
       ["inoLikely"; "guard (ino & ^inoLikely) != 0"; "upperUnlikely"; "guard (dev & upperUnlikely) != 0";
        "major"; "guard nOnes 12 < major"; "minor"; "guard nOnes 12 < minor"; "q"; "or"; "or"; "return q, true"]
  && N.eqb 12 localfs_devMajorLikelyBits && N.eqb 12 localfs_devMinorLikelyBits
  && String.eqb fs_nOnes "((1 << n) - 1)"
  (* fallback table: keyed by the devino value built from the stat fields; counter from 2^63 in steps of 1 *)
  && fs_fallback_key_is_value && String.eqb fs_fallback_key_fields "stat.Dev, stat.Ino"
  && N.eqb fs_fallback_add_delta 1 && N.eqb fs_nextQid_init next0
  && strs_eqb fs_localToQid_body
       ["stat := fi.Sys().(*syscall.Stat_t)";
        "if q, ok := encodeLikely(uint64(stat.Dev), stat.Ino); ok { return q, nil }";
        "di := devino{uint64(stat.Dev), stat.Ino}";
        "if q, ok := qids.Load(di); ok { return q.(uint64), nil }";
        "q, _ := qids.LoadOrStore(di, nextQid.Add(1))";
        "return q.(uint64), nil"]
  (* qids: NewPath adds 1; paths only touched inside one Lock ... deferred Unlock section of QIDFor *)
  && N.eqb fs_newpath_delta 1 && fs_mapper_paths_guarded && strs_eqb fs_mapper_paths_users ["Mapper.QIDFor"]
  && strs_eqb fs_qidfor_body
       ["m.mu.Lock()"; "defer m.mu.Unlock()"; "if path, ok := m.paths[q.Path]; ok"; "path := m.g.NewPath()";
        "m.paths[q.Path] = path"; "return"].

Lemma qid_shape_ok : fs_qid_shape_ok = true.
Proof. vm_compute. reflexivity. Qed.
