(** Obligations of C20 over gen/FsGen20.v (those of C19 are in FsGenSpec19.v).
    Semantic extraction: widths, shift amounts, counter steps and mode bits as
    numbers, proved equal to what the models use; ModeFromOS / OSMode / QIDType as
    decision tables, and the hand models of Mode.v proved EQUAL to the
    interpretation of those tables for every mode word; structural facts as
    booleans.  Alpha-normalised text remains for the statement sequences of
    Mapper.QIDFor and localToQid (their order is their content): renaming a local
    does not change it. *)
From Coq Require Import String List Bool NArith.
From P9V Require Import gen.ConstGen gen.FsGen20 Fsx.Qid Fsx.Mode.
Import ListNotations.
Open Scope string_scope.

Fixpoint strs_eqb (a b : list string) : bool :=
  match a, b with
  | [], [] => true
  | x :: a', y :: b' => String.eqb x y && strs_eqb a' b'
  | _, _ => false
  end.
Fixpoint terms_eqb (a b : list (string * N)) : bool :=
  match a, b with
  | [], [] => true
  | (x, n) :: a', (y, m) :: b' => String.eqb x y && N.eqb n m && terms_eqb a' b'
  | _, _ => false
  end.

Definition fs_qid_shape_ok : bool :=
  (* encodeLikely: widths and shift amounts are the constants the model uses *)
  N.eqb fs_enc_ino_bits localfs_inodeLikelyBits
  && N.eqb fs_enc_upper_bits localfs_devUpperBits && N.eqb fs_enc_upper_offset localfs_devUpperOffset
  && N.eqb fs_enc_major_bits localfs_devMajorLikelyBits && N.eqb fs_enc_minor_bits localfs_devMinorLikelyBits
  && terms_eqb fs_enc_or_terms [("minor", localfs_inodeLikelyBits); ("major", (localfs_inodeLikelyBits + localfs_devMinorLikelyBits)%N)]
  && strs_eqb fs_enc_shape
       ["inoLikely"; "guard (ino & ^inoLikely) != 0"; "upperUnlikely"; "guard (dev & upperUnlikely) != 0";
        "major := unix.Major(dev)"; "guard nOnes < major"; "minor := unix.Minor(dev)"; "guard nOnes < minor";
        "q := (ino & inoLikely)"; "or"; "or"; "return q, true"]
  && String.eqb fs_nOnes "((1 << n) - 1)"
  (* fallback table: one Load and one LoadOrStore, both keyed by the devino VALUE built from the same two stat fields
     that encodeLikely gets; counter from 2^63 in steps of 1 *)
  && fs_fallback_key_is_value && String.eqb fs_fallback_key_fields "stat.Dev, stat.Ino"
  && String.eqb fs_fallback_encode_args "stat.Dev, stat.Ino"
  && N.eqb fs_fallback_add_delta 1 && N.eqb fs_nextQid_init next0
  && strs_eqb fs_localToQid_body
       ["_v1 := _v0.Sys().(*syscall.Stat_t)";
        "if _v2, _v3 := encodeLikely(uint64(_v1.Dev), _v1.Ino); _v3 { return _v2, nil }";
        "_v4 := devino{uint64(_v1.Dev), _v1.Ino}";
        "if _v2, _v3 := qids.Load(_v4); _v3 { return _v2.(uint64), nil }";
        "_v2, _ := qids.LoadOrStore(_v4, nextQid.Add(1))";
        "return _v2.(uint64), nil"]
  (* qids: NewPath adds 1; paths only touched inside the single Lock ... deferred Unlock section of QIDFor *)
  && N.eqb fs_newpath_delta 1 && fs_mapper_paths_guarded && strs_eqb fs_mapper_paths_users ["Mapper.QIDFor"]
  && strs_eqb fs_qidfor_body
       ["_v0.mu.Lock()"; "defer _v0.mu.Unlock()"; "if _v2, _v3 := _v0.paths[_v1.Path]; _v3 { return hit }";
        "_v2 := _v0.g.NewPath()"; "_v0.paths[_v1.Path] = _v2"; "return"]
  && String.eqb fs_mfo_perm "mode.Perm()" && N.eqb fs_osm_perm_mask p9_AllPermissions && N.eqb fs_filetype_mask p9_FileModeMask.

Lemma qid_shape_ok : fs_qid_shape_ok = true.
Proof. vm_compute. reflexivity. Qed.

(** * the mode functions as interpretations of the tables read from p9.go *)
Fixpoint first_case (tbl : list (N * N)) (test : N -> bool) (dflt : N) : N :=
  match tbl with
  | [] => dflt
  | (k, v) :: r => if test k then v else first_case r test dflt
  end.
Definition flags_or (tbl : list (N * N)) (test : N -> bool) (acc : N) : N :=
  fold_left (fun a kv => if test (fst kv) then N.lor a (snd kv) else a) tbl acc.

Definition ModeFromOS_tbl (mode : N) : N :=
  flags_or fs_mfo_flags (has mode) (N.lor (N.land mode os_ModePerm) (first_case fs_mfo_cases (has mode) fs_mfo_default)).
Definition OSMode_tbl (m : N) : N :=
  flags_or fs_osm_flags (has m) (N.lor (N.land m fs_osm_perm_mask) (first_case fs_osm_cases (is_type m) 0)).
Definition QIDType_tbl (m : N) : N := first_case fs_qt_cases (is_type m) fs_qt_default.

(** the hand models of Mode.v ARE these tables, for every word *)
Theorem ModeFromOS_is_table : forall mode, ModeFromOS mode = ModeFromOS_tbl mode.
Proof. intros mode. reflexivity. Qed.
Theorem OSMode_is_table : forall m, OSMode m = OSMode_tbl m.
Proof. intros m. reflexivity. Qed.
Theorem QIDType_is_table : forall m, QIDType m = QIDType_tbl m.
Proof.
  intros m. unfold QIDType, QIDType_tbl. cbn [fs_qt_cases fs_qt_default first_case].
  change p9_ModeDirectory with 16384%N. change p9_ModeSocket with 49152%N. change p9_ModeNamedPipe with 4096%N.
  change p9_ModeCharacterDevice with 8192%N. change p9_ModeSymlink with 40960%N.
  destruct (is_type m 16384); [reflexivity|]. destruct (is_type m 49152); [reflexivity|].
  destruct (is_type m 4096); [reflexivity|]. destruct (is_type m 8192); reflexivity.
Qed.
