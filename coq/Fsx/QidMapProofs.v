(** Proofs about QidMap.v: a Mapper never changes or reuses an assignment
    (stability, injectivity, for every history of lookups), and the QID an entry
    has in Readdir is the QID Walk and GetAttr report (C19_qids, C20_mapper). *)
From Coq Require Import NArith String List Bool Lia ZArith ZifyN ZifyBool ZifyNat.
From P9V Require Import Base.Str gen.ConstGen Fsx.Readdir Fsx.ReaddirProofs Fsx.Qid Fsx.QidMap.
Import ListNotations.
Open Scope list_scope.
Open Scope N_scope.

Lemma mid_eqb_eq a b : mid_eqb a b = true <-> a = b.
Proof.
  destruct a as [a1 a2], b as [b1 b2]. unfold mid_eqb. cbn.
  rewrite andb_true_iff, !Nat.eqb_eq. split; [intros [-> ->]; reflexivity|intros H; inversion H; auto].
Qed.
Lemma mkey_eqb_eq a b : mkey_eqb a b = true <-> a = b.
Proof.
  destruct a as [a1 a2], b as [b1 b2]. unfold mkey_eqb. cbn.
  rewrite andb_true_iff, mid_eqb_eq, N.eqb_eq. split; [intros [-> ->]; reflexivity|intros H; inversion H; auto].
Qed.
Lemma mkey_eqb_refl a : mkey_eqb a a = true.
Proof. now apply mkey_eqb_eq. Qed.

(** * tables only grow *)
Definition extends (s s' : mstate) : Prop :=
  forall k p, tlookup k (m_tbl s) = Some p -> tlookup k (m_tbl s') = Some p.

Lemma extends_refl s : extends s s.
Proof. intros k p H; exact H. Qed.
Lemma extends_trans a b c : extends a b -> extends b c -> extends a c.
Proof. intros H1 H2 k p H. auto. Qed.

Lemma qid_for_extends s m q r s' : qid_for s m q = (r, s') -> extends s s'.
Proof.
  unfold qid_for. destruct (tlookup (m, q_path q) (m_tbl s)) eqn:E; intros H; inversion H; subst.
  - apply extends_refl.
  - intros k p Hk. cbn. destruct (mkey_eqb k (m, q_path q)) eqn:Ek; [|exact Hk].
    apply mkey_eqb_eq in Ek. subst k. congruence.
Qed.

Lemma apply_chain_extends c : forall s q r s', apply_chain s c q = (r, s') -> extends s s'.
Proof.
  induction c as [|m c IH]; intros s q r s' H; cbn in H.
  - inversion H; subst. apply extends_refl.
  - destruct (qid_for s m q) as [q1 s1] eqn:E. eapply extends_trans; [eapply qid_for_extends; eauto|eauto].
Qed.

(** * a lookup that is already settled: pure, the state is not changed *)
Definition resolves (s : mstate) (c : list mid) (q v : qid) : Prop := apply_chain s c q = (v, s).

Lemma qid_for_hit s m q p :
  tlookup (m, q_path q) (m_tbl s) = Some p -> qid_for s m q = (mkQid (q_type q) (q_version q) p, s).
Proof. intros H. unfold qid_for. now rewrite H. Qed.

Lemma qid_for_settles s m q r s' :
  qid_for s m q = (r, s') -> tlookup (m, q_path q) (m_tbl s') = Some (q_path r) /\
                             q_type r = q_type q /\ q_version r = q_version q.
Proof.
  unfold qid_for. destruct (tlookup (m, q_path q) (m_tbl s)) eqn:E; intros H; inversion H; subst; cbn.
  - auto.
  - rewrite mkey_eqb_refl. auto.
Qed.

Lemma qid_for_resolved s m q r s' s2 :
  qid_for s m q = (r, s') -> extends s' s2 -> qid_for s2 m q = (r, s2).
Proof.
  intros H Hx. apply qid_for_settles in H as (Hl & Ht & Hv). apply Hx in Hl.
  rewrite (qid_for_hit _ _ _ _ Hl). destruct r; cbn in *; subst; reflexivity.
Qed.

Lemma apply_chain_resolved c : forall s q r s' s2,
  apply_chain s c q = (r, s') -> extends s' s2 -> resolves s2 c q r.
Proof.
  unfold resolves. induction c as [|m c IH]; intros s q r s' s2 H Hx; cbn in *.
  - inversion H; subst; reflexivity.
  - destruct (qid_for s m q) as [q1 s1] eqn:E.
    assert (Hx1 : extends s1 s2) by (eapply extends_trans; [eapply apply_chain_extends; eauto|exact Hx]).
    rewrite (qid_for_resolved _ _ _ _ _ _ E Hx1). eauto.
Qed.

Lemma resolves_extends s s2 c q v : resolves s c q v -> extends s s2 -> resolves s2 c q v.
Proof. intros H Hx. eapply apply_chain_resolved; eauto. Qed.

Lemma resolves_app s c1 c2 q u v : resolves s c1 q u -> resolves s c2 u v -> resolves s (c1 ++ c2) q v.
Proof.
  unfold resolves. revert q. induction c1 as [|m c1 IH]; intros q H1 H2; cbn in *.
  - inversion H1; subst. exact H2.
  - destruct (qid_for s m q) as [q1 s1] eqn:E.
    assert (s1 = s).
    { assert (X := qid_for_extends _ _ _ _ _ E). assert (Y := apply_chain_extends _ _ _ _ _ H1).
      (* s1 is between s and s: qid_for either leaves the state or adds an entry; if it had added one, apply_chain could not return s *)
      unfold qid_for in E. destruct (tlookup (m, q_path q) (m_tbl s)) eqn:L; inversion E; subst; [reflexivity|].
      exfalso. specialize (Y (m, q_path q) (inc64 (m_gen s (fst m)))). cbn in Y. rewrite mkey_eqb_refl in Y.
      specialize (Y eq_refl). congruence. }
    subst s1. eauto.
Qed.

(** a settled lookup has one answer, in this and in every later state *)
Lemma resolves_fun s s2 c q v v2 s3 :
  resolves s c q v -> extends s s2 -> apply_chain s2 c q = (v2, s3) -> v2 = v /\ s3 = s2.
Proof.
  intros H Hx H2. apply (resolves_extends _ _ _ _ _ H) in Hx. unfold resolves in Hx.
  rewrite Hx in H2. inversion H2; auto.
Qed.

Lemma chain_type c : forall s q r s', apply_chain s c q = (r, s') -> q_type r = q_type q /\ q_version r = q_version q.
Proof.
  induction c as [|m c IH]; intros s q r s' H; cbn in H.
  - inversion H; auto.
  - destruct (qid_for s m q) as [q1 s1] eqn:E. apply qid_for_settles in E as (_ & Ht & Hv).
    apply IH in H as (Ht' & Hv'). split; congruence.
Qed.

(** * Readdir / Walk / GetAttr *)
Lemma getattr_all_spec l : forall s qs s',
  getattr_all s l = (qs, s') ->
  extends s s' /\ map fst qs = map fst l /\
  forall n f, In (n, f) l -> NoDup (map fst l) ->
              exists v, assoc n qs = Some v /\ resolves s' (f_chain f) (f_base f) v.
Proof.
  induction l as [|[n0 f0] l IH]; intros s qs s' H; cbn in H.
  - inversion H; subst. split; [apply extends_refl|]. split; [reflexivity|]. intros ? ? [].
  - destruct (getattr s f0) as [q s1] eqn:E. destruct (getattr_all s1 l) as [qs' s2] eqn:E2.
    inversion H; subst. destruct (IH _ _ _ E2) as (Hx & Hm & Hall).
    split; [eapply extends_trans; [eapply apply_chain_extends; exact E|exact Hx]|].
    split; [cbn; now rewrite Hm|].
    intros n f Hin Hnd. cbn in Hnd. inversion Hnd as [|? ? Hni Hnd']; subst. cbn [assoc].
    destruct Hin as [Heq|Hin].
    + inversion Heq; subst. rewrite String.eqb_refl. exists q. split; [reflexivity|].
      eapply apply_chain_resolved; eauto.
    + destruct (String.eqb_spec n n0) as [->|Hne].
      * exfalso. apply Hni. change n0 with (fst (n0, f)). now apply in_map.
      * now apply Hall.
Qed.

Lemma remap_entries_spec m es : forall s es' s',
  remap_entries s m es = (es', s') ->
  extends s s' /\ map d_name es' = map d_name es /\ map d_off es' = map d_off es /\ map d_type es' = map d_type es /\
  forall i d, nth_error es i = Some d ->
    exists d', nth_error es' i = Some d' /\ d_name d' = d_name d /\ d_off d' = d_off d /\ d_type d' = d_type d /\
               resolves s' [m] (d_qid d) (d_qid d').
Proof.
  induction es as [|d0 es IH]; intros s es' s' H; cbn in H.
  - inversion H; subst. split; [apply extends_refl|]. repeat split; auto. intros [|i] d Hd; discriminate.
  - destruct (qid_for s m (d_qid d0)) as [q s1] eqn:E. destruct (remap_entries s1 m es) as [r' s2] eqn:E2.
    inversion H; subst. destruct (IH _ _ _ E2) as (Hx & Hn & Ho & Ht & Hall).
    split; [eapply extends_trans; [eapply qid_for_extends; exact E|exact Hx]|].
    cbn. rewrite Hn, Ho, Ht. repeat split; auto.
    intros [|i] d Hd; cbn in Hd.
    + inversion Hd; subst. eexists. split; [reflexivity|]. cbn. repeat split; auto.
      unfold resolves. cbn. now rewrite (qid_for_resolved _ _ _ _ _ _ E Hx).
    + cbn. now apply Hall.
Qed.

Lemma remap_page_spec ws : forall s es es' s',
  remap_page s ws es = (es', s') ->
  extends s s' /\
  forall i d, nth_error es i = Some d ->
    exists d', nth_error es' i = Some d' /\ d_name d' = d_name d /\ d_off d' = d_off d /\ d_type d' = d_type d /\
               resolves s' ws (d_qid d) (d_qid d').
Proof.
  induction ws as [|m ws IH]; intros s es es' s' H; cbn in H.
  - inversion H; subst. split; [apply extends_refl|]. intros i d Hd. exists d. repeat split; auto.
  - destruct (remap_entries s m es) as [es1 s1] eqn:E. destruct (remap_entries_spec _ _ _ _ _ E) as (Hx1 & _ & _ & _ & H1).
    destruct (IH _ _ _ _ H) as (Hx2 & H2).
    split; [eapply extends_trans; eauto|].
    intros i d Hd. destruct (H1 _ _ Hd) as (d1 & Hd1 & Hn1 & Ho1 & Ht1 & Hr1).
    destruct (H2 _ _ Hd1) as (d2 & Hd2 & Hn2 & Ho2 & Ht2 & Hr2).
    exists d2. split; [exact Hd2|]. repeat split; try congruence.
    change (m :: ws) with ([m] ++ ws). eapply resolves_app; [|exact Hr2].
    eapply resolves_extends; eauto.
Qed.

Lemma remap_page_length ws : forall s es es' s', remap_page s ws es = (es', s') -> length es' = length es.
Proof.
  induction ws as [|m ws IH]; intros s es es' s' H; cbn in H.
  - inversion H; subst; reflexivity.
  - destruct (remap_entries s m es) as [es1 s1] eqn:E. destruct (remap_entries_spec _ _ _ _ _ E) as (_ & Hn & _).
    rewrite (IH _ _ _ _ H). rewrite <- (map_length d_name es1), Hn. apply map_length.
Qed.

Lemma nth_error_same_length {A B} (l : list A) (l' : list B) i a :
  length l' = length l -> nth_error l i = Some a -> exists b, nth_error l' i = Some b.
Proof.
  intros HL H. destruct (nth_error l' i) eqn:E; [eauto|]. apply nth_error_None in E.
  assert (i < length l)%nat by (apply nth_error_Some; congruence). lia.
Qed.

Lemma assoc_in {A} n (a : A) l : assoc n l = Some a -> In (n, a) l.
Proof.
  induction l as [|[n' a'] l IH]; cbn; [discriminate|].
  destruct (String.eqb_spec n n') as [->|_]; intros H; [inversion H; auto|auto].
Qed.
Lemma in_assoc {A} n (a : A) l : NoDup (map fst l) -> In (n, a) l -> assoc n l = Some a.
Proof.
  induction l as [|[n' a'] l IH]; cbn; intros Hnd Hin; [destruct Hin|].
  inversion Hnd as [|? ? Hni Hnd']; subst. destruct Hin as [H|H].
  - inversion H; subst. now rewrite String.eqb_refl.
  - destruct (String.eqb_spec n n') as [->|_]; [|auto].
    exfalso. apply Hni. change n' with (fst (n', a)). now apply in_map.
Qed.

(** how a directory settles the QID of entry [n] (File [f]): through the File's
    own wrappers and then the directory's *)
Definition entry_resolves (s : mstate) (d : dir) (n : string) (f : file) (v : qid) : Prop :=
  exists u, resolves s (f_chain f) (f_base f) u /\ resolves s (d_wrap d) u v /\
            match d_stored d with Some st => st n = u | None => True end.

(** staticfs: a.qids[name] is what the file's own wrapper answers, from construction on *)
Definition stored_ok (s : mstate) (d : dir) : Prop :=
  match d_stored d with
  | Some st => forall n f, In (n, f) (d_ents d) -> resolves s (f_chain f) (f_base f) (st n)
  | None => True
  end.

Lemma static_entry_nth q names off cnt i e :
  nth_error (static_readdir q names off cnt) i = Some e ->
  In (d_name e) names /\ d_qid e = q (d_name e) /\ d_type e = q_type (q (d_name e)).
Proof.
  rewrite static_readdir_spec. intros H. apply number_from_nth in H as (n & Hn & ->). cbn.
  split; [|auto]. apply nth_error_In in Hn. rewrite takeN_firstn, dropN_skipn in Hn.
  assert (Hn' : In n (skipn (N.to_nat off) names)).
  { rewrite <- (firstn_skipn (N.to_nat cnt) (skipn (N.to_nat off) names)). apply in_or_app. now left. }
  rewrite <- (firstn_skipn (N.to_nat off) names). apply in_or_app. now right.
Qed.

Theorem dir_readdir_entries s d off cnt es s1 :
  NoDup (map fst (d_ents d)) -> stored_ok s d ->
  dir_readdir s d off cnt = (es, s1) ->
  extends s s1 /\
  forall e, In e es -> exists f, assoc (d_name e) (d_ents d) = Some f /\
                                 entry_resolves s1 d (d_name e) f (d_qid e) /\ d_type e = q_type (d_qid e).
Proof.
  intros Hnd Hst H. unfold dir_readdir in H. unfold stored_ok in Hst. unfold entry_resolves.
  destruct (d_stored d) as [st|] eqn:Est.
  - destruct (remap_page_spec _ _ _ _ _ H) as (Hx & Hall). split; [exact Hx|].
    intros e Hin. apply In_nth_error in Hin as (i & Hi).
    assert (Hlen : exists e0, nth_error (static_readdir st (map fst (d_ents d)) off cnt) i = Some e0).
    { eapply nth_error_same_length; [|exact Hi]. symmetry. eapply remap_page_length; eauto. }
    destruct Hlen as (e0 & He0). destruct (Hall _ _ He0) as (e' & He' & Hn & Ho & Ht & Hr).
    rewrite Hi in He'. inversion He'; subst e'. clear He'.
    destruct (static_entry_nth _ _ _ _ _ _ He0) as (Hin0 & Hq0 & Ht0).
    apply in_map_iff in Hin0 as ([n f] & Hfst & Hinf). cbn in Hfst. subst n.
    exists f. rewrite Hn. split; [now apply in_assoc|]. split.
    + exists (st (d_name e0)). split; [eapply resolves_extends; [eapply Hst; eauto|exact Hx]|]. split; [now rewrite <- Hq0|reflexivity].
    + rewrite Ht, Ht0. destruct (chain_type _ _ _ _ _ Hr) as (Hty & _). now rewrite Hty, Hq0.
  - destruct (getattr_all s (d_ents d)) as [qs s0] eqn:Eg.
    destruct (getattr_all_spec _ _ _ _ Eg) as (Hx0 & Hm & Hq).
    destruct (remap_page_spec _ _ _ _ _ H) as (Hx & Hall). split; [eapply extends_trans; eauto|].
    intros e Hin. apply In_nth_error in Hin as (i & Hi).
    set (q := fun n => match assoc n qs with Some x => x | None => zero_qid end) in *.
    assert (Hlen : exists e0, nth_error (static_readdir q (map fst (d_ents d)) off cnt) i = Some e0).
    { eapply nth_error_same_length; [|exact Hi]. symmetry. eapply remap_page_length; eauto. }
    destruct Hlen as (e0 & He0). destruct (Hall _ _ He0) as (e' & He' & Hn & Ho & Ht & Hr).
    rewrite Hi in He'. inversion He'; subst e'. clear He'.
    destruct (static_entry_nth _ _ _ _ _ _ He0) as (Hin0 & Hq0 & Ht0).
    apply in_map_iff in Hin0 as ([n f] & Hfst & Hinf). cbn in Hfst. subst n.
    destruct (Hq _ _ Hinf Hnd) as (v & Hv & Hrv).
    exists f. rewrite Hn. split; [now apply in_assoc|]. split.
    + exists v. split; [eapply resolves_extends; eauto|]. split; [|exact I].
      rewrite Hq0 in Hr. unfold q in Hr. now rewrite Hv in Hr.
    + rewrite Ht, Ht0. destruct (chain_type _ _ _ _ _ Hr) as (Hty & _). now rewrite Hty, Hq0.
Qed.

Theorem dir_walk_spec s d n q fw s1 :
  stored_ok s d -> dir_walk s d n = Some (q, fw, s1) ->
  exists f, assoc n (d_ents d) = Some f /\ fw = mkFile (f_base f) (f_chain f ++ d_wrap d) /\
            extends s s1 /\ entry_resolves s1 d n f q.
Proof.
  intros Hst H. unfold dir_walk in H. destruct (assoc n (d_ents d)) as [f|] eqn:Ea; [|discriminate].
  exists f. split; [reflexivity|]. unfold stored_ok in Hst. unfold entry_resolves.
  destruct (d_stored d) as [st|] eqn:Est.
  - destruct (apply_chain s (d_wrap d) (st n)) as [q1 s2] eqn:E. inversion H; subst.
    split; [reflexivity|]. split; [eapply apply_chain_extends; eauto|].
    exists (st n). split; [|split; [|reflexivity]].
    + eapply resolves_extends; [eapply Hst; now apply assoc_in|eapply apply_chain_extends; eauto].
    + eapply apply_chain_resolved; [exact E|apply extends_refl].
  - destruct (getattr s f) as [q0 s0] eqn:Eg. destruct (apply_chain s0 (d_wrap d) q0) as [q1 s2] eqn:E.
    inversion H; subst. split; [reflexivity|].
    split; [eapply extends_trans; eapply apply_chain_extends; eauto|].
    exists q0. split; [|split; [|exact I]].
    + eapply apply_chain_resolved; [exact Eg|eapply apply_chain_extends; eauto].
    + eapply apply_chain_resolved; [exact E|apply extends_refl].
Qed.

(** C19_qids for staticfs / composefs (nested mounts = any [d_wrap], any [f_chain]):
    an entry listed by Readdir has the QID that a later Walk to its name
    returns and that a still later GetAttr on the walked File returns, whatever
    other lookups ([extends]) happen in between; its Type is that QID's type. *)
Theorem readdir_walk_getattr_agree s0 d off cnt es s1 s2 e qw fw s3 s4 qg s5 :
  NoDup (map fst (d_ents d)) -> stored_ok s0 d ->
  dir_readdir s0 d off cnt = (es, s1) -> In e es ->
  extends s1 s2 -> dir_walk s2 d (d_name e) = Some (qw, fw, s3) ->
  extends s3 s4 -> getattr s4 fw = (qg, s5) ->
  qw = d_qid e /\ qg = d_qid e /\ d_type e = q_type (d_qid e) /\ s5 = s4.
Proof.
  intros Hnd Hst Hr Hin Hx12 Hw Hx34 Hg.
  destruct (dir_readdir_entries _ _ _ _ _ _ Hnd Hst Hr) as (Hx01 & Hall).
  destruct (Hall _ Hin) as (f & Hf & (u & Hu1 & Hu2 & Hu3) & Hty).
  assert (Hst2 : stored_ok s2 d).
  { unfold stored_ok in *. destruct (d_stored d); [|exact I]. intros n f' Hin'.
    eapply resolves_extends; [eapply Hst; eauto|eapply extends_trans; eauto]. }
  destruct (dir_walk_spec _ _ _ _ _ _ Hst2 Hw) as (f' & Hf' & -> & Hx23 & (u' & Hu1' & Hu2' & Hu3')).
  rewrite Hf in Hf'. inversion Hf'; subst f'. clear Hf'.
  assert (Hx13 : extends s1 s3) by (eapply extends_trans; eauto).
  assert (E1 : resolves s3 (f_chain f ++ d_wrap d) (f_base f) (d_qid e)).
  { apply (resolves_app s3 _ _ _ u); [eapply resolves_extends; [exact Hu1|exact Hx13]|eapply resolves_extends; [exact Hu2|exact Hx13]]. }
  assert (E2 : resolves s3 (f_chain f ++ d_wrap d) (f_base f) qw) by (apply (resolves_app s3 _ _ _ u'); [exact Hu1'|exact Hu2']).
  unfold resolves in E1, E2. rewrite E1 in E2. inversion E2 as [Hq]. split; [reflexivity|].
  unfold getattr in Hg. cbn in Hg.
  destruct (resolves_fun _ _ _ _ _ _ _ E1 Hx34 Hg) as (-> & ->). auto.
Qed.

(** * injectivity: Mappers that share a generator never hand out a path twice,
      nor path 0 (the directory roots keep it) *)
Definition minv (s : mstate) : Prop :=
  (forall k p, tlookup k (m_tbl s) = Some p -> 0 < p <= m_gen s (fst (fst k))) /\
  (forall k k' p, tlookup k (m_tbl s) = Some p -> tlookup k' (m_tbl s) = Some p ->
                  fst (fst k) = fst (fst k') -> k = k').

Lemma minv_init : minv m_init.
Proof. split; cbn; intros; discriminate. Qed.

Lemma inc64_small' n : n + 1 < two64 -> inc64 n = n + 1.
Proof. intros H. unfold inc64. now apply N.mod_small. Qed.
Lemma inc64_le n : inc64 n <= n + 1.
Proof. unfold inc64. apply N.mod_le. discriminate. Qed.

(** [gbound B s]: no generator has been advanced more than B times *)
Definition gbound (B : N) (s : mstate) : Prop := forall g, m_gen s g <= B.

Lemma qid_for_gbound B s (m : mid) q r s' : gbound B s -> qid_for s m q = (r, s') -> gbound (B + 1) s'.
Proof.
  intros Hb H g. unfold qid_for in H.
  destruct (tlookup (m, q_path q) (m_tbl s)) eqn:E; rewrite ?E in H; inversion H; subst; cbn.
  - specialize (Hb g). lia.
  - destruct (Nat.eqb g (fst m)); [pose proof (inc64_le (m_gen s (fst m))); specialize (Hb (fst m)); lia|specialize (Hb g); lia].
Qed.

Lemma qid_for_minv s (m : mid) q r s' : minv s -> m_gen s (fst m) + 1 < two64 -> qid_for s m q = (r, s') -> minv s'.
Proof.
  intros (Hr & Hi) Hw H. unfold qid_for in H.
  destruct (tlookup (m, q_path q) (m_tbl s)) eqn:E; rewrite ?E in H; inversion H; subst; [split; assumption|].
  rewrite (inc64_small' _ Hw). split; cbn.
  - intros k p. destruct (mkey_eqb k (m, q_path q)) eqn:Ek.
    + apply mkey_eqb_eq in Ek. subst k. intros X; inversion X; subst. cbn. rewrite Nat.eqb_refl. lia.
    + intros Hk. specialize (Hr _ _ Hk). destruct (Nat.eqb_spec (fst (fst k)) (fst m)) as [Eg|]; [rewrite Eg in Hr|]; lia.
  - intros k k' p. destruct (mkey_eqb k (m, q_path q)) eqn:Ek; destruct (mkey_eqb k' (m, q_path q)) eqn:Ek'.
    + apply mkey_eqb_eq in Ek, Ek'. congruence.
    + apply mkey_eqb_eq in Ek. subst k. intros X Hk' Hg; inversion X; subst. cbn in Hg.
      specialize (Hr _ _ Hk'). rewrite <- Hg in Hr. lia.
    + apply mkey_eqb_eq in Ek'. subst k'. intros Hk X Hg; inversion X; subst. cbn in Hg.
      specialize (Hr _ _ Hk). rewrite Hg in Hr. lia.
    + apply Hi.
Qed.

(** any history of QIDFor calls on any Mappers *)
Fixpoint run_history (s : mstate) (h : list (mid * qid)) : mstate :=
  match h with
  | [] => s
  | (m, q) :: r => run_history (snd (qid_for s m q)) r
  end.

(** tables only grow, however long the history *)
Lemma run_history_extends h : forall s, extends s (run_history s h).
Proof.
  induction h as [|[m q] h IH]; intros s; cbn; [apply extends_refl|].
  destruct (qid_for s m q) as [r s1] eqn:E. cbn.
  eapply extends_trans; [eapply qid_for_extends; eauto|apply IH].
Qed.

(** the invariant, for histories that keep every generator below 2^64 *)
Lemma run_history_inv h : forall B s, minv s -> gbound B s -> B + N.of_nat (length h) < two64 ->
  minv (run_history s h) /\ gbound (B + N.of_nat (length h)) (run_history s h).
Proof.
  induction h as [|[m q] h IH]; intros B s Hi Hb Hw; cbn [run_history length] in *.
  - rewrite N.add_0_r. auto.
  - destruct (qid_for s m q) as [r s1] eqn:E. cbn [snd].
    assert (I1 : minv s1) by (eapply qid_for_minv; [exact Hi| |exact E]; specialize (Hb (fst m)); lia).
    assert (B1 := qid_for_gbound _ _ _ _ _ _ Hb E).
    destruct (IH (B + 1) s1 I1 B1) as (A1 & A2); [lia|].
    split; [exact A1|]. replace (B + N.of_nat (S (length h))) with (B + 1 + N.of_nat (length h)) by lia. exact A2.
Qed.

(** C20_mapper, sequential form, uint64 generators: after any history [h1], ask
    for [q]; after any further history [h2] the answer is the same, and two
    Mappers on one generator give equal paths only for the same Mapper and the
    same source path; no allocated path is 0 — for fewer than 2^64 calls in all. *)
Theorem mapper_stable_injective h1 h2 m q r s1 m' q' r' s2 :
  N.of_nat (length h1 + length h2) + 2 < two64 ->
  qid_for (run_history m_init h1) m q = (r, s1) ->
  qid_for (run_history s1 h2) m' q' = (r', s2) ->
  (m' = m -> q_path q' = q_path q -> q_path r' = q_path r) /\
  (fst m' = fst m -> q_path r' = q_path r -> m' = m /\ q_path q' = q_path q) /\
  0 < q_path r /\ q_type r = q_type q /\ q_version r = q_version q.
Proof.
  intros Hw H1 H2. rewrite Nat2N.inj_add in Hw.
  assert (G0 : gbound 0 m_init) by (intros g; cbn; lia).
  destruct (run_history_inv h1 0 m_init minv_init G0) as (I0 & B0); [lia|].
  assert (I1 : minv s1) by (eapply qid_for_minv; [exact I0| |exact H1]; specialize (B0 (fst m)); lia).
  assert (B1 := qid_for_gbound _ _ _ _ _ _ B0 H1).
  destruct (run_history_inv h2 _ s1 I1 B1) as (I2 & B2); [lia|].
  assert (X12 := run_history_extends h2 s1).
  assert (I3 : minv s2) by (eapply qid_for_minv; [exact I2| |exact H2]; specialize (B2 (fst m')); lia).
  assert (X23 := qid_for_extends _ _ _ _ _ H2).
  destruct (qid_for_settles _ _ _ _ _ H1) as (L1 & T1 & V1).
  destruct (qid_for_settles _ _ _ _ _ H2) as (L2 & T2 & V2).
  assert (L1' : tlookup (m, q_path q) (m_tbl s2) = Some (q_path r)) by (apply X23, X12, L1).
  destruct I3 as (Hr & Hi). split; [|split; [|split]].
  - intros -> Hq. rewrite Hq in L2. congruence.
  - intros Hg Hp. rewrite Hp in L2. specialize (Hi _ _ _ L2 L1' Hg). inversion Hi; auto.
  - specialize (Hr _ _ L1'). lia.
  - auto.
Qed.

(** * staticfs construction establishes [stored_ok] (the hypothesis of the Readdir/Walk/GetAttr theorem) *)
Lemma static_new_spec names : forall s g i fs qs s',
  static_new s g i names = (fs, qs, s') ->
  extends s s' /\ map fst fs = names /\ map fst qs = names /\
  forall n f, In (n, f) fs -> NoDup names -> resolves s' (f_chain f) (f_base f) (stored_of qs n).
Proof.
  induction names as [|n0 names IH]; intros s g i fs qs s' H; cbn [static_new] in H.
  - inversion H; subst. split; [apply extends_refl|]. repeat split; auto. intros ? ? [].
  - destruct (getattr s (static_file g i)) as [q s1] eqn:E.
    destruct (static_new s1 g (S i) names) as [[fs' qs'] s2] eqn:E2. inversion H; subst.
    destruct (IH _ _ _ _ _ _ E2) as (Hx & Hf & Hq & Hall).
    split; [eapply extends_trans; [eapply apply_chain_extends; exact E|exact Hx]|].
    split; [cbn; now rewrite Hf|]. split; [cbn; now rewrite Hq|].
    intros n f Hin Hnd. apply NoDup_cons_iff in Hnd as (Hni & Hnd'). unfold stored_of. cbn [assoc].
    destruct Hin as [Heq|Hin].
    + inversion Heq; subst. rewrite String.eqb_refl. eapply apply_chain_resolved; [exact E|exact Hx].
    + destruct (String.eqb_spec n n0) as [->|Hne].
      * exfalso. apply Hni. rewrite <- Hf. change n0 with (fst (n0, f)). now apply in_map.
      * now apply Hall.
Qed.

Theorem static_new_stored_ok s g names fs qs s' w :
  static_new s g 0 names = (fs, qs, s') -> NoDup names ->
  stored_ok s' (mkDir fs (Some (stored_of qs)) w) /\ NoDup (map fst (d_ents (mkDir fs (Some (stored_of qs)) w))).
Proof.
  intros H Hnd. destruct (static_new_spec _ _ _ _ _ _ _ H) as (_ & Hf & _ & Hall).
  split; [|cbn; now rewrite Hf]. unfold stored_ok. cbn. intros n f Hin. now apply Hall.
Qed.

(** * a mount whose identity changes after the composefs was built *)
Lemma set_base_names n q l : map fst (set_base n q l) = map fst l.
Proof.
  unfold set_base. rewrite map_map. apply map_ext. intros [n' f]. cbn. now destruct (String.eqb n n').
Qed.

(** composefs root ([d_stored = None]): whatever the mounts' identities have become, the listing made NOW agrees with
    Walk and GetAttr made afterwards — there is no table that could be stale *)
Theorem compose_live_after_change s0 d n q' off cnt es s1 s2 e qw fw s3 s4 qg s5 :
  NoDup (map fst (d_ents d)) -> d_stored d = None ->
  dir_readdir s0 (dir_set_base n q' d) off cnt = (es, s1) -> In e es ->
  extends s1 s2 -> dir_walk s2 (dir_set_base n q' d) (d_name e) = Some (qw, fw, s3) ->
  extends s3 s4 -> getattr s4 fw = (qg, s5) ->
  qw = d_qid e /\ qg = d_qid e /\ d_type e = q_type (d_qid e) /\ s5 = s4.
Proof.
  intros Hnd Hst Hr Hin He1 Hw He2 Hg.
  eapply readdir_walk_getattr_agree with (d := dir_set_base n q' d); eauto.
  - cbn. now rewrite set_base_names.
  - unfold stored_ok. cbn. now rewrite Hst.
Qed.

(** ... whereas a root that answered Readdir from a table filled at mount time (and Walk/GetAttr live, as they must be:
    they return the mounted File itself) disagrees as soon as one mount's version or path moves on *)
Theorem mount_cache_refuted :
  let d := mkDir [("log"%string, mkFile (mkQid 0 0 0) [(0, 0)%nat]); ("other"%string, mkFile (mkQid 0 0 0) [(0, 1)%nat])] None [] in
  let '(dc, s0) := dir_cache_at_mount m_init d in
  let q' := mkQid 0 1 0 in                                           (* the file's version moved on *)
  let '(es, s1) := dir_readdir s0 (dir_set_base "log" q' dc) 0 10 in    (* listing from the table *)
  match dir_walk s1 (dir_set_base "log" q' d) "log" with                (* Walk asks the mount *)
  | Some (qw, _, _) => map d_qid (filter (fun e => String.eqb (d_name e) "log") es) = [qw]
  | None => False
  end -> False.
Proof. vm_compute. intros H. discriminate H. Qed.

(** * a directory seen through mount wrappers lists the same names at the same offsets as the plain Readdir *)
Definition name_off (e : dirent) : string * N := (d_name e, d_off e).

Lemma remap_entries_name_off m es : forall s es' s', remap_entries s m es = (es', s') -> map name_off es' = map name_off es.
Proof.
  induction es as [|d0 es IH]; intros s es' s' H; cbn in H.
  - now inversion H.
  - destruct (qid_for s m (d_qid d0)) as [q s1]. destruct (remap_entries s1 m es) as [r' s2] eqn:E2.
    inversion H; subst. cbn. f_equal. eapply IH; eauto.
Qed.

Lemma remap_page_name_off ws : forall s es es' s', remap_page s ws es = (es', s') -> map name_off es' = map name_off es.
Proof.
  induction ws as [|m ws IH]; intros s es es' s' H; cbn in H.
  - now inversion H.
  - destruct (remap_entries s m es) as [es1 s1] eqn:E. rewrite (IH _ _ _ _ H). eapply remap_entries_name_off; eauto.
Qed.

Lemma number_from_name_off q q' l : forall start, map name_off (number_from q start l) = map name_off (number_from q' start l).
Proof. induction l as [|n l IH]; intros start; cbn; [reflexivity|]. f_equal. apply IH. Qed.

Lemma static_readdir_name_off q q' names off cnt :
  map name_off (static_readdir q names off cnt) = map name_off (static_readdir q' names off cnt).
Proof. unfold static_readdir. destruct (lenN names <=? off); [reflexivity|]. apply number_from_name_off. Qed.

(** whatever the wrappers, the stored table or the mounts' answers: one Readdir call on a (mounted) staticfs or composefs
    directory returns, name for name and Offset for Offset, what readdir.Readdir returns for the sorted names *)
Theorem dir_readdir_name_off s d off cnt es s' :
  dir_readdir s d off cnt = (es, s') ->
  map name_off es = map name_off (static_readdir (fun _ => zero_qid) (map fst (d_ents d)) off cnt).
Proof.
  unfold dir_readdir. destruct (d_stored d) as [st|].
  - intros H. rewrite (remap_page_name_off _ _ _ _ _ H). apply static_readdir_name_off.
  - destruct (getattr_all s (d_ents d)) as [qs s1]. intros H.
    rewrite (remap_page_name_off _ _ _ _ _ H). apply static_readdir_name_off.
Qed.
