(** C20: qids.Mapper.QIDFor under every interleaving of concurrent calls.
    One PathGenerator (atomic counter), any number of Mappers on it, each with
    its own mutex [mu] and [paths] map.  A call is the sequence
      mu.Lock; paths[k] lookup; (miss:) NewPath; paths[k] = v; mu.Unlock.
    [mutex = false] is the code before fix 4574f3e (no lock). *)
From Coq Require Import NArith List Bool Lia ZArith ZifyN ZifyBool ZifyNat.
From P9V Require Import Fsx.Qid Fsx.QidConc.
Import ListNotations.
Open Scope N_scope.

Definition ckey := (nat * N)%type.                  (* Mapper, source path *)
Definition ckey_eqb (a b : ckey) : bool := Nat.eqb (fst a) (fst b) && (snd a =? snd b).
Fixpoint clookup (k : ckey) (t : list (ckey * N)) : option N :=
  match t with
  | [] => None
  | (k', v) :: r => if ckey_eqb k k' then Some v else clookup k r
  end.

Inductive mpc :=
| MStart (m : nat) (k : N)            (* before mu.Lock *)
| MHeld (m : nat) (k : N)             (* holds mu; before the map lookup *)
| MMiss (m : nat) (k : N)             (* lookup missed; before NewPath *)
| MStore (m : nat) (k : N) (v : N)    (* before paths[k] = v *)
| MUnlock (m : nat) (k : N) (r : N)   (* before the deferred mu.Unlock *)
| MDone (m : nat) (k : N) (r : N).    (* returned path r *)

Record cstate := mkC { c_tbl : list (ckey * N); c_gen : N; c_held : list nat; c_thr : list mpc }.

Definition holds (p : mpc) : option nat :=
  match p with
  | MHeld m _ | MMiss m _ | MStore m _ _ | MUnlock m _ _ => Some m
  | _ => None
  end.

Definition cstep1g (inc : N -> N) (mutex : bool) (t : list (ckey * N)) (g : N) (h : list nat) (p : mpc)
  : list (ckey * N) * N * list nat * mpc :=
  match p with
  | MStart m k =>
      if mutex && existsb (Nat.eqb m) h then (t, g, h, p)          (* blocked *)
      else (t, g, (if mutex then m :: h else h), MHeld m k)
  | MHeld m k => match clookup (m, k) t with
                 | Some v => (t, g, h, MUnlock m k v)
                 | None => (t, g, h, MMiss m k)
                 end
  | MMiss m k => (t, inc g, h, MStore m k (inc g))                 (* atomic.AddUint64(&g.uids, 1) *)
  | MStore m k v => (((m, k), v) :: t, g, h, MUnlock m k v)        (* a Go map assignment replaces *)
  | MUnlock m k r => (t, g, filter (fun x => negb (Nat.eqb m x)) h, MDone m k r)
  | MDone _ _ _ => (t, g, h, p)
  end.

Definition cstepg (inc : N -> N) (mutex : bool) (s : cstate) (i : nat) : cstate :=
  match nth_error (c_thr s) i with
  | None => s
  | Some p => let '(t, g, h, p') := cstep1g inc mutex (c_tbl s) (c_gen s) (c_held s) p in mkC t g h (upd i p' (c_thr s))
  end.
Definition crung (inc : N -> N) (mutex : bool) (s : cstate) (sched : list nat) : cstate := fold_left (cstepg inc mutex) sched s.
(** the code: uids is a uint64, AddUint64 wraps at 2^64 *)
Definition cstep := cstepg inc64.
Definition crun := crung inc64.
(** the unbounded counter, used by the proofs; shown below to coincide with the uint64 one under the bound *)
Notation cstep_i := (cstepg (fun n => n + 1)).
Notation crun_i := (crung (fun n => n + 1)).
Definition cinit (reqs : list ckey) : cstate := mkC [] 0 [] (map (fun r => MStart (fst r) (snd r)) reqs).

Lemma ckey_eqb_eq a b : ckey_eqb a b = true <-> a = b.
Proof.
  destruct a, b. unfold ckey_eqb. cbn. rewrite andb_true_iff, Nat.eqb_eq, N.eqb_eq.
  split; [intros [-> ->]; reflexivity|intros H; inversion H; auto].
Qed.
Lemma ckey_eqb_refl a : ckey_eqb a a = true.
Proof. now apply ckey_eqb_eq. Qed.

Record CInv (s : cstate) : Prop := {
  ci_rng : forall k v, clookup k (c_tbl s) = Some v -> 0 < v <= c_gen s;
  ci_inj : forall k k' v, clookup k (c_tbl s) = Some v -> clookup k' (c_tbl s) = Some v -> k = k';
  ci_miss : forall i m k, nth_error (c_thr s) i = Some (MMiss m k) -> clookup (m, k) (c_tbl s) = None;
  ci_store : forall i m k v, nth_error (c_thr s) i = Some (MStore m k v) ->
                             clookup (m, k) (c_tbl s) = None /\ 0 < v <= c_gen s /\
                             forall k', clookup k' (c_tbl s) <> Some v;
  ci_uniq : forall i j m k m' k' v, nth_error (c_thr s) i = Some (MStore m k v) ->
                                    nth_error (c_thr s) j = Some (MStore m' k' v) -> i = j;
  ci_res : forall i m k r, nth_error (c_thr s) i = Some (MUnlock m k r) \/ nth_error (c_thr s) i = Some (MDone m k r) ->
                           clookup (m, k) (c_tbl s) = Some r;
  ci_excl : forall i j p p' m, nth_error (c_thr s) i = Some p -> nth_error (c_thr s) j = Some p' ->
                               holds p = Some m -> holds p' = Some m -> i = j;
  ci_held : forall i p m, nth_error (c_thr s) i = Some p -> holds p = Some m -> In m (c_held s)
}.

Lemma cinit_inv reqs : CInv (cinit reqs).
Proof.
  unfold cinit.
  assert (A : forall i p, nth_error (map (fun r : ckey => MStart (fst r) (snd r)) reqs) i = Some p -> exists m k, p = MStart m k).
  { intros i p H. apply nth_error_In, in_map_iff in H as (x & <- & _). eauto. }
  split; cbn; try discriminate.
  - intros i m k H. apply A in H as (? & ? & ?). discriminate.
  - intros i m k v H. apply A in H as (? & ? & ?). discriminate.
  - intros i j m k m' k' v H. apply A in H as (? & ? & ?). discriminate.
  - intros i m k r [H|H]; apply A in H as (? & ? & ?); discriminate.
  - intros i j p p' m H _ Hh. apply A in H as (? & ? & ->). discriminate.
  - intros i p m H Hh. apply A in H as (? & ? & ->). discriminate.
Qed.

Ltac nthc H i j := rewrite nth_upd in H; destruct (Nat.eqb_spec i j); [subst j|].
Ltac self H Ep := rewrite Ep in H; inversion H; subst; clear H.

(** a step that changes neither the table nor the generator and keeps what thread i holds *)
Lemma cstep_keep s i p p' h' :
  CInv s -> nth_error (c_thr s) i = Some p ->
  holds p' = holds p ->
  (forall m, In m (c_held s) -> In m h') ->
  (forall m k, p' = MMiss m k -> clookup (m, k) (c_tbl s) = None) ->
  (forall m k v, p' <> MStore m k v) ->
  (forall m k r, p' = MUnlock m k r \/ p' = MDone m k r -> clookup (m, k) (c_tbl s) = Some r) ->
  CInv (mkC (c_tbl s) (c_gen s) h' (upd i p' (c_thr s))).
Proof.
  intros [Irng Iinj Imiss Istore Iuniq Ires Iexcl Iheld] Ep Hh Hin Hm Hs Hr.
  split; cbn [c_tbl c_gen c_held c_thr]; auto.
  - intros j m k H. nthc H i j; [self H Ep; eauto|eauto].
  - intros j m k v H. nthc H i j; [self H Ep; exfalso; eapply Hs; eauto|eauto].
  - intros j j' m k m' k' v H H'. nthc H i j; [self H Ep; exfalso; eapply Hs; eauto|].
    nthc H' i j'; [self H' Ep; exfalso; eapply Hs; eauto|eauto].
  - intros j m k r H. rewrite !nth_upd in H. destruct (Nat.eqb_spec i j); [subst j; rewrite Ep in H|eauto].
    apply Hr. destruct H as [H|H]; inversion H; auto.
  - intros j j' q q' m H H' Hq Hq'. nthc H i j; nthc H' i j'; auto.
    + self H Ep. rewrite Hh in Hq. eapply Iexcl; eauto.
    + self H' Ep. rewrite Hh in Hq'. eapply Iexcl; eauto.
    + eauto.
  - intros j q m H Hq. apply Hin. nthc H i j; [self H Ep; rewrite Hh in Hq; eauto|eauto].
Qed.

Lemma existsb_false_notin m h : existsb (Nat.eqb m) h = false -> ~ In m h.
Proof.
  intros H Hin. assert (existsb (Nat.eqb m) h = true); [|congruence].
  apply existsb_exists. exists m. split; [exact Hin|apply Nat.eqb_refl].
Qed.

Lemma cstep_inv s i : CInv s -> CInv (cstep_i true s i).
Proof.
  intros I. unfold cstepg. destruct (nth_error (c_thr s) i) as [p|] eqn:Ep; [|exact I].
  pose proof I as [Irng Iinj Imiss Istore Iuniq Ires Iexcl Iheld].
  destruct p as [m k|m k|m k|m k v|m k r|m k r]; cbn [cstep1g andb].
  - (* Lock *)
    destruct (existsb (Nat.eqb m) (c_held s)) eqn:Eh.
    + eapply cstep_keep; eauto; intros; try discriminate. destruct H as [H|H]; discriminate.
    + apply existsb_false_notin in Eh.
      split; cbn [c_tbl c_gen c_held c_thr]; auto.
      * intros j m0 k0 H. nthc H i j; [self H Ep|eauto].
      * intros j m0 k0 v0 H. nthc H i j; [self H Ep|eauto].
      * intros j j' m0 k0 m1 k1 v0 H H'. nthc H i j; [self H Ep|]. nthc H' i j'; [self H' Ep|eauto].
      * intros j m0 k0 r0 H. rewrite !nth_upd in H. destruct (Nat.eqb_spec i j); [subst j; rewrite Ep in H|eauto].
        destruct H as [H|H]; discriminate.
      * intros j j' q q' m0 H H' Hq Hq'. nthc H i j; nthc H' i j'; auto.
        -- self H Ep. cbn in Hq. inversion Hq; subst. exfalso. apply Eh. eapply Iheld; eauto.
        -- self H' Ep. cbn in Hq'. inversion Hq'; subst. exfalso. apply Eh. eapply Iheld; eauto.
        -- eauto.
      * intros j q m0 H Hq. nthc H i j; [self H Ep; cbn in Hq; inversion Hq; now left|right; eauto].
  - (* lookup *)
    destruct (clookup (m, k) (c_tbl s)) as [v|] eqn:El.
    + eapply cstep_keep; eauto; intros; try discriminate. destruct H as [H|H]; inversion H; subst; exact El.
    + eapply cstep_keep; eauto; intros; try discriminate.
      * inversion H; subst; exact El.
      * destruct H as [H|H]; discriminate.
  - (* NewPath *)
    pose proof (Imiss _ _ _ Ep) as Em.
    split; cbn [c_tbl c_gen c_held c_thr]; auto.
    + intros k0 v H. specialize (Irng _ _ H). lia.
    + intros j m0 k0 H. nthc H i j; [self H Ep|eauto].
    + intros j m0 k0 v0 H. nthc H i j.
      * self H Ep. split; [exact Em|]. split; [lia|]. intros k' Hk. specialize (Irng _ _ Hk). lia.
      * destruct (Istore _ _ _ _ H) as (A & B & C). split; [exact A|]. split; [lia|exact C].
    + intros j j' m0 k0 m1 k1 v0 H H'. nthc H i j; nthc H' i j'; auto.
      * self H Ep. destruct (Istore _ _ _ _ H') as (_ & B & _). lia.
      * self H' Ep. destruct (Istore _ _ _ _ H) as (_ & B & _). lia.
      * eauto.
    + intros j m0 k0 r0 H. rewrite !nth_upd in H. destruct (Nat.eqb_spec i j); [subst j; rewrite Ep in H|eauto].
      destruct H as [H|H]; discriminate.
    + intros j j' q q' m0 H H' Hq Hq'. nthc H i j; nthc H' i j'; auto.
      * self H Ep. eapply Iexcl; eauto.
      * self H' Ep. eapply Iexcl; eauto.
      * eauto.
    + intros j q m0 H Hq. nthc H i j; [self H Ep; eapply Iheld; eauto|eauto].
  - (* store *)
    destruct (Istore _ _ _ _ Ep) as (En & Rv & Nv).
    assert (Hother : forall j q m0 k0, j <> i -> nth_error (c_thr s) j = Some q -> holds q = Some m0 ->
                                        ckey_eqb (m0, k0) (m, k) = false).
    { intros j q m0 k0 Hj Hq Hh. destruct (ckey_eqb (m0, k0) (m, k)) eqn:E; [|reflexivity].
      apply ckey_eqb_eq in E. inversion E; subst. exfalso. apply Hj. eapply Iexcl; eauto. }
    split; cbn [c_tbl c_gen c_held c_thr]; auto.
    + intros k0 v0. cbn [clookup]. destruct (ckey_eqb k0 (m, k)); [intros [= <-]; exact Rv|apply Irng].
    + intros k0 k1 v0. cbn [clookup].
      destruct (ckey_eqb k0 (m, k)) eqn:E0; destruct (ckey_eqb k1 (m, k)) eqn:E1.
      * apply ckey_eqb_eq in E0, E1. congruence.
      * intros [= <-] H. exfalso. exact (Nv _ H).
      * intros H [= <-]. exfalso. exact (Nv _ H).
      * apply Iinj.
    + intros j m0 k0 H. nthc H i j; [self H Ep|]. cbn [clookup].
      rewrite (Hother j _ m0 k0 (not_eq_sym n) H eq_refl). eauto.
    + intros j m0 k0 v0 H. nthc H i j; [self H Ep|]. cbn [clookup].
      rewrite (Hother j _ m0 k0 (not_eq_sym n) H eq_refl).
      destruct (Istore _ _ _ _ H) as (A & B & C). split; [exact A|]. split; [exact B|].
      intros k'. destruct (ckey_eqb k' (m, k)); [|apply C]. intros [= ->]. apply n. eapply Iuniq; eauto.
    + intros j j' m0 k0 m1 k1 v0 H H'. nthc H i j; [self H Ep|]. nthc H' i j'; [self H' Ep|eauto].
    + intros j m0 k0 r0 H. rewrite !nth_upd in H. cbn [clookup]. destruct (Nat.eqb_spec i j).
      * subst j. rewrite Ep in H. destruct H as [H|H]; inversion H; subst. now rewrite ckey_eqb_refl.
      * destruct (ckey_eqb (m0, k0) (m, k)) eqn:E; [|eauto].
        apply ckey_eqb_eq in E. inversion E; subst. specialize (Ires _ _ _ _ H). congruence.
    + intros j j' q q' m0 H H' Hq Hq'. nthc H i j; nthc H' i j'; auto.
      * self H Ep. eapply Iexcl; eauto.
      * self H' Ep. eapply Iexcl; eauto.
      * eauto.
    + intros j q m0 H Hq. nthc H i j; [self H Ep; eapply Iheld; eauto|eauto].
  - (* Unlock *)
    pose proof (Ires i m k r (or_introl Ep)) as Er.
    split; cbn [c_tbl c_gen c_held c_thr]; auto.
    + intros j m0 k0 H. nthc H i j; [self H Ep|eauto].
    + intros j m0 k0 v0 H. nthc H i j; [self H Ep|eauto].
    + intros j j' m0 k0 m1 k1 v0 H H'. nthc H i j; [self H Ep|]. nthc H' i j'; [self H' Ep|eauto].
    + intros j m0 k0 r0 H. rewrite !nth_upd in H. destruct (Nat.eqb_spec i j); [subst j; rewrite Ep in H|eauto].
      destruct H as [H|H]; inversion H; subst. exact Er.
    + intros j j' q q' m0 H H' Hq Hq'. nthc H i j; nthc H' i j'; auto.
      * self H Ep. discriminate.
      * self H' Ep. discriminate.
      * eauto.
    + intros j q m0 H Hq. nthc H i j; [self H Ep; discriminate|].
      apply filter_In. split; [eauto|].
      destruct (Nat.eqb_spec m m0) as [->|]; [|reflexivity].
      exfalso. apply n. exact (Iexcl i j _ _ m0 Ep H eq_refl Hq).
  - (* returned *)
    eapply cstep_keep; eauto; intros; try discriminate.
    destruct H as [H|H]; inversion H; subst. eapply Ires; eauto.
Qed.

Lemma crun_inv sched : forall s, CInv s -> CInv (crun_i true s sched).
Proof.
  unfold crung. induction sched as [|i sched IH]; intros s I; cbn; [exact I|]. apply IH. now apply cstep_inv.
Qed.

Lemma cstep_done_stable b s i j m k r :
  nth_error (c_thr s) j = Some (MDone m k r) -> nth_error (c_thr (cstep_i b s i)) j = Some (MDone m k r).
Proof.
  intros H. unfold cstepg. destruct (nth_error (c_thr s) i) as [p|] eqn:Ep; [|exact H].
  destruct (cstep1g (fun n => n + 1) b (c_tbl s) (c_gen s) (c_held s) p) as [[[t g] h] p'] eqn:E. cbn [c_thr].
  rewrite nth_upd. destruct (Nat.eqb_spec i j) as [->|]; [|exact H].
  rewrite Ep. rewrite Ep in H. inversion H; subst. cbn in E. inversion E; subst. reflexivity.
Qed.
Lemma crun_done_stable b sched : forall s j m k r,
  nth_error (c_thr s) j = Some (MDone m k r) -> nth_error (c_thr (crun_i b s sched)) j = Some (MDone m k r).
Proof.
  unfold crung. induction sched as [|i sched IH]; intros s j m k r H; cbn; [exact H|]. apply IH. now apply cstep_done_stable.
Qed.

(** C20_mapper, interleaved: any requests (Mapper, source path), any schedule:
    what a call returned is what every later call for the same Mapper and
    source path returns; different (Mapper, source path) never share a path
    (one generator); no path is 0. *)
Theorem mapper_all_interleavings_i reqs sched sched2 i j m k r m' k' r' :
  let s := crun_i true (cinit reqs) sched in
  let s2 := crun_i true s sched2 in
  nth_error (c_thr s) i = Some (MDone m k r) ->
  nth_error (c_thr s2) j = Some (MDone m' k' r') ->
  nth_error (c_thr s2) i = Some (MDone m k r) /\ ((m, k) = (m', k') <-> r = r') /\ 0 < r /\ 0 < r'.
Proof.
  intros s s2 Hi Hj.
  assert (I2 : CInv s2) by (apply crun_inv, crun_inv, cinit_inv).
  assert (Hi2 := crun_done_stable true sched2 s _ _ _ _ Hi). fold s2 in Hi2.
  split; [exact Hi2|].
  pose proof (ci_res _ I2 _ _ _ _ (or_intror Hi2)) as L1. pose proof (ci_res _ I2 _ _ _ _ (or_intror Hj)) as L2.
  split; [split|].
  - intros E. rewrite E in L1. congruence.
  - intros <-. eapply (ci_inj _ I2); eauto.
  - split; [apply (ci_rng _ I2 _ _ L1)|apply (ci_rng _ I2 _ _ L2)].
Qed.

(** mutual exclusion itself: never two calls inside the same Mapper's critical section *)
Theorem mapper_mutex_i reqs sched i j p p' m :
  let s := crun_i true (cinit reqs) sched in
  nth_error (c_thr s) i = Some p -> nth_error (c_thr s) j = Some p' ->
  holds p = Some m -> holds p' = Some m -> i = j.
Proof. intros s. apply (ci_excl _ (crun_inv sched _ (cinit_inv reqs))). Qed.

(** without the mutex (the code before fix 4574f3e): two concurrent first
    lookups of one source path both miss, both allocate, and return different
    paths for the same file (besides the unsynchronised map write itself) *)
Lemma mapper_unlocked_refuted :
  let s := crun false (cinit [(0%nat, 5); (0%nat, 5)]) [0; 0; 1; 1; 0; 1; 0; 1; 0; 1]%nat in
  nth_error (c_thr s) 0 = Some (MDone 0 5 1) /\ nth_error (c_thr s) 1 = Some (MDone 0 5 2).
Proof. vm_compute. split; reflexivity. Qed.

(** * the uint64 generator coincides with the unbounded one while fewer than 2^64 steps are taken *)
Lemma cstep_eq_i b s i : c_gen s + 1 < two64 -> cstep b s i = cstep_i b s i.
Proof.
  intros H. unfold cstep, cstepg. destruct (nth_error (c_thr s) i) as [p|]; [|reflexivity].
  destruct p; cbn [cstep1g]; try reflexivity. now rewrite inc64_small.
Qed.

Lemma cstep_i_gen b s i : c_gen (cstep_i b s i) <= c_gen s + 1.
Proof.
  unfold cstepg. destruct (nth_error (c_thr s) i) as [p|]; [|lia].
  destruct p as [m k|m k|m k|m k v|m k r|m k r]; cbn [cstep1g].
  - destruct (b && existsb (Nat.eqb m) (c_held s)); cbn [c_gen]; lia.
  - destruct (clookup (m, k) (c_tbl s)); cbn [c_gen]; lia.
  - cbn [c_gen]; lia.
  - cbn [c_gen]; lia.
  - cbn [c_gen]; lia.
  - cbn [c_gen]; lia.
Qed.

Lemma crun_eq_i b sched : forall s, c_gen s + N.of_nat (length sched) < two64 -> crun b s sched = crun_i b s sched.
Proof.
  unfold crun, crung. induction sched as [|i sched IH]; intros s H; [reflexivity|].
  cbn [fold_left length] in *. change (cstepg inc64 b s i) with (cstep b s i).
  rewrite cstep_eq_i by lia. apply IH. pose proof (cstep_i_gen b s i). lia.
Qed.

Lemma crun_app inc b s x y : crung inc b s (x ++ y) = crung inc b (crung inc b s x) y.
Proof. unfold crung. apply fold_left_app. Qed.

(** C20_mapper for the uint64 generator: schedules of fewer than 2^64 steps in total *)
Theorem mapper_all_interleavings reqs sched sched2 i j m k r m' k' r' :
  N.of_nat (length sched + length sched2) < two64 ->
  let s := crun true (cinit reqs) sched in
  let s2 := crun true s sched2 in
  nth_error (c_thr s) i = Some (MDone m k r) ->
  nth_error (c_thr s2) j = Some (MDone m' k' r') ->
  nth_error (c_thr s2) i = Some (MDone m k r) /\ ((m, k) = (m', k') <-> r = r') /\ 0 < r /\ 0 < r'.
Proof.
  intros Hb s s2.
  assert (E1 : s = crun_i true (cinit reqs) sched).
  { unfold s. apply crun_eq_i. cbn [cinit c_gen]. lia. }
  assert (E2 : s2 = crun_i true (crun_i true (cinit reqs) sched) sched2).
  { unfold s2, s. unfold crun. rewrite <- !crun_app. apply (crun_eq_i true (sched ++ sched2)). cbn [cinit c_gen]. rewrite app_length. lia. }
  rewrite E1, E2. apply mapper_all_interleavings_i.
Qed.

Theorem mapper_mutex reqs sched i j p p' m :
  N.of_nat (length sched) < two64 ->
  let s := crun true (cinit reqs) sched in
  nth_error (c_thr s) i = Some p -> nth_error (c_thr s) j = Some p' ->
  holds p = Some m -> holds p' = Some m -> i = j.
Proof.
  intros Hb s. assert (E : s = crun_i true (cinit reqs) sched) by (apply crun_eq_i; cbn [cinit c_gen]; lia).
  rewrite E. apply mapper_mutex_i.
Qed.
