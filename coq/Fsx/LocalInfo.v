(** localfs: the QID of a file at the three places C19 compares — the entry
    Readdir lists, the QID Walk returns, the QID GetAttr returns.  All three are
    the unmodified result of Local.info() on the (l)stat of path.Join(dir, name)
    (localfs.go info/Walk/GetAttr, readdir.go; gen/FsGen19.v checks that no
    statement alters the value between info() and its use):
      qid.Type = ModeFromOS(fi.Mode()).QIDType();  qid.Path = localToQid(dev, ino). *)
From Coq Require Import NArith List Bool.
From P9V Require Import gen.ConstGen Fsx.Readdir Fsx.Qid Fsx.Mode Fsx.LocalQidStable.
Import ListNotations.
Open Scope N_scope.

Record stat := mkStat { st_mode : N; st_dev : N; st_ino : N }.

Definition local_info (t : list (key * N)) (n : N) (s : stat) : qid * list (key * N) * N :=
  let '(p, t', n') := local_to_qid t n (st_dev s) (st_ino s) in
  (mkQid (info_type (st_mode s)) 0 p, t', n').

(** the three use sites *)
Definition local_entry_qid := local_info.      (* Readdir: Dirent{QID: qid, Type: qid.Type} *)
Definition local_walk_qid := local_info.       (* Walk([name]) *)
Definition local_getattr_qid := local_info.    (* GetAttr on the walked File *)
Definition local_getattr_mode (s : stat) : N := st_mode s.     (* Attr.Mode = FileMode(stat.Mode) *)

(** any history of other lookups *)
Fixpoint info_run (t : list (key * N)) (n : N) (h : list stat) : list (key * N) * N :=
  match h with
  | [] => (t, n)
  | s :: r => let '(_, t', n') := local_info t n s in info_run t' n' r
  end.

Lemma info_run_lrun h : forall t n, info_run t n h = lrun_w t n (map (fun s => (st_dev s, st_ino s)) h).
Proof.
  induction h as [|s h IH]; intros t n; cbn; [reflexivity|].
  unfold local_info. destruct (local_to_qid t n (st_dev s) (st_ino s)) as [[p t'] n']. apply IH.
Qed.

(** C19 for localfs: the entry listed by Readdir, and what Walk and then GetAttr
    report for that name after any other lookups, are the same QID (type and
    path), as long as the file's stat result is the same; the Dirent's Type is
    that QID's type. *)
Theorem local_readdir_walk_getattr_agree t0 n0 s qe t1 n1 h1 t2 n2 qw t3 n3 h2 t4 n4 qg t5 n5 :
  local_entry_qid t0 n0 s = (qe, t1, n1) -> info_run t1 n1 h1 = (t2, n2) ->
  local_walk_qid t2 n2 s = (qw, t3, n3) -> info_run t3 n3 h2 = (t4, n4) ->
  local_getattr_qid t4 n4 s = (qg, t5, n5) ->
  qw = qe /\ qg = qe /\ q_type qe = info_type (st_mode s).
Proof.
  unfold local_entry_qid, local_walk_qid, local_getattr_qid, local_info. intros E R1 W R2 G.
  destruct (local_to_qid t0 n0 (st_dev s) (st_ino s)) as [[p0 t0'] n0'] eqn:L0.
  destruct (local_to_qid t2 n2 (st_dev s) (st_ino s)) as [[p2 t2'] n2'] eqn:L2.
  destruct (local_to_qid t4 n4 (st_dev s) (st_ino s)) as [[p4 t4'] n4'] eqn:L4.
  inversion E; subst. inversion W; subst. inversion G; subst. clear E W G.
  rewrite info_run_lrun in R1, R2.
  assert (P2 : p2 = p0) by (eapply local_to_qid_stable; eauto).
  assert (P4 : p4 = p2) by (eapply local_to_qid_stable; eauto).
  subst. repeat split.
Qed.
