(** C19: the paged listing of a staticfs / composefs directory seen through any
    number of mount wrappers (the Mapper tables are threaded from call to call):
    names and Offsets are those of the complete listing.  (QIDs: C19_qids.) *)
From Coq Require Import NArith String List Bool Lia.
From P9V Require Import Base.Str gen.ConstGen Fsx.Readdir Fsx.Paging Fsx.ReaddirProofs Fsx.QidMap Fsx.QidMapProofs.
Import ListNotations.
Open Scope list_scope.
Open Scope N_scope.

Lemma last_off_name_off a b off : map name_off a = map name_off b -> last_off a off = last_off b off.
Proof.
  intros H. unfold last_off.
  assert (R : map name_off (rev a) = map name_off (rev b)) by (rewrite !map_rev; now f_equal).
  destruct (rev a) as [|x ra], (rev b) as [|y rb]; try discriminate; [reflexivity|].
  cbn in R. injection R as Rn Ro Rt. exact Ro.
Qed.

Definition mounted_reader (d : dir) (cnt : N) : mstate -> N -> option (list dirent * mstate) :=
  fun st off => Some (dir_readdir st d off cnt).

Lemma mounted_pages d cnt fuel : forall s off,
  option_map (map (map name_off)) (page_loop_st fuel (mounted_reader d cnt) s off)
  = option_map (map (map name_off))
      (page_loop fuel (fun o => static_readdir (fun _ => zero_qid) (map fst (d_ents d)) o cnt) off).
Proof.
  induction fuel as [|f IH]; intros s off; cbn [page_loop_st page_loop]; [reflexivity|].
  unfold mounted_reader at 1. destruct (dir_readdir s d off cnt) as [es s'] eqn:E.
  pose proof (dir_readdir_name_off _ _ _ _ _ _ E) as H.
  set (ss := static_readdir (fun _ : string => zero_qid) (map fst (d_ents d)) off cnt) in *.
  destruct es as [|e es], ss as [|x xs] eqn:Ess; try discriminate; [reflexivity|].
  rewrite (last_off_name_off _ _ off H).
  specialize (IH s' (last_off (x :: xs) off)).
  destruct (page_loop_st f (mounted_reader d cnt) s' (last_off (x :: xs) off)) as [p|];
    destruct (page_loop f _ (last_off (x :: xs) off)) as [p'|]; cbn [option_map] in IH |- *; try discriminate; [|reflexivity].
  injection IH as IH. cbn [map]. f_equal. f_equal; [exact H|exact IH].
Qed.

(** every entry exactly once, in order, at Offsets 1..n — for any wrappers, any stored table, any Mapper state *)
Theorem mounted_listing_complete s d cnt : 1 <= cnt ->
  option_map (fun pages => map name_off (concat pages))
    (page_loop_st (S (length (d_ents d))) (mounted_reader d cnt) s 0)
  = Some (map name_off (number_from (fun _ => zero_qid) 0 (map fst (d_ents d)))).
Proof.
  intros Hc.
  pose proof (mounted_pages d cnt (S (length (d_ents d))) s 0) as H.
  pose proof (static_direct_complete (fun _ => zero_qid) (map fst (d_ents d)) cnt Hc) as C.
  unfold listing in C. rewrite map_length in C.
  destruct (page_loop (S (length (d_ents d))) _ 0) as [p'|]; [|discriminate].
  destruct (page_loop_st (S (length (d_ents d))) (mounted_reader d cnt) s 0) as [p|]; [|discriminate].
  cbn in *. injection H as H. injection C as C. f_equal.
  rewrite <- C, !concat_map. now f_equal.
Qed.
