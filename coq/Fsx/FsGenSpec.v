(** Hand-written spec table for gen/FsGen.v: the source text the models in
    coq/Fsx were transcribed from.  [fs_readdir_shape_ok] / [fs_qid_shape_ok]
    hold while the tree still has exactly these expressions; an edit of one of
    them breaks the obligation below (C19_source_shape / C20_source_shape) and
    sends the check into its search for a concrete failing input. *)
From Coq Require Import String List Bool.
From P9V Require Import gen.FsGen.
Import ListNotations.
Open Scope string_scope.

Fixpoint strs_eqb (a b : list string) : bool :=
  match a, b with
  | [], [] => true
  | x :: a', y :: b' => String.eqb x y && strs_eqb a' b'
  | _, _ => false
  end.

Definition exp_readdir_guard : string := "offset >= uint64(len(names)) => { return nil, nil }".
Definition exp_readdir_end : string := "int(min(offset+uint64(count), uint64(len(names))))".
Definition exp_readdir_range : string := "i, name := range names[offset:end]".
Definition exp_readdir_QID : string := "qids[name]".
Definition exp_readdir_Type : string := "qids[name].Type".
Definition exp_readdir_Offset : string := "offset + uint64(i) + 1".
Definition exp_readdir_Name : string := "name".
Definition exp_local_rewinds : bool := true.
Definition exp_local_loop_cond : string := "len(p9Ents) < int(count)".
Definition exp_local_loop_body : list string := [
  "singleEnt, err := l.file.Readdirnames(1)";
  "if err == io.EOF { return p9Ents, nil } else if err != nil";
  "cursor++";
  "if cursor <= offset { continue }";
  "name := singleEnt[0]";
  "localEnt := Local{path: path.Join(l.path, name)}";
  "qid, _, err := localEnt.info()";
  "if err != nil { return p9Ents, err }";
  "p9Ents = append(p9Ents, p9.Dirent{ QID: qid, Type: qid.Type, Name: name, Offset: cursor, })"
].
Definition exp_local_QID : string := "qid".
Definition exp_local_Type : string := "qid.Type".
Definition exp_local_Offset : string := "cursor".
Definition exp_local_Name : string := "name".
Definition exp_rreaddir_break : string := "len(entriesBuf.data) > int(r.Count)".
Definition exp_mapper_paths_guarded : bool := true.
Definition exp_mapper_paths_users : list string := ["Mapper.QIDFor"].
Definition exp_newpath_body : string := "{ return atomic.AddUint64(&g.uids, 1) }".
Definition exp_qidfor_body : list string := ["m.mu.Lock()"; "defer m.mu.Unlock()"; "if path, ok := m.paths[q.Path]; ok"; "path := m.g.NewPath()"; "m.paths[q.Path] = path"; "return"].
Definition exp_encodeLikely_body : list string := ["inoLikely := nOnes(inodeLikelyBits)"; "if (ino & ^inoLikely) != 0 { return 0, false }"; "upperUnlikely := nOnes(devUpperBits) << devUpperOffset"; "if (dev & upperUnlikely) != 0 { return 0, false }"; "major := uint64(unix.Major(dev))"; "if major > nOnes(devMajorLikelyBits) { return 0, false }"; "minor := uint64(unix.Minor(dev))"; "if minor > nOnes(devMinorLikelyBits) { return 0, false }"; "q := ino & inoLikely"; "q |= minor << (inodeLikelyBits)"; "q |= major << (inodeLikelyBits + devMinorLikelyBits)"; "return q, true"].
Definition exp_nOnes_body : string := "{ return (uint64(1) << n) - 1 }".
Definition exp_localToQid_body : list string := ["stat := fi.Sys().(*syscall.Stat_t)"; "if q, ok := encodeLikely(uint64(stat.Dev), stat.Ino); ok { return q, nil }"; "di := devino{uint64(stat.Dev), stat.Ino}"; "if q, ok := qids.Load(di); ok { return q.(uint64), nil }"; "q, _ := qids.LoadOrStore(di, nextQid.Add(1))"; "return q.(uint64), nil"].
Definition exp_nextQid_init : string := "nextQid.Store(uint64(1) << 63)".

Definition fs_readdir_shape_ok : bool :=
  String.eqb fs_readdir_guard exp_readdir_guard
  && String.eqb fs_readdir_end exp_readdir_end
  && String.eqb fs_readdir_range exp_readdir_range
  && String.eqb fs_readdir_QID exp_readdir_QID
  && String.eqb fs_readdir_Type exp_readdir_Type
  && String.eqb fs_readdir_Offset exp_readdir_Offset
  && String.eqb fs_readdir_Name exp_readdir_Name
  && Bool.eqb fs_local_rewinds exp_local_rewinds
  && String.eqb fs_local_loop_cond exp_local_loop_cond
  && strs_eqb fs_local_loop_body exp_local_loop_body
  && String.eqb fs_local_QID exp_local_QID
  && String.eqb fs_local_Type exp_local_Type
  && String.eqb fs_local_Offset exp_local_Offset
  && String.eqb fs_local_Name exp_local_Name
  && String.eqb fs_rreaddir_break exp_rreaddir_break.
Definition fs_qid_shape_ok : bool :=
  Bool.eqb fs_mapper_paths_guarded exp_mapper_paths_guarded
  && strs_eqb fs_mapper_paths_users exp_mapper_paths_users
  && String.eqb fs_newpath_body exp_newpath_body
  && strs_eqb fs_qidfor_body exp_qidfor_body
  && strs_eqb fs_encodeLikely_body exp_encodeLikely_body
  && String.eqb fs_nOnes_body exp_nOnes_body
  && strs_eqb fs_localToQid_body exp_localToQid_body
  && String.eqb fs_nextQid_init exp_nextQid_init.

Lemma readdir_shape_ok : fs_readdir_shape_ok = true.
Proof. vm_compute. reflexivity. Qed.
Lemma qid_shape_ok : fs_qid_shape_ok = true.
Proof. vm_compute. reflexivity. Qed.
