(** C19 model, part 2: [Local.Readdir] of fsimpl/localfs/readdir.go over an OS
    directory stream.  The stream is the list of names in the order the host
    returns them plus a position that PERSISTS between calls (as the position
    of an [os.File] does for [Readdirnames(1)]); [Seek(0, io.SeekStart)] rewinds it. *)
From Coq Require Import NArith String List.
From P9V Require Import Base.Str Fsx.Readdir.
Import ListNotations.
Open Scope N_scope.

Record stream := mkStream { s_names : list string; s_pos : nat }.

Definition seek0 (s : stream) : stream := mkStream (s_names s) 0.

(** Readdirnames(1): the next name, or io.EOF *)
Definition readdirnames1 (s : stream) : option string * stream :=
  match nth_error (s_names s) (s_pos s) with
  | Some n => (Some n, mkStream (s_names s) (S (s_pos s)))
  | None => (None, s)
  end.

(** The loop
      for len(p9Ents) < int(count) {
        singleEnt, err := l.file.Readdirnames(1); if err == io.EOF { return p9Ents, nil }
        cursor++
        if cursor <= offset { continue }
        qid := info(path.Join(l.path, name)); append Dirent{qid, qid.Type, name, Offset: cursor}
      }
    [q] is the (stat-derived) QID of each name.  [cursor] is a uint64; it cannot
    wrap (a directory has fewer than 2^64 entries).  Fuel: one unit per
    Readdirnames call; [None] = out of fuel. *)
Fixpoint local_loop (fuel : nat) (q : string -> qid) (s : stream) (cursor offset count : N)
         (acc : list dirent) : option (list dirent * stream) :=
  if lenN acc <? count then
    match fuel with
    | O => None
    | S f =>
        match readdirnames1 s with
        | (None, s') => Some (acc, s')
        | (Some name, s') =>
            let cursor := cursor + 1 in
            if cursor <=? offset then local_loop f q s' cursor offset count acc
            else local_loop f q s' cursor offset count
                            (acc ++ [mkDirent (q name) cursor (q_type (q name)) name])
        end
    end
  else Some (acc, s).

(** One call; the stream position it leaves behind is the second component. *)
Definition local_readdir (q : string -> qid) (s : stream) (offset count : N) : option (list dirent * stream) :=
  local_loop (S (List.length (s_names s))) q (seek0 s) 0 offset count [].

(** The code before fix 1247c49 (kept to show what the rewind and the [<=] are
    for): no Seek, and [cursor < offset] so that entry number [offset] itself,
    already delivered, is returned again while the stream has moved on. *)
Fixpoint local_loop_old (fuel : nat) (q : string -> qid) (s : stream) (cursor offset count : N)
         (acc : list dirent) : option (list dirent * stream) :=
  if lenN acc <? count then
    match fuel with
    | O => None
    | S f =>
        match readdirnames1 s with
        | (None, s') => Some (acc, s')
        | (Some name, s') =>
            let cursor := cursor + 1 in
            if (cursor <? offset) || (offset + count <? cursor) then local_loop_old f q s' cursor offset count acc
            else local_loop_old f q s' cursor offset count
                                (acc ++ [mkDirent (q name) cursor (q_type (q name)) name])
        end
    end
  else Some (acc, s).
Definition local_readdir_old (q : string -> qid) (s : stream) (offset count : N) :=
  local_loop_old (S (List.length (s_names s))) q s 0 offset count [].
