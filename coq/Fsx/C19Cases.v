(** C19: observations of the real file systems (written by the harness into
    cases/C19_*.v) compared with the models, and the property evaluated on the
    observations alone.  Evaluated by vm_compute. *)
From Coq Require Import NArith String List Bool.
From P9V Require Import Base.Str gen.ConstGen Fsx.Readdir Fsx.LocalDir Fsx.Paging Fsx.QidMap.
Import ListNotations.
Open Scope list_scope.
Open Scope N_scope.

(** description of a composefs instance built by the harness (two levels of mounts) *)
(** [LMut q]: a file (mounted with WithFile) whose own QID the harness changes during the script; [q] is its first QID *)
Inductive leaf := LFile | LStatic (names : list string) | LMut (q : qid).
Inductive mnt := MLeaf (l : leaf) | MSub (ms : list (string * leaf)).
Definition shape := list (string * mnt).

(** one harness operation: single-step walks from the root along [path] (0, 1 or 2
    names), then either Readdir(off, cnt) there or Walk([name]) + GetAttr on the result *)
Inductive op :=
| ORead (path : list string) (off cnt : N)
| OWalk (path : list string) (name : string)
(** the top-level mount [name] (an [LMut] leaf) reports QID [q] from now on *)
| OBump (name : string) (q : qid).
Inductive opres :=
| RRead (es : list dirent)
| RWalk (ok : bool) (qw qg : qid)
| RNoDir
| RBump.

Inductive c19case :=
(** a paged listing. [fs]: 0 localfs, 1 staticfs, 2 composefs, 3 a directory below a nested mount.
    [names]: the directory in the order the file system holds it (localfs: what the host returned
    for a plain Readdirnames(-1) — an oracle input).  [walkq]/[getq]: per name, the QID from
    Walk([name]) on the listed directory and from GetAttr on the walked File. *)
| CPages (fs : N) (remote : bool) (msize count : N) (names : list string) (walkq getq : list qid)
         (pages : list (list dirent)) (hit_limit : bool)
(** the same observation, written compactly: names and QIDs are given once in tables
    ([names ++ extra], [qtab]) and referred to by position.  Entry = (name, Offset, QID, Type). *)
| CPagesZ (fs : N) (remote : bool) (msize count : N) (names extra : list string) (qtab : list qid)
          (walkq getq : list N) (pages : list (list (N * N * N * N))) (hit_limit : bool)
| CQids (sh : shape) (ops : list op) (res : list opres).

Definition expand (c : c19case) : c19case :=
  match c with
  | CPagesZ fs remote msize count names extra qtab wq gq pages hit =>
      let nm := fun i => nth (N.to_nat i) (names ++ extra) EmptyString in
      let qd := fun i => nth (N.to_nat i) qtab (mkQid 255 0 0) in
      CPages fs remote msize count names (map qd wq) (map qd gq)
             (map (map (fun '(n, o, q, t) => mkDirent (qd q) o t (nm n))) pages) hit
  | _ => c
  end.

(** * model side *)
Definition q0 : string -> qid := fun _ => zero_qid.

Definition strip (d : dirent) : dirent := mkDirent zero_qid (d_off d) 0 (d_name d).

Fixpoint list_eqb {A} (e : A -> A -> bool) (a b : list A) : bool :=
  match a, b with
  | [], [] => true
  | x :: a', y :: b' => e x y && list_eqb e a' b'
  | _, _ => false
  end.

Definition model_pages (fs : N) (remote : bool) (msize count : N) (names : list string) : option (list (list dirent)) :=
  let fuel := S (List.length names) in
  if fs =? 0 then
    page_loop_st fuel
      (fun st off =>
         match local_readdir q0 st off (if remote then client_clamp msize count else count) with
         | Some (es, st') =>
             Some (if remote then wire_trunc 0 (N.min (client_clamp msize count) (max_reply_payload msize)) es else es, st')
         | None => None
         end) (mkStream names 0) 0
  else if remote then page_loop fuel (fun off => remote_readdir msize (static_readdir q0 names) off count) 0
  else page_loop fuel (fun off => static_readdir q0 names off count) 0.

(** building the model of a composefs instance.  Generator 0: the outer composefs;
    the mount at position i has Mapper (0, i).  Generator 1 + i: whatever the mount at
    position i creates (a staticfs's or an inner composefs's generator); an inner mount at
    position j has Mapper (1 + i, j) and a staticfs inside it generator 1000 * (1 + i) + j. *)
Fixpoint index_from {A} (i : nat) (l : list A) : list (nat * A) :=
  match l with [] => [] | x :: r => (i, x) :: index_from (S i) r end.

Definition leaf_base (l : leaf) : qid :=
  match l with LFile => mkQid p9_TypeRegular 0 0 | LStatic _ => root_qid | LMut q => q end.

(** construction-time lookups: staticfs.WithFile asks GetAttr for every file *)
Definition leaf_new (s : mstate) (g : nat) (l : leaf) : list (string * file) * (string -> qid) * mstate :=
  match l with
  | LStatic names => let '(fs, qs, s') := static_new s g 0 names in (fs, stored_of qs, s')
  | _ => ([], q0, s)
  end.

Record built1 := mkBuilt1 { b1_dir : option dir; b1_sub : list (string * option dir) }.
Record built := mkBuilt { b_dir : dir; b_sub : list (string * built1) }.

Fixpoint build_inner (s : mstate) (g : nat) (outer : mid) (ms : list (nat * (string * leaf)))
  : list (string * file) * list (string * option dir) * mstate :=
  match ms with
  | [] => ([], [], s)
  | (j, (n, l)) :: r =>
      let gs := (1000 * g + j)%nat in
      let '(fs, st, s1) := leaf_new s gs l in
      let d := match l with
               | LStatic _ => Some (mkDir fs (Some st) [(g, j); outer])
               | _ => None
               end in
      let '(ents, subs, s2) := build_inner s1 g outer r in
      ((n, mkFile (leaf_base l) [(g, j)]) :: ents, (n, d) :: subs, s2)
  end.

Fixpoint build_outer (s : mstate) (ms : list (nat * (string * mnt)))
  : list (string * file) * list (string * built1) * mstate :=
  match ms with
  | [] => ([], [], s)
  | (i, (n, m)) :: r =>
      let g := S i in
      let '(f, b1, s1) :=
        match m with
        | MLeaf l =>
            let '(fs, st, s1) := leaf_new s g l in
            (mkFile (leaf_base l) [(0%nat, i)],
             mkBuilt1 (match l with LStatic _ => Some (mkDir fs (Some st) [(0%nat, i)]) | _ => None end) [],
             s1)
        | MSub inner =>
            let '(ents, subs, s1) := build_inner s g (0%nat, i) (index_from 0 inner) in
            (mkFile root_qid [(0%nat, i)], mkBuilt1 (Some (mkDir ents None [(0%nat, i)])) subs, s1)
        end in
      let '(ents, subs, s2) := build_outer s1 r in
      ((n, f) :: ents, (n, b1) :: subs, s2)
  end.

Definition build (sh : shape) : built * mstate :=
  let '(ents, subs, s) := build_outer m_init (index_from 0 sh) in
  (mkBuilt (mkDir ents None []) subs, s).

(** navigation: the harness walks one name at a time; each step is a Walk on the parent *)
Definition nav (b : built) (s : mstate) (path : list string) : option dir * mstate :=
  match path with
  | [] => (Some (b_dir b), s)
  | [a] =>
      match dir_walk s (b_dir b) a, assoc a (b_sub b) with
      | Some (_, _, s1), Some b1 => (b1_dir b1, s1)
      | _, _ => (None, s)
      end
  | [a; c] =>
      match dir_walk s (b_dir b) a, assoc a (b_sub b) with
      | Some (_, _, s1), Some b1 =>
          match b1_dir b1 with
          | Some da =>
              match dir_walk s1 da c with
              | Some (_, _, s2) => (match assoc c (b1_sub b1) with Some dc => dc | None => None end, s2)
              | None => (None, s1)
              end
          | None => (None, s1)
          end
      | _, _ => (None, s)
      end
  | _ => (None, s)
  end.

Definition run_op (b : built) (s : mstate) (o : op) : opres * mstate :=
  match o with
  | ORead path off cnt =>
      match nav b s path with
      | (Some d, s1) => let '(es, s2) := dir_readdir s1 d off cnt in (RRead es, s2)
      | (None, s1) => (RNoDir, s1)
      end
  | OWalk path n =>
      match nav b s path with
      | (Some d, s1) =>
          match dir_walk s1 d n with
          | Some (qw, fw, s2) => let '(qg, s3) := getattr s2 fw in (RWalk true qw qg, s3)
          | None => (RWalk false zero_qid zero_qid, s1)
          end
      | (None, s1) => (RNoDir, s1)
      end
  | OBump _ _ => (RBump, s)
  end.

Definition bump (b : built) (n : string) (q : qid) : built := mkBuilt (dir_set_base n q (b_dir b)) (b_sub b).

Fixpoint run_ops (b : built) (s : mstate) (os : list op) : list opres :=
  match os with
  | [] => []
  | OBump n q :: r => RBump :: run_ops (bump b n q) s r
  | o :: r => let '(x, s') := run_op b s o in x :: run_ops b s' r
  end.

Definition opres_eqb (a b : opres) : bool :=
  match a, b with
  | RRead x, RRead y => list_eqb dirent_eqb x y
  | RWalk o1 a1 b1, RWalk o2 a2 b2 => Bool.eqb o1 o2 && qid_eqb a1 a2 && qid_eqb b1 b2
  | RNoDir, RNoDir => true
  | RBump, RBump => true
  | _, _ => false
  end.

Definition agrees (c : c19case) : bool :=
  match expand c with
  | CPages fs remote msize count names _ _ pages hit =>
      negb hit &&
      match model_pages fs remote msize count names with
      | Some mp => list_eqb (list_eqb dirent_eqb) mp (map (map strip) pages)
      | None => false
      end
  | CQids sh ops res =>
      let '(b, s) := build sh in list_eqb opres_eqb (run_ops b s ops) res
  | CPagesZ _ _ _ _ _ _ _ _ _ _ _ => false
  end.

(** * the property on the observation *)
Fixpoint count_name (n : string) (l : list dirent) : nat :=
  match l with [] => O | d :: r => (if String.eqb n (d_name d) then 1 else 0) + count_name n r end.
Fixpoint mem_name (n : string) (l : list string) : bool :=
  match l with [] => false | x :: r => String.eqb n x || mem_name n r end.

(** every name exactly once and nothing else (fast path: same order) *)
Definition exactly_once (names : list string) (all : list dirent) : bool :=
  list_eqb String.eqb (map d_name all) names
  || (forallb (fun n => Nat.eqb (count_name n all) 1) names && forallb (fun d => mem_name (d_name d) names) all).

Fixpoint nth_qid (n : string) (names : list string) (qs : list qid) : option qid :=
  match names, qs with
  | x :: names', q :: qs' => if String.eqb n x then Some q else nth_qid n names' qs'
  | _, _ => None
  end.

Fixpoint qids_zip (all : list dirent) (names : list string) (wq gq : list qid) : bool :=
  match all, names, wq, gq with
  | [], _, _, _ => true
  | d :: all', n :: names', w :: wq', g :: gq' =>
      String.eqb (d_name d) n && qid_eqb (d_qid d) w && qid_eqb (d_qid d) g && (d_type d =? q_type (d_qid d))
      && qids_zip all' names' wq' gq'
  | _, _, _, _ => false
  end.

Definition qids_agree (all : list dirent) (names : list string) (wq gq : list qid) : bool :=
  qids_zip all names wq gq
  || forallb (fun d => match nth_qid (d_name d) names wq, nth_qid (d_name d) names gq with
                       | Some w, Some g => qid_eqb (d_qid d) w && qid_eqb (d_qid d) g && (d_type d =? q_type (d_qid d))
                       | _, _ => false
                       end) all.

Definition name_size (n : string) : N := 24 + N.of_nat (String.length n).

(** does one entry always fit?  the effective byte budget of a reply is min(count, msize - 11)
    through client and server; a direct File.Readdir only needs count >= 1 *)
Definition one_fits (remote : bool) (msize count : N) (names : list string) : bool :=
  if remote then forallb (fun n => name_size n <=? N.min (client_clamp msize count) (max_reply_payload msize)) names
  else 1 <=? count.

(** scripts: between two changes of a mount's identity, whatever a Readdir listed for a name is what a Walk to that name
    (from the same directory) and GetAttr on the walked File report — in either order of the two operations.
    [seenr]: listings so far (path, entries); [seenw]: walks so far (path, name, QID). *)
Definition path_eqb (a b : list string) : bool := list_eqb String.eqb a b.
Fixpoint script_agrees (seenr : list (list string * list dirent)) (seenw : list (list string * string * qid))
         (ops : list op) (res : list opres) : bool :=
  match ops, res with
  | OBump _ _ :: os, _ :: rs => script_agrees [] [] os rs
  | ORead p _ _ :: os, RRead es :: rs =>
      forallb (fun d => (d_type d =? q_type (d_qid d)) &&
                        forallb (fun '(p', n, qw) => negb (path_eqb p p' && String.eqb n (d_name d)) || qid_eqb (d_qid d) qw) seenw) es
      && script_agrees ((p, es) :: seenr) seenw os rs
  | OWalk p n :: os, RWalk true qw qg :: rs =>
      qid_eqb qw qg &&
      forallb (fun '(p', es) => negb (path_eqb p p') ||
                                forallb (fun d => negb (String.eqb (d_name d) n) || qid_eqb (d_qid d) qw) es) seenr
      && script_agrees seenr ((p, n, qw) :: seenw) os rs
  | _ :: os, _ :: rs => script_agrees seenr seenw os rs
  | _, _ => true
  end.

Definition property_holds (c : c19case) : bool :=
  match expand c with
  | CPages fs remote msize count names wq gq pages hit =>
      let all := concat pages in
      (* QIDs of whatever was listed agree with Walk and GetAttr, always *)
      qids_agree all names wq gq &&
      (* every reply holds whole entries within the budget: through client and server at most min(count, msize - 11) bytes,
         directly at most count entries *)
      forallb (fun pg => if remote
                         then fold_left (fun a d => a + entry_size d) pg 0 <=? N.min count (max_reply_payload msize)
                         else lenN pg <=? count) pages &&
      (* no entry twice, always *)
      forallb (fun d => Nat.eqb (count_name (d_name d) all) 1) (if Nat.leb (List.length all) 400 then all else []) &&
      (* complete, when one entry fits *)
      (negb (one_fits remote msize count names) || (negb hit && exactly_once names all))
  | CQids _ ops res =>
      forallb (fun r => match r with
                        | RWalk true qw qg => qid_eqb qw qg
                        | RRead es => forallb (fun d => d_type d =? q_type (d_qid d)) es
                        | _ => true
                        end) res
      && script_agrees [] [] ops res
  | CPagesZ _ _ _ _ _ _ _ _ _ _ _ => false
  end.

Fixpoint failing (f : c19case -> bool) (i : nat) (l : list c19case) : list nat :=
  match l with
  | [] => []
  | c :: r => if f c then failing f (S i) r else i :: failing f (S i) r
  end.
Definition mismatches (l : list c19case) : list nat := failing agrees 0 l.
Definition property_failures (l : list c19case) : list nat := failing property_holds 0 l.
