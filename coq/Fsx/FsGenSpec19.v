(** Obligations of C19 over gen/FsGen19.v and gen/FsGen20.v (those of C20 are in FsGenSpec20.v): what the models in coq/Fsx transcribe from the
    source, compared SEMANTICALLY where go2coq can extract it (comparisons
    normalised to (smaller, op, larger) with widening conversions and
    parentheses removed; additive constants, shift amounts and mask widths as
    numbers, proved equal to the constants the models use; structural facts as
    booleans).  Text equality remains only for the statement sequences of
    Mapper.QIDFor and localToQid and the stat/append tail of the localfs loop,
    rendered by go/printer (insensitive to re-formatting).  An edit that breaks
    one of these breaks C19_source_shape / C20_source_shape and sends the check
    into its search for a concrete failing input. *)
From Coq Require Import String List Bool NArith.
From P9V Require Import gen.ConstGen gen.FsGen19 Fsx.Readdir Fsx.LocalDir.
Import ListNotations.
Open Scope string_scope.

Fixpoint strs_eqb (a b : list string) : bool :=
  match a, b with
  | [], [] => true
  | x :: a', y :: b' => String.eqb x y && strs_eqb a' b'
  | _, _ => false
  end.
Definition cmp_eqb (a b : string * string * string) : bool :=
  let '(a1, a2, a3) := a in let '(b1, b2, b3) := b in String.eqb a1 b1 && String.eqb a2 b2 && String.eqb a3 b3.
Fixpoint terms_eqb (a b : list (string * N)) : bool :=
  match a, b with
  | [], [] => true
  | (x, n) :: a', (y, m) :: b' => String.eqb x y && N.eqb n m && terms_eqb a' b'
  | _, _ => false
  end.

(** the meaning of an extracted comparison operator *)
Definition cmp_sem (op : string) : option (N -> N -> bool) :=
  if String.eqb op "<" then Some N.ltb else if String.eqb op "<=" then Some N.leb
  else if String.eqb op "==" then Some N.eqb else None.

(** * C19 *)
Definition fs_readdir_shape_ok : bool :=
  (* readdir.Readdir:  if len(names) <= offset { return nil, nil } *)
  cmp_eqb fs_readdir_guard ("len(names)", "<=", "offset") && fs_readdir_guard_returns_empty
  && String.eqb fs_readdir_end "min((offset + count), len(names))"
  && String.eqb fs_readdir_range "names[offset:end]"
  (* Offset = offset + <range index> + 1 *)
  && strs_eqb fs_readdir_Offset_terms [fs_readdir_range_index; "offset"] && N.eqb fs_readdir_Offset_const 1
  && String.eqb fs_readdir_QID ("qids[" ++ fs_readdir_range_value ++ "]")
  && String.eqb fs_readdir_Type ("qids[" ++ fs_readdir_range_value ++ "].Type")
  && String.eqb fs_readdir_Name fs_readdir_range_value
  (* localfs: rewind, cursor from 0, loop while len < count, read 1 / EOF returns what was collected / cursor++ / skip / entry *)
  && fs_local_rewinds && String.eqb fs_local_cursor_init "0"
  && cmp_eqb fs_local_loop_cond ("len(p9Ents)", "<", "count")
  && cmp_eqb fs_local_skip ("cursor", "<=", "offset")
  && strs_eqb fs_local_loop_events ["read 1"; "eof-return p9Ents, nil"; "incr"; "skip"; "entry"]
  && String.eqb fs_local_QID "qid" && String.eqb fs_local_Type "qid.Type" && String.eqb fs_local_Offset "cursor"
  && String.eqb fs_local_Name "name"
  && strs_eqb fs_local_loop_rest ["name := singleEnt[0]"; "localEnt := Local{path: path.Join(l.path, name)}";
                                  "qid, _, err := localEnt.info()"; "if err != nil { return p9Ents, err }"]
  (* rreaddir.encode: stop when Count < bytes so far *)
  && cmp_eqb fs_rreaddir_break ("r.Count", "<", "len(entriesBuf.data)").

Lemma readdir_shape_ok : fs_readdir_shape_ok = true.
Proof. vm_compute. reflexivity. Qed.

(** the models use exactly these operators and this increment *)
Lemma model_offset_increment q s n r :
  d_off (hd (mkDirent (mkQid 0 0 0) 0 0 "") (number_from q s (n :: r))) = (s + fs_readdir_Offset_const)%N.
Proof. reflexivity. Qed.
Lemma model_readdir_guard : cmp_sem (snd (fst fs_readdir_guard)) = Some N.leb.
Proof. reflexivity. Qed.   (* static_readdir: [if lenN names <=? offset then []] *)
Lemma model_local_skip : cmp_sem (snd (fst fs_local_skip)) = Some N.leb.
Proof. reflexivity. Qed.   (* local_loop: [if cursor <=? offset then (skip)] *)
Lemma model_local_loop_cond : cmp_sem (snd (fst fs_local_loop_cond)) = Some N.ltb.
Proof. reflexivity. Qed.   (* local_loop: [if lenN acc <? count then (continue)] *)
Lemma model_wire_break : cmp_sem (snd (fst fs_rreaddir_break)) = Some N.ltb.
Proof. reflexivity. Qed.   (* wire_trunc: [if count <? acc + entry_size d then []] *)

