(** Obligations of C19 over gen/FsGen19.v (those of C20 are in FsGenSpec20.v).
    go2coq extracts what the models in coq/Fsx transcribe SEMANTICALLY: variables
    are named by their role (parameter position, "the variable the loop
    increments", "the result of info()"), so renaming a local does not change
    the table; comparisons are normalised to (smaller, op, larger) with widening
    conversions and parentheses removed; constants are numbers; structural facts
    are booleans.  An edit that changes one of these breaks C19_source_shape and
    sends the check into its (budgeted) search for a concrete failing input. *)
From Coq Require Import String List Bool NArith.
From P9V Require Import gen.ConstGen gen.FsGen19 Fsx.Readdir Fsx.LocalDir.
Import ListNotations.
Open Scope string_scope.

Fixpoint strs_eqb (a b : list string) : bool :=
  match a, b with
  | [], [] => true
  | x :: a', y :: b' => String.eqb x y && strs_eqb a' b'
  | _, _ => false
  end.
Definition cmp_eqb (a b : string * string * string) : bool :=
  let '(a1, a2, a3) := a in let '(b1, b2, b3) := b in String.eqb a1 b1 && String.eqb a2 b2 && String.eqb a3 b3.

(** the meaning of an extracted comparison operator *)
Definition cmp_sem (op : string) : option (N -> N -> bool) :=
  if String.eqb op "<" then Some N.ltb else if String.eqb op "<=" then Some N.leb
  else if String.eqb op "==" then Some N.eqb else None.

Definition fs_readdir_shape_ok : bool :=
  (* readdir.Readdir(offset, count, names, qids):  if len(names) <= offset { return nil, nil };
     range names[offset : min(offset+count, len(names))]; entry i: Offset = offset + i + 1, QID/Type from qids[name] *)
  cmp_eqb fs_readdir_guard ("len(names)", "<=", "offset") && fs_readdir_guard_returns_empty
  && String.eqb fs_readdir_range_of "names" && String.eqb fs_readdir_range_low "offset"
  && String.eqb fs_readdir_range_high "min((offset + count), len(names))"
  && strs_eqb fs_readdir_Offset_terms ["i"; "offset"] && N.eqb fs_readdir_Offset_const 1
  && String.eqb fs_readdir_QID "qids[name]" && String.eqb fs_readdir_Type "qids[name].Type"
  && String.eqb fs_readdir_Name "name" && fs_readdir_body_only_appends
  (* Local.Readdir: unconditional rewind; cursor from 0, changed only by the one increment; loop while len(ents) < count;
     read one name / EOF returns what was collected / cursor++ / skip while cursor <= offset / entry of info(path.Join(l.path, name)) *)
  && fs_local_rewinds && String.eqb fs_local_cursor_init "0" && N.eqb fs_local_cursor_writes 1
  && cmp_eqb fs_local_loop_cond ("len(ents)", "<", "count")
  && cmp_eqb fs_local_skip ("cursor", "<=", "offset")
  && strs_eqb fs_local_loop_events
       ["read 1"; "if (err == io.EOF) return ents, nil"; "cursor++"; "skip"; "name := read[0]";
        "qid := info of Local{path: path.Join(l.path, name)}"; "if (err != nil) return ents, err"; "append entry to ents"]
  && String.eqb fs_local_QID "qid" && String.eqb fs_local_Type "qid.Type" && String.eqb fs_local_Offset "cursor"
  && String.eqb fs_local_Name "name" && N.eqb fs_local_readdir_qid_writes 0
  (* info(): Type from the mode of the (l)stat result, Path from localToQid; the QID reaches Walk's and GetAttr's
     callers as info() returned it; GetAttr reports the raw st_mode *)
  && String.eqb fs_info_type "p9.ModeFromOS(fi.Mode()).QIDType()" && String.eqb fs_info_path "localToQid(l.path, fi)"
  && strs_eqb fs_info_stat_calls ["l.file.Stat()"; "os.Lstat(l.path)"] && N.eqb fs_info_qid_writes 2
  && fs_walk_qid_is_info_unmodified && String.eqb fs_walk_info_on "&Local{path: path.Join(last.path, name)}"
  && fs_getattr_qid_is_info_unmodified && String.eqb fs_getattr_attr_mode "p9.FileMode(<stat>.Mode)"
  (* rreaddir.encode: encode the next entry into the scratch buffer; stop when Count < bytes so far; only then keep the size;
     Count and payload are that size *)
  && cmp_eqb fs_rreaddir_break ("r.Count", "<", "len(scratch.data)")
  && strs_eqb fs_rreaddir_loop ["encode entry into scratch"; "break-test"; "size = len(scratch.data)"]
  && strs_eqb fs_rreaddir_after ["r.Count = size"; "r.payload = scratch.data[:size]"; "b.Write32(r.Count)"].

Lemma readdir_shape_ok : fs_readdir_shape_ok = true.
Proof. vm_compute. reflexivity. Qed.

(** the models use exactly these operators and this increment *)
Lemma model_offset_increment q s n r :
  d_off (hd (mkDirent (mkQid 0 0 0) 0 0 "") (number_from q s (n :: r))) = (s + fs_readdir_Offset_const)%N.
Proof. reflexivity. Qed.
Lemma model_readdir_guard : cmp_sem (snd (fst fs_readdir_guard)) = Some N.leb.
Proof. reflexivity. Qed.   (* static_readdir: [if lenN names <=? offset then []] *)
Lemma model_local_skip : cmp_sem (snd (fst fs_local_skip)) = Some N.leb.
Proof. reflexivity. Qed.   (* local_loop: [if cursor <=? offset then (skip)] *)
Lemma model_local_loop_cond : cmp_sem (snd (fst fs_local_loop_cond)) = Some N.ltb.
Proof. reflexivity. Qed.   (* local_loop: [if lenN acc <? count then (continue)] *)
Lemma model_wire_break : cmp_sem (snd (fst fs_rreaddir_break)) = Some N.ltb.
Proof. reflexivity. Qed.   (* wire_trunc: [if count <? acc + entry_size d then []] *)
