(** Go slice operations on the pool's cache, as named primitives for the TRANSLATED code (gen/PoolGen.v).
    Lists are in Go order (last element = top of the stack); operations that panic in Go yield None.
    [go_slice_to l j] models l[:j] for j <= len(l) only (re-slicing up to the capacity is not modelled: None). *)
From Coq Require Import ZArith NArith List Bool.
Import ListNotations.
Open Scope Z_scope.

Definition two64z : Z := 18446744073709551616.
Definition go_len (l : list N) : Z := Z.of_nat (List.length l).
Definition go_index (l : list N) (i : Z) : option N :=
  if (i <? 0) || (go_len l <=? i) then None else nth_error l (Z.to_nat i).
Definition go_slice_to (l : list N) (j : Z) : option (list N) :=
  if (j <? 0) || (go_len l <? j) then None else Some (firstn (Z.to_nat j) l).
Definition go_append (l : list N) (v : Z) : list N := l ++ [Z.to_N v].
