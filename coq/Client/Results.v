(** C03, result half — "the caller gets back what that File returned: values unchanged".

    Server: gen/ResultGen.v (go2coq ResultGen, from p9/handlers.go) says, for every handler, which result of
    which backend call each field of the reply is (e.g. Rlopen.QID <- Open#0, Rlopen.IoUnit <- Open#1; the Tu*
    handlers embed what the plain do function built).  Client: ClientModel.spec_methods (go2coq ClientGen)
    says which reply fields a method returns, in which order.  Composition = identity: the i-th value a
    client method returns is the i-th result of the corresponding backend method (the File result of
    Create is the handle itself), at every version.  For Walk/WalkGetAttr the values are doWalk's results
    (QIDs, mask, attributes), whose assembly from the per-component backend calls is checked by the
    differential only. *)
From Coq Require Import NArith String List Bool.
From P9V Require Import gen.ClientGen gen.ResultGen Client.ClientModel Client.HandlerTie.
Import ListNotations.
Open Scope string_scope.

Definition reply_sources_spec : list (string * list (string * string)) := [
  ("tclunk.handle", [("type", "rclunk")]);
  ("tflush.handle", [("type", "rflush")]);
  ("tfsync.handle", [("type", "rfsync")]);
  ("tgetattr.handle", [("type", "rgetattr"); ("QID", "GetAttr#0"); ("Valid", "GetAttr#1"); ("Attr", "GetAttr#2")]);
  ("tlcreate.do", [("type", "rlcreate"); ("QID", "Create#1"); ("IoUnit", "Create#2")]);
  ("tlink.handle", [("type", "rlink")]);
  ("tlock.handle", [("type", "rlock"); ("Status", "Lock#0")]);
  ("tlopen.handle", [("type", "rlopen"); ("QID", "Open#0"); ("IoUnit", "Open#1")]);
  ("tmkdir.do", [("type", "rmkdir"); ("QID", "Mkdir#0")]);
  ("tmknod.do", [("type", "rmknod"); ("QID", "Mknod#0")]);
  ("tread.handle", [("type", "rreadServerPayloader"); ("Data", "text:_v8[:_v6]"); ("cs", "text:_v1"); ("fullBuffer", "text:_v8")]);
  ("treaddir.handle", [("type", "rreaddir"); ("Count", "text:_v6"); ("Entries", "Readdir#0")]);
  ("treadlink.handle", [("type", "rreadlink"); ("Target", "Readlink#0")]);
  ("tremove.handle", [("type", "rremove")]);
  ("trename.handle", [("type", "rrename")]);
  ("trenameat.handle", [("type", "rrenameat")]);
  ("tsetattr.handle", [("type", "rsetattr")]);
  ("tstatfs.handle", [("type", "rstatfs"); ("FSStat", "StatFS#0")]);
  ("tsymlink.do", [("type", "rsymlink"); ("QID", "Symlink#0")]);
  ("tucreate.handle", [("type", "rucreate"); ("embed", "do#0")]);
  ("tumkdir.handle", [("type", "rumkdir"); ("embed", "do#0")]);
  ("tumknod.handle", [("type", "rumknod"); ("embed", "do#0")]);
  ("tunlinkat.handle", [("type", "runlinkat")]);
  ("tusymlink.handle", [("type", "rusymlink"); ("embed", "do#0")]);
  ("twalk.handle", [("type", "rwalk"); ("QIDs", "doWalk#0")]);
  ("twalkgetattr.handle", [("type", "rwalkgetattr"); ("QIDs", "doWalk#0"); ("Valid", "doWalk#2"); ("Attr", "doWalk#3")]);
  ("twrite.handle", [("type", "rwrite"); ("Count", "uint32(WriteAt#0)")]);
  ("txattrcreate.handle", [("type", "rxattrcreate")]);
  ("txattrwalk.handle", [("type", "rxattrwalk"); ("Size", "uint64(text:_v4)")])
].

Lemma reply_sources_generated : ResultGen.reply_sources = reply_sources_spec.
Proof. reflexivity. Qed.

(** the entry of the function that builds the reply for T-message t: its handler, else the do function it delegates to *)
Definition reply_entry (t : string) : list (string * string) :=
  match find (fun x => fst x =? t ++ ".handle") reply_sources_spec with
  | Some x => snd x
  | None => match find (fun x => fst x =? fst (body_of t)) reply_sources_spec with Some x => snd x | None => [] end
  end.

(** where reply field [f] of the answer to T-message t comes from; Tu* replies embed the plain reply *)
Definition reply_src (t f : string) : string :=
  let direct e := match find (fun p => fst p =? f) e with Some p => Some (snd p) | None => None end in
  match direct (reply_entry t) with
  | Some s => s
  | None =>
      match find (fun p => fst p =? "embed") (reply_entry t) with
      | Some _ => match find (fun x => fst x =? fst (body_of t)) reply_sources_spec with
                  | Some x => match direct (snd x) with Some s => s | None => "?" end
                  | None => "?"
                  end
      | None => "?"
      end
  end.

(** the reply fields a send of a client method returns: "rT.F" -> F (other returned expressions are not reply fields) *)
Definition field_of_ret (rname r : string) : option string :=
  if starts_with (rname ++ ".") r then Some (drop (S (String.length rname)) r) else None.

Definition client_ret_fields (s : gsend) : list string :=
  flat_map (fun r => match field_of_ret (gs_r s) r with Some f => [f] | None => [] end) (gs_rets s).

(** per method: the results of the backend method, in the order of the File method's results *)
Definition backend_results : list (string * list string) :=
  [("Open", ["Open#0"; "Open#1"]); ("Create", ["Create#1"; "Create#2"]); ("Mkdir", ["Mkdir#0"]); ("Symlink", ["Symlink#0"]);
   ("Mknod", ["Mknod#0"]); ("GetAttr", ["GetAttr#0"; "GetAttr#1"; "GetAttr#2"]); ("StatFS", ["StatFS#0"]);
   ("Readlink", ["Readlink#0"]); ("Readdir", ["Readdir#0"]); ("Lock", ["Lock#0"]);
   ("Walk", ["doWalk#0"]); ("WalkGetAttr", ["doWalk#0"; "doWalk#2"; "doWalk#3"])].

Definition results_identity_at (v : N) (x : string * list string) : bool :=
  match find_method (fst x) with
  | Some m =>
      forallb (fun s => if list_eq_dec string_dec (map (reply_src (gs_t s)) (client_ret_fields s)) (snd x) then true else false)
              (filter (fun s => cond_holds v (gs_cond s)) (gm_sends m)) &&
      negb (match filter (fun s => cond_holds v (gs_cond s)) (gm_sends m) with [] => negb (fst x =? "WalkGetAttr") | _ => false end)
  | None => false
  end.

Lemma results_identity : forall v, In v [0;1;2;3;4;5;6;7]%N -> forallb (results_identity_at v) backend_results = true.
Proof.
  intros v Hv. cbn [In] in Hv.
  repeat (destruct Hv as [<-|Hv]; [vm_compute; reflexivity|]). contradiction.
Qed.

(** the methods without result values return only the error: their replies carry no field *)
Lemma no_value_replies :
  forallb (fun t => match reply_entry t with [("type", _)] => true | _ => false end)
          ["tfsync"; "tlink"; "trename"; "trenameat"; "tsetattr"; "tunlinkat"; "tremove"; "tclunk"] = true.
Proof. vm_compute. reflexivity. Qed.
