(** C03 — what the client sends for every File method, what the server's handler
    makes of it, and what transparency requires (definitions only).

    [spec_methods] is the reviewed table of the clientFile methods in the format of
    gen/ClientGen.v (ClientProofs.gen_is_spec: the table go2coq extracts from the
    current source is this one).  [client_msgs] interprets it: the messages a
    method puts on the wire for given arguments at a negotiated version.
    [wire] is the only rewriting of the codec (C01): permission fields are masked
    with 0o7777, PID is truncated to 32 bits.  [handler_call] is the server side
    of each T-message as far as "which backend method, on which File, with which
    arguments" (p9/handlers.go).  [expected] is the transparency specification. *)
From Coq Require Import NArith String List Bool.
From P9V Require Import gen.ConstGen gen.ClientGen.
Import ListNotations.
Open Scope string_scope.

Definition spec_methods : list gmethod := [
  mkgm "Attach" ["name"] "" ""
    [mkgs (GAlways) "tattach" [("fid", GNewFid); ("Auth.AttachName", GParam "name"); ("Auth.Authenticationfid", GConst "noFID"); ("Auth.UID", GConst "NoUID")] "rattach" "" ["c.newFile(fid(id))"; "nil"] "refused"]
    true false [];
  mkgm "Close" [] "cas" ""
    [mkgs (GAlways) "tclunk" [("fid", GRecvFid)] "rclunk" "" ["nil"] ""]
    false true [];
  mkgm "Create" ["name"; "openFlags"; "permissions"; "uid"; "gid"] "load" ""
    [mkgs (GWhen "versionSupportsTucreation") "tucreate" [("fid", GRecvFid); ("Name", GParam "name"); ("OpenFlags", GParam "openFlags"); ("Permissions", GParam "permissions"); ("GID", GParam "gid"); ("UID", GParam "uid")] "rucreate" "" ["c"; "rucreate.QID"; "rucreate.IoUnit"; "nil"] "";
     mkgs (GUnless "versionSupportsTucreation") "tlcreate" [("fid", GRecvFid); ("Name", GParam "name"); ("OpenFlags", GParam "openFlags"); ("Permissions", GParam "permissions"); ("GID", GConst "NoGID")] "rlcreate" "" ["c"; "rlcreate.QID"; "rlcreate.IoUnit"; "nil"] ""]
    false false [];
  mkgm "FSync" [] "load" ""
    [mkgs (GAlways) "tfsync" [("fid", GRecvFid)] "rfsync" "" ["err"] ""]
    false false [];
  mkgm "GetAttr" ["req"] "load" ""
    [mkgs (GAlways) "tgetattr" [("fid", GRecvFid); ("AttrMask", GParam "req")] "rgetattr" "" ["rgetattr.QID"; "rgetattr.Valid"; "rgetattr.Attr"; "nil"] ""]
    false false [];
  mkgm "GetXattr" ["attr"] "" ""
    []
    false false ["_v2, err := c.xattrWalkRead(attr)";
     "if err != nil { return nil, err }";
     "return _v2, nil"];
  mkgm "Link" ["target"; "newname"] "load" ""
    [mkgs (GAlways) "tlink" [("Directory", GRecvFid); ("Name", GParam "newname"); ("Target", GParamFid "target")] "rlink" "" ["err"] ""]
    false false [];
  mkgm "ListXattrs" [] "" ""
    []
    false false ["_v1, err := c.xattrWalkRead("""")";
     "if err != nil { return nil, err }";
     "var _v3 []string";
     "for _, _v4 := range strings.Split(string(_v1), ""\x00"") { if _v4 != """" { _v3 = append(_v3, _v4) } }";
     "return _v3, nil"];
  mkgm "Lock" ["pid"; "locktype"; "flags"; "start"; "length"; "client"] "load" ""
    [mkgs (GAlways) "tlock" [("fid", GRecvFid); ("Type", GParam "locktype"); ("Flags", GParam "flags"); ("Start", GParam "start"); ("Length", GParam "length"); ("PID", GConv "int32" (GParam "pid")); ("Client", GParam "client")] "rlock" "" ["rlock.Status"; "err"] ""]
    false false [];
  mkgm "Mkdir" ["name"; "permissions"; "uid"; "gid"] "load" ""
    [mkgs (GWhen "versionSupportsTucreation") "tumkdir" [("Directory", GRecvFid); ("Name", GParam "name"); ("Permissions", GParam "permissions"); ("GID", GParam "gid"); ("UID", GParam "uid")] "rumkdir" "" ["rumkdir.QID"; "nil"] "";
     mkgs (GUnless "versionSupportsTucreation") "tmkdir" [("Directory", GRecvFid); ("Name", GParam "name"); ("Permissions", GParam "permissions"); ("GID", GConst "NoGID")] "rmkdir" "" ["rmkdir.QID"; "nil"] ""]
    false false [];
  mkgm "Mknod" ["name"; "mode"; "major"; "minor"; "uid"; "gid"] "load" ""
    [mkgs (GWhen "versionSupportsTucreation") "tumknod" [("Directory", GRecvFid); ("Name", GParam "name"); ("Mode", GParam "mode"); ("Major", GParam "major"); ("Minor", GParam "minor"); ("GID", GParam "gid"); ("UID", GParam "uid")] "rumknod" "" ["rumknod.QID"; "nil"] "";
     mkgs (GUnless "versionSupportsTucreation") "tmknod" [("Directory", GRecvFid); ("Name", GParam "name"); ("Mode", GParam "mode"); ("Major", GParam "major"); ("Minor", GParam "minor"); ("GID", GConst "NoGID")] "rmknod" "" ["rmknod.QID"; "nil"] ""]
    false false [];
  mkgm "Open" ["flags"] "load" ""
    [mkgs (GAlways) "tlopen" [("fid", GRecvFid); ("Flags", GParam "flags")] "rlopen" "" ["rlopen.QID"; "rlopen.IoUnit"; "nil"] ""]
    false false [];
  mkgm "ReadAt" ["p"; "offset"] "" ""
    []
    false false ["return chunk(c.client.payloadSize, c.readAt, p, offset)"];
  mkgm "Readdir" ["offset"; "count"] "load" ""
    [mkgs (GAlways) "treaddir" [("Directory", GRecvFid); ("Offset", GParam "offset"); ("Count", GClamped "count")] "rreaddir" "" ["rreaddir.Entries"; "nil"] ""]
    false false [];
  mkgm "Readlink" [] "load" ""
    [mkgs (GAlways) "treadlink" [("fid", GRecvFid)] "rreadlink" "" ["rreadlink.Target"; "nil"] ""]
    false false [];
  mkgm "Remove" [] "cas" ""
    [mkgs (GAlways) "tremove" [("fid", GRecvFid)] "rremove" "" ["nil"] ""]
    false true [];
  mkgm "RemoveXattr" ["attr"] "" "ENOSYS"
    []
    false false [];
  mkgm "Rename" ["dir"; "name"] "load" ""
    [mkgs (GAlways) "trename" [("fid", GRecvFid); ("Directory", GParamFid "dir"); ("Name", GParam "name")] "rrename" "" ["err"] ""]
    false false [];
  mkgm "RenameAt" ["oldname"; "newdir"; "newname"] "load" ""
    [mkgs (GAlways) "trenameat" [("OldDirectory", GRecvFid); ("OldName", GParam "oldname"); ("NewDirectory", GParamFid "newdir"); ("NewName", GParam "newname")] "rrenameat" "" ["err"] ""]
    false false [];
  mkgm "Renamed" ["newDir"; "newName"] "" ""
    []
    false false [];
  mkgm "SetAttr" ["valid"; "attr"] "load" ""
    [mkgs (GAlways) "tsetattr" [("fid", GRecvFid); ("Valid", GParam "valid"); ("SetAttr", GParam "attr")] "rsetattr" "" ["err"] ""]
    false false [];
  mkgm "SetXattr" ["attr"; "data"; "flags"] "" "ENOSYS"
    []
    false false [];
  mkgm "StatFS" [] "load" ""
    [mkgs (GAlways) "tstatfs" [("fid", GRecvFid)] "rstatfs" "" ["rstatfs.FSStat"; "nil"] ""]
    false false [];
  mkgm "Symlink" ["oldname"; "newname"; "uid"; "gid"] "load" ""
    [mkgs (GWhen "versionSupportsTucreation") "tusymlink" [("Directory", GRecvFid); ("Name", GParam "newname"); ("Target", GParam "oldname"); ("GID", GParam "gid"); ("UID", GParam "uid")] "rusymlink" "" ["rusymlink.QID"; "nil"] "";
     mkgs (GUnless "versionSupportsTucreation") "tsymlink" [("Directory", GRecvFid); ("Name", GParam "newname"); ("Target", GParam "oldname"); ("GID", GConst "NoGID")] "rsymlink" "" ["rsymlink.QID"; "nil"] ""]
    false false [];
  mkgm "UnlinkAt" ["name"; "flags"] "load" ""
    [mkgs (GAlways) "tunlinkat" [("Directory", GRecvFid); ("Name", GParam "name"); ("Flags", GParam "flags")] "runlinkat" "" ["err"] ""]
    false false [];
  mkgm "Walk" ["names"] "load" ""
    [mkgs (GAlways) "twalk" [("fid", GRecvFid); ("newFID", GNewFid); ("Names", GParam "names")] "rwalk" "" ["rwalk.QIDs"; "c.client.newFile(fid(id))"; "nil"] "refused"]
    true false [];
  mkgm "WalkGetAttr" ["components"] "load" ""
    [mkgs (GWhen "versionSupportsTwalkgetattr") "twalkgetattr" [("fid", GRecvFid); ("newFID", GNewFid); ("Names", GParam "components")] "rwalkgetattr" "" ["rwalkgetattr.QIDs"; "c.client.newFile(fid(id))"; "rwalkgetattr.Valid"; "rwalkgetattr.Attr"; "nil"] "refused"]
    true false ["unless versionSupportsTwalkgetattr { _v2, _v3, err := c.Walk(components) if err != nil { return nil, nil, AttrMask{}, Attr{}, err } _, _v5, _v6, err := _v3.GetAttr(AttrMaskAll) if err != nil { _v3.Close() return nil, nil, AttrMask{}, Attr{}, err } return _v2, _v3, _v5, _v6, nil }"];
  mkgm "WriteAt" ["p"; "offset"] "" ""
    []
    false false ["return chunk(c.client.payloadSize, c.writeAt, p, offset)"];
  mkgm "newFile" ["fid"] "" ""
    []
    false false ["_v2 := &clientFile{ client: c, fid: fid, }";
     "runtime.SetFinalizer(_v2, (*clientFile).Close)";
     "return _v2"];
  mkgm "readAt" ["p"; "offset"] "load" ""
    [mkgs (GAlways) "tread" [("fid", GRecvFid); ("Offset", GConv "uint64" (GParam "offset")); ("Count", GLen "uint32" "p")] "rread" "Data<-p" [] ""]
    false false ["if len(p) > 0 && len(rread.Data) > 0 && &rread.Data[0] != &p[0] { copy(p, rread.Data) }";
     "if len(rread.Data) == 0 && len(p) > 0 { return 0, io.EOF }";
     "return len(rread.Data), nil"];
  mkgm "writeAt" ["p"; "offset"] "load" ""
    [mkgs (GAlways) "twrite" [("fid", GRecvFid); ("Offset", GConv "uint64" (GParam "offset")); ("Data", GParam "p")] "rwrite" "" [] ""]
    false false ["return int(rwrite.Count), nil"];
  mkgm "xattrWalkRead" ["attr"] "" ""
    []
    false false ["if atomic.LoadUint32(&c.closed) != 0 { return nil, linux.EBADF }";
     "id, ok := c.client.fidPool.Get()";
     "if !ok { return nil, ErrOutOfFIDs }";
     "rxattrwalk := rxattrwalk{}";
     "if err := c.client.sendRecv(&txattrwalk{fid: c.fid, newFID: fid(id), Name: attr}, &rxattrwalk); err != nil { c.client.releaseFID(id, err) return nil, err }";
     "_v6 := c.client.newFile(fid(id))";
     "defer _v6.Close()";
     "if rxattrwalk.Size == 0 { return []byte{}, nil }";
     "_v7 := make([]byte, rxattrwalk.Size)";
     "_v8, err := _v6.ReadAt(_v7, 0)";
     "if err != nil && err != io.EOF { return nil, err }";
     "return _v7[:_v8], nil"]
].

(** ---- values ---- *)
Inductive val :=
| VN (n : N)                  (* any integer-like argument (flags, modes, ids, offsets, counts) *)
| VS (s : string)             (* a name / target / lock client id: arbitrary bytes *)
| VL (l : list string)        (* Walk names *)
| VB (b : list N)             (* data *)
| VR (l : list N)             (* a struct of integers/booleans: AttrMask (14), SetAttrMask (9), SetAttr (8: Permissions first) *)
| VFile (fid : N)             (* the backend File bound to this fid *)
| VNameOf (fid : N)           (* the current name of that File in its parent *)
| VBuf (len : N).             (* an empty buffer of that length (ReadAt) *)

Record env := mkenv {
  e_param : string -> val;
  e_fid : N;                  (* c.fid *)
  e_newfid : N;               (* the fid fidPool.Get returned *)
  e_pfid : string -> N;       (* fid of a File parameter *)
  e_msize : N }.

Definition two32 : N := 4294967296.
Definition two64 : N := 18446744073709551616.

Fixpoint eval_src (e : env) (s : gsrc) : val :=
  match s with
  | GParam n => e_param e n
  | GClamped n =>
      match e_param e n with
      | VN c => let mx := (e_msize e - (p9_headerLength + 4))%N in VN (if (mx <? c)%N then mx else c)
      | v => v
      end
  | GRecvFid => VN (e_fid e)
  | GNewFid => VN (e_newfid e)
  | GParamFid n => VN (e_pfid e n)
  | GConst c =>
      if c =? "NoGID" then VN p9_NoGID else if c =? "NoUID" then VN p9_NoUID
      else if c =? "noFID" then VN p9_noFID else if c =? "AttrMaskAll" then VR (repeat 1%N 14) else VS c
  | GConv ty x =>
      match eval_src e x with
      | VN n => VN (if ty =? "int32" then (n mod two32)%N else if ty =? "uint32" then (n mod two32)%N else (n mod two64)%N)
      | v => v
      end
  | GLen ty n => match e_param e n with VB b => VN (N.of_nat (length b)) | VBuf l => VN l | v => v end
  end.

Definition pred_holds (v : N) (p : string) : bool :=
  if p =? "versionSupportsTucreation" then (p9_threshold_versionSupportsTucreation <=? v)%N
  else if p =? "versionSupportsTwalkgetattr" then (p9_threshold_versionSupportsTwalkgetattr <=? v)%N
  else false.

Definition cond_holds (v : N) (c : gcond) : bool :=
  match c with GAlways => true | GWhen p => pred_holds v p | GUnless p => negb (pred_holds v p) end.

Definition tmsg := (string * list (string * val))%type.

Definition find_method (name : string) : option gmethod :=
  find (fun m => gm_name m =? name) spec_methods.

(** the exchanges a method performs itself (compositions are in [composed]) *)
Definition client_msgs (v : N) (name : string) (e : env) : list tmsg :=
  match find_method name with
  | Some m =>
      map (fun s => (gs_t s, map (fun f => (fst f, eval_src e (snd f))) (gs_fields s)))
          (filter (fun s => cond_holds v (gs_cond s)) (gm_sends m))
  | None => []
  end.

(** ---- the codec's rewriting ---- *)
Definition perm_mask (x : val) : val := match x with VN n => VN (N.land n p9_permissionsMask) | v => v end.

Definition mask_setattr (x : val) : val :=
  match x with VR (p :: r) => VR (N.land p p9_permissionsMask :: r) | v => v end.

Definition wire_field (t : string) (f : string * val) : string * val :=
  let '(k, x) := f in
  if (k =? "Permissions") then (k, perm_mask x)
  else if (t =? "tsetattr") && (k =? "SetAttr") then
    (k, mask_setattr x)
  else (k, x).

Definition wire (m : tmsg) : tmsg := (fst m, map (wire_field (fst m)) (snd m)).

(** ---- the server side ---- *)
Inductive target := OnFid (fid : N) | OnParentOf (fid : N).
Record bcall := mkbc { b_method : string; b_on : target; b_args : list val }.

Definition fld (k : string) (fs : list (string * val)) : val :=
  match find (fun f => fst f =? k) fs with Some f => snd f | None => VS "?" end.
Definition fidof (x : val) : N := match x with VN n => n | _ => 0 end.
Definition filev (x : val) : val := VFile (fidof x).

(** PID travels as int32 and is handed to Lock as int: sign extension, kept as a 64-bit pattern *)
Definition sext32 (x : val) : val :=
  match x with
  | VN n => VN (if (n <? 2147483648)%N then n else (n + (two64 - two32))%N)
  | v => v
  end.

Definition handler_calls (m : tmsg) : list bcall :=
  let '(t, fs) := m in
  let f k := fld k fs in
  let on k := OnFid (fidof (f k)) in
  if t =? "tlopen" then [mkbc "Open" (on "fid") [f "Flags"]]
  else if t =? "tlcreate" then [mkbc "Create" (on "fid") [f "Name"; f "OpenFlags"; f "Permissions"; VN p9_NoUID; f "GID"]]
  else if t =? "tucreate" then [mkbc "Create" (on "fid") [f "Name"; f "OpenFlags"; f "Permissions"; f "UID"; f "GID"]]
  else if t =? "tmkdir" then [mkbc "Mkdir" (on "Directory") [f "Name"; f "Permissions"; VN p9_NoUID; f "GID"]]
  else if t =? "tumkdir" then [mkbc "Mkdir" (on "Directory") [f "Name"; f "Permissions"; f "UID"; f "GID"]]
  else if t =? "tsymlink" then [mkbc "Symlink" (on "Directory") [f "Target"; f "Name"; VN p9_NoUID; f "GID"]]
  else if t =? "tusymlink" then [mkbc "Symlink" (on "Directory") [f "Target"; f "Name"; f "UID"; f "GID"]]
  else if t =? "tmknod" then [mkbc "Mknod" (on "Directory") [f "Name"; f "Mode"; f "Major"; f "Minor"; VN p9_NoUID; f "GID"]]
  else if t =? "tumknod" then [mkbc "Mknod" (on "Directory") [f "Name"; f "Mode"; f "Major"; f "Minor"; f "UID"; f "GID"]]
  else if t =? "tlink" then [mkbc "Link" (on "Directory") [filev (f "Target"); f "Name"]]
  else if t =? "trenameat" then [mkbc "RenameAt" (on "OldDirectory") [f "OldName"; filev (f "NewDirectory"); f "NewName"]]
  else if t =? "tunlinkat" then [mkbc "UnlinkAt" (on "Directory") [f "Name"; f "Flags"]]
  else if t =? "trename" then [mkbc "RenameAt" (OnParentOf (fidof (f "fid"))) [VNameOf (fidof (f "fid")); filev (f "Directory"); f "Name"]]
  else if t =? "tremove" then   (* remove is a clunk with the side effect of removing: the fid is released even when the removal failed *)
    [mkbc "UnlinkAt" (OnParentOf (fidof (f "fid"))) [VNameOf (fidof (f "fid")); VN 0]; mkbc "Close" (on "fid") []]
  else if t =? "treadlink" then [mkbc "Readlink" (on "fid") []]
  else if t =? "tgetattr" then [mkbc "GetAttr" (on "fid") [f "AttrMask"]]
  else if t =? "tsetattr" then [mkbc "SetAttr" (on "fid") [f "Valid"; f "SetAttr"]]
  else if t =? "tstatfs" then [mkbc "StatFS" (on "fid") []]
  else if t =? "tfsync" then [mkbc "FSync" (on "fid") []]
  else if t =? "tlock" then [mkbc "Lock" (on "fid") [sext32 (f "PID"); f "Type"; f "Flags"; f "Start"; f "Length"; f "Client"]]
  else if t =? "treaddir" then [mkbc "Readdir" (on "Directory") [f "Offset"; f "Count"]]
  else if t =? "tread" then [mkbc "ReadAt" (on "fid") [VBuf (fidof (f "Count")); f "Offset"]]
  else if t =? "twrite" then [mkbc "WriteAt" (on "fid") [f "Data"; f "Offset"]]
  else if t =? "tclunk" then [mkbc "Close" (on "fid") []]
  else if (t =? "twalk") || (t =? "twalkgetattr") then
    match f "Names" with
    | VL [] => [mkbc (if t =? "twalk" then "Walk" else "WalkGetAttr") (on "fid") [VL []]]
    | VL names => map (fun n => mkbc "WalkGetAttr" (on "fid") [VL [n]]) names   (* one component at a time, each on the File reached so far *)
    | _ => []
    end
  else if t =? "txattrwalk" then
    match f "Name" with
    | VS "" => [mkbc "ListXattrs" (on "fid") []]
    | n => [mkbc "GetXattr" (on "fid") [n]]
    end
  else if t =? "tattach" then [mkbc "Attach" (OnFid 0) []]
  else [].

(** what the backend sees for one client call (methods that perform their exchanges themselves) *)
Definition backend_calls (v : N) (name : string) (e : env) : list bcall :=
  flat_map (fun m => handler_calls (wire m)) (client_msgs v name e).

(** ---- transparency: the same operation with the same arguments, documented rewriting only ---- *)
Definition drop_uid (v : N) (x : val) : val := if (p9_threshold_versionSupportsTucreation <=? v)%N then x else VN p9_NoUID.
Definition drop_gid (v : N) (x : val) : val := if (p9_threshold_versionSupportsTucreation <=? v)%N then x else VN p9_NoGID.

Definition expected (v : N) (name : string) (e : env) : list bcall :=
  let p k := e_param e k in
  let self := OnFid (e_fid e) in
  if name =? "Open" then [mkbc "Open" self [p "flags"]]
  else if name =? "Create" then [mkbc "Create" self [p "name"; p "openFlags"; perm_mask (p "permissions"); drop_uid v (p "uid"); drop_gid v (p "gid")]]
  else if name =? "Mkdir" then [mkbc "Mkdir" self [p "name"; perm_mask (p "permissions"); drop_uid v (p "uid"); drop_gid v (p "gid")]]
  else if name =? "Symlink" then [mkbc "Symlink" self [p "oldname"; p "newname"; drop_uid v (p "uid"); drop_gid v (p "gid")]]
  else if name =? "Mknod" then [mkbc "Mknod" self [p "name"; p "mode"; p "major"; p "minor"; drop_uid v (p "uid"); drop_gid v (p "gid")]]
  else if name =? "Link" then [mkbc "Link" self [VFile (e_pfid e "target"); p "newname"]]
  else if name =? "RenameAt" then [mkbc "RenameAt" self [p "oldname"; VFile (e_pfid e "newdir"); p "newname"]]
  else if name =? "UnlinkAt" then [mkbc "UnlinkAt" self [p "name"; p "flags"]]
  else if name =? "Rename" then [mkbc "RenameAt" (OnParentOf (e_fid e)) [VNameOf (e_fid e); VFile (e_pfid e "dir"); p "name"]]
  else if name =? "Remove" then [mkbc "UnlinkAt" (OnParentOf (e_fid e)) [VNameOf (e_fid e); VN 0]; mkbc "Close" self []]
  else if name =? "Readlink" then [mkbc "Readlink" self []]
  else if name =? "GetAttr" then [mkbc "GetAttr" self [p "req"]]
  else if name =? "SetAttr" then
    [mkbc "SetAttr" self [p "valid"; mask_setattr (p "attr")]]
  else if name =? "StatFS" then [mkbc "StatFS" self []]
  else if name =? "FSync" then [mkbc "FSync" self []]
  else if name =? "Lock" then
    [mkbc "Lock" self [sext32 (match p "pid" with VN n => VN (n mod two32)%N | a => a end); p "locktype"; p "flags"; p "start"; p "length"; p "client"]]
  else if name =? "Readdir" then
    [mkbc "Readdir" self [p "offset"; match p "count" with VN c => VN (N.min c (e_msize e - 11)%N) | a => a end]]
  else if name =? "Close" then [mkbc "Close" self []]
  else if name =? "Walk" then
    match p "names" with
    | VL [] => [mkbc "Walk" self [VL []]]
    | VL names => map (fun n => mkbc "WalkGetAttr" self [VL [n]]) names
    | _ => []
    end
  else [].

(** methods of the File interface *)
Definition file_methods : list string :=
  ["Walk"; "WalkGetAttr"; "StatFS"; "GetAttr"; "SetAttr"; "Close"; "Open"; "ReadAt"; "WriteAt"; "SetXattr"; "GetXattr";
   "ListXattrs"; "RemoveXattr"; "FSync"; "Lock"; "Create"; "Mkdir"; "Symlink"; "Link"; "Mknod"; "Rename"; "RenameAt";
   "UnlinkAt"; "Readdir"; "Readlink"; "Renamed"].

(** methods whose single exchange is described by the table and covered by C03_transparent *)
Definition direct_methods : list string :=
  ["Open"; "Create"; "Mkdir"; "Symlink"; "Mknod"; "Link"; "RenameAt"; "UnlinkAt"; "Rename"; "Remove"; "Readlink"; "GetAttr";
   "SetAttr"; "StatFS"; "FSync"; "Lock"; "Readdir"; "Close"; "Walk"].

(** message types a version defines: Tu* from 3, Twalkgetattr from 2 *)
Definition defined_in (v : N) (t : string) : bool :=
  if (t =? "tucreate") || (t =? "tumkdir") || (t =? "tumknod") || (t =? "tusymlink") then (3 <=? v)%N
  else if t =? "twalkgetattr" then (2 <=? v)%N
  else true.

Definition types_at (v : N) : list string :=
  flat_map (fun m => map gs_t (filter (fun s => cond_holds v (gs_cond s)) (gm_sends m))) spec_methods.
