(** C03 — observations of real client + real server + recording backend compared with Client/ClientModel.v. *)
From Coq Require Import NArith String List Bool.
From P9V Require Import gen.ConstGen gen.ClientGen Client.Chunk Client.ClientModel Client.Errs Client.Composed Client.PathSeq Client.PathSeqTie.
Import ListNotations.
Open Scope string_scope.

Inductive otarget := TFid (n : N) | TParentOf (n : N) | TWalked.
Record ocall := mkoc { oc_m : string; oc_on : otarget; oc_args : list val }.

Inductive c03case :=
| COp (op : string) (v : N) (e : env) (fail : bool) (answer : errv)
      (calls : list ocall) (err : option N) (conn_err : bool) (ret ans : list val)
| CErr (answer : errv) (errno : N)           (* linux.ExtractErrno called directly *)
(* GetXattr / ListXattrs; drop = k > 0: the connection drops with EOF once the k-th Tread has been sent *)
| CXattr (is_list : bool) (cs : N) (value : list N) (drop : nat) (walk_err : option errv) (fid : N) (name : string)
         (calls : list ocall) (returned : bool) (got : list N) (err : option N) (conn : bool)
(* WalkGetAttr at version v *)
| CWga (v : N) (names : list string) (fid : N) (getattr_fails : bool) (calls : list ocall) (err : option N) (ret ans : list val)
(* a sequence through several handles: fids of root, d1 (twice), d2 (twice) and of the entry fname of d1; per step the
   operation, the backend calls observed and the error (None = nil, Some n = errno n) *)
| CSeq (v : N) (fids : list N) (fname : string) (steps : list (sop * list ocall * option N)).

Fixpoint all2 {A B} (f : A -> B -> bool) (a : list A) (b : list B) : bool :=
  match a, b with
  | [], [] => true
  | x :: a', y :: b' => f x y && all2 f a' b'
  | _, _ => false
  end.

Definition val_eqb (a b : val) : bool :=
  match a, b with
  | VN x, VN y => N.eqb x y
  | VS x, VS y => String.eqb x y
  | VL x, VL y => all2 String.eqb x y
  | VB x, VB y => all2 N.eqb x y
  | VR x, VR y => all2 N.eqb x y
  | VFile x, VFile y => N.eqb x y
  | VNameOf x, VNameOf y => N.eqb x y
  | VBuf x, VBuf y => N.eqb x y
  | _, _ => false
  end.

Definition call_matches (m : bcall) (o : ocall) : bool :=
  String.eqb (b_method m) (oc_m o) &&
  match b_on m, oc_on o with
  | OnFid x, TFid y => N.eqb x y
  | OnParentOf x, TParentOf y => N.eqb x y
  | _, TWalked => true                   (* a File created by an earlier component of the same walk *)
  | _, _ => false
  end &&
  all2 val_eqb (b_args m) (oc_args o).

Definition local_enosys (op : string) : bool :=
  match find_method op with Some m => String.eqb (gm_local m) "ENOSYS" | None => false end.

Definition seq_init (fids : list N) (fname : string) : pstate :=
  let fid i := nth i fids 0%N in
  mkps [mkpn None "" true false; mkpn (Some 0%nat) "d1" true false; mkpn (Some 0%nat) "d2" true false; mkpn (Some 1%nat) fname true false]
       [mkpr (fid 0%nat) 0 None; mkpr (fid 1%nat) 1 (Some 0%nat); mkpr (fid 2%nat) 1 (Some 0%nat); mkpr (fid 3%nat) 2 (Some 0%nat);
        mkpr (fid 4%nat) 2 (Some 0%nat); mkpr (fid 5%nat) 3 (Some 1%nat)].

Definition opt_N_eqb (a b : option N) : bool :=
  match a, b with Some x, Some y => N.eqb x y | None, None => true | _, _ => false end.

Definition agrees (c : c03case) : bool :=
  match c with
  | COp op v e fail answer calls err conn_err _ _ =>
      let mc := backend_calls v op e in
      negb conn_err &&
      all2 call_matches (if fail && negb (String.eqb op "Remove") then firstn 1 mc else mc) calls &&
      match err with
      | None => negb fail && negb (local_enosys op) || (fail && match mc with [] => true | _ => false end && negb (local_enosys op))
      | Some n => if local_enosys op then N.eqb n linux_ENOSYS else fail && N.eqb n (extract answer)
      end
  | CErr answer errno => N.eqb (extract answer) errno
  | CXattr is_list cs value drop walk_err fid name calls returned got err conn =>
      let w := match walk_err with Some a => XWalkErr (CErrno (extract a)) | None => XWalkOk (List.length value) end in
      let tape := match drop with O => [] | S k => (repeat (RCount (S (List.length value))) k ++ [RErr CConn])%list end in
      returned &&
      all2 call_matches [if is_list then mkbc "ListXattrs" (OnFid fid) [] else mkbc "GetXattr" (OnFid fid) [VS name]] calls &&
      match fst (xattr_read true (N.to_nat cs) w (rf_of_list value) tape) with
      | XOk b => negb conn && match err with None => true | _ => false end &&
                 all2 N.eqb (if is_list then match split_nul [] b with [] => [0%N] | ns => flat_map (fun n => (n ++ [0%N])%list) ns end else b) got
      | XErr (CErrno n) => negb conn && match err with Some k => N.eqb k n | None => false end
      | XErr _ => conn
      end
  | CWga v names fid gfails calls err _ _ =>
      let e := mkenv (fun _ => VL names) fid 0 (fun _ => 0%N) 8192 in
      let fails := gfails && negb (pred_holds v "versionSupportsTwalkgetattr") in
      all2 call_matches (walkgetattr_calls v e fails) calls &&
      match err with None => negb fails | Some n => fails && N.eqb n 5 end
  | CSeq v fids fname steps =>
      (* the model with the short-circuit as go2coq read it from handlers.go (PathSeqTie.bynode_of_source) *)
      all2 (fun m o => all2 call_matches (fst m) (snd (fst o)) && opt_N_eqb (snd m) (snd o))
           (prun bynode_of_source (seq_init fids fname) (map (fun s => fst (fst s)) steps)) steps
  end.

(** the property on what was observed: the backend saw the operation the caller made with the caller's
    arguments up to the documented rewriting (stated on the arguments directly, not through the model),
    the caller got the backend's values unchanged, or an errno when the backend failed *)
Definition property_holds (c : c03case) : bool :=
  match c with
  | COp op v e fail answer calls err conn_err ret ans =>
      negb conn_err &&
      (if fail then match err with Some _ => true | None => match calls with [] => true | _ => false end end
       else all2 val_eqb ret ans && match err with None => true | Some n => local_enosys op end) &&
      (if local_enosys op then match calls with [] => true | _ => false end else true) &&
      (* at most one backend call per single-exchange method, named like the operation (Rename/Remove: *At on the parent) *)
      match calls with
      | [c1] =>
          if String.eqb op "Rename" then String.eqb (oc_m c1) "RenameAt" && match oc_on c1 with TParentOf _ => true | _ => false end
          else if String.eqb op "Walk" then true
          else String.eqb (oc_m c1) op && match oc_on c1 with TFid f => N.eqb f (e_fid e) | _ => false end
      | [c1; c2] =>
          if String.eqb op "Remove" then String.eqb (oc_m c1) "UnlinkAt" && match oc_on c1 with TParentOf _ => true | _ => false end &&
                                         String.eqb (oc_m c2) "Close"
          else true
      | _ => true
      end
  | CErr answer errno =>
      (* an errno in the chain is returned as it is *)
      match find is_linux answer with Some n => N.eqb errno n | None => true end
  | CXattr is_list cs value drop walk_err fid name calls returned got err conn =>
      returned &&
      (* a value is returned only complete: never a truncated value without an error *)
      (if negb conn && match err with None => true | _ => false end
       then all2 N.eqb got value && match drop with O => true | _ => false end
       else true) &&
      (* exactly one backend call: the attribute is fetched once, with the caller's name *)
      match calls with
      | [c1] => if is_list then String.eqb (oc_m c1) "ListXattrs"
                else String.eqb (oc_m c1) "GetXattr" && all2 val_eqb (oc_args c1) [VS name]
      | _ => false
      end
  | CWga v names fid gfails calls err ret ans =>
      (* the caller gets the QIDs of the components and the attributes (mask and values) the backend answered *)
      all2 val_eqb ret ans &&
      (* the walk is performed (one call per component, or one for a clone) and the attributes are fetched in full *)
      match calls with
      | [] => false
      | c1 :: _ => match oc_on c1 with TFid f => N.eqb f fid | _ => false end
      end &&
      (if (v <? 2)%N then existsb (fun c => String.eqb (oc_m c) "GetAttr" && all2 val_eqb (oc_args c) [VR (repeat 1%N 14)]) calls
       else forallb (fun c => String.eqb (oc_m c) "WalkGetAttr") calls)
  | CSeq v fids fname steps =>
      (* the entry is never removed or replaced in these sequences: every operation through its handle reaches its
         File, once, with the caller's arguments, and no rename is refused *)
      forallb (fun s => match s with
                        | (SProbe f m args, calls, err) =>
                            match calls with
                            | [c1] => String.eqb (oc_m c1) m && match oc_on c1 with TFid x => N.eqb x (nth f fids 0%N) | _ => false end &&
                                      all2 val_eqb (oc_args c1) args
                            | _ => false
                            end && opt_N_eqb err None
                        | (_, calls, err) => opt_N_eqb err None && Nat.leb (List.length calls) 1
                        end) steps
  end.

Fixpoint failing (f : c03case -> bool) (i : nat) (l : list c03case) : list nat :=
  match l with
  | [] => []
  | c :: r => if f c then failing f (S i) r else i :: failing f (S i) r
  end.

Definition mismatches (l : list c03case) : list nat := failing agrees 0 l.
Definition property_failures (l : list c03case) : list nat := failing property_holds 0 l.
