(** C03 — observations of real client + real server + recording backend compared with Client/ClientModel.v. *)
From Coq Require Import NArith String List Bool.
From P9V Require Import gen.ConstGen gen.ClientGen Client.ClientModel Client.Errs.
Import ListNotations.
Open Scope string_scope.

Inductive otarget := TFid (n : N) | TParentOf (n : N) | TWalked.
Record ocall := mkoc { oc_m : string; oc_on : otarget; oc_args : list val }.

Inductive c03case :=
| COp (op : string) (v : N) (e : env) (fail : bool) (answer : errv)
      (calls : list ocall) (err : option N) (conn_err : bool) (ret ans : string)
| CErr (answer : errv) (errno : N).          (* linux.ExtractErrno called directly *)

Fixpoint all2 {A B} (f : A -> B -> bool) (a : list A) (b : list B) : bool :=
  match a, b with
  | [], [] => true
  | x :: a', y :: b' => f x y && all2 f a' b'
  | _, _ => false
  end.

Definition val_eqb (a b : val) : bool :=
  match a, b with
  | VN x, VN y => N.eqb x y
  | VS x, VS y => String.eqb x y
  | VL x, VL y => all2 String.eqb x y
  | VB x, VB y => all2 N.eqb x y
  | VR x, VR y => all2 N.eqb x y
  | VFile x, VFile y => N.eqb x y
  | VNameOf x, VNameOf y => N.eqb x y
  | VBuf x, VBuf y => N.eqb x y
  | _, _ => false
  end.

Definition call_matches (m : bcall) (o : ocall) : bool :=
  String.eqb (b_method m) (oc_m o) &&
  match b_on m, oc_on o with
  | OnFid x, TFid y => N.eqb x y
  | OnParentOf x, TParentOf y => N.eqb x y
  | _, TWalked => true                   (* a File created by an earlier component of the same walk *)
  | _, _ => false
  end &&
  all2 val_eqb (b_args m) (oc_args o).

Definition local_enosys (op : string) : bool :=
  match find_method op with Some m => String.eqb (gm_local m) "ENOSYS" | None => false end.

Definition agrees (c : c03case) : bool :=
  match c with
  | COp op v e fail answer calls err conn_err _ _ =>
      let mc := backend_calls v op e in
      negb conn_err &&
      all2 call_matches (if fail then firstn 1 mc else mc) calls &&
      match err with
      | None => negb fail && negb (local_enosys op) || (fail && match mc with [] => true | _ => false end && negb (local_enosys op))
      | Some n => if local_enosys op then N.eqb n linux_ENOSYS else fail && N.eqb n (extract answer)
      end
  | CErr answer errno => N.eqb (extract answer) errno
  end.

(** the property on what was observed: the backend saw the operation the caller made with the caller's
    arguments up to the documented rewriting (stated on the arguments directly, not through the model),
    the caller got the backend's values unchanged, or an errno when the backend failed *)
Definition property_holds (c : c03case) : bool :=
  match c with
  | COp op v e fail answer calls err conn_err ret ans =>
      negb conn_err &&
      (if fail then match err with Some _ => true | None => match calls with [] => true | _ => false end end
       else String.eqb ret ans && match err with None => true | Some n => local_enosys op end) &&
      (if local_enosys op then match calls with [] => true | _ => false end else true) &&
      (* at most one backend call per single-exchange method, named like the operation (Rename/Remove: *At on the parent) *)
      match calls with
      | [c1] =>
          if String.eqb op "Rename" then String.eqb (oc_m c1) "RenameAt" && match oc_on c1 with TParentOf _ => true | _ => false end
          else if String.eqb op "Remove" then String.eqb (oc_m c1) "UnlinkAt" && match oc_on c1 with TParentOf _ => true | _ => false end
          else if String.eqb op "Walk" then true
          else String.eqb (oc_m c1) op && match oc_on c1 with TFid f => N.eqb f (e_fid e) | _ => false end
      | _ => true
      end
  | CErr answer errno =>
      (* an errno in the chain is returned as it is *)
      match find is_linux answer with Some n => N.eqb errno n | None => true end
  end.

Fixpoint failing (f : c03case -> bool) (i : nat) (l : list c03case) : list nat :=
  match l with
  | [] => []
  | c :: r => if f c then failing f (S i) r else i :: failing f (S i) r
  end.

Definition mismatches (l : list c03case) : list nat := failing agrees 0 l.
Definition property_failures (l : list c03case) : list nat := failing property_holds 0 l.
