(** C03 — sequences of operations through several handles: which File an operation reaches after renames.

    "Every File operation on a client-side handle reaches the server-side File the handle was derived from":
    for a single exchange this is ClientModel.backend_calls; over a SEQUENCE it also depends on the server's
    path tree (p9/server.go, path_tree.go), because Trename/Trenameat re-register the references of the moved
    entry and mark the entry they replace as deleted, and every path-checked handler refuses a deleted
    reference with EINVAL without calling the backend.

    The model below is the part of that bookkeeping that decides "does the operation still reach the File":
      nodes  = pathNodes (parent node, name, attached to the parent's childNodes, deleted flag),
      refs   = fidRefs (fid, node, the reference it was walked from),
      rename = trename.handle / trenameat.handle + fidRef.renameChildTo:
               guards (deleted directories: EINVAL) ; the SAME-ENTRY short-circuit ; backend RenameAt ;
               target.markChildDeleted(newName) (the entry replaced: detached, whole subtree deleted) ;
               origin.removeWithName(oldName) (the moved entry: re-parented, re-registered under newName).
    [bynode] is how the short-circuit compares directories: by path node (the code: ref.pathNode ==
    refTarget.pathNode, true = what go2coq reads from handlers.go, PathSeqTie below) or by handle
    (ref == refTarget).  With the handle comparison a rename of an entry onto its own name through a second handle of
    the same directory runs renameChildTo, whose markChildDeleted(newName) deletes the very entry being
    renamed: every handle of it is refused from then on ([handle_identity_refuted]). *)
From Coq Require Import NArith String List Bool Arith Lia.
From P9V Require Import gen.ConstGen Client.ClientModel.
Import ListNotations.
Open Scope string_scope.
Open Scope nat_scope.

Record pnode := mkpn { pn_parent : option nat; pn_name : string; pn_att : bool; pn_del : bool }.
Record pref := mkpr { pr_fid : N; pr_node : nat; pr_parent : option nat }.
Record pstate := mkps { ps_nodes : list pnode; ps_refs : list pref }.

Inductive sop :=
| SRenameAt (d : nat) (old : string) (d' : nat) (new : string)   (* refs[d].RenameAt(old, refs[d'], new) *)
| SRename (f : nat) (d' : nat) (new : string)                    (* refs[f].Rename(refs[d'], new) *)
| SProbe (f : nat) (m : string) (args : list val).               (* a path-checked single-call method (SetAttr ...) on refs[f] *)

Definition opt_nat_eqb (a : option nat) (b : nat) : bool := match a with Some x => x =? b | None => false end.

(** childNodes[name] of node P: the attached node with that parent and name *)
Fixpoint child_from (i : nat) (l : list pnode) (P : nat) (name : string) : option nat :=
  match l with
  | [] => None
  | x :: r => if opt_nat_eqb (pn_parent x) P && String.eqb (pn_name x) name && pn_att x then Some i else child_from (S i) r P name
  end.
Definition child (nodes : list pnode) (P : nat) (name : string) : option nat := child_from 0 nodes P name.

(** node i lies in the subtree of v (following parents, at most k steps) *)
Fixpoint under (k : nat) (nodes : list pnode) (i v : nat) : bool :=
  (i =? v) ||
  match k with
  | O => false
  | S k' => match nth_error nodes i with
            | Some x => match pn_parent x with Some p => under k' nodes p v | None => false end
            | None => false
            end
  end.

Fixpoint mapi {A B} (f : nat -> A -> B) (i : nat) (l : list A) : list B :=
  match l with [] => [] | x :: r => f i x :: mapi f (S i) r end.

(** markChildDeleted: notifyDelete on the subtree of v, v leaves its parent's childNodes *)
Definition mark_deleted (nodes : list pnode) (v : nat) : list pnode :=
  mapi (fun i x => if under (length nodes) nodes i v
                   then mkpn (pn_parent x) (pn_name x) (if i =? v then false else pn_att x) true else x) 0 nodes.

Definition reattach (nodes : list pnode) (c T : nat) (new : string) : list pnode :=
  mapi (fun i x => if i =? c then mkpn (Some T) new true (pn_del x) else x) 0 nodes.

(** fidRef.renameChildTo(old, refs[d'], new) called on a reference of node O; T = node of refs[d'] *)
Definition rename_tree (st : pstate) (O : nat) (old : string) (d' T : nat) (new : string) : pstate :=
  let nodes1 := match child (ps_nodes st) T new with Some v => mark_deleted (ps_nodes st) v | None => ps_nodes st end in
  match child nodes1 O old with
  | Some c => mkps (reattach nodes1 c T new)
                   (map (fun r => if pr_node r =? c then mkpr (pr_fid r) c (Some d') else r) (ps_refs st))
  | None => mkps nodes1 (ps_refs st)
  end.

Definition node_deleted (st : pstate) (n : nat) : bool :=
  match nth_error (ps_nodes st) n with Some x => pn_del x | None => true end.
Definition node_name (st : pstate) (n : nat) : string :=
  match nth_error (ps_nodes st) n with Some x => pn_name x | None => "" end.

Definition einval : option N := Some linux_EINVAL.

Definition pstep (bynode : bool) (st : pstate) (op : sop) : pstate * list bcall * option N :=
  match op with
  | SRenameAt d old d' new =>
      match nth_error (ps_refs st) d, nth_error (ps_refs st) d' with
      | Some rd, Some rt =>
          if node_deleted st (pr_node rd) || node_deleted st (pr_node rt) then (st, [], einval)
          else if (if bynode then pr_node rd =? pr_node rt else d =? d') && String.eqb old new then (st, [], None)
          else (rename_tree st (pr_node rd) old d' (pr_node rt) new,
                [mkbc "RenameAt" (OnFid (pr_fid rd)) [VS old; VFile (pr_fid rt); VS new]], None)
      | _, _ => (st, [], Some linux_EBADF)
      end
  | SRename f d' new =>
      match nth_error (ps_refs st) f, nth_error (ps_refs st) d' with
      | Some rf, Some rt =>
          match pr_parent rf with
          | None => (st, [], einval)                                       (* a root *)
          | Some pi =>
              match nth_error (ps_refs st) pi with
              | None => (st, [], einval)
              | Some rp =>
                  let old := node_name st (pr_node rf) in
                  if node_deleted st (pr_node rf) || node_deleted st (pr_node rt) then (st, [], einval)
                  else if (if bynode then pr_node rp =? pr_node rt else pi =? d') && String.eqb old new then (st, [], None)
                  else (rename_tree st (pr_node rp) old d' (pr_node rt) new,
                        [mkbc "RenameAt" (OnFid (pr_fid rp)) [VS old; VFile (pr_fid rt); VS new]], None)
              end
          end
      | _, _ => (st, [], Some linux_EBADF)
      end
  | SProbe f m args =>
      match nth_error (ps_refs st) f with
      | Some rf => if node_deleted st (pr_node rf) then (st, [], einval) else (st, [mkbc m (OnFid (pr_fid rf)) args], None)
      | None => (st, [], Some linux_EBADF)
      end
  end.

Fixpoint prun (bynode : bool) (st : pstate) (ops : list sop) : list (list bcall * option N) :=
  match ops with
  | [] => []
  | op :: r => let '(st', calls, err) := pstep bynode st op in (calls, err) :: prun bynode st' r
  end.

(** ---- the same-entry short-circuit is about the ENTRY (path node + name), not about the handle ---- *)

Lemma renameat_same_entry_noop : forall st d d' rd rt name,
  nth_error (ps_refs st) d = Some rd -> nth_error (ps_refs st) d' = Some rt ->
  pr_node rd = pr_node rt -> node_deleted st (pr_node rd) = false ->
  pstep true st (SRenameAt d name d' name) = (st, [], None).
Proof.
  intros st d d' rd rt name Hd Hd' Hn Hdel. unfold pstep. rewrite Hd, Hd', <- Hn, Hdel. cbn [orb].
  now rewrite Nat.eqb_refl, String.eqb_refl.
Qed.

Lemma rename_same_entry_noop : forall st f d' rf rt pi rp,
  nth_error (ps_refs st) f = Some rf -> nth_error (ps_refs st) d' = Some rt ->
  pr_parent rf = Some pi -> nth_error (ps_refs st) pi = Some rp ->
  pr_node rp = pr_node rt -> node_deleted st (pr_node rf) = false -> node_deleted st (pr_node rt) = false ->
  pstep true st (SRename f d' (node_name st (pr_node rf))) = (st, [], None).
Proof.
  intros st f d' rf rt pi rp Hf Hd' Hp Hpi Hn Hdf Hdt. unfold pstep. rewrite Hf, Hd', Hp, Hpi, Hdf, Hdt, Hn. cbn [orb].
  now rewrite Nat.eqb_refl, String.eqb_refl.
Qed.

(** ... hence an operation on a handle of that entry reaches its File afterwards, whichever handles named the directory *)
Lemma probe_after_same_entry_rename : forall st d d' rd rt name f rf m args,
  nth_error (ps_refs st) d = Some rd -> nth_error (ps_refs st) d' = Some rt ->
  pr_node rd = pr_node rt -> node_deleted st (pr_node rd) = false ->
  nth_error (ps_refs st) f = Some rf -> node_deleted st (pr_node rf) = false ->
  prun true st [SRenameAt d name d' name; SProbe f m args] = [([], None); ([mkbc m (OnFid (pr_fid rf)) args], None)].
Proof.
  intros st d d' rd rt name f rf m args Hd Hd' Hn Hdel Hf Hdf. cbn [prun].
  rewrite (renameat_same_entry_noop st d d' rd rt name Hd Hd' Hn Hdel).
  unfold pstep. now rewrite Hf, Hdf.
Qed.

(** ---- a rename that is carried out never deletes the entry it moves ---- *)

Lemma mapi_nth {A B} (f : nat -> A -> B) l : forall i k, nth_error (mapi f k l) i = option_map (f (k + i)) (nth_error l i).
Proof.
  induction l as [|x r IH]; intros i k; destruct i; cbn; auto.
  - now rewrite Nat.add_0_r.
  - rewrite IH. now replace (S k + i) with (k + S i) by lia.
Qed.

Lemma child_from_spec : forall l i P name c, child_from i l P name = Some c ->
  exists x, i <= c /\ nth_error l (c - i) = Some x /\ pn_parent x = Some P /\ pn_name x = name /\ pn_att x = true.
Proof.
  induction l as [|x r IH]; intros i P name c H; cbn in H; [discriminate|].
  destruct (opt_nat_eqb (pn_parent x) P && String.eqb (pn_name x) name && pn_att x) eqn:E.
  - injection H as <-. apply andb_prop in E as [E E3]. apply andb_prop in E as [E1 E2].
    exists x. rewrite Nat.sub_diag. repeat split; auto.
    + unfold opt_nat_eqb in E1. destruct (pn_parent x); [|discriminate]. apply Nat.eqb_eq in E1. now subst.
    + now apply String.eqb_eq.
  - destruct (IH _ _ _ _ H) as (y & Hle & Hn & Hp). exists y. split; [lia|]. split; auto.
    replace (c - i) with (S (c - S i)) by lia. exact Hn.
Qed.

Lemma child_spec : forall nodes P name c, child nodes P name = Some c ->
  exists x, nth_error nodes c = Some x /\ pn_parent x = Some P /\ pn_name x = name /\ pn_att x = true.
Proof.
  intros nodes P name c H. destruct (child_from_spec _ _ _ _ _ H) as (x & _ & Hn & Hr).
  rewrite Nat.sub_0_r in Hn. now exists x.
Qed.

(** the moved entry c = childNodes[old] of the origin O is neither the replaced entry v = childNodes[new] of the
    target T (the short-circuit excludes O = T with old = new) nor inside v's subtree unless O is: so if the origin
    directory is not below the entry being replaced, c keeps its deleted flag *)
Lemma mark_keeps_entry : forall nodes O old T new c v x,
  child nodes O old = Some c -> child nodes T new = Some v -> nth_error nodes c = Some x ->
  (O =? T) && String.eqb old new = false ->
  (forall k, under k nodes O v = false) ->
  nth_error (mark_deleted nodes v) c = Some x.
Proof.
  intros nodes O old T new c v x Hc Hv Hx Hg Hu.
  destruct (child_spec _ _ _ _ Hc) as (xc & Hxc & Hpc & Hnc & _).
  destruct (child_spec _ _ _ _ Hv) as (xv & Hxv & Hpv & Hnv & _).
  rewrite Hx in Hxc. injection Hxc as <-.
  unfold mark_deleted. rewrite mapi_nth, Hx. cbn [option_map Nat.add].
  assert (Hne : (c =? v) = false).
  { apply Nat.eqb_neq. intros ->. rewrite Hx in Hxv. injection Hxv as <-.
    rewrite Hpc in Hpv. injection Hpv as ->. rewrite Hnc in Hnv. subst new.
    now rewrite Nat.eqb_refl, String.eqb_refl in Hg. }
  assert (Hun : under (length nodes) nodes c v = false).
  { destruct (length nodes) as [|k]; cbn [under]; rewrite Hne; cbn [orb]; [reflexivity|].
    rewrite Hx, Hpc. apply Hu. }
  now rewrite Hun.
Qed.

Lemma reattach_del : forall nodes c' T new c x, nth_error nodes c = Some x ->
  exists y, nth_error (reattach nodes c' T new) c = Some y /\ pn_del y = pn_del x.
Proof.
  intros nodes c' T new c x Hx. unfold reattach. rewrite mapi_nth, Hx. cbn [option_map Nat.add].
  destruct (c =? c'); eexists; split; reflexivity.
Qed.

(** Trenameat carried out or not: the entry old of the origin directory is not deleted by it (provided the origin
    directory is not inside the entry that the rename replaces — renaming a directory's child over that directory's
    own ancestor, which no file system accepts) *)
Lemma renameat_keeps_entry : forall st d old d' new rd rt c x st' calls err,
  nth_error (ps_refs st) d = Some rd -> nth_error (ps_refs st) d' = Some rt ->
  child (ps_nodes st) (pr_node rd) old = Some c -> nth_error (ps_nodes st) c = Some x -> pn_del x = false ->
  (forall v k, child (ps_nodes st) (pr_node rt) new = Some v -> under k (ps_nodes st) (pr_node rd) v = false) ->
  pstep true st (SRenameAt d old d' new) = (st', calls, err) -> node_deleted st' c = false.
Proof.
  intros st d old d' new rd rt c x st' calls err Hd Hd' Hc Hx Hdel Hu H.
  unfold pstep in H. rewrite Hd, Hd' in H.
  assert (Hsame : node_deleted st c = false) by (unfold node_deleted; now rewrite Hx).
  destruct (node_deleted st (pr_node rd) || node_deleted st (pr_node rt)); [injection H as <- _ _; exact Hsame|].
  destruct ((pr_node rd =? pr_node rt) && String.eqb old new) eqn:Hg; [injection H as <- _ _; exact Hsame|].
  injection H as <- _ _. unfold rename_tree.
  set (nodes1 := match child (ps_nodes st) (pr_node rt) new with Some v => mark_deleted (ps_nodes st) v | None => ps_nodes st end).
  assert (H1 : nth_error nodes1 c = Some x).
  { unfold nodes1. destruct (child (ps_nodes st) (pr_node rt) new) as [v|] eqn:Hv; [|exact Hx].
    eapply mark_keeps_entry; eauto. }
  destruct (child nodes1 (pr_node rd) old) as [c'|]; unfold node_deleted; cbn [ps_nodes].
  - destruct (reattach_del nodes1 c' (pr_node rt) new c x H1) as (y & Hy & Hyd). now rewrite Hy, Hyd.
  - now rewrite H1.
Qed.

(** ---- the handle comparison is wrong: the witness of seeded change C03-m3 ---- *)

(** root(0) / d(1) / a(2); references: 0 = root, 1 and 2 = two walks to d, 3 = a walked from reference 1 *)
Definition ex_state : pstate :=
  mkps [mkpn None "" true false; mkpn (Some 0%nat) "d" true false; mkpn (Some 1%nat) "a" true false]
       [mkpr 1 0 None; mkpr 2 1 (Some 0%nat); mkpr 3 1 (Some 0%nat); mkpr 4 2 (Some 1%nat)].

Lemma handle_identity_refuted :
  prun false ex_state [SRenameAt 1 "a" 2 "a"; SProbe 3 "SetAttr" []] =
    [([mkbc "RenameAt" (OnFid 2) [VS "a"; VFile 3; VS "a"]], None); ([], Some linux_EINVAL)] /\
  prun true ex_state [SRenameAt 1 "a" 2 "a"; SProbe 3 "SetAttr" []] =
    [([], None); ([mkbc "SetAttr" (OnFid 4) []], None)] /\
  prun false ex_state [SRename 3 2 "a"; SProbe 3 "SetAttr" []] =
    [([mkbc "RenameAt" (OnFid 2) [VS "a"; VFile 3; VS "a"]], None); ([], Some linux_EINVAL)] /\
  prun true ex_state [SRename 3 2 "a"; SProbe 3 "SetAttr" []] =
    [([], None); ([mkbc "SetAttr" (OnFid 4) []], None)].
Proof. vm_compute. repeat split. Qed.

(** a real rename through the second handle moves the entry and the handle keeps working under the new name *)
Example ex_real_rename :
  prun true ex_state [SRenameAt 1 "a" 2 "b"; SProbe 3 "SetAttr" []; SRename 3 1 "c"] =
    [([mkbc "RenameAt" (OnFid 2) [VS "a"; VFile 3; VS "b"]], None); ([mkbc "SetAttr" (OnFid 4) []], None);
     ([mkbc "RenameAt" (OnFid 3) [VS "b"; VFile 2; VS "c"]], None)].
Proof. vm_compute. reflexivity. Qed.
