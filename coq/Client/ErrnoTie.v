(** C03: linux.ExtractErrno as go2coq TRANSLATED it from linux/errors.go + errors_linux.go (gen/ErrnoGen.v,
    regenerated on every run) is the hand model [Errs.extract], for every error tree: the order of the tests
    (linux.Errno anywhere in the chain first, then a non-zero syscall.Errno, then the os.Err* sentinels in
    source order, EIO last) is what the source says.  errors.As / errors.Is are Errs.v's [find] / [has]
    (hand models of the standard library, trusted). *)
From Coq Require Import NArith List Bool.
From P9V Require Import gen.ConstGen Client.Errs gen.ErrnoGen.
Import ListNotations.
Open Scope N_scope.

Theorem gen_ExtractErrno_is_model : forall e, gen_ExtractErrno e = extract e.
Proof.
  intros e. unfold gen_ExtractErrno, gen_sysErrno, extract.
  destruct (find is_linux e) as [n|]; [reflexivity|].
  destruct (find is_sys e) as [[|p]|]; reflexivity.
Qed.

(** the clauses of C03 about errnos, restated over the translated function *)
Corollary source_errno_through_wraps : forall k e, gen_ExtractErrno (wrapn k e) = gen_ExtractErrno e.
Proof. intros k e. rewrite !gen_ExtractErrno_is_model. apply extract_wrapn. Qed.

Corollary source_errno_first_linux_leaf : forall e n, first_some is_linux (leaves e) = Some n -> gen_ExtractErrno e = n.
Proof. intros e n H. rewrite gen_ExtractErrno_is_model. now apply extract_first_linux_leaf. Qed.
