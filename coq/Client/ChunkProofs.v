(** C11 — proofs about Client/Chunk.v. *)
From Coq Require Import ZArith NArith List Bool Lia ZifyN ZifyBool ZifyNat.
From P9V Require Import Client.Chunk.
Import ListNotations.

Lemma wrap64_id z : (-9223372036854775808 <= z < 9223372036854775808)%Z -> wrap64 z = z.
Proof. intros Hz. unfold wrap64. rewrite Z.mod_small; lia. Qed.

(** The shape of a run of chunk over a buffer of length lenp starting at
    position pos: every call but the last was served in full (n = chunkSize, no
    error); the last one either exhausts p exactly, or is short, or failed. *)
Inductive chunks_ok (cs lenp : nat) (off0 : Z) : nat -> list ccall -> nat -> option cerr -> Prop :=
| ck_done : chunks_ok cs lenp off0 lenp [] lenp None
| ck_last pos c :
    pos < lenp -> c_pos c = pos -> c_len c = Nat.min cs (lenp - pos) ->
    c_off c = (off0 + Z.of_nat pos)%Z -> c_n c <= c_len c ->
    (c_err c <> None \/ c_n c < cs) ->
    chunks_ok cs lenp off0 pos [c] (pos + c_n c) (c_err c)
| ck_more pos c rest t e :
    pos < lenp -> c_pos c = pos -> c_len c = cs -> cs <= lenp - pos ->
    c_off c = (off0 + Z.of_nat pos)%Z -> c_n c = cs -> c_err c = None ->
    chunks_ok cs lenp off0 (pos + cs) rest t e ->
    chunks_ok cs lenp off0 pos (c :: rest) t e.

Section Generic.
  Variable S : Type.
  Variable fn : S -> nat -> nat -> Z -> (nat * option cerr) * S.
  Variable I : nat -> S -> Prop.
  Variables (cs lenp : nat) (off0 : Z).
  Hypothesis Hcs : 1 <= cs.
  Hypothesis Hlo : (-9223372036854775808 <= off0)%Z.
  Hypothesis Hhi : (off0 + Z.of_nat lenp < 9223372036854775808)%Z.
  (** fn never reports more than it was given, and keeps the invariant *)
  Hypothesis Hstep : forall total st len n e st',
      I total st -> total < lenp -> len = Nat.min cs (lenp - total) ->
      fn st total len (off0 + Z.of_nat total)%Z = ((n, e), st') ->
      n <= len /\ I (total + n) st'.

  Definition call_of_fn (c : ccall) : Prop :=
    exists st1 st2, I (c_pos c) st1 /\ fn st1 (c_pos c) (c_len c) (c_off c) = ((c_n c, c_err c), st2).

  Lemma chunk_loop_spec : forall fuel total st,
      total <= lenp -> lenp - total < fuel -> I total st ->
      exists t e calls st',
        chunk_loop fn fuel cs st lenp total (off0 + Z.of_nat total)%Z = ((CRet t e, calls), st') /\
        chunks_ok cs lenp off0 total calls t e /\ I t st' /\ Forall call_of_fn calls.
  Proof.
    induction fuel as [|fuel IH]; intros total st Hle Hfuel HI; [lia|].
    cbn [chunk_loop].
    destruct (Nat.eqb_spec total lenp) as [Heq|Hne].
    - subst total. exists lenp, None, [], st. repeat split; auto. constructor.
    - assert (Hlen : (if lenp <? total + cs then lenp - total else cs) = Nat.min cs (lenp - total)).
      { destruct (Nat.ltb_spec lenp (total + cs)); lia. }
      rewrite Hlen.
      destruct (fn st total (Nat.min cs (lenp - total)) (off0 + Z.of_nat total)%Z) as [[n e] st'] eqn:Hfn.
      destruct (Hstep _ _ _ _ _ _ HI ltac:(lia) eq_refl Hfn) as [Hn HI'].
      assert (Hcall : call_of_fn (mkcall total (Nat.min cs (lenp - total)) (off0 + Z.of_nat total) n e)).
      { exists st, st'. cbn. auto. }
      destruct e as [e|].
      + exists (total + n), (Some e), [mkcall total (Nat.min cs (lenp - total)) (off0 + Z.of_nat total) n (Some e)], st'.
        repeat split; auto.
        apply (ck_last cs lenp off0 total (mkcall total _ _ n (Some e))); cbn; auto; try lia.
        left; discriminate.
      + destruct (Nat.ltb_spec n cs) as [Hshort|Hfull].
        * exists (total + n), None, [mkcall total (Nat.min cs (lenp - total)) (off0 + Z.of_nat total) n None], st'.
          repeat split; auto.
          apply (ck_last cs lenp off0 total (mkcall total _ _ n None)); cbn; auto; lia.
        * assert (Hncs : n = cs) by lia. assert (Hroom : cs <= lenp - total) by lia.
          destruct (Nat.ltb_spec lenp (total + n)) as [Hbad|_]; [lia|].
          rewrite wrap64_id by lia.
          replace (off0 + Z.of_nat total + Z.of_nat n)%Z with (off0 + Z.of_nat (total + n))%Z by lia.
          destruct (IH (total + n) st') as (t & e & calls & st'' & Hrun & Hok & HI'' & Hall); auto; try lia.
          rewrite Hrun.
          exists t, e, (mkcall total (Nat.min cs (lenp - total)) (off0 + Z.of_nat total) n None :: calls), st''.
          repeat split; auto.
          apply ck_more; cbn; auto; try lia. subst n. exact Hok.
  Qed.

  (** chunk itself, for a non-empty buffer: fuel len p + 1 is enough *)
  Lemma chunk_spec : forall st, 0 < lenp -> I 0 st ->
      exists t e calls st',
        chunk fn cs st lenp off0 = ((CRet t e, calls), st') /\
        chunks_ok cs lenp off0 0 calls t e /\ I t st' /\ Forall call_of_fn calls.
  Proof.
    intros st Hpos HI. unfold chunk.
    destruct (Nat.eqb_spec lenp 0) as [H0|_]; [lia|].
    destruct (chunk_loop_spec (Datatypes.S lenp) 0 st) as (t & e & calls & st' & Hrun & Hrest); auto; try lia.
    replace (off0 + Z.of_nat 0)%Z with off0 in Hrun by lia.
    exists t, e, calls, st'. split; auto.
  Qed.
End Generic.

(** ---- consequences of chunks_ok: the clauses of C11 about the requests ---- *)

Lemma chunks_ok_total cs lenp off0 pos calls t e :
  chunks_ok cs lenp off0 pos calls t e -> pos <= lenp ->
  pos <= t <= lenp /\ t = pos + fold_right (fun c a => c_n c + a) 0 calls.
Proof.
  induction 1; intros Hp; cbn.
  - lia.
  - lia.
  - destruct IHchunks_ok as [? ?]; lia.
Qed.

(** each request is at most chunkSize long, never empty, inside p, and at offset off0 + its position *)
Lemma chunks_ok_each cs lenp off0 pos calls t e :
  chunks_ok cs lenp off0 pos calls t e ->
  Forall (fun c => 1 <= cs -> 0 < c_len c <= cs /\ c_pos c + c_len c <= lenp /\
                   c_off c = (off0 + Z.of_nat (c_pos c))%Z /\ pos <= c_pos c) calls.
Proof.
  induction 1.
  - constructor.
  - constructor; [|constructor]. intros. lia.
  - constructor; [intros; lia|].
    eapply Forall_impl; [|exact IHchunks_ok]. cbn. intros a Ha Hc. specialize (Ha Hc). lia.
Qed.

(** requests are contiguous and in increasing offset order: each starts where the previous one ended,
    and every request that is followed by another one was served in full without error *)
Fixpoint contiguous (pos : nat) (calls : list ccall) : Prop :=
  match calls with
  | [] => True
  | c :: rest => c_pos c = pos /\ (rest <> [] -> c_n c = c_len c /\ c_err c = None) /\
                 contiguous (pos + c_len c) rest
  end.

Lemma chunks_ok_contiguous cs lenp off0 pos calls t e :
  chunks_ok cs lenp off0 pos calls t e -> contiguous pos calls.
Proof.
  induction 1; cbn.
  - auto.
  - repeat split; auto; congruence.
  - repeat split; auto; try congruence.
Qed.

(** the error returned is that of the last request; a run without requests is a complete one *)
Lemma chunks_ok_last cs lenp off0 pos calls t e :
  chunks_ok cs lenp off0 pos calls t e ->
  match calls with
  | [] => t = lenp /\ e = None
  | _ => e = c_err (last calls (mkcall 0 0 0 0 None)) /\
         (e = None -> t = lenp \/ c_n (last calls (mkcall 0 0 0 0 None)) < cs)
  end.
Proof.
  induction 1.
  - auto.
  - cbn. split; auto. intros He. destruct H4; [congruence|auto].
  - destruct rest as [|c' rest'].
    + inversion H6; subst. auto.
    + exact IHchunks_ok.
Qed.

(** ---- remote file lemmas ---- *)

Lemma rf_eq_refl f : rf_eq f f.
Proof. split; auto. Qed.

Lemma rf_eq_trans f g h : rf_eq f g -> rf_eq g h -> rf_eq f h.
Proof. intros [A B] [C D]. split; [congruence|]. intros i. now rewrite B, D. Qed.

Lemma rf_get_store f off d i :
  (0 <= off)%Z ->
  rf_get (rf_store f off d) i =
  if (off <=? i)%Z && (i <? off + Z.of_nat (length d))%Z then nth (Z.to_nat (i - off)) d 0%N else rf_get f i.
Proof.
  intros Hoff. destruct d as [|b d'].
  - cbn [rf_store length]. destruct (off <=? i)%Z eqn:E1, (i <? off + Z.of_nat 0)%Z eqn:E2; cbn; auto; lia.
  - assert (Hs : forall d, d <> [] -> rf_store f off d =
        mkrf (Z.max (rf_size f) (off + Z.of_nat (length d)))
             (fun i => if (off <=? i)%Z && (i <? off + Z.of_nat (length d))%Z
                       then nth (Z.to_nat (i - off)) d 0%N else rf_get f i)).
    { intros [|x d] Hd; [congruence|reflexivity]. }
    rewrite Hs by discriminate. generalize (b :: d'). intros d.
    unfold rf_get at 1. cbn [rf_size rf_byte].
    destruct ((off <=? i)%Z && (i <? off + Z.of_nat (length d))%Z) eqn:E.
    + replace ((0 <=? i)%Z && (i <? Z.max (rf_size f) (off + Z.of_nat (length d)))%Z) with true; auto.
      symmetry. lia.
    + destruct ((0 <=? i)%Z && (i <? Z.max (rf_size f) (off + Z.of_nat (length d)))%Z) eqn:E2; auto.
      unfold rf_get.
      destruct ((0 <=? i)%Z && (i <? rf_size f)%Z) eqn:E3; auto. lia.
Qed.

Lemma rf_size_store f off d :
  rf_size (rf_store f off d) =
  match d with [] => rf_size f | _ => Z.max (rf_size f) (off + Z.of_nat (length d)) end.
Proof. destruct d; reflexivity. Qed.

Lemma rf_store_eq f g off d : (0 <= off)%Z -> rf_eq f g -> rf_eq (rf_store f off d) (rf_store g off d).
Proof.
  intros Hoff [A B]. split.
  - rewrite !rf_size_store. destruct d; congruence.
  - intros i. rewrite !rf_get_store by auto. now rewrite B.
Qed.

Lemma rf_store_app f off a b :
  (0 <= off)%Z ->
  rf_eq (rf_store (rf_store f off a) (off + Z.of_nat (length a)) b) (rf_store f off (a ++ b)).
Proof.
  intros Hoff. split.
  - rewrite !rf_size_store. destruct a as [|x a'], b as [|y b']; cbn [app length]; try rewrite app_nil_r; auto.
    + cbn [length]. f_equal. lia.
    + rewrite app_length. cbn [length]. lia.
  - intros i. rewrite !rf_get_store by lia. rewrite app_length.
    destruct (off <=? i)%Z eqn:E1; cbn [andb].
    + destruct (i <? off + Z.of_nat (length a))%Z eqn:E2.
      * replace ((off + Z.of_nat (length a) <=? i)%Z) with false by (symmetry; apply Z.leb_gt; lia).
        cbn [andb]. replace (i <? off + Z.of_nat (length a + length b))%Z with true by (symmetry; apply Z.ltb_lt; lia).
        rewrite app_nth1; auto. lia.
      * replace ((off + Z.of_nat (length a) <=? i)%Z) with true by (symmetry; apply Z.leb_le; lia).
        cbn [andb].
        replace (i <? off + Z.of_nat (length a) + Z.of_nat (length b))%Z with (i <? off + Z.of_nat (length a + length b))%Z
          by (f_equal; lia).
        destruct (i <? off + Z.of_nat (length a + length b))%Z eqn:E3; auto.
        rewrite app_nth2 by lia. f_equal. lia.
    + replace ((off + Z.of_nat (length a) <=? i)%Z) with false by (symmetry; apply Z.leb_gt; lia).
      reflexivity.
Qed.

Lemma firstn_skipn_add {A} (l : list A) a b :
  firstn a l ++ firstn b (skipn a l) = firstn (a + b) l.
Proof.
  revert l; induction a as [|a IH]; intros l; cbn; auto.
  destruct l; cbn; [now rewrite firstn_nil|]. now rewrite IH.
Qed.

(** ---- writeAt ---- *)

Section Write.
  Variables (p : list N) (cs : nat) (off0 : Z) (f0 : rfile).
  Hypothesis Hcs : 1 <= cs.
  Hypothesis Hlo : (0 <= off0)%Z.
  Hypothesis Hhi : (off0 + Z.of_nat (length p) < 9223372036854775808)%Z.

  (** the file holds p[:x] at off0; x is the count so far unless a failing Twrite stored bytes as well *)
  Definition write_inv (total : nat) (st : wstate) : Prop :=
    exists x, total <= x <= length p /\
              rf_eq (ws_file st) (rf_store f0 off0 (firstn x p)) /\
              (ws_failed st = false -> x = total).

  Lemma write_step total st len n e st' :
    write_inv total st -> total < length p -> len = Nat.min cs (length p - total) ->
    write_fn p st total len (off0 + Z.of_nat total)%Z = ((n, e), st') ->
    n <= len /\ write_inv (total + n) st'.
  Proof.
    intros (x & Hx & Hf & Hxf) Hlt Hlen Hfn. unfold write_fn in Hfn.
    destruct (ws_failed st) eqn:Hfl.
    { inversion Hfn; subst n e st'; clear Hfn. split; [lia|]. rewrite Nat.add_0_r. exists x. rewrite Hfl. auto. }
    specialize (Hxf eq_refl). subst x.
    assert (Hdl : length (firstn len (skipn total p)) = len).
    { rewrite firstn_length, skipn_length. lia. }
    assert (Hstore : forall d, d = firstn (length d) (skipn total p) ->
              rf_eq (rf_store (ws_file st) (off0 + Z.of_nat total) d) (rf_store f0 off0 (firstn (total + length d) p))).
    { intros d Hd. eapply rf_eq_trans.
      - apply rf_store_eq; [lia|exact Hf].
      - replace (Z.of_nat total) with (Z.of_nat (length (firstn total p))) by (rewrite firstn_length; lia).
        eapply rf_eq_trans; [apply rf_store_app; lia|].
        rewrite Hd at 1. rewrite firstn_skipn_add. apply rf_eq_refl. }
    assert (Hk : forall k, length (firstn k (firstn len (skipn total p))) = Nat.min k len).
    { intros k. rewrite firstn_length, Hdl. reflexivity. }
    destruct (ws_tape st) as [|[k|err|k err] tape].
    - inversion Hfn; subst n e st'; clear Hfn. rewrite Hdl. split; [lia|].
      exists (total + len). cbn [ws_file ws_failed]. split; [lia|]. split; auto.
      rewrite <- Hdl at 2. apply Hstore. now rewrite Hdl.
    - inversion Hfn; subst n e st'; clear Hfn. rewrite Hk. split; [lia|].
      exists (total + Nat.min k len). cbn [ws_file ws_failed]. split; [lia|]. split; auto.
      rewrite <- Hk. apply Hstore. rewrite Hk. rewrite firstn_firstn. reflexivity.
    - inversion Hfn; subst n e st'; clear Hfn. split; [lia|]. rewrite Nat.add_0_r.
      exists total. cbn [ws_file ws_failed]. split; [lia|]. split; auto.
    - inversion Hfn; subst n e st'; clear Hfn. split; [lia|]. rewrite Nat.add_0_r.
      exists (total + Nat.min k len). cbn [ws_file ws_failed]. split; [lia|]. split.
      + rewrite <- Hk. apply Hstore. rewrite Hk. rewrite firstn_firstn. reflexivity.
      + rewrite Hk. intros Hz. apply negb_false_iff in Hz. apply Nat.eqb_eq in Hz. lia.
  Qed.

  (** an error comes with count 0 (Rlerror carries no count) *)
  Lemma write_fn_err st pos len off n e st' :
    write_fn p st pos len off = ((n, Some e), st') -> n = 0.
  Proof.
    unfold write_fn. destruct (ws_failed st); [intros H; now inversion H|].
    destruct (ws_tape st) as [|[k|err|k err] tape]; intros H; inversion H; subst; auto.
  Qed.

  Theorem write_at_spec tape : 0 < length p ->
    exists n e calls st',
      write_at cs p off0 f0 tape = ((CRet n e, calls), st') /\
      chunks_ok cs (length p) off0 0 calls n e /\
      (exists x, n <= x <= length p /\ rf_eq (ws_file st') (rf_store f0 off0 (firstn x p)) /\
                 (ws_failed st' = false -> x = n)) /\
      (forall err, e = Some err -> c_n (last calls (mkcall 0 0 0 0 None)) = 0).
  Proof.
    intros Hpos. unfold write_at.
    assert (Hstep : forall total st len n e st', write_inv total st -> total < length p ->
              len = Nat.min cs (length p - total) ->
              write_fn p st total len (off0 + Z.of_nat total)%Z = ((n, e), st') ->
              n <= len /\ write_inv (total + n) st').
    { intros. eapply write_step; eauto. }
    assert (Hinit : write_inv 0 (mkws f0 tape false)).
    { exists 0. split; [lia|]. cbn. split; [apply rf_eq_refl|auto]. }
    destruct (chunk_spec wstate (write_fn p) write_inv cs (length p) off0 Hcs ltac:(lia) Hhi Hstep (mkws f0 tape false) Hpos Hinit)
      as (n & e & calls & st' & Hrun & Hok & Hinv & Hall).
    exists n, e, calls, st'.
    split; [exact Hrun|]. split; [exact Hok|]. split; [exact Hinv|].
    intros err He. pose proof (chunks_ok_last _ _ _ _ _ _ _ Hok) as Hl.
    destruct calls as [|c0 cl]; [destruct Hl; congruence|].
    destruct Hl as [Hl _]. set (c := last (c0 :: cl) _) in *.
    assert (Hin : In c (c0 :: cl)).
    { subst c. destruct (exists_last (l := c0 :: cl) ltac:(discriminate)) as (l' & a & ->).
      rewrite last_last. apply in_or_app. right; now left. }
    rewrite Forall_forall in Hall. destruct (Hall _ Hin) as (s1 & s2 & _ & Hfn).
    rewrite <- Hl, He in Hfn. now apply write_fn_err in Hfn.
  Qed.

  (** no failing Twrite stores anything (the assumption under which WriteAt "stores exactly p[:n]") *)
  Definition stores_nothing_on_error (tape : list wans) : Prop :=
    Forall (fun a => match a with WErrStored _ _ => False | _ => True end) tape.

  Definition write_clean_inv (total : nat) (st : wstate) : Prop :=
    write_inv total st /\ ws_failed st = false /\ stores_nothing_on_error (ws_tape st).

  Lemma write_clean_step total st len n e st' :
    write_clean_inv total st -> total < length p -> len = Nat.min cs (length p - total) ->
    write_fn p st total len (off0 + Z.of_nat total)%Z = ((n, e), st') ->
    n <= len /\ write_clean_inv (total + n) st'.
  Proof.
    intros (Hi & Hfl & Hns) Hlt Hlen Hfn.
    destruct (write_step _ _ _ _ _ _ Hi Hlt Hlen Hfn) as [Hn Hi']. split; auto. split; auto.
    unfold write_fn in Hfn. rewrite Hfl in Hfn. unfold stores_nothing_on_error in *.
    destruct (ws_tape st) as [|[k|err|k err] tape]; inversion Hfn; subst; cbn [ws_failed ws_tape].
    - split; auto.
    - inversion Hns; subst. split; auto.
    - inversion Hns; subst. split; auto.
    - inversion Hns; subst. contradiction.
  Qed.

  Theorem write_at_clean tape : 0 < length p -> stores_nothing_on_error tape ->
    exists n e calls st',
      write_at cs p off0 f0 tape = ((CRet n e, calls), st') /\
      chunks_ok cs (length p) off0 0 calls n e /\
      n <= length p /\
      rf_eq (ws_file st') (rf_store f0 off0 (firstn n p)).
  Proof.
    intros Hpos Hns. unfold write_at.
    assert (Hstep : forall total st len n e st', write_clean_inv total st -> total < length p ->
              len = Nat.min cs (length p - total) ->
              write_fn p st total len (off0 + Z.of_nat total)%Z = ((n, e), st') ->
              n <= len /\ write_clean_inv (total + n) st').
    { intros. eapply write_clean_step; eauto. }
    assert (Hinit : write_clean_inv 0 (mkws f0 tape false)).
    { split; [|split; auto]. exists 0. split; [lia|]. cbn. split; [apply rf_eq_refl|auto]. }
    destruct (chunk_spec wstate (write_fn p) write_clean_inv cs (length p) off0 Hcs ltac:(lia) Hhi Hstep (mkws f0 tape false) Hpos Hinit)
      as (n & e & calls & st' & Hrun & Hok & ((x & Hx & Hf & Hxf) & Hfl & _) & Hall).
    specialize (Hxf Hfl). subst x.
    exists n, e, calls, st'. split; [exact Hrun|]. split; [exact Hok|]. split; [lia|exact Hf].
  Qed.

  (** the backend accepts everything: whole buffer stored, (len p, nil) *)
  Definition accepts_all (tape : list wans) : Prop :=
    Forall (fun a => match a with WCount k => cs <= k | _ => False end) tape.

  Definition write_all_inv (total : nat) (st : wstate) : Prop :=
    write_inv total st /\ ws_failed st = false /\ accepts_all (ws_tape st).

  Lemma write_all_step total st len n e st' :
    write_all_inv total st -> total < length p -> len = Nat.min cs (length p - total) ->
    write_fn p st total len (off0 + Z.of_nat total)%Z = ((n, e), st') ->
    n <= len /\ write_all_inv (total + n) st' /\ n = len /\ e = None.
  Proof.
    intros (Hi & Hfl & Hacc) Hlt Hlen Hfn.
    destruct (write_step _ _ _ _ _ _ Hi Hlt Hlen Hfn) as [Hn Hi'].
    unfold write_fn in Hfn. rewrite Hfl in Hfn.
    assert (Hdl : length (firstn len (skipn total p)) = len).
    { rewrite firstn_length, skipn_length. lia. }
    unfold accepts_all in *.
    destruct (ws_tape st) as [|[k|err|k err] tape].
    - inversion Hfn; subst n e st'; clear Hfn.
      split; [exact Hn|]. split; [split; [exact Hi'|split; [reflexivity|constructor]]|]. split; [exact Hdl|reflexivity].
    - inversion Hacc as [|? ? Hk Hacc']; subst. inversion Hfn; subst n e st'; clear Hfn.
      split; [exact Hn|]. split; [split; [exact Hi'|split; [reflexivity|exact Hacc']]|].
      split; [|reflexivity]. rewrite firstn_length, Hdl. lia.
    - inversion Hacc as [|? ? Hk Hacc']; subst. contradiction.
    - inversion Hacc as [|? ? Hk Hacc']; subst. contradiction.
  Qed.
End Write.

(** a run in which every request is served in full and without error covers the whole buffer *)
Lemma chunks_ok_all_full cs lenp off0 pos calls t e :
  chunks_ok cs lenp off0 pos calls t e ->
  Forall (fun c => c_n c = c_len c /\ c_err c = None) calls -> t = lenp /\ e = None.
Proof.
  induction 1; intros Hall.
  - auto.
  - inversion Hall as [|? ? [Hn He] _]; subst. rewrite He. split; auto.
    destruct H4 as [H4|H4]; [congruence|]. lia.
  - inversion Hall; subst. auto.
Qed.

Theorem write_at_all p cs off0 f0 tape :
  1 <= cs -> (0 <= off0)%Z -> (off0 + Z.of_nat (length p) < 9223372036854775808)%Z -> 0 < length p ->
  accepts_all cs tape ->
  exists calls st',
    write_at cs p off0 f0 tape = ((CRet (length p) None, calls), st') /\
    rf_eq (ws_file st') (rf_store f0 off0 p).
Proof.
  intros Hcs Hlo Hhi Hpos Hacc. unfold write_at.
  assert (Hstep : forall total st len n e st', write_all_inv p cs off0 f0 total st -> total < length p ->
            len = Nat.min cs (length p - total) ->
            write_fn p st total len (off0 + Z.of_nat total)%Z = ((n, e), st') ->
            n <= len /\ write_all_inv p cs off0 f0 (total + n) st').
  { intros total st len n e st' HI Hlt Hlen Hfn.
    edestruct (write_all_step p cs off0 f0) as (A & B & _); eauto. }
  assert (Hinit : write_all_inv p cs off0 f0 0 (mkws f0 tape false)).
  { split; [|split; [reflexivity|exact Hacc]]. exists 0. split; [lia|]. cbn. split; [apply rf_eq_refl|auto]. }
  destruct (chunk_spec wstate (write_fn p) (write_all_inv p cs off0 f0) cs (length p) off0 Hcs ltac:(lia) Hhi Hstep (mkws f0 tape false) Hpos Hinit)
    as (n & e & calls & st' & Hrun & Hok & ((x & Hx & Hf & Hxf) & Hfl & _) & Hall).
  specialize (Hxf Hfl). subst x.
  assert (Hfull : Forall (fun c => c_n c = c_len c /\ c_err c = None) calls).
  { pose proof (chunks_ok_each _ _ _ _ _ _ _ Hok) as Heach.
    rewrite Forall_forall in *. intros c Hc. destruct (Hall c Hc) as (s1 & s2 & HI & Hfn).
    destruct (Heach c Hc Hcs) as (Hl1 & Hl2 & Hoff & _).
    rewrite Hoff in Hfn.
    assert (Hlen : c_len c = Nat.min cs (length p - c_pos c)).
    { clear - Hok Hc. induction Hok; cbn in Hc; try tauto.
      - destruct Hc as [<-|[]]. congruence.
      - destruct Hc as [<-|Hc]; auto. lia. }
    edestruct (write_all_step p cs off0 f0) as (_ & _ & ? & ?); eauto; lia. }
  destruct (chunks_ok_all_full _ _ _ _ _ _ _ Hok Hfull) as [-> ->].
  exists calls, st'. split; auto. now rewrite firstn_all in Hf.
Qed.

(** ---- readAt ---- *)

Lemma rf_read_length f off k : length (rf_read f off k) = rf_avail f off k.
Proof. unfold rf_read. now rewrite map_length, seq_length. Qed.

Lemma rf_avail_le f off k : rf_avail f off k <= k.
Proof. unfold rf_avail. lia. Qed.

Lemma rf_avail_idem f off k : rf_avail f off (rf_avail f off k) = rf_avail f off k.
Proof. unfold rf_avail. lia. Qed.

Lemma rf_read_idem f off k : rf_read f off (length (rf_read f off k)) = rf_read f off k.
Proof. unfold rf_read at 1 3. now rewrite rf_read_length, rf_avail_idem. Qed.

Lemma seq_add a m : forall s, seq (s + a) m = map (fun j => j + a) (seq s m).
Proof. induction m as [|m IH]; intros s; cbn; auto. f_equal. apply (IH (Datatypes.S s)). Qed.

Lemma rf_read_app f off a b :
  length (rf_read f off a) = a ->
  rf_read f off (a + b) = rf_read f off a ++ rf_read f (off + Z.of_nat a) b.
Proof.
  rewrite rf_read_length. intros Ha. unfold rf_read.
  assert (Hav : rf_avail f off (a + b) = a + rf_avail f (off + Z.of_nat a) b).
  { unfold rf_avail in *. lia. }
  rewrite Hav, Ha, seq_app, map_app. f_equal.
  rewrite seq_add, map_map. apply map_ext. intros j. f_equal. lia.
Qed.

Lemma chunks_ok_err_short cs lenp off0 pos calls t e :
  chunks_ok cs lenp off0 pos calls t e -> e <> None ->
  (forall c, In c calls -> c_err c <> None -> c_n c = 0) -> t < lenp.
Proof.
  induction 1; intros He Hz.
  - congruence.
  - rewrite (Hz c); [lia|now left|exact He].
  - apply IHchunks_ok; auto. intros c' Hc'. apply Hz. now right.
Qed.

Lemma skipn_skipn' {A} (l : list A) a b : skipn b (skipn a l) = skipn (a + b) l.
Proof.
  revert l; induction a as [|a IH]; intros l; cbn; auto.
  destruct l; cbn; [now rewrite skipn_nil|]. apply IH.
Qed.

Lemma splice_app R S d : splice (R ++ S) (length R) d = R ++ d ++ skipn (length d) S.
Proof.
  unfold splice. rewrite firstn_app, Nat.sub_diag, firstn_all. cbn [firstn]. rewrite app_nil_r.
  do 2 f_equal. rewrite skipn_app. rewrite skipn_all2 by lia.
  replace (length R + length d - length R) with (length d) by lia. reflexivity.
Qed.

Section Read.
  Variables (p : list N) (cs : nat) (off0 : Z) (f : rfile) (tape0 : list rans).
  Hypothesis Hcs : 1 <= cs.
  Hypothesis Hlo : (0 <= off0)%Z.
  Hypothesis Hhi : (off0 + Z.of_nat (length p) < 9223372036854775808)%Z.

  Definition read_inv (total : nat) (st : rstate) : Prop :=
    total <= length p /\
    rs_buf st = rf_read f off0 total ++ skipn total p /\
    length (rf_read f off0 total) = total /\
    exists pre, tape0 = pre ++ rs_tape st.

  Lemma read_serve_step total st len k t n e st' :
    total <= length p -> rs_buf st = rf_read f off0 total ++ skipn total p ->
    length (rf_read f off0 total) = total -> total < length p -> len = Nat.min cs (length p - total) ->
    read_serve f st total len (off0 + Z.of_nat total)%Z k t = ((n, e), st') ->
    n <= len /\ total + n <= length p /\
    rs_buf st' = rf_read f off0 (total + n) ++ skipn (total + n) p /\
    length (rf_read f off0 (total + n)) = total + n /\ rs_tape st' = t /\
    (e = None \/ e = Some CEOF) /\ (e <> None -> n = 0) /\ (n = 0 -> e = Some CEOF).
  Proof.
    intros Ht Hb Hl Hlt Hlen. unfold read_serve.
    set (d := rf_read f (off0 + Z.of_nat total) (Nat.min k len)).
    assert (Hd : length d <= len).
    { subst d. rewrite rf_read_length. pose proof (rf_avail_le f (off0 + Z.of_nat total) (Nat.min k len)). lia. }
    destruct (Nat.eqb_spec (length d) 0) as [Hz|Hnz]; cbn [andb].
    - destruct (Nat.ltb_spec 0 len) as [_|Hl0]; [|lia].
      intros H; inversion H; subst n e st'; clear H. rewrite Nat.add_0_r. cbn [rs_buf rs_tape].
      repeat split; auto; try lia.
    - intros H; inversion H; subst n e st'; clear H. cbn [rs_buf rs_tape].
      assert (Hrd : rf_read f off0 (total + length d) = rf_read f off0 total ++ d).
      { rewrite rf_read_app by exact Hl. f_equal. subst d. apply rf_read_idem. }
      split; [exact Hd|]. split; [lia|]. split.
      + pose proof (splice_app (rf_read f off0 total) (skipn total p) d) as Hs. rewrite Hl in Hs.
        rewrite Hb, Hs, Hrd, <- app_assoc. do 2 f_equal.
        apply skipn_skipn'.
      + split; [rewrite Hrd, app_length, Hl; reflexivity|]. repeat split; auto; try congruence.
  Qed.

  Lemma read_step total st len n e st' :
    read_inv total st -> total < length p -> len = Nat.min cs (length p - total) ->
    read_fn f st total len (off0 + Z.of_nat total)%Z = ((n, e), st') ->
    n <= len /\ read_inv (total + n) st'.
  Proof.
    intros (Ht & Hb & Hl & pre & Hpre) Hlt Hlen. unfold read_fn.
    destruct (rs_tape st) as [|[k|err] t] eqn:Htape.
    - intros H. destruct (read_serve_step _ _ _ _ _ _ _ _ Ht Hb Hl Hlt Hlen H) as (A & B & C & D & E & _).
      split; auto. repeat split; auto. exists pre. now rewrite E.
    - intros H. destruct (read_serve_step _ _ _ _ _ _ _ _ Ht Hb Hl Hlt Hlen H) as (A & B & C & D & E & _).
      split; auto. repeat split; auto. exists (pre ++ [RCount k]). now rewrite E, <- app_assoc.
    - intros H; inversion H; subst n e st'; clear H. rewrite Nat.add_0_r. cbn [rs_buf rs_tape].
      split; [lia|]. repeat split; auto. exists (pre ++ [RErr err]). now rewrite <- app_assoc.
  Qed.

  (** what one readAt can answer *)
  Lemma read_fn_cases total st len n e st' :
    read_inv total st -> total < length p -> len = Nat.min cs (length p - total) ->
    read_fn f st total len (off0 + Z.of_nat total)%Z = ((n, e), st') ->
    (e <> None -> n = 0) /\
    (n = 0 -> e = Some CEOF \/ exists err, e = Some err /\ In (RErr err) tape0).
  Proof.
    intros (Ht & Hb & Hl & pre & Hpre) Hlt Hlen. unfold read_fn.
    destruct (rs_tape st) as [|[k|err] t] eqn:Htape.
    - intros H. destruct (read_serve_step _ _ _ _ _ _ _ _ Ht Hb Hl Hlt Hlen H) as (_ & _ & _ & _ & _ & A & B & C).
      split; auto.
    - intros H. destruct (read_serve_step _ _ _ _ _ _ _ _ Ht Hb Hl Hlt Hlen H) as (_ & _ & _ & _ & _ & A & B & C).
      split; auto.
    - intros H; inversion H; subst n e st'; clear H. split; auto.
      intros _. right. exists err. split; auto. rewrite Hpre. apply in_or_app. right. now left.
  Qed.

  Theorem read_at_spec : 0 < length p ->
    exists n e calls st',
      read_at cs p off0 f tape0 = ((CRet n e, calls), st') /\
      chunks_ok cs (length p) off0 0 calls n e /\
      n <= length p /\
      rs_buf st' = rf_read f off0 n ++ skipn n p /\
      length (rf_read f off0 n) = n /\
      (e <> None -> n < length p) /\
      (n = 0 -> e = Some CEOF \/ exists err, e = Some err /\ In (RErr err) tape0).
  Proof.
    intros Hpos. unfold read_at.
    assert (Hstep : forall total st len n e st', read_inv total st -> total < length p ->
              len = Nat.min cs (length p - total) ->
              read_fn f st total len (off0 + Z.of_nat total)%Z = ((n, e), st') ->
              n <= len /\ read_inv (total + n) st').
    { intros. eapply read_step; eauto. }
    assert (Hinit : read_inv 0 (mkrs p tape0)).
    { assert (H0 : rf_read f off0 0 = []).
      { unfold rf_read. replace (rf_avail f off0 0) with 0 by (unfold rf_avail; lia). reflexivity. }
      split; [lia|]. rewrite H0. split; [reflexivity|]. split; [reflexivity|]. exists []. reflexivity. }
    destruct (chunk_spec rstate (read_fn f) read_inv cs (length p) off0 Hcs ltac:(lia) Hhi Hstep (mkrs p tape0) Hpos Hinit)
      as (n & e & calls & st' & Hrun & Hok & (Hn & Hb & Hl & _) & Hall).
    exists n, e, calls, st'.
    split; [exact Hrun|]. split; [exact Hok|]. split; [exact Hn|]. split; [exact Hb|]. split; [exact Hl|].
    pose proof (chunks_ok_each _ _ _ _ _ _ _ Hok) as Heach.
    assert (Hlens : forall c, In c calls -> c_pos c < length p /\ c_len c = Nat.min cs (length p - c_pos c)).
    { clear - Hok. intros c Hc. induction Hok; cbn in Hc; try tauto.
      - destruct Hc as [<-|[]]. split; congruence.
      - destruct Hc as [<-|Hc]; auto. split; [lia|]. rewrite H1, H0. lia. }
    rewrite Forall_forall in Hall, Heach.
    assert (Hcases : forall c, In c calls ->
              (c_err c <> None -> c_n c = 0) /\
              (c_n c = 0 -> c_err c = Some CEOF \/ exists err, c_err c = Some err /\ In (RErr err) tape0)).
    { intros c Hc. destruct (Hall c Hc) as (s1 & s2 & HI & Hfn).
      destruct (Heach c Hc Hcs) as (_ & _ & Hoff & _). destruct (Hlens c Hc) as [Hp Hlen].
      rewrite Hoff in Hfn. destruct (read_fn_cases _ _ _ _ _ _ HI Hp Hlen Hfn) as (A & B). auto. }
    split.
    - intros He. eapply chunks_ok_err_short; eauto. intros c Hc. apply (Hcases c Hc).
    - intros Hn0. inversion Hok as [Hd| pos c Hp Hcp Hcl Hco Hcn Hsh Ht | pos c rest t' e' Hp Hcp Hcl Hroom Hco Hcn Hce Hrest]; subst.
      + lia.
      + destruct (Hcases c ltac:(now left)) as [_ B]. apply B. lia.
      + pose proof (chunks_ok_total _ _ _ _ _ _ _ Hrest ltac:(lia)). lia.
  Qed.
End Read.

(** ---- readAt against a backend that always returns what the file has (empty tape) ---- *)

Lemma chunks_ok_full_read cs lenp off0 f pos calls t e :
  chunks_ok cs lenp off0 pos calls t e -> 1 <= cs -> pos <= lenp ->
  rf_avail f off0 pos = pos ->
  (forall c, In c calls -> c_n c = rf_avail f (off0 + Z.of_nat (c_pos c)) (c_len c) /\ (c_err c <> None -> c_n c = 0)) ->
  t = rf_avail f off0 lenp.
Proof.
  induction 1; intros Hcs Hp Hav Hall.
  - auto.
  - destruct (Hall c ltac:(now left)) as [Hn He].
    assert (Hshort : c_n c < cs) by (destruct H4 as [H4|H4]; [rewrite He by auto; lia|lia]).
    rewrite H0, H1 in Hn. unfold rf_avail in *. lia.
  - destruct (Hall c ltac:(now left)) as [Hn He].
    apply IHchunks_ok; auto; try lia.
    + rewrite H0, H1, H4 in Hn. unfold rf_avail in *. lia.
    + intros c' Hc'. apply Hall. now right.
Qed.

Section ReadFull.
  Variables (p : list N) (cs : nat) (off0 : Z) (f : rfile).
  Hypothesis Hcs : 1 <= cs.
  Hypothesis Hlo : (0 <= off0)%Z.
  Hypothesis Hhi : (off0 + Z.of_nat (length p) < 9223372036854775808)%Z.

  Definition read_full_inv (total : nat) (st : rstate) : Prop :=
    read_inv p off0 f [] total st /\ rs_tape st = [].

  Lemma read_full_step total st len n e st' :
    read_full_inv total st -> total < length p -> len = Nat.min cs (length p - total) ->
    read_fn f st total len (off0 + Z.of_nat total)%Z = ((n, e), st') ->
    n <= len /\ read_full_inv (total + n) st' /\
    n = rf_avail f (off0 + Z.of_nat total) len /\ (e <> None -> n = 0 /\ e = Some CEOF).
  Proof.
    intros [HI Ht] Hlt Hlen Hfn.
    edestruct (read_step p cs off0 f []) as [Hn HI']; eauto.
    unfold read_fn in Hfn. rewrite Ht in Hfn. unfold read_serve in Hfn.
    rewrite Nat.min_id, rf_read_length in Hfn.
    destruct ((rf_avail f (off0 + Z.of_nat total) len =? 0) && (0 <? len)) eqn:E;
      inversion Hfn; subst n e st'; clear Hfn.
    - split; [lia|]. split; [split; [exact HI'|reflexivity]|]. split; [lia|]. auto.
    - split; [exact Hn|]. split; [split; [exact HI'|reflexivity]|]. split; [reflexivity|]. congruence.
  Qed.

  Theorem read_at_full : 0 < length p ->
    exists e calls st',
      read_at cs p off0 f [] = ((CRet (rf_avail f off0 (length p)) e, calls), st') /\
      rs_buf st' = rf_read f off0 (length p) ++ skipn (rf_avail f off0 (length p)) p /\
      (e = None \/ e = Some CEOF).
  Proof.
    intros Hpos. unfold read_at.
    assert (Hstep : forall total st len n e st', read_full_inv total st -> total < length p ->
              len = Nat.min cs (length p - total) ->
              read_fn f st total len (off0 + Z.of_nat total)%Z = ((n, e), st') ->
              n <= len /\ read_full_inv (total + n) st').
    { intros total st len n e st' HI Hlt Hlen Hfn.
      edestruct read_full_step as (A & B & _); eauto. }
    assert (Hinit : read_full_inv 0 (mkrs p [])).
    { assert (H0 : rf_read f off0 0 = []).
      { unfold rf_read. replace (rf_avail f off0 0) with 0 by (unfold rf_avail; lia). reflexivity. }
      split; [|reflexivity].
      split; [lia|]. rewrite H0. split; [reflexivity|]. split; [reflexivity|]. exists []. reflexivity. }
    destruct (chunk_spec rstate (read_fn f) read_full_inv cs (length p) off0 Hcs ltac:(lia) Hhi Hstep (mkrs p []) Hpos Hinit)
      as (n & e & calls & st' & Hrun & Hok & ((Hn & Hb & Hl & _) & _) & Hall).
    pose proof (chunks_ok_each _ _ _ _ _ _ _ Hok) as Heach.
    assert (Hlens : forall c, In c calls -> c_pos c < length p /\ c_len c = Nat.min cs (length p - c_pos c)).
    { clear - Hok. intros c Hc. induction Hok; cbn in Hc; try tauto.
      - destruct Hc as [<-|[]]. split; congruence.
      - destruct Hc as [<-|Hc]; auto. split; [lia|]. rewrite H1, H0. lia. }
    rewrite Forall_forall in Hall, Heach.
    assert (Hcases : forall c, In c calls ->
              c_n c = rf_avail f (off0 + Z.of_nat (c_pos c)) (c_len c) /\
              (c_err c <> None -> c_n c = 0 /\ c_err c = Some CEOF)).
    { intros c Hc. destruct (Hall c Hc) as (s1 & s2 & HI & Hfn).
      destruct (Heach c Hc Hcs) as (_ & _ & Hoff & _). destruct (Hlens c Hc) as [Hp Hlen].
      rewrite Hoff in Hfn. edestruct read_full_step as (_ & _ & A & B); eauto. }
    assert (Hnn : n = rf_avail f off0 (length p)).
    { eapply chunks_ok_full_read; eauto; try lia.
      - unfold rf_avail; lia.
      - intros c Hc. destruct (Hcases c Hc) as [A B]. split; auto. intros He. now apply B. }
    subst n. exists e, calls, st'. split; [exact Hrun|]. split.
    - rewrite Hb. f_equal.
      transitivity (rf_read f off0 (length (rf_read f off0 (length p)))); [now rewrite rf_read_length|apply rf_read_idem].
    - pose proof (chunks_ok_last _ _ _ _ _ _ _ Hok) as Hlast.
      destruct calls as [|c0 cl]; [left; tauto|].
      destruct Hlast as [He _]. set (c := last (c0 :: cl) _) in *.
      assert (Hin : In c (c0 :: cl)).
      { subst c. destruct (exists_last (l := c0 :: cl) ltac:(discriminate)) as (l' & a & ->).
        rewrite last_last. apply in_or_app. right; now left. }
      destruct (Hcases c Hin) as [_ B]. destruct e as [err|]; [right|now left].
      rewrite He. apply B. congruence.
  Qed.
End ReadFull.
