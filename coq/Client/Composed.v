(** C03 — the clientFile methods that are compositions of other methods, as functions
    (definitions and proofs).  Their source text is part of the reviewed table
    (ClientModel.spec_methods, tied by ClientProofs.gen_is_spec); here is what that
    text does.

    xattrWalkRead (GetXattr, ListXattrs): Txattrwalk binds a new fid and yields the
    size; the value is read from that fid with ReadAt (C11's chunk: one Tread per
    payload-sized chunk); the fid is clunked (deferred Close) whatever happened.
    Only the io.EOF that ReadAt itself produces for an empty reply is benign
    (commit d1c9538): any other error — a transport error in particular, even
    one that matches io.EOF under errors.Is — is returned, never a truncated value.

    WalkGetAttr below version 2: Walk, then GetAttr(AttrMaskAll) on the new file,
    Close of the new file when GetAttr failed. *)
From Coq Require Import ZArith NArith String List Bool Lia.
From P9V Require Import gen.ConstGen gen.ClientGen Client.Chunk Client.ChunkProofs Client.ClientModel.
Import ListNotations.
Open Scope nat_scope.

(** ---- xattrWalkRead ---- *)
Inductive xres := XOk (value : list N) | XErr (e : cerr).

Inductive xwalk := XWalkOk (size : nat) | XWalkErr (e : cerr).

(** [eof_identity]: the error test after ReadAt is [err != io.EOF] (true) or [!errors.Is(err, io.EOF)] (false, the
    code before d1c9538: a connection error that wraps io.EOF passes for end of file).  [CConn] stands for such an error. *)
Definition xattr_read (eof_identity : bool) (cs : nat) (w : xwalk) (value : rfile) (tape : list rans)
  : xres * list string (* exchanges, in order *) :=
  match w with
  | XWalkErr e => (XErr e, ["txattrwalk"])                       (* releaseFID, no clunk: no File was made *)
  | XWalkOk 0 => (XOk [], ["txattrwalk"; "tclunk"])
  | XWalkOk size =>
      match read_at cs (repeat 0%N size) 0 value tape with
      | ((CRet n err, calls), st) =>
          let msgs := "txattrwalk" :: map (fun _ => "tread") calls ++ ["tclunk"] in
          match err with
          | None | Some CEOF => (XOk (firstn n (rs_buf st)), msgs)
          | Some CConn => if eof_identity then (XErr CConn, msgs) else (XOk (firstn n (rs_buf st)), msgs)
          | Some e => (XErr e, msgs)
          end
      | _ => (XErr CConn, ["txattrwalk"; "tclunk"])               (* unreachable: chunk_spec *)
      end
  end.

(** ListXattrs: the value is split at NUL bytes, empty names dropped *)
Fixpoint split_nul (cur : list N) (l : list N) : list (list N) :=
  match l with
  | [] => match cur with [] => [] | _ => [rev cur] end
  | 0%N :: r => match cur with [] => split_nul [] r | _ => rev cur :: split_nul [] r end
  | b :: r => split_nul (b :: cur) r
  end.

(** the server serves exactly the bytes of the value: [value] is the rfile of the attribute's bytes *)
Theorem xattr_full : forall cs (v : list N), 1 <= cs -> 0 < List.length v ->
  (Z.of_nat (List.length v) < 9223372036854775808)%Z ->
  fst (xattr_read true cs (XWalkOk (List.length v)) (rf_of_list v) []) = XOk v.
Proof.
  intros cs v Hcs Hlen Hbig. unfold xattr_read.
  destruct (List.length v) as [|k] eqn:Hk; [lia|]. rewrite <- Hk.
  assert (Hp : List.length (repeat 0%N (List.length v)) = List.length v) by apply repeat_length.
  destruct (read_at_full (repeat 0%N (List.length v)) cs 0 (rf_of_list v) Hcs ltac:(lia)) as (e & calls & st & Hrun & Hbuf & He).
  - rewrite Hp. cbn. lia.
  - rewrite Hp. lia.
  - rewrite Hp in *. rewrite Hrun.
    assert (Hav : rf_avail (rf_of_list v) 0 (List.length v) = List.length v) by (unfold rf_avail; cbn; lia).
    rewrite Hav in *.
    assert (Hv : rf_read (rf_of_list v) 0 (List.length v) = v).
    { unfold rf_read. rewrite Hav. clear. apply nth_ext with (d := 0%N) (d' := 0%N).
      - now rewrite map_length, seq_length.
      - intros n Hn. rewrite map_length, seq_length in Hn.
        rewrite (nth_indep _ 0%N (rf_get (rf_of_list v) (0 + Z.of_nat 0))) by (now rewrite map_length, seq_length).
        rewrite (map_nth (fun j => rf_get (rf_of_list v) (0 + Z.of_nat j)) (seq 0 (List.length v)) 0 n).
        rewrite seq_nth by auto. unfold rf_get, rf_of_list. cbn [rf_size rf_byte].
        replace ((0 <=? 0 + Z.of_nat (0 + n))%Z && (0 + Z.of_nat (0 + n) <? Z.of_nat (List.length v))%Z) with true.
        + f_equal. lia.
        + symmetry. apply andb_true_iff. split; [apply Z.leb_le|apply Z.ltb_lt]; lia. }
    assert (Hres : firstn (List.length v) (rs_buf st) = v).
    { rewrite Hbuf, Hv. rewrite firstn_app, firstn_all, Nat.sub_diag. cbn. now rewrite app_nil_r. }
    destruct He as [-> | ->]; cbn; now rewrite Hres.
Qed.

(** a value is returned only when the read ended without error or with the io.EOF of readAt itself;
    whatever else happened is returned as the error *)
Theorem xattr_no_truncation_on_error : forall cs size value tape v,
  fst (xattr_read true cs (XWalkOk size) value tape) = XOk v ->
  size = 0 \/
  exists n e calls st, read_at cs (repeat 0%N size) 0 value tape = ((CRet n e, calls), st) /\
                       (e = None \/ e = Some CEOF) /\ v = firstn n (rs_buf st).
Proof.
  intros cs size value tape v E. unfold xattr_read in E. destruct size as [|k]; [now left|]. right.
  destruct (read_at cs (repeat 0%N (S k)) 0 value tape) as [[[n e| |] calls] st]; cbn in E; try discriminate E.
  destruct e as [[|x|]|]; cbn in E; try discriminate E; inversion E; subst; eauto 8.
Qed.

(** before d1c9538: a connection error in the middle of the value yields a truncated value and no error *)
Lemma xattr_truncation_refuted :
  fst (xattr_read false 2 (XWalkOk 5) (rf_of_list [1;2;3;4;5]%N) [RCount 2; RErr CConn]) = XOk [1;2]%N /\
  fst (xattr_read true 2 (XWalkOk 5) (rf_of_list [1;2;3;4;5]%N) [RCount 2; RErr CConn]) = XErr CConn.
Proof. vm_compute. split; reflexivity. Qed.

(** ---- WalkGetAttr ---- *)
Definition walkgetattr_calls (v : N) (e : env) (getattr_fails : bool) : list bcall :=
  if pred_holds v "versionSupportsTwalkgetattr" then
    match e_param e "components" with
    | VL [] => [mkbc "WalkGetAttr" (OnFid (e_fid e)) [VL []]]
    | VL names => map (fun n => mkbc "WalkGetAttr" (OnFid (e_fid e)) [VL [n]]) names
    | _ => []
    end
  else
    (* Walk(components) *)
    backend_calls v "Walk" (mkenv (fun k => if String.eqb k "names" then e_param e "components" else e_param e k)
                                  (e_fid e) (e_newfid e) (e_pfid e) (e_msize e))
    (* GetAttr(AttrMaskAll) on the new file, which is closed again when that failed *)
    ++ backend_calls v "GetAttr" (mkenv (fun _ => VR (repeat 1%N 14)) (e_newfid e) 0 (e_pfid e) (e_msize e))
    ++ (if getattr_fails then backend_calls v "Close" (mkenv (e_param e) (e_newfid e) 0 (e_pfid e) (e_msize e)) else []).

(** below version 2 the backend sees the walk, then GetAttr with every attribute requested, on the walked file *)
Theorem walkgetattr_fallback : forall v e, (v < 2)%N -> e_param e "components" = VL [] ->
  walkgetattr_calls v e false =
  [mkbc "Walk" (OnFid (e_fid e)) [VL []]; mkbc "GetAttr" (OnFid (e_newfid e)) [VR (repeat 1%N 14)]].
Proof.
  intros v e Hv Hc. destruct e as [param fid newfid pfid msize]. cbn [e_param e_fid e_newfid] in *.
  assert (Hv' : v = 0%N \/ v = 1%N) by lia.
  destruct Hv' as [-> | ->]; unfold walkgetattr_calls; cbn [pred_holds]; cbv -[repeat]; rewrite Hc; reflexivity.
Qed.

(** ---- ReadAt / WriteAt: I/O split to fit msize (C11's chunk) ---- *)

(** the backend calls of one client WriteAt / ReadAt: one per chunk request *)
Definition writeat_calls (fid : N) (p : list N) (calls : list ccall) : list bcall :=
  map (fun c => mkbc "WriteAt" (OnFid fid) [VB (firstn (c_len c) (skipn (c_pos c) p)); VN (Z.to_N (c_off c))]) calls.

Definition readat_calls (fid : N) (calls : list ccall) : list bcall :=
  map (fun c => mkbc "ReadAt" (OnFid fid) [VBuf (N.of_nat (c_len c)); VN (Z.to_N (c_off c))]) calls.

Definition data_of (b : bcall) : list N := match b_args b with VB d :: _ => d | _ => [] end.
Definition off_of (b : bcall) : N := match b_args b with [_; VN o] => o | _ => 0%N end.

(** the data of the successive WriteAt calls, put end to end, is the part of p that was offered; each call is at the
    offset where the previous one ended; and every call carries at most one payload *)
Lemma chunks_concat cs lenp off0 pos calls t e (p : list N) :
  chunks_ok cs lenp off0 pos calls t e -> lenp = List.length p ->
  concat (map (fun c => firstn (c_len c) (skipn (c_pos c) p)) calls) =
  firstn (fold_right (fun c a => c_len c + a) 0 calls) (skipn pos p).
Proof.
  intros H Hl. induction H.
  - reflexivity.
  - cbn. rewrite app_nil_r, Nat.add_0_r. now rewrite H0.
  - cbn. rewrite IHchunks_ok. rewrite H0, H1.
    rewrite <- (firstn_skipn_add (skipn pos p) cs). f_equal. f_equal. symmetry. apply skipn_skipn'.
Qed.

Theorem writeat_split : forall cs (p : list N) off0 fid calls n e,
  1 <= cs -> chunks_ok cs (List.length p) off0 0 calls n e -> (0 <= off0)%Z ->
  let bc := writeat_calls fid p calls in
  concat (map data_of bc) = firstn (fold_right (fun c a => c_len c + a) 0 calls) p /\
  Forall (fun b => List.length (data_of b) <= cs) bc /\
  Forall2 (fun b c => off_of b = Z.to_N (off0 + Z.of_nat (c_pos c))) bc calls.
Proof.
  intros cs p off0 fid calls n e Hcs Hok Hoff bc. subst bc. unfold writeat_calls. split; [|split].
  - rewrite map_map. cbn [data_of b_args]. now rewrite (chunks_concat _ _ _ _ _ _ _ p Hok eq_refl).
  - rewrite Forall_map. cbn [data_of b_args].
    eapply Forall_impl; [|exact (chunks_ok_each _ _ _ _ _ _ _ Hok)]. cbn. intros c Hc. specialize (Hc Hcs).
    rewrite firstn_length. lia.
  - pose proof (chunks_ok_each _ _ _ _ _ _ _ Hok) as He. clear Hok.
    induction calls as [|c r IH]; cbn; constructor.
    + inversion He; subst. destruct (H1 Hcs) as (_ & _ & Ho & _). cbn. now rewrite Ho.
    + apply IH. now inversion He.
Qed.
