(** C10: pool.Get / pool.Put as go2coq TRANSLATED them from p9/pool.go (gen/PoolGen.v, regenerated on every run)
    are the hand model Client/Pool.v, for every pool state; and both run under the pool's mutex.  The model
    keeps the cache as a list whose head is the top of the stack; the translated code works on the Go slice
    (last element = top): the two are related by [rev]. *)
From Coq Require Import ZArith NArith List Bool Lia.
From P9V Require Import Client.Pool Client.PoolPrims gen.PoolGen.
Import ListNotations.
Open Scope Z_scope.

Definition enc_get (r : option N * pool) : Z * bool * list N * Z :=
  match r with
  | (Some v, p') => (Z.of_N v, true, rev (p_cache p'), Z.of_N (p_start p'))
  | (None, p') => (0, false, rev (p_cache p'), Z.of_N (p_start p'))
  end.

Lemma of_N_eqb : forall a b : N, (Z.of_N a =? Z.of_N b) = (a =? b)%N.
Proof.
  intros a b. destruct (N.eqb_spec a b) as [->|H]; [apply Z.eqb_refl|].
  apply Z.eqb_neq. intros E. apply H. now apply N2Z.inj.
Qed.

Lemma of_N_succ_mod : forall s : N, (Z.of_N s + 1) mod two64z = Z.of_N ((s + 1) mod two64)%N.
Proof. intros s. rewrite N2Z.inj_mod, N2Z.inj_add. reflexivity. Qed.

Theorem gen_pool_Get_is_model : forall p,
  gen_pool_Get (rev (p_cache p)) (Z.of_N (p_start p)) (Z.of_N (p_limit p)) = Some (enc_get (pool_get p)).
Proof.
  intros [c s l]. unfold gen_pool_Get, pool_get. cbn [p_cache p_start p_limit].
  destruct c as [|v c].
  - cbn [rev go_len List.length Z.of_nat Z.ltb Z.compare]. rewrite of_N_eqb.
    destruct (s =? l)%N; cbn [enc_get p_cache p_start rev]; [reflexivity|].
    rewrite of_N_succ_mod. reflexivity.
  - cbn [rev]. unfold go_len, go_index, go_slice_to. rewrite app_length, rev_length. cbn [List.length].
    assert (L : Z.of_nat (List.length c + 1) - 1 = Z.of_nat (List.length c)) by lia.
    rewrite L.
    destruct (0 <? Z.of_nat (List.length c + 1)) eqn:E1; [|apply Z.ltb_ge in E1; lia].
    unfold go_len. rewrite app_length, rev_length. cbn [List.length].
    destruct ((Z.of_nat (List.length c) <? 0) || (Z.of_nat (List.length c + 1) <=? Z.of_nat (List.length c))) eqn:E2.
    { apply orb_true_iff in E2. destruct E2 as [E2|E2]; [apply Z.ltb_lt in E2|apply Z.leb_le in E2]; lia. }
    rewrite Nat2Z.id. rewrite nth_error_app2 by (rewrite rev_length; lia). rewrite rev_length, Nat.sub_diag. cbn [nth_error].
    destruct ((Z.of_nat (List.length c) <? 0) || (Z.of_nat (List.length c + 1) <? Z.of_nat (List.length c))) eqn:E3.
    { apply orb_true_iff in E3. destruct E3 as [E3|E3]; apply Z.ltb_lt in E3; lia. }
    rewrite firstn_app, rev_length, Nat.sub_diag. cbn [firstn]. rewrite app_nil_r.
    rewrite <- (rev_length c) at 1. rewrite firstn_all. reflexivity.
Qed.

Theorem gen_pool_Put_is_model : forall p v,
  gen_pool_Put (rev (p_cache p)) (Z.of_N (p_start p)) (Z.of_N (p_limit p)) (Z.of_N v)
  = Some (rev (p_cache (pool_put p v)), Z.of_N (p_start (pool_put p v))).
Proof. intros [c s l] v. unfold gen_pool_Put, pool_put, go_append. cbn [p_cache p_start p_limit rev]. rewrite N2Z.id. reflexivity. Qed.

Theorem gen_pool_locked : gen_pool_Get_locked = true /\ gen_pool_Put_locked = true.
Proof. split; reflexivity. Qed.

(** ---- sequences of operations on the TRANSLATED functions ---- *)

(** [gen_run] drives gen_pool_Get / gen_pool_Put exactly as [Pool.pool_run] drives the model: [out] is the list of
    outstanding values, a Put of a value that is not outstanding ends the run (the discipline the client keeps);
    a Go panic (None from a translated function) ends it too. *)
Fixpoint gen_run (cache : list N) (start limit : Z) (out : list N) (ops : list pool_op)
  : option (list N * Z * list N * list (option N)) :=
  match ops with
  | [] => Some (cache, start, out, [])
  | PGet :: r =>
      match gen_pool_Get cache start limit with
      | None => None
      | Some (v, ok, cache', start') =>
          let res := if ok then Some (Z.to_N v) else None in
          let out' := if ok then Z.to_N v :: out else out in
          match gen_run cache' start' limit out' r with
          | Some (c, s, o, rs) => Some (c, s, o, res :: rs)
          | None => None
          end
      end
  | PPut v :: r =>
      if mem v out then
        match gen_pool_Put cache start limit (Z.of_N v) with
        | None => None
        | Some (cache', start') => gen_run cache' start' limit (remove1 v out) r
        end
      else None
  end.

Definition enc_run (r : option (pool * list N * list (option N))) : option (list N * Z * list N * list (option N)) :=
  match r with
  | Some (pf, o, res) => Some (rev (p_cache pf), Z.of_N (p_start pf), o, res)
  | None => None
  end.

Lemma pool_get_limit : forall p, p_limit (snd (pool_get p)) = p_limit p.
Proof. intros [c s l]. unfold pool_get. cbn [p_cache p_start p_limit]. destruct c; [destruct (s =? l)%N|]; reflexivity. Qed.

Theorem gen_run_is_model : forall ops p out,
  gen_run (rev (p_cache p)) (Z.of_N (p_start p)) (Z.of_N (p_limit p)) out ops = enc_run (pool_run p out ops).
Proof.
  induction ops as [|op ops IH]; intros p out; [reflexivity|].
  destruct op as [|v]; cbn [gen_run pool_run].
  - rewrite gen_pool_Get_is_model. pose proof (pool_get_limit p) as L.
    destruct (pool_get p) as [[v|] p'] eqn:E; cbn [enc_get snd] in *; rewrite <- L, ?N2Z.id, IH;
      destruct (pool_run p' _ ops) as [[[pf o] res]|]; reflexivity.
  - destruct (mem v out); [|reflexivity].
    rewrite gen_pool_Put_is_model.
    replace (Z.of_N (p_limit p)) with (Z.of_N (p_limit (pool_put p v))) by reflexivity.
    apply IH.
Qed.
