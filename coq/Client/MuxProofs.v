(** C10 — invariant of Client/Mux.v and its consequences, for ALL interleavings
    (induction over [reach]). *)
From Coq Require Import Arith List Bool Lia.
From Hammer Require Import Tactics.
From P9V Require Import Client.Mux.
Import ListNotations.

Arguments get : simpl never.
Arguments upd : simpl never.

(** ---- lists of threads ---- *)
Lemma length_upd l i x : length (upd l i x) = length l.
Proof. unfold upd. revert i; induction l as [|y r IH]; intros [|i]; cbn; auto. Qed.

Lemma get_upd_same l i x : i < length l -> get (upd l i x) i = x.
Proof.
  unfold get, upd. revert i; induction l as [|y r IH]; intros [|i] H; cbn in *; try lia; auto.
  apply IH. lia.
Qed.

Lemma get_upd_other l i x j : j <> i -> get (upd l i x) j = get l j.
Proof.
  unfold get, upd. revert i j; induction l as [|y r IH]; intros [|i] [|j] H; cbn; auto; try congruence.
Qed.

Lemma get_in_range l i : get l i <> TIdle -> i < length l.
Proof.
  unfold get. intros H. destruct (Nat.lt_ge_cases i (length l)); auto.
  rewrite nth_overflow in H; congruence.
Qed.

Lemma get_In l i : i < length l -> In (get l i) l.
Proof. intros. unfold get. now apply nth_In. Qed.

Lemma In_get l x : In x l -> exists i, i < length l /\ get l i = x.
Proof. intros H. destruct (In_nth _ _ TIdle H) as (i & ? & ?). exists i. auto. Qed.

(** ---- the pending map ---- *)
Lemma In_remove a b t p : In (a, b) (remove t p) <-> In (a, b) p /\ a <> t.
Proof.
  induction p as [|[t' s] r IH]; cbn; [tauto|].
  destruct (Nat.eqb_spec t' t) as [->|Hne]; cbn; rewrite IH; split.
  - intros [? ?]; auto.
  - intros [[H|H] ?]; auto. inversion H; subst. congruence.
  - intros [H|[? ?]]; auto. inversion H; subst. auto.
  - intros [[H|H] ?]; auto.
Qed.

Lemma NoDup_remove_fst t p : NoDup (map fst p) -> NoDup (map fst (remove t p)).
Proof.
  induction p as [|[t' s] r IH]; cbn; auto. intros H. inversion H; subst.
  destruct (Nat.eqb_spec t' t); cbn; auto. constructor; auto.
  intros Hin. apply H2. apply in_map_iff in Hin. destruct Hin as ([a b] & Ha & Hb). cbn in Ha; subst.
  apply In_remove in Hb. apply in_map_iff. exists (t', b). tauto.
Qed.

Lemma lookup_In t p s : lookup t p = Some s -> In (t, s) p.
Proof.
  induction p as [|[t' s'] r IH]; cbn; [discriminate|].
  destruct (Nat.eqb_spec t' t) as [->|]; intros H; [inversion H; auto|auto].
Qed.

Lemma lookup_None t p : lookup t p = None -> forall s, ~ In (t, s) p.
Proof.
  induction p as [|[t' s'] r IH]; cbn; [tauto|].
  destruct (Nat.eqb_spec t' t) as [->|Hne]; [discriminate|].
  intros H s [Heq|Hin]; [inversion Heq; congruence|]. eapply IH; eauto.
Qed.

Lemma In_lookup t s p : NoDup (map fst p) -> In (t, s) p -> lookup t p = Some s.
Proof.
  induction p as [|[t' s'] r IH]; cbn; [tauto|]. intros Hnd. inversion Hnd; subst.
  intros [Heq|Hin].
  - inversion Heq; subst. now rewrite Nat.eqb_refl.
  - destruct (Nat.eqb_spec t' t) as [->|Hne]; auto.
    exfalso. apply H1. apply in_map_iff. exists (t, s). auto.
Qed.

Lemma fresh_spec l t s :
  fresh l t s = true <->
  forall j t2 s2, live (get l j) = Some (t2, s2) -> t2 <> t /\ s2 <> s.
Proof.
  unfold fresh. rewrite forallb_forall. split.
  - intros H j t2 s2 Hl.
    assert (Hr : j < length l) by (apply get_in_range; intros E; rewrite E in Hl; discriminate).
    specialize (H _ (get_In l j Hr)). rewrite Hl in H.
    apply andb_true_iff in H. destruct H as [H1 H2].
    apply negb_true_iff in H1, H2. apply Nat.eqb_neq in H1, H2. auto.
  - intros H x Hx. destruct (In_get _ _ Hx) as (j & _ & <-).
    destruct (live (get l j)) as [[t2 s2]|] eqn:E; auto.
    destruct (H _ _ _ E) as [H1 H2]. apply Nat.eqb_neq in H1, H2. now rewrite H1, H2.
Qed.

Lemma noreg_spec l t' :
  existsb (fun st => match st with TReg t2 _ => t2 =? t' | _ => false end) l = false ->
  forall j s2, get l j <> TReg t' s2.
Proof.
  intros H j s2 E.
  assert (Hr : j < length l) by (apply get_in_range; rewrite E; discriminate).
  assert (Hex : existsb (fun st => match st with TReg t2 _ => t2 =? t' | _ => false end) l = true).
  { apply existsb_exists. exists (get l j). split; [now apply get_In|]. rewrite E. apply Nat.eqb_refl. }
  congruence.
Qed.

(** ---- the invariant ---- *)
Definition holder (st : tstate) : Prop :=
  match st with TRecv _ _ | TLooked _ _ _ _ => True | _ => False end.

Definition routed (t s : nat) (r : res) : Prop :=
  match r with ROk t' s' => t' = t /\ s' = s | RFail => True end.

Record Inv (m : mst) : Prop := {
  (* running calls hold pairwise distinct tags and pairwise distinct response slots *)
  I_distinct : forall i j t s t2 s2, i <> j ->
      live (get (thr m) i) = Some (t, s) -> live (get (thr m) j) = Some (t2, s2) -> t <> t2 /\ s <> s2;
  I_nodup : NoDup (map fst (pend m));
  (* every pending slot is owned by exactly one running call, and its done channel is empty *)
  I_pend : forall t s, In (t, s) (pend m) -> full m s = None /\ exists i, live (get (thr m) i) = Some (t, s);
  (* a running call is pending, or its done channel holds ITS result *)
  I_live : forall i t s, live (get (thr m) i) = Some (t, s) ->
      In (t, s) (pend m) \/ exists r, full m s = Some r /\ routed t s r;
  (* a full done channel belongs to a running call *)
  I_full : forall s r, full m s = Some r -> exists i t, live (get (thr m) i) = Some (t, s);
  I_tok_free : token m = false -> forall i, ~ holder (get (thr m) i);
  I_tok_uniq : forall i j, holder (get (thr m) i) -> holder (get (thr m) j) -> i = j;
  I_tok_held : token m = true -> exists i, holder (get (thr m) i);
  (* between lookup and completion the entry stays, and its owner has sent its request *)
  I_looked : forall i t s t' s', get (thr m) i = TLooked t s t' s' ->
      In (t', s') (pend m) /\ forall j s2, get (thr m) j <> TReg t' s2;
  I_good : forall i, get (thr m) i <> TBlocked /\ get (thr m) i <> TPanic;
  I_done : forall i t s r, get (thr m) i = TDone t s r -> routed t s r
}.

Lemma inv_init n : Inv (init n).
Proof.
  assert (Hg : forall i, get (repeat TIdle n) i = TIdle).
  { intros i. unfold get. destruct (Nat.lt_ge_cases i (length (repeat TIdle n))).
    - apply (repeat_spec n TIdle). now apply nth_In.
    - now apply nth_overflow. }
  unfold init. constructor; cbn [thr pend full token]; intros; rewrite ?Hg in *; cbn in *;
    try discriminate; try tauto; try constructor; try congruence.
Qed.

Lemma get_upd l i x j : i < length l -> get (upd l i x) j = if j =? i then x else get l j.
Proof.
  intros H. destruct (Nat.eqb_spec j i) as [->|Hne]; [now apply get_upd_same|now apply get_upd_other].
Qed.

Ltac split_idx :=
  repeat match goal with
         | H : context [?a =? ?b] |- _ => destruct (Nat.eqb_spec a b); subst
         | |- context [?a =? ?b] => destruct (Nat.eqb_spec a b); subst
         end.

Lemma live_upd l i x j : i < length l ->
  live (get (upd l i x) j) = if j =? i then live x else live (get l j).
Proof. intros H. rewrite get_upd by auto. now destruct (j =? i). Qed.

(** thread i moves between two states that hold the same tag and slot; pending and done untouched *)
Lemma inv_same_live m i x y tok :
  Inv m -> get (thr m) i = x -> live y = live x -> x <> TIdle ->
  (forall t s t' s', y = TLooked t s t' s' ->
      In (t', s') (pend m) /\ forall j s2, get (thr m) j <> TReg t' s2) ->
  (forall t s, y <> TReg t s) -> y <> TBlocked -> y <> TPanic -> (forall t s r, y <> TDone t s r) ->
  (* token bookkeeping *)
  (tok = false -> ~ holder y /\ forall j, holder (get (thr m) j) -> j = i) ->
  (holder y -> forall j, holder (get (thr m) j) -> j = i) ->
  (tok = true -> holder y \/ exists j, j <> i /\ holder (get (thr m) j)) ->
  Inv (mkst (upd (thr m) i y) (pend m) (full m) tok).
Proof.
  intros HI Hi Hl Hx Hlook Hreg Hb Hp Hd Ht1 Ht2 Ht3.
  assert (Hr : i < length (thr m)) by (apply get_in_range; congruence).
  assert (HL : forall j, live (get (upd (thr m) i y) j) = live (get (thr m) j)).
  { intros j. rewrite live_upd by auto. destruct (Nat.eqb_spec j i) as [->|]; auto. congruence. }
  destruct HI. constructor; cbn [thr pend full token].
  - intros a b t s t2 s2 Hab. rewrite !HL. eauto.
  - auto.
  - intros t s Hin. destruct (I_pend0 _ _ Hin) as [A [j B]]. split; auto. exists j. now rewrite HL.
  - intros a t s. rewrite HL. apply I_live0.
  - intros s r Hf. destruct (I_full0 _ _ Hf) as (j & t & B). exists j, t. now rewrite HL.
  - intros Htok a. rewrite get_upd by auto. destruct (Ht1 Htok) as [A B].
    destruct (Nat.eqb_spec a i) as [->|Hne]; auto.
  - intros a b. rewrite !get_upd by auto.
    destruct (Nat.eqb_spec a i) as [->|Ha], (Nat.eqb_spec b i) as [->|Hb'].
    + auto.
    + intros Hy Hh. symmetry. eapply Ht2; eauto.
    + intros Hh Hy. eapply Ht2; eauto.
    + apply I_tok_uniq0.
  - intros Htok. destruct (Ht3 Htok) as [A|(j & Hj & A)].
    + exists i. now rewrite get_upd_same.
    + exists j. now rewrite get_upd_other.
  - intros a t s t' s'. rewrite get_upd by auto. destruct (Nat.eqb_spec a i) as [->|Hne].
    + intros Hy. destruct (Hlook _ _ _ _ Hy) as [A B]. split; auto.
      intros j s2. rewrite get_upd by auto. destruct (Nat.eqb_spec j i); auto.
    + intros Ha. destruct (I_looked0 _ _ _ _ _ Ha) as [A B]. split; auto.
      intros j s2. rewrite get_upd by auto. destruct (Nat.eqb_spec j i); auto.
  - intros a. rewrite get_upd by auto. destruct (Nat.eqb_spec a i); auto.
  - intros a t s r. rewrite get_upd by auto. destruct (Nat.eqb_spec a i); [intros E; exfalso; eapply Hd; eauto|eauto].
Qed.

Lemma live_not_idle st p : live st = Some p -> st <> TIdle.
Proof. destruct st; cbn; congruence. Qed.

(** ---- AStart ---- *)
Lemma step_start m i t s :
  Inv m -> get (thr m) i = TIdle -> i < length (thr m) -> fresh (thr m) t s = true ->
  Inv (mkst (upd (thr m) i (TReg t s)) ((t, s) :: remove t (pend m)) (full m) (token m)).
Proof.
  intros HI Hi Hr Hf. rewrite fresh_spec in Hf. destruct HI.
  assert (F1 : forall t0 s0, In (t0, s0) (pend m) -> t0 <> t).
  { intros t0 s0 Hin. destruct (I_pend0 _ _ Hin) as [_ [j B]]. now destruct (Hf _ _ _ B). }
  assert (F2 : full m s = None).
  { destruct (full m s) eqn:E; auto. destruct (I_full0 _ _ E) as (j & t0 & B). destruct (Hf _ _ _ B); congruence. }
  assert (HL : forall j, live (get (upd (thr m) i (TReg t s)) j) = if j =? i then Some (t, s) else live (get (thr m) j)).
  { intros j. now rewrite live_upd. }
  assert (Hidle : forall j p, live (get (thr m) j) = Some p -> j <> i).
  { intros j p Hj ->. rewrite Hi in Hj. discriminate. }
  constructor; cbn [thr pend full token].
  - intros a b t1 s1 t2 s2 Hab. rewrite !HL.
    destruct (Nat.eqb_spec a i) as [->|Ha], (Nat.eqb_spec b i) as [->|Hb]; try congruence.
    + intros E1 E2. inversion E1; subst. destruct (Hf _ _ _ E2). split; congruence.
    + intros E1 E2. inversion E2; subst. destruct (Hf _ _ _ E1). split; congruence.
    + eauto.
  - cbn. constructor; [|now apply NoDup_remove_fst].
    intros Hin. apply in_map_iff in Hin. destruct Hin as ([a b] & Ha & Hb). cbn in Ha; subst.
    apply In_remove in Hb. tauto.
  - intros t0 s0 [E|Hin].
    + inversion E; subst. split; auto. exists i. rewrite HL. now rewrite Nat.eqb_refl.
    + apply In_remove in Hin. destruct Hin as [Hin _]. destruct (I_pend0 _ _ Hin) as [A [j B]]. split; auto.
      exists j. rewrite HL. destruct (Nat.eqb_spec j i) as [->|]; auto. exfalso. eapply Hidle; eauto.
  - intros a t0 s0. rewrite HL. destruct (Nat.eqb_spec a i) as [->|Ha].
    + intros E; inversion E; subst. left. now left.
    + intros E. destruct (I_live0 _ _ _ E) as [Hin|Hfull]; auto.
      left. right. apply In_remove. split; auto. now destruct (Hf _ _ _ E).
  - intros s0 r E. destruct (I_full0 _ _ E) as (j & t0 & B). exists j, t0. rewrite HL.
    destruct (Nat.eqb_spec j i) as [->|]; auto. exfalso. eapply Hidle; eauto.
  - intros Htok a. rewrite get_upd by auto. destruct (Nat.eqb_spec a i); cbn; auto.
  - intros a b. rewrite !get_upd by auto.
    destruct (Nat.eqb_spec a i), (Nat.eqb_spec b i); cbn; try tauto. apply I_tok_uniq0.
  - intros Htok. destruct (I_tok_held0 Htok) as [j B]. exists j. rewrite get_upd by auto.
    destruct (Nat.eqb_spec j i) as [->|]; auto. rewrite Hi in B. destruct B.
  - intros a t0 s0 t' s'. rewrite get_upd by auto. destruct (Nat.eqb_spec a i); [discriminate|].
    intros E. destruct (I_looked0 _ _ _ _ _ E) as [A B]. split.
    + right. apply In_remove. split; auto. eapply F1; eauto.
    + intros j s2. rewrite get_upd by auto. destruct (Nat.eqb_spec j i); auto.
      intros E2. inversion E2; subst. eapply F1; eauto.
  - intros a. rewrite get_upd by auto. destruct (Nat.eqb_spec a i); auto. split; discriminate.
  - intros a t0 s0 r. rewrite get_upd by auto. destruct (Nat.eqb_spec a i); [discriminate|eauto].
Qed.

(** ---- ASendFail (with the withdrawal of commit dca25c9) ---- *)
Lemma step_sendfail m i t s :
  Inv m -> get (thr m) i = TReg t s ->
  Inv (mkst (upd (thr m) i (TDone t s RFail))
            (match lookup t (pend m) with
             | Some s' => if s' =? s then remove t (pend m) else pend m
             | None => pend m
             end)
            (fset (full m) s None) (token m)).
Proof.
  intros HI Hi.
  assert (Hr : i < length (thr m)) by (apply get_in_range; rewrite Hi; discriminate).
  assert (Hli : live (get (thr m) i) = Some (t, s)) by now rewrite Hi.
  destruct HI.
  set (p' := match lookup t (pend m) with Some s' => if s' =? s then remove t (pend m) else pend m | None => pend m end).
  assert (Hp : forall a b, In (a, b) p' <-> In (a, b) (pend m) /\ a <> t).
  { intros a b. subst p'. destruct (lookup t (pend m)) as [s'|] eqn:E.
    - apply lookup_In in E. destruct (I_pend0 _ _ E) as [_ [j B]].
      assert (j = i).
      { destruct (Nat.eq_dec j i); auto. destruct (I_distinct0 _ _ _ _ _ _ n B Hli); congruence. }
      subst j. rewrite Hli in B. inversion B; subst. rewrite Nat.eqb_refl. apply In_remove.
    - split; [|tauto]. intros Hin. split; auto. intros ->. eapply lookup_None; eauto. }
  assert (Hnd : NoDup (map fst p')).
  { subst p'. destruct (lookup t (pend m)); [destruct (_ =? _)|]; auto. now apply NoDup_remove_fst. }
  clearbody p'.
  assert (HL : forall j, live (get (upd (thr m) i (TDone t s RFail)) j) = if j =? i then None else live (get (thr m) j)).
  { intros j. now rewrite live_upd. }
  constructor; cbn [thr pend full token].
  - intros a b t1 s1 t2 s2 Hab. rewrite !HL.
    destruct (Nat.eqb_spec a i), (Nat.eqb_spec b i); try discriminate. eauto.
  - auto.
  - intros t0 s0 Hin. apply Hp in Hin. destruct Hin as [Hin Hne]. destruct (I_pend0 _ _ Hin) as [A [j B]].
    assert (Hji : j <> i) by (intros ->; rewrite Hli in B; congruence).
    destruct (I_distinct0 _ _ _ _ _ _ Hji B Hli) as [_ Hs]. split.
    + unfold fset. destruct (Nat.eqb_spec s0 s); auto.
    + exists j. rewrite HL. destruct (Nat.eqb_spec j i); [congruence|auto].
  - intros a t0 s0. rewrite HL. destruct (Nat.eqb_spec a i) as [->|Ha]; [discriminate|].
    intros E. destruct (I_distinct0 _ _ _ _ _ _ Ha E Hli) as [Ht Hs].
    destruct (I_live0 _ _ _ E) as [Hin|(r & Hf & Hrt)].
    + left. apply Hp. auto.
    + right. exists r. split; auto. unfold fset. destruct (Nat.eqb_spec s0 s); [congruence|auto].
  - intros s0 r. unfold fset. destruct (Nat.eqb_spec s0 s); [discriminate|]. intros E.
    destruct (I_full0 _ _ E) as (j & t0 & B). exists j, t0. rewrite HL.
    destruct (Nat.eqb_spec j i) as [->|]; auto. rewrite Hli in B. congruence.
  - intros Htok a. rewrite get_upd by auto. destruct (Nat.eqb_spec a i); cbn; auto.
  - intros a b. rewrite !get_upd by auto.
    destruct (Nat.eqb_spec a i), (Nat.eqb_spec b i); cbn; try tauto. apply I_tok_uniq0.
  - intros Htok. destruct (I_tok_held0 Htok) as [j B]. exists j. rewrite get_upd by auto.
    destruct (Nat.eqb_spec j i) as [->|]; auto. rewrite Hi in B. destruct B.
  - intros a t0 s0 t' s'. rewrite get_upd by auto. destruct (Nat.eqb_spec a i); [discriminate|].
    intros E. destruct (I_looked0 _ _ _ _ _ E) as [A B]. split.
    + apply Hp. split; auto. intros ->. eapply B; eauto.
    + intros j s2. rewrite get_upd by auto. destruct (Nat.eqb_spec j i); [discriminate|auto].
  - intros a. rewrite get_upd by auto. destruct (Nat.eqb_spec a i); auto. split; discriminate.
  - intros a t0 s0 r. rewrite get_upd by auto. destruct (Nat.eqb_spec a i); [|eauto].
    intros E; inversion E; subst. exact I.
Qed.

(** ---- AWaitDone ---- *)
Lemma step_waitdone m i t s r :
  Inv m -> get (thr m) i = TWait t s -> full m s = Some r ->
  Inv (mkst (upd (thr m) i (TDone t s r)) (pend m) (fset (full m) s None) (token m)).
Proof.
  intros HI Hi Hfull.
  assert (Hr : i < length (thr m)) by (apply get_in_range; rewrite Hi; discriminate).
  assert (Hli : live (get (thr m) i) = Some (t, s)) by now rewrite Hi.
  destruct HI.
  assert (HL : forall j, live (get (upd (thr m) i (TDone t s r)) j) = if j =? i then None else live (get (thr m) j)).
  { intros j. now rewrite live_upd. }
  constructor; cbn [thr pend full token].
  - intros a b t1 s1 t2 s2 Hab. rewrite !HL.
    destruct (Nat.eqb_spec a i), (Nat.eqb_spec b i); try discriminate. eauto.
  - auto.
  - intros t0 s0 Hin. destruct (I_pend0 _ _ Hin) as [A [j B]].
    assert (Hs : s0 <> s) by congruence. split.
    + unfold fset. destruct (Nat.eqb_spec s0 s); auto.
    + exists j. rewrite HL. destruct (Nat.eqb_spec j i) as [->|]; auto. rewrite Hli in B. congruence.
  - intros a t0 s0. rewrite HL. destruct (Nat.eqb_spec a i) as [->|Ha]; [discriminate|].
    intros E. destruct (I_distinct0 _ _ _ _ _ _ Ha E Hli) as [Ht Hs].
    destruct (I_live0 _ _ _ E) as [Hin|(r' & Hf & Hrt)]; auto.
    right. exists r'. split; auto. unfold fset. destruct (Nat.eqb_spec s0 s); [congruence|auto].
  - intros s0 r'. unfold fset. destruct (Nat.eqb_spec s0 s); [discriminate|]. intros E.
    destruct (I_full0 _ _ E) as (j & t0 & B). exists j, t0. rewrite HL.
    destruct (Nat.eqb_spec j i) as [->|]; auto. rewrite Hli in B. congruence.
  - intros Htok a. rewrite get_upd by auto. destruct (Nat.eqb_spec a i); cbn; auto.
  - intros a b. rewrite !get_upd by auto.
    destruct (Nat.eqb_spec a i), (Nat.eqb_spec b i); cbn; try tauto. apply I_tok_uniq0.
  - intros Htok. destruct (I_tok_held0 Htok) as [j B]. exists j. rewrite get_upd by auto.
    destruct (Nat.eqb_spec j i) as [->|]; auto. rewrite Hi in B. destruct B.
  - intros a t0 s0 t' s'. rewrite get_upd by auto. destruct (Nat.eqb_spec a i); [discriminate|].
    intros E. destruct (I_looked0 _ _ _ _ _ E) as [A B]. split; auto.
    intros j s2. rewrite get_upd by auto. destruct (Nat.eqb_spec j i); [discriminate|auto].
  - intros a. rewrite get_upd by auto. destruct (Nat.eqb_spec a i); auto. split; discriminate.
  - intros a t0 s0 r0. rewrite get_upd by auto. destruct (Nat.eqb_spec a i); [|eauto].
    intros E; inversion E; subst.
    destruct (I_live0 _ _ _ Hli) as [Hin|(r' & Hf & Hrt)].
    + destruct (I_pend0 _ _ Hin). congruence.
    + congruence.
Qed.

(** the token holder stops holding: nobody holds afterwards *)
Lemma no_holder_left m i : Inv m -> holder (get (thr m) i) ->
  forall j, j <> i -> ~ holder (get (thr m) j).
Proof. intros HI Hh j Hne Hj. apply Hne. eapply I_tok_uniq; eauto. Qed.

(** ---- ABody ok: completion of the call registered for t' ---- *)
Lemma step_bodyok m i t s t' s' :
  Inv m -> get (thr m) i = TLooked t s t' s' ->
  lookup t' (pend m) = Some s' /\ full m s' = None /\
  Inv (mkst (upd (thr m) i (TWait t s)) (remove t' (pend m)) (fset (full m) s' (Some (ROk t' s'))) false).
Proof.
  intros HI Hi.
  assert (Hr : i < length (thr m)) by (apply get_in_range; rewrite Hi; discriminate).
  assert (Hhold : holder (get (thr m) i)) by (rewrite Hi; exact I).
  pose proof (no_holder_left m i HI Hhold) as Hnh.
  destruct HI.
  destruct (I_looked0 _ _ _ _ _ Hi) as [Hin Hnoreg].
  destruct (I_pend0 _ _ Hin) as [Hempty [jo Hjo]].
  split; [now apply In_lookup|]. split; [exact Hempty|].
  assert (HL : forall j, live (get (upd (thr m) i (TWait t s)) j) = live (get (thr m) j)).
  { intros j. rewrite live_upd by auto. destruct (Nat.eqb_spec j i) as [->|]; auto. now rewrite Hi. }
  constructor; cbn [thr pend full token].
  - intros a b t1 s1 t2 s2 Hab. rewrite !HL. eauto.
  - now apply NoDup_remove_fst.
  - intros t0 s0 Hin0. apply In_remove in Hin0. destruct Hin0 as [Hin0 Hne].
    destruct (I_pend0 _ _ Hin0) as [A [j B]]. split.
    + unfold fset. destruct (Nat.eqb_spec s0 s') as [->|]; auto.
      exfalso. assert (j <> jo) by (intros ->; rewrite Hjo in B; congruence).
      destruct (I_distinct0 _ _ _ _ _ _ H B Hjo); congruence.
    + exists j. now rewrite HL.
  - intros a t0 s0. rewrite HL. intros E. destruct (I_live0 _ _ _ E) as [Hin0|(r & Hf & Hrt)].
    + destruct (Nat.eq_dec t0 t') as [->|Hne].
      * right. pose proof (In_lookup _ _ _ I_nodup0 Hin0) as L1. pose proof (In_lookup _ _ _ I_nodup0 Hin) as L2.
        assert (s0 = s') by congruence. subst s0.
        exists (ROk t' s'). split; [|cbn; auto]. unfold fset. now rewrite Nat.eqb_refl.
      * left. apply In_remove. auto.
    + right. exists r. split; auto. unfold fset. destruct (Nat.eqb_spec s0 s'); [congruence|auto].
  - intros s0 r. unfold fset. destruct (Nat.eqb_spec s0 s') as [->|].
    + intros _. exists jo, t'. now rewrite HL.
    + intros E. destruct (I_full0 _ _ E) as (j & t0 & B). exists j, t0. now rewrite HL.
  - intros _ a. rewrite get_upd by auto. destruct (Nat.eqb_spec a i); cbn; auto.
  - intros a b. rewrite !get_upd by auto.
    destruct (Nat.eqb_spec a i), (Nat.eqb_spec b i); cbn; try tauto. apply I_tok_uniq0.
  - discriminate.
  - intros a t0 s0 t1 s1. rewrite get_upd by auto. destruct (Nat.eqb_spec a i); [discriminate|].
    intros E. exfalso. apply (Hnh a); auto. rewrite E. exact I.
  - intros a. rewrite get_upd by auto. destruct (Nat.eqb_spec a i); auto. split; discriminate.
  - intros a t0 s0 r. rewrite get_upd by auto. destruct (Nat.eqb_spec a i); [discriminate|eauto].
Qed.

(** ---- broadcast never blocks, and fails every pending call ---- *)
Lemma nodupb_spec l : nodupb l = true <-> NoDup l.
Proof.
  induction l as [|x r IH]; cbn; [split; intros; auto; constructor|].
  rewrite andb_true_iff, negb_true_iff, IH. split.
  - intros [A B]. constructor; auto. intros Hin.
    assert (existsb (Nat.eqb x) r = true) by (apply existsb_exists; exists x; split; auto; apply Nat.eqb_refl).
    congruence.
  - intros H. inversion H; subst. split; auto.
    destruct (existsb (Nat.eqb x) r) eqn:E; auto. apply existsb_exists in E. destruct E as (y & Hy & He).
    apply Nat.eqb_eq in He. subst. contradiction.
Qed.

Lemma nodup_snd (p : list (nat * nat)) :
  NoDup (map fst p) ->
  (forall t1 s1 t2 s2, In (t1, s1) p -> In (t2, s2) p -> s1 = s2 -> t1 = t2) ->
  NoDup (map snd p).
Proof.
  induction p as [|[t s] r IH]; cbn; [constructor|]. intros Hnd H. inversion Hnd; subst.
  constructor.
  - intros Hin. apply in_map_iff in Hin. destruct Hin as ([t2 s2] & E & Hin). cbn in E; subst.
    assert (t = t2) by (eapply (H t s t2 s); auto). subst.
    apply H2. apply in_map_iff. exists (t2, s). auto.
  - apply IH; auto. intros. eapply H; eauto.
Qed.

Lemma broadcast_ok m i t s x :
  Inv m -> get (thr m) i = x -> holder x -> live x = Some (t, s) ->
  existsb (fun e => is_some (full m (snd e))) (pend m) || negb (nodupb (map snd (pend m))) = false /\
  Inv (broadcast m i t s).
Proof.
  intros HI Hi Hh Hlx.
  assert (Hr : i < length (thr m)) by (apply get_in_range; rewrite Hi; eapply live_not_idle; eauto).
  assert (Hhold : holder (get (thr m) i)) by now rewrite Hi.
  pose proof (no_holder_left m i HI Hhold) as Hnh.
  destruct HI.
  assert (Hchk : existsb (fun e => is_some (full m (snd e))) (pend m) || negb (nodupb (map snd (pend m))) = false).
  { apply orb_false_iff. split.
    - destruct (existsb _ _) eqn:E; auto. apply existsb_exists in E. destruct E as ([t0 s0] & Hin & Hs).
      destruct (I_pend0 _ _ Hin) as [A _]. cbn in Hs. rewrite A in Hs. discriminate.
    - apply negb_false_iff. apply nodupb_spec. apply nodup_snd; auto.
      intros t1 s1 t2 s2 H1 H2 <-.
      destruct (I_pend0 _ _ H1) as [_ [j1 B1]]. destruct (I_pend0 _ _ H2) as [_ [j2 B2]].
      destruct (Nat.eq_dec j1 j2) as [->|Hne]; [congruence|].
      destruct (I_distinct0 _ _ _ _ _ _ Hne B1 B2); congruence. }
  split; [exact Hchk|]. unfold broadcast. rewrite Hchk.
  assert (HL : forall j, live (get (upd (thr m) i (TWait t s)) j) = live (get (thr m) j)).
  { intros j. rewrite live_upd by auto. destruct (Nat.eqb_spec j i) as [->|]; auto. now rewrite Hi, Hlx. }
  constructor; cbn [thr pend full token].
  - intros a b t1 s1 t2 s2 Hab. rewrite !HL. eauto.
  - constructor.
  - intros t0 s0 [].
  - intros a t0 s0. rewrite HL. intros E. right.
    destruct (existsb (fun e => snd e =? s0) (pend m)) eqn:Ex.
    + exists RFail. split; auto. exact I.
    + destruct (I_live0 _ _ _ E) as [Hin|(r & Hf & Hrt)].
      * exfalso. assert (existsb (fun e => snd e =? s0) (pend m) = true); [|congruence].
        apply existsb_exists. exists (t0, s0). split; auto. apply Nat.eqb_refl.
      * exists r. auto.
  - intros s0 r. destruct (existsb (fun e => snd e =? s0) (pend m)) eqn:Ex.
    + intros _. apply existsb_exists in Ex. destruct Ex as ([t0 s1] & Hin & He). cbn in He.
      apply Nat.eqb_eq in He. subst s1. destruct (I_pend0 _ _ Hin) as [_ [j B]]. exists j, t0. now rewrite HL.
    + intros E. destruct (I_full0 _ _ E) as (j & t0 & B). exists j, t0. now rewrite HL.
  - intros _ a. rewrite get_upd by auto. destruct (Nat.eqb_spec a i); cbn; auto.
  - intros a b. rewrite !get_upd by auto.
    destruct (Nat.eqb_spec a i), (Nat.eqb_spec b i); cbn; try tauto. apply I_tok_uniq0.
  - discriminate.
  - intros a t0 s0 t1 s1. rewrite get_upd by auto. destruct (Nat.eqb_spec a i); [discriminate|].
    intros E. exfalso. apply (Hnh a); auto. rewrite E. exact I.
  - intros a. rewrite get_upd by auto. destruct (Nat.eqb_spec a i); auto. split; discriminate.
  - intros a t0 s0 r. rewrite get_upd by auto. destruct (Nat.eqb_spec a i); [discriminate|eauto].
Qed.

(** what the broadcast does to the calls that were pending *)
Lemma broadcast_fails_all m i t s :
  existsb (fun e => is_some (full m (snd e))) (pend m) || negb (nodupb (map snd (pend m))) = false ->
  pend (broadcast m i t s) = [] /\
  forall t0 s0, In (t0, s0) (pend m) -> full (broadcast m i t s) s0 = Some RFail.
Proof.
  intros Hchk. unfold broadcast. rewrite Hchk. cbn. split; auto.
  intros t0 s0 Hin.
  assert (E : existsb (fun e => snd e =? s0) (pend m) = true).
  { apply existsb_exists. exists (t0, s0). split; auto. apply Nat.eqb_refl. }
  now rewrite E.
Qed.

(** ---- every step keeps the invariant (fixed code, honest peer) ---- *)
Theorem step_inv m a m' : Inv m -> step true true m a = Some m' -> Inv m'.
Proof.
  intros HI. destruct a as [i t s|i|i|i|i|i|i t' ok|i ok]; cbn [step].
  - destruct (get (thr m) i) eqn:Hi; try discriminate.
    destruct (i <? length (thr m)) eqn:Hr; cbn [andb]; [|discriminate]. apply Nat.ltb_lt in Hr.
    destruct (fresh (thr m) t s) eqn:Hf; [|discriminate].
    intros E; inversion E; subst. now apply step_start.
  - destruct (get (thr m) i) eqn:Hi; try discriminate. intros E; inversion E; subst.
    eapply inv_same_live with (x := TReg t s); eauto; try (intros; discriminate).
    + intros Htok. split; [exact (fun f => f)|]. intros j Hj. exfalso. eapply I_tok_free; eauto.
    + intros [].
    + intros Htok. right. destruct (I_tok_held m HI Htok) as [j Hj]. exists j. split; auto.
      intros ->. rewrite Hi in Hj. destruct Hj.
  - destruct (get (thr m) i) eqn:Hi; try discriminate. intros E; inversion E; subst. now apply step_sendfail.
  - destruct (get (thr m) i) eqn:Hi; try discriminate. destruct (full m s) eqn:Hf; [|discriminate].
    intros E; inversion E; subst. now apply step_waitdone.
  - destruct (get (thr m) i) eqn:Hi; try discriminate.
    destruct (token m) eqn:Htok; cbn [negb andb]; [discriminate|].
    destruct (is_some (full m s)); cbn [negb]; [discriminate|]. intros E; inversion E; subst.
    eapply inv_same_live with (x := TWait t s); eauto; try (intros; discriminate).
    + intros _ j Hj. exfalso. eapply I_tok_free; eauto.
    + intros _. left. exact I.
  - destruct (get (thr m) i) eqn:Hi; try discriminate. intros E; inversion E; subst.
    eapply broadcast_ok; eauto. exact I.
  - destruct (get (thr m) i) eqn:Hi; try discriminate.
    destruct (lookup t' (pend m)) as [s'|] eqn:Hl.
    + destruct ok; cbn [negb].
      * cbn [andb]. destruct (existsb _ (thr m)) eqn:Hex; [discriminate|]. intros E; inversion E; subst.
        assert (Hh : holder (get (thr m) i)) by (rewrite Hi; exact I).
        eapply inv_same_live with (x := TRecv t s); eauto; try (intros; discriminate).
        -- intros t0 s0 t1 s1 E1. inversion E1; subst. split; [now apply lookup_In|now apply noreg_spec].
        -- intros Htok. exfalso. eapply I_tok_free; eauto.
        -- intros _ j Hj. eapply I_tok_uniq; eauto.
        -- intros _. left. exact I.
      * intros E; inversion E; subst. eapply broadcast_ok; eauto. exact I.
    + intros E; inversion E; subst. eapply broadcast_ok; eauto. exact I.
  - destruct (get (thr m) i) eqn:Hi; try discriminate. destruct ok.
    + destruct (step_bodyok _ _ _ _ _ _ HI Hi) as (Hl & He & HI'). rewrite Hl, He. cbn [is_some].
      intros E; inversion E; subst. exact HI'.
    + intros E; inversion E; subst. eapply broadcast_ok; eauto. exact I.
Qed.

Theorem reach_inv n m : reach true true n m -> Inv m.
Proof. induction 1; [apply inv_init|eapply step_inv; eauto]. Qed.

(** ---- consequences ---- *)

(** fail-all: a receive error, an unknown tag, a wrong reply type or an undecodable body completes
    every call pending at that step with an error and empties the pending map; it never blocks *)
Definition fatal_action (m : mst) (a : action) : Prop :=
  match a with
  | ARecvErr _ => True
  | AFrame _ t' ok => lookup t' (pend m) = None \/ ok = false
  | ABody _ ok => ok = false
  | _ => False
  end.

Theorem fail_all n m a m' :
  reach true true n m -> fatal_action m a -> step true true m a = Some m' ->
  pend m' = [] /\ forall t0 s0, In (t0, s0) (pend m) -> full m' s0 = Some RFail.
Proof.
  intros Hre Hf Hs. pose proof (reach_inv _ _ Hre) as HI.
  destruct a as [i t s|i|i|i|i|i|i t' ok|i ok]; cbn in Hf; try contradiction; cbn [step] in Hs.
  - destruct (get (thr m) i) eqn:Hi; try discriminate. inversion Hs; subst.
    destruct (broadcast_ok m i t s _ HI Hi I eq_refl) as [Hc _]. now apply broadcast_fails_all.
  - destruct (get (thr m) i) eqn:Hi; try discriminate.
    destruct (broadcast_ok m i t s _ HI Hi I eq_refl) as [Hc _].
    destruct Hf as [Hn| ->].
    + rewrite Hn in Hs. inversion Hs; subst. now apply broadcast_fails_all.
    + destruct (lookup t' (pend m)); cbn in Hs; inversion Hs; subst; now apply broadcast_fails_all.
  - subst ok. destruct (get (thr m) i) eqn:Hi; try discriminate. inversion Hs; subst.
    destruct (broadcast_ok m i t s _ HI Hi I eq_refl) as [Hc _]. now apply broadcast_fails_all.
Qed.

(** no-stuck: a caller waiting in waitAndRecv can take its result, or take the token, or the token is
    held by another call that is inside recv (blocked on the transport only) while this call is
    still registered.  In particular a call whose reply was consumed (no longer in pending) always
    finds it in its done channel. *)
Theorem no_stuck n m i t s :
  reach true true n m -> get (thr m) i = TWait t s ->
  (exists r, full m s = Some r /\ routed t s r /\ step true true m (AWaitDone i) <> None) \/
  (In (t, s) (pend m) /\ full m s = None /\
   ((token m = false /\ step true true m (AWaitToken i) <> None) \/
    (token m = true /\ exists j, j <> i /\ holder (get (thr m) j)))).
Proof.
  intros Hre Hi. pose proof (reach_inv _ _ Hre) as HI.
  assert (Hl : live (get (thr m) i) = Some (t, s)) by now rewrite Hi.
  destruct (I_live m HI _ _ _ Hl) as [Hin|(r & Hf & Hrt)].
  - right. destruct (I_pend m HI _ _ Hin) as [He _]. split; auto. split; auto.
    destruct (token m) eqn:Htok.
    + right. split; auto. destruct (I_tok_held m HI Htok) as [j Hj]. exists j. split; auto.
      intros ->. rewrite Hi in Hj. destruct Hj.
    + left. split; auto. cbn [step]. rewrite Hi, Htok, He. cbn. discriminate.
  - left. exists r. split; auto. split; auto. cbn [step]. rewrite Hi, Hf. discriminate.
Qed.

(** the holder of the token is never stuck inside the client: whatever the transport delivers is a step *)
Theorem holder_steps wd honest m i :
  holder (get (thr m) i) ->
  step wd honest m (ARecvErr i) <> None \/ forall ok, step wd honest m (ABody i ok) <> None.
Proof.
  destruct (get (thr m) i) eqn:Hi; cbn; try contradiction; intros _.
  - left. cbn [step]. rewrite Hi. discriminate.
  - right. intros ok. cbn [step]. rewrite Hi. destruct ok; [|discriminate].
    destruct (lookup t' (pend m)); [destruct (is_some _)|]; discriminate.
Qed.

(** ---- the model without the withdrawal (dca25c9 reverted): the broadcaster blocks for good ---- *)
Definition trace_stale : list action :=
  [AStart 0 1 0; ASendFail 0;            (* call 0: send fails, entry (1 -> slot 0) stays, slot 0 goes back to the pool *)
   AStart 1 2 0; ASendOk 1;              (* call 1 gets the recycled slot 0 *)
   AWaitToken 1; ARecvErr 1].            (* connection error: two sends on slot 0's done channel *)

Lemma stale_blocks :
  exists m, run false true (init 2) trace_stale = Some m /\ get (thr m) 1 = TBlocked.
Proof. eexists. split; [vm_compute; reflexivity|reflexivity]. Qed.

Lemma stale_fixed :
  exists m, run true true (init 2) trace_stale = Some m /\ get (thr m) 1 = TWait 2 0 /\ full m 0 = Some RFail.
Proof. eexists. split; [vm_compute; reflexivity|split; reflexivity]. Qed.

(** ---- a reply for a tag whose request is just failing to be sent (peer not [honest]) ---- *)
Definition trace_race : list action :=
  [AStart 0 1 0; AStart 1 2 1; ASendOk 1; AWaitToken 1;
   AFrame 1 1 true;      (* header of a reply carrying call 0's tag: lookup finds call 0's slot *)
   ASendFail 0;          (* call 0's send fails: it withdraws its entry *)
   ABody 1 true].        (* completion re-reads pending[1]: nil *response *)

Lemma race_panics :
  exists m, run true false (init 2) trace_race = Some m /\ get (thr m) 1 = TPanic.
Proof. eexists. split; [vm_compute; reflexivity|reflexivity]. Qed.

Lemma race_excluded_when_honest : run true true (init 2) trace_race = None.
Proof. vm_compute. reflexivity. Qed.

Lemma run_reach wd h n tr : forall m m', reach wd h n m -> run wd h m tr = Some m' -> reach wd h n m'.
Proof.
  induction tr as [|a r IH]; intros m m' Hm; cbn.
  - intros E; inversion E; subst; auto.
  - destruct (step wd h m a) as [m1|] eqn:Hs; [|discriminate]. apply IH. eapply reach_step; eauto.
Qed.
