(** C10 — invariant of Client/Mux.v and its consequences, for ALL interleavings
    (induction over [reach]). *)
From Coq Require Import Arith List Bool Lia.
From P9V Require Import Client.Mux.
Import ListNotations.

Arguments get : simpl never.
Arguments upd : simpl never.

(** ---- lists of threads ---- *)
Lemma length_upd l i x : length (upd l i x) = length l.
Proof. unfold upd. revert i; induction l as [|y r IH]; intros [|i]; cbn; auto. Qed.

Lemma get_upd_same l i x : i < length l -> get (upd l i x) i = x.
Proof.
  unfold get, upd. revert i; induction l as [|y r IH]; intros [|i] H; cbn in *; try lia; auto.
  apply IH. lia.
Qed.

Lemma get_upd_other l i x j : j <> i -> get (upd l i x) j = get l j.
Proof.
  unfold get, upd. revert i j; induction l as [|y r IH]; intros [|i] [|j] H; cbn; auto; try congruence.
Qed.

Lemma get_in_range l i : get l i <> TIdle -> i < length l.
Proof.
  unfold get. intros H. destruct (Nat.lt_ge_cases i (length l)); auto.
  rewrite nth_overflow in H; congruence.
Qed.

Lemma get_In l i : i < length l -> In (get l i) l.
Proof. intros. unfold get. now apply nth_In. Qed.

Lemma In_get l x : In x l -> exists i, i < length l /\ get l i = x.
Proof. intros H. destruct (In_nth _ _ TIdle H) as (i & ? & ?). exists i. auto. Qed.

(** ---- the pending map ---- *)
Lemma In_remove a b t p : In (a, b) (remove t p) <-> In (a, b) p /\ a <> t.
Proof.
  induction p as [|[t' s] r IH]; cbn; [tauto|].
  destruct (Nat.eqb_spec t' t) as [->|Hne]; cbn; rewrite IH; split.
  - intros [? ?]; auto.
  - intros [[H|H] ?]; auto. inversion H; subst. congruence.
  - intros [H|[? ?]]; auto. inversion H; subst. auto.
  - intros [[H|H] ?]; auto.
Qed.

Lemma NoDup_remove_fst t p : NoDup (map fst p) -> NoDup (map fst (remove t p)).
Proof.
  induction p as [|[t' s] r IH]; cbn; auto. intros H. inversion H; subst.
  destruct (Nat.eqb_spec t' t); cbn; auto. constructor; auto.
  intros Hin. apply H2. apply in_map_iff in Hin. destruct Hin as ([a b] & Ha & Hb). cbn in Ha; subst.
  apply In_remove in Hb. apply in_map_iff. exists (t', b). tauto.
Qed.

Lemma lookup_In t p s : lookup t p = Some s -> In (t, s) p.
Proof.
  induction p as [|[t' s'] r IH]; cbn; [discriminate|].
  destruct (Nat.eqb_spec t' t) as [->|]; intros H; [inversion H; auto|auto].
Qed.

Lemma lookup_None t p : lookup t p = None -> forall s, ~ In (t, s) p.
Proof.
  induction p as [|[t' s'] r IH]; cbn; [tauto|].
  destruct (Nat.eqb_spec t' t) as [->|Hne]; [discriminate|].
  intros H s [Heq|Hin]; [inversion Heq; congruence|]. eapply IH; eauto.
Qed.

Lemma In_lookup t s p : NoDup (map fst p) -> In (t, s) p -> lookup t p = Some s.
Proof.
  induction p as [|[t' s'] r IH]; cbn; [tauto|]. intros Hnd. inversion Hnd; subst.
  intros [Heq|Hin].
  - inversion Heq; subst. now rewrite Nat.eqb_refl.
  - destruct (Nat.eqb_spec t' t) as [->|Hne]; auto.
    exfalso. apply H1. apply in_map_iff. exists (t, s). auto.
Qed.

Lemma fresh_spec l t s :
  fresh l t s = true <->
  forall j t2 s2, live (get l j) = Some (t2, s2) -> t2 <> t /\ s2 <> s.
Proof.
  unfold fresh. rewrite forallb_forall. split.
  - intros H j t2 s2 Hl.
    assert (Hr : j < length l) by (apply get_in_range; intros E; rewrite E in Hl; discriminate).
    specialize (H _ (get_In l j Hr)). rewrite Hl in H.
    apply andb_true_iff in H. destruct H as [H1 H2].
    apply negb_true_iff in H1, H2. apply Nat.eqb_neq in H1, H2. auto.
  - intros H x Hx. destruct (In_get _ _ Hx) as (j & _ & <-).
    destruct (live (get l j)) as [[t2 s2]|] eqn:E; auto.
    destruct (H _ _ _ E) as [H1 H2]. apply Nat.eqb_neq in H1, H2. now rewrite H1, H2.
Qed.

Lemma owner_of_spec l t s : forall i0 j,
  (forall a b t1 s1 t2 s2, a <> b -> live (get l a) = Some (t1, s1) -> live (get l b) = Some (t2, s2) -> t1 <> t2) ->
  live (get l j) = Some (t, s) -> owner_of l t s i0 = i0 + j.
Proof.
  induction l as [|st r IH]; intros i0 j Hd Hj.
  - unfold get in Hj. destruct j; discriminate.
  - cbn [owner_of]. destruct j as [|j].
    + unfold get in Hj. cbn in Hj. rewrite Hj, !Nat.eqb_refl. cbn. lia.
    + destruct (live st) as [[t2 s2]|] eqn:E.
      * destruct (Nat.eqb_spec t2 t) as [->|Hne]; cbn [andb].
        -- exfalso. apply (Hd 0 (S j) t s2 t s); auto.
        -- rewrite (IH (S i0) j); [lia| |exact Hj].
           intros a b t1 s1 t3 s3 Hab Ha Hb. apply (Hd (S a) (S b) t1 s1 t3 s3); auto.
      * rewrite (IH (S i0) j); [lia| |exact Hj].
        intros a b t1 s1 t3 s3 Hab Ha Hb. apply (Hd (S a) (S b) t1 s1 t3 s3); auto.
Qed.

(** ---- the invariant ---- *)
Definition holder (st : tstate) : Prop :=
  match st with TRecv _ _ | TLooked _ _ _ _ _ => True | _ => False end.

(** a result for call i holding tag t and slot s: the frame carried t, was decoded into slot s's
    message, and that slot was held by call i itself when the frame was accepted *)
Definition routed (i t s : nat) (r : res) : Prop :=
  match r with ROk t' s' o => t' = t /\ s' = s /\ o = i | RFail => True end.

Record Inv (m : mst) : Prop := {
  (* running calls hold pairwise distinct tags and pairwise distinct response slots *)
  I_distinct : forall i j t s t2 s2, i <> j ->
      live (get (thr m) i) = Some (t, s) -> live (get (thr m) j) = Some (t2, s2) -> t <> t2 /\ s <> s2;
  I_nodup : NoDup (map fst (pend m));
  (* every pending slot is owned by exactly one running call, and its done channel is empty *)
  I_pend : forall t s, In (t, s) (pend m) -> full m s = None /\ exists i, live (get (thr m) i) = Some (t, s);
  (* a running call is pending, or its done channel holds ITS result *)
  I_live : forall i t s, live (get (thr m) i) = Some (t, s) ->
      In (t, s) (pend m) \/ exists r, full m s = Some r /\ routed i t s r;
  (* a full done channel belongs to a running call *)
  I_full : forall s r, full m s = Some r -> exists i t, live (get (thr m) i) = Some (t, s);
  I_tok_free : token m = false -> forall i, ~ holder (get (thr m) i);
  I_tok_uniq : forall i j, holder (get (thr m) i) -> holder (get (thr m) j) -> i = j;
  I_tok_held : token m = true -> exists i, holder (get (thr m) i);
  (* a slot withdrawn after a failed send is never held again *)
  I_retired : forall i t s, live (get (thr m) i) = Some (t, s) -> ~ In s (retired m);
  (* between lookup and completion: the slot found was withdrawn for good, or call o' still holds it and is still pending *)
  I_looked : forall i t s t' s' o', get (thr m) i = TLooked t s t' s' o' ->
      In s' (retired m) \/ (live (get (thr m) o') = Some (t', s') /\ In (t', s') (pend m));
  I_good : forall i, get (thr m) i <> TBlocked /\ get (thr m) i <> TPanic;
  I_done : forall i t s r, get (thr m) i = TDone t s r -> routed i t s r
}.

Lemma inv_init n : Inv (init n).
Proof.
  assert (Hg : forall i, get (repeat TIdle n) i = TIdle).
  { intros i. unfold get. destruct (Nat.lt_ge_cases i (length (repeat TIdle n))).
    - apply (repeat_spec n TIdle). now apply nth_In.
    - now apply nth_overflow. }
  unfold init. constructor; cbn [thr pend full token retired]; intros; rewrite ?Hg in *; cbn in *;
    try discriminate; try tauto; try constructor; try congruence.
Qed.

Lemma get_upd l i x j : i < length l -> get (upd l i x) j = if j =? i then x else get l j.
Proof.
  intros H. destruct (Nat.eqb_spec j i) as [->|Hne]; [now apply get_upd_same|now apply get_upd_other].
Qed.

Lemma live_upd l i x j : i < length l ->
  live (get (upd l i x) j) = if j =? i then live x else live (get l j).
Proof. intros H. rewrite get_upd by auto. now destruct (j =? i). Qed.

Lemma live_not_idle st p : live st = Some p -> st <> TIdle.
Proof. destruct st; cbn; congruence. Qed.

(** thread i moves between two states that hold the same tag and slot; pending, done, retired untouched *)
Lemma inv_same_live m i x y tok d :
  Inv m -> get (thr m) i = x -> live y = live x -> x <> TIdle ->
  (forall t s t' s' o', y = TLooked t s t' s' o' ->
      In s' (retired m) \/ (live (get (thr m) o') = Some (t', s') /\ In (t', s') (pend m))) ->
  y <> TBlocked -> y <> TPanic -> (forall t s r, y <> TDone t s r) ->
  (tok = false -> ~ holder y /\ forall j, holder (get (thr m) j) -> j = i) ->
  (holder y -> forall j, holder (get (thr m) j) -> j = i) ->
  (tok = true -> holder y \/ exists j, j <> i /\ holder (get (thr m) j)) ->
  Inv (mkst (upd (thr m) i y) (pend m) (full m) tok (retired m) d).
Proof.
  intros HI Hi Hl Hx Hlook Hb Hp Hd Ht1 Ht2 Ht3.
  assert (Hr : i < length (thr m)) by (apply get_in_range; congruence).
  assert (HL : forall j, live (get (upd (thr m) i y) j) = live (get (thr m) j)).
  { intros j. rewrite live_upd by auto. destruct (Nat.eqb_spec j i) as [->|]; auto. congruence. }
  destruct HI. constructor; cbn [thr pend full token retired].
  - intros a b t s t2 s2 Hab. rewrite !HL. eauto.
  - auto.
  - intros t s Hin. destruct (I_pend0 _ _ Hin) as [A [j B]]. split; auto. exists j. now rewrite HL.
  - intros a t s. rewrite HL. apply I_live0.
  - intros s r Hf. destruct (I_full0 _ _ Hf) as (j & t & B). exists j, t. now rewrite HL.
  - intros Htok a. rewrite get_upd by auto. destruct (Ht1 Htok) as [A B].
    destruct (Nat.eqb_spec a i) as [->|Hne]; auto.
  - intros a b. rewrite !get_upd by auto.
    destruct (Nat.eqb_spec a i) as [->|Ha], (Nat.eqb_spec b i) as [->|Hb'].
    + auto.
    + intros Hy Hh. symmetry. eapply Ht2; eauto.
    + intros Hh Hy. eapply Ht2; eauto.
    + apply I_tok_uniq0.
  - intros Htok. destruct (Ht3 Htok) as [A|(j & Hj & A)].
    + exists i. now rewrite get_upd_same.
    + exists j. now rewrite get_upd_other.
  - intros a t s. rewrite HL. apply I_retired0.
  - intros a t s t' s' o'. rewrite get_upd by auto. rewrite HL. destruct (Nat.eqb_spec a i) as [->|Hne].
    + intros Hy. exact (Hlook _ _ _ _ _ Hy).
    + intros Ha. exact (I_looked0 _ _ _ _ _ _ Ha).
  - intros a. rewrite get_upd by auto. destruct (Nat.eqb_spec a i); auto.
  - intros a t s r. rewrite get_upd by auto. destruct (Nat.eqb_spec a i); [intros E; exfalso; eapply Hd; eauto|eauto].
Qed.

(** ---- AStart ---- *)
Lemma step_start m i t s :
  Inv m -> get (thr m) i = TIdle -> i < length (thr m) -> fresh (thr m) t s = true -> ~ In s (retired m) ->
  Inv (mkst (upd (thr m) i (TReg t s)) ((t, s) :: remove t (pend m)) (full m) (token m) (retired m) (dead m)).
Proof.
  intros HI Hi Hr Hf Hnr. rewrite fresh_spec in Hf. destruct HI.
  assert (F1 : forall t0 s0, In (t0, s0) (pend m) -> t0 <> t).
  { intros t0 s0 Hin. destruct (I_pend0 _ _ Hin) as [_ [j B]]. now destruct (Hf _ _ _ B). }
  assert (F2 : full m s = None).
  { destruct (full m s) eqn:E; auto. destruct (I_full0 _ _ E) as (j & t0 & B). destruct (Hf _ _ _ B); congruence. }
  assert (HL : forall j, live (get (upd (thr m) i (TReg t s)) j) = if j =? i then Some (t, s) else live (get (thr m) j)).
  { intros j. now rewrite live_upd. }
  assert (Hidle : forall j p, live (get (thr m) j) = Some p -> j <> i).
  { intros j p Hj ->. rewrite Hi in Hj. discriminate. }
  constructor; cbn [thr pend full token retired].
  - intros a b t1 s1 t2 s2 Hab. rewrite !HL.
    destruct (Nat.eqb_spec a i) as [->|Ha], (Nat.eqb_spec b i) as [->|Hb]; try congruence.
    + intros E1 E2. inversion E1; subst. destruct (Hf _ _ _ E2). split; congruence.
    + intros E1 E2. inversion E2; subst. destruct (Hf _ _ _ E1). split; congruence.
    + eauto.
  - cbn. constructor; [|now apply NoDup_remove_fst].
    intros Hin. apply in_map_iff in Hin. destruct Hin as ([a b] & Ha & Hb). cbn in Ha; subst.
    apply In_remove in Hb. tauto.
  - intros t0 s0 [E|Hin].
    + inversion E; subst. split; auto. exists i. rewrite HL. now rewrite Nat.eqb_refl.
    + apply In_remove in Hin. destruct Hin as [Hin _]. destruct (I_pend0 _ _ Hin) as [A [j B]]. split; auto.
      exists j. rewrite HL. destruct (Nat.eqb_spec j i) as [->|]; auto. exfalso. eapply Hidle; eauto.
  - intros a t0 s0. rewrite HL. destruct (Nat.eqb_spec a i) as [->|Ha].
    + intros E; inversion E; subst. left. now left.
    + intros E. destruct (I_live0 _ _ _ E) as [Hin|Hfull]; auto.
      left. right. apply In_remove. split; auto. now destruct (Hf _ _ _ E).
  - intros s0 r E. destruct (I_full0 _ _ E) as (j & t0 & B). exists j, t0. rewrite HL.
    destruct (Nat.eqb_spec j i) as [->|]; auto. exfalso. eapply Hidle; eauto.
  - intros Htok a. rewrite get_upd by auto. destruct (Nat.eqb_spec a i); cbn; auto.
  - intros a b. rewrite !get_upd by auto.
    destruct (Nat.eqb_spec a i), (Nat.eqb_spec b i); cbn; try tauto. apply I_tok_uniq0.
  - intros Htok. destruct (I_tok_held0 Htok) as [j B]. exists j. rewrite get_upd by auto.
    destruct (Nat.eqb_spec j i) as [->|]; auto. rewrite Hi in B. destruct B.
  - intros a t0 s0. rewrite HL. destruct (Nat.eqb_spec a i) as [->|Ha].
    + intros E; inversion E; subst. exact Hnr.
    + apply I_retired0.
  - intros a t0 s0 t' s' o'. rewrite get_upd by auto. destruct (Nat.eqb_spec a i); [discriminate|].
    intros E. destruct (I_looked0 _ _ _ _ _ _ E) as [A|[A B]]; [now left|right]. split.
    + rewrite HL. destruct (Nat.eqb_spec o' i) as [->|]; auto. exfalso. eapply Hidle; eauto.
    + right. apply In_remove. split; auto. eapply F1; eauto.
  - intros a. rewrite get_upd by auto. destruct (Nat.eqb_spec a i); auto. split; discriminate.
  - intros a t0 s0 r. rewrite get_upd by auto. destruct (Nat.eqb_spec a i); [discriminate|eauto].
Qed.

(** ---- ASendFail: withdrawal (dca25c9) and retirement of the slot (79e8d00) ---- *)
Lemma step_sendfail m i t s :
  Inv m -> get (thr m) i = TReg t s ->
  Inv (mkst (upd (thr m) i (TDone t s RFail))
            (match lookup t (pend m) with
             | Some s' => if s' =? s then remove t (pend m) else pend m
             | None => pend m
             end)
            (fset (full m) s None) (token m) (s :: retired m) (dead m)).
Proof.
  intros HI Hi.
  assert (Hr : i < length (thr m)) by (apply get_in_range; rewrite Hi; discriminate).
  assert (Hli : live (get (thr m) i) = Some (t, s)) by now rewrite Hi.
  destruct HI.
  set (p' := match lookup t (pend m) with Some s' => if s' =? s then remove t (pend m) else pend m | None => pend m end).
  assert (Hp : forall a b, In (a, b) p' <-> In (a, b) (pend m) /\ a <> t).
  { intros a b. subst p'. destruct (lookup t (pend m)) as [s'|] eqn:E.
    - apply lookup_In in E. destruct (I_pend0 _ _ E) as [_ [j B]].
      assert (j = i).
      { destruct (Nat.eq_dec j i); auto. destruct (I_distinct0 _ _ _ _ _ _ n B Hli); congruence. }
      subst j. rewrite Hli in B. inversion B; subst. rewrite Nat.eqb_refl. apply In_remove.
    - split; [|tauto]. intros Hin. split; auto. intros ->. eapply lookup_None; eauto. }
  assert (Hnd : NoDup (map fst p')).
  { subst p'. destruct (lookup t (pend m)); [destruct (_ =? _)|]; auto. now apply NoDup_remove_fst. }
  clearbody p'.
  assert (HL : forall j, live (get (upd (thr m) i (TDone t s RFail)) j) = if j =? i then None else live (get (thr m) j)).
  { intros j. now rewrite live_upd. }
  constructor; cbn [thr pend full token retired].
  - intros a b t1 s1 t2 s2 Hab. rewrite !HL.
    destruct (Nat.eqb_spec a i), (Nat.eqb_spec b i); try discriminate. eauto.
  - auto.
  - intros t0 s0 Hin. apply Hp in Hin. destruct Hin as [Hin Hne]. destruct (I_pend0 _ _ Hin) as [A [j B]].
    assert (Hji : j <> i) by (intros ->; rewrite Hli in B; congruence).
    destruct (I_distinct0 _ _ _ _ _ _ Hji B Hli) as [_ Hs]. split.
    + unfold fset. destruct (Nat.eqb_spec s0 s); auto.
    + exists j. rewrite HL. destruct (Nat.eqb_spec j i); [congruence|auto].
  - intros a t0 s0. rewrite HL. destruct (Nat.eqb_spec a i) as [->|Ha]; [discriminate|].
    intros E. destruct (I_distinct0 _ _ _ _ _ _ Ha E Hli) as [Ht Hs].
    destruct (I_live0 _ _ _ E) as [Hin|(r & Hf & Hrt)].
    + left. apply Hp. auto.
    + right. exists r. split; auto. unfold fset. destruct (Nat.eqb_spec s0 s); [congruence|auto].
  - intros s0 r. unfold fset. destruct (Nat.eqb_spec s0 s); [discriminate|]. intros E.
    destruct (I_full0 _ _ E) as (j & t0 & B). exists j, t0. rewrite HL.
    destruct (Nat.eqb_spec j i) as [->|]; auto. rewrite Hli in B. congruence.
  - intros Htok a. rewrite get_upd by auto. destruct (Nat.eqb_spec a i); cbn; auto.
  - intros a b. rewrite !get_upd by auto.
    destruct (Nat.eqb_spec a i), (Nat.eqb_spec b i); cbn; try tauto. apply I_tok_uniq0.
  - intros Htok. destruct (I_tok_held0 Htok) as [j B]. exists j. rewrite get_upd by auto.
    destruct (Nat.eqb_spec j i) as [->|]; auto. rewrite Hi in B. destruct B.
  - intros a t0 s0. rewrite HL. destruct (Nat.eqb_spec a i) as [->|Ha]; [discriminate|].
    intros E [Hs|Hin].
    + destruct (I_distinct0 _ _ _ _ _ _ Ha E Hli); congruence.
    + eapply I_retired0; eauto.
  - intros a t0 s0 t' s' o'. rewrite get_upd by auto. destruct (Nat.eqb_spec a i); [discriminate|].
    intros E. destruct (I_looked0 _ _ _ _ _ _ E) as [A|[A B]]; [left; now right|].
    destruct (Nat.eq_dec o' i) as [->|Ho].
    + rewrite Hli in A. inversion A; subst. left. now left.
    + right. split.
      * rewrite HL. destruct (Nat.eqb_spec o' i); [congruence|auto].
      * apply Hp. split; auto. destruct (I_distinct0 _ _ _ _ _ _ Ho A Hli); auto.
  - intros a. rewrite get_upd by auto. destruct (Nat.eqb_spec a i); auto. split; discriminate.
  - intros a t0 s0 r. rewrite get_upd by auto. destruct (Nat.eqb_spec a i); [|eauto].
    intros E; inversion E; subst. exact I.
Qed.

(** ---- AWaitDone ---- *)
Lemma step_waitdone m i t s r :
  Inv m -> get (thr m) i = TWait t s -> full m s = Some r ->
  Inv (mkst (upd (thr m) i (TDone t s r)) (pend m) (fset (full m) s None) (token m) (retired m) (dead m)).
Proof.
  intros HI Hi Hfull.
  assert (Hr : i < length (thr m)) by (apply get_in_range; rewrite Hi; discriminate).
  assert (Hli : live (get (thr m) i) = Some (t, s)) by now rewrite Hi.
  destruct HI.
  assert (HL : forall j, live (get (upd (thr m) i (TDone t s r)) j) = if j =? i then None else live (get (thr m) j)).
  { intros j. now rewrite live_upd. }
  constructor; cbn [thr pend full token retired].
  - intros a b t1 s1 t2 s2 Hab. rewrite !HL.
    destruct (Nat.eqb_spec a i), (Nat.eqb_spec b i); try discriminate. eauto.
  - auto.
  - intros t0 s0 Hin. destruct (I_pend0 _ _ Hin) as [A [j B]].
    assert (Hs : s0 <> s) by congruence. split.
    + unfold fset. destruct (Nat.eqb_spec s0 s); auto.
    + exists j. rewrite HL. destruct (Nat.eqb_spec j i) as [->|]; auto. rewrite Hli in B. congruence.
  - intros a t0 s0. rewrite HL. destruct (Nat.eqb_spec a i) as [->|Ha]; [discriminate|].
    intros E. destruct (I_distinct0 _ _ _ _ _ _ Ha E Hli) as [Ht Hs].
    destruct (I_live0 _ _ _ E) as [Hin|(r' & Hf & Hrt)]; auto.
    right. exists r'. split; auto. unfold fset. destruct (Nat.eqb_spec s0 s); [congruence|auto].
  - intros s0 r'. unfold fset. destruct (Nat.eqb_spec s0 s); [discriminate|]. intros E.
    destruct (I_full0 _ _ E) as (j & t0 & B). exists j, t0. rewrite HL.
    destruct (Nat.eqb_spec j i) as [->|]; auto. rewrite Hli in B. congruence.
  - intros Htok a. rewrite get_upd by auto. destruct (Nat.eqb_spec a i); cbn; auto.
  - intros a b. rewrite !get_upd by auto.
    destruct (Nat.eqb_spec a i), (Nat.eqb_spec b i); cbn; try tauto. apply I_tok_uniq0.
  - intros Htok. destruct (I_tok_held0 Htok) as [j B]. exists j. rewrite get_upd by auto.
    destruct (Nat.eqb_spec j i) as [->|]; auto. rewrite Hi in B. destruct B.
  - intros a t0 s0. rewrite HL. destruct (Nat.eqb_spec a i); [discriminate|apply I_retired0].
  - intros a t0 s0 t' s' o'. rewrite get_upd by auto. destruct (Nat.eqb_spec a i); [discriminate|].
    intros E. destruct (I_looked0 _ _ _ _ _ _ E) as [A|[A B]]; [now left|right]. split; auto.
    rewrite HL. destruct (Nat.eqb_spec o' i) as [->|]; auto.
    exfalso. rewrite Hli in A. inversion A; subst. destruct (I_pend0 _ _ B). congruence.
  - intros a. rewrite get_upd by auto. destruct (Nat.eqb_spec a i); auto. split; discriminate.
  - intros a t0 s0 r0. rewrite get_upd by auto. destruct (Nat.eqb_spec a i); [|eauto].
    intros E; inversion E; subst.
    destruct (I_live0 _ _ _ Hli) as [Hin|(r' & Hf & Hrt)].
    + destruct (I_pend0 _ _ Hin). congruence.
    + congruence.
Qed.

(** the token holder stops holding: nobody holds afterwards *)
Lemma no_holder_left m i : Inv m -> holder (get (thr m) i) ->
  forall j, j <> i -> ~ holder (get (thr m) j).
Proof. intros HI Hh j Hne Hj. apply Hne. eapply I_tok_uniq; eauto. Qed.

(** ---- ABody ok, pending[t'] is still the slot the lookup found: completion ---- *)
Lemma step_body_complete m i t s t' s' o' :
  Inv m -> get (thr m) i = TLooked t s t' s' o' -> lookup t' (pend m) = Some s' ->
  full m s' = None /\
  Inv (mkst (upd (thr m) i (TWait t s)) (remove t' (pend m)) (fset (full m) s' (Some (ROk t' s' o'))) false (retired m) (dead m)).
Proof.
  intros HI Hi Hlk.
  assert (Hr : i < length (thr m)) by (apply get_in_range; rewrite Hi; discriminate).
  assert (Hhold : holder (get (thr m) i)) by (rewrite Hi; exact I).
  pose proof (no_holder_left m i HI Hhold) as Hnh.
  destruct HI.
  pose proof (lookup_In _ _ _ Hlk) as Hin.
  destruct (I_pend0 _ _ Hin) as [Hempty [jo Hjo]].
  assert (Hown : live (get (thr m) o') = Some (t', s')).
  { destruct (I_looked0 _ _ _ _ _ _ Hi) as [A|[A _]]; auto. exfalso. eapply I_retired0; eauto. }
  assert (jo = o').
  { destruct (Nat.eq_dec jo o'); auto. destruct (I_distinct0 _ _ _ _ _ _ n Hjo Hown); congruence. }
  subst jo. split; [exact Hempty|].
  assert (HL : forall j, live (get (upd (thr m) i (TWait t s)) j) = live (get (thr m) j)).
  { intros j. rewrite live_upd by auto. destruct (Nat.eqb_spec j i) as [->|]; auto. now rewrite Hi. }
  constructor; cbn [thr pend full token retired].
  - intros a b t1 s1 t2 s2 Hab. rewrite !HL. eauto.
  - now apply NoDup_remove_fst.
  - intros t0 s0 Hin0. apply In_remove in Hin0. destruct Hin0 as [Hin0 Hne].
    destruct (I_pend0 _ _ Hin0) as [A [j B]]. split.
    + unfold fset. destruct (Nat.eqb_spec s0 s') as [->|]; auto.
      exfalso. assert (j <> o') by (intros ->; rewrite Hown in B; congruence).
      destruct (I_distinct0 _ _ _ _ _ _ H B Hown); congruence.
    + exists j. now rewrite HL.
  - intros a t0 s0. rewrite HL. intros E. destruct (I_live0 _ _ _ E) as [Hin0|(r & Hf & Hrt)].
    + destruct (Nat.eq_dec t0 t') as [->|Hne].
      * right. pose proof (In_lookup _ _ _ I_nodup0 Hin0) as L1.
        assert (s0 = s') by congruence. subst s0.
        assert (a = o').
        { destruct (Nat.eq_dec a o'); auto. destruct (I_distinct0 _ _ _ _ _ _ n E Hown); congruence. }
        subst a. exists (ROk t' s' o'). split; [|cbn; auto]. unfold fset. now rewrite Nat.eqb_refl.
      * left. apply In_remove. auto.
    + right. exists r. split; auto. unfold fset. destruct (Nat.eqb_spec s0 s'); [congruence|auto].
  - intros s0 r. unfold fset. destruct (Nat.eqb_spec s0 s') as [->|].
    + intros _. exists o', t'. now rewrite HL.
    + intros E. destruct (I_full0 _ _ E) as (j & t0 & B). exists j, t0. now rewrite HL.
  - intros _ a. rewrite get_upd by auto. destruct (Nat.eqb_spec a i); cbn; auto.
  - intros a b. rewrite !get_upd by auto.
    destruct (Nat.eqb_spec a i), (Nat.eqb_spec b i); cbn; try tauto. apply I_tok_uniq0.
  - discriminate.
  - intros a t0 s0. rewrite HL. apply I_retired0.
  - intros a t0 s0 t1 s1 o1. rewrite get_upd by auto. destruct (Nat.eqb_spec a i); [discriminate|].
    intros E. exfalso. apply (Hnh a); auto. rewrite E. exact I.
  - intros a. rewrite get_upd by auto. destruct (Nat.eqb_spec a i); auto. split; discriminate.
  - intros a t0 s0 r. rewrite get_upd by auto. destruct (Nat.eqb_spec a i); [discriminate|eauto].
Qed.

(** ---- ABody ok, but the entry is gone or belongs to another slot: the frame is dropped ---- *)
Lemma step_body_drop m i t s t' s' o' :
  Inv m -> get (thr m) i = TLooked t s t' s' o' ->
  Inv (mkst (upd (thr m) i (TWait t s)) (pend m) (full m) false (retired m) (dead m)).
Proof.
  intros HI Hi.
  assert (Hhold : holder (get (thr m) i)) by (rewrite Hi; exact I).
  eapply inv_same_live with (x := TLooked t s t' s' o'); eauto; try (intros; discriminate).
  - intros _. split; [exact (fun f => f)|]. intros j Hj. eapply I_tok_uniq; eauto.
  - intros [].
Qed.

(** ---- broadcast never blocks, and fails every pending call ---- *)
Lemma nodupb_spec l : nodupb l = true <-> NoDup l.
Proof.
  induction l as [|x r IH]; cbn; [split; intros; auto; constructor|].
  rewrite andb_true_iff, negb_true_iff, IH. split.
  - intros [A B]. constructor; auto. intros Hin.
    assert (existsb (Nat.eqb x) r = true) by (apply existsb_exists; exists x; split; auto; apply Nat.eqb_refl).
    congruence.
  - intros H. inversion H; subst. split; auto.
    destruct (existsb (Nat.eqb x) r) eqn:E; auto. apply existsb_exists in E. destruct E as (y & Hy & He).
    apply Nat.eqb_eq in He. subst. contradiction.
Qed.

Lemma nodup_snd (p : list (nat * nat)) :
  NoDup (map fst p) ->
  (forall t1 s1 t2 s2, In (t1, s1) p -> In (t2, s2) p -> s1 = s2 -> t1 = t2) ->
  NoDup (map snd p).
Proof.
  induction p as [|[t s] r IH]; cbn; [constructor|]. intros Hnd H. inversion Hnd; subst.
  constructor.
  - intros Hin. apply in_map_iff in Hin. destruct Hin as ([t2 s2] & E & Hin). cbn in E; subst.
    assert (t = t2) by (eapply (H t s t2 s); auto). subst.
    apply H2. apply in_map_iff. exists (t2, s). auto.
  - apply IH; auto. intros. eapply H; eauto.
Qed.

Lemma broadcast_ok m i t s x :
  Inv m -> get (thr m) i = x -> holder x -> live x = Some (t, s) ->
  existsb (fun e => is_some (full m (snd e))) (pend m) || negb (nodupb (map snd (pend m))) = false /\
  Inv (broadcast m i t s).
Proof.
  intros HI Hi Hh Hlx.
  assert (Hr : i < length (thr m)) by (apply get_in_range; rewrite Hi; eapply live_not_idle; eauto).
  assert (Hhold : holder (get (thr m) i)) by now rewrite Hi.
  pose proof (no_holder_left m i HI Hhold) as Hnh.
  destruct HI.
  assert (Hchk : existsb (fun e => is_some (full m (snd e))) (pend m) || negb (nodupb (map snd (pend m))) = false).
  { apply orb_false_iff. split.
    - destruct (existsb _ _) eqn:E; auto. apply existsb_exists in E. destruct E as ([t0 s0] & Hin & Hs).
      destruct (I_pend0 _ _ Hin) as [A _]. cbn in Hs. rewrite A in Hs. discriminate.
    - apply negb_false_iff. apply nodupb_spec. apply nodup_snd; auto.
      intros t1 s1 t2 s2 H1 H2 <-.
      destruct (I_pend0 _ _ H1) as [_ [j1 B1]]. destruct (I_pend0 _ _ H2) as [_ [j2 B2]].
      destruct (Nat.eq_dec j1 j2) as [->|Hne]; [congruence|].
      destruct (I_distinct0 _ _ _ _ _ _ Hne B1 B2); congruence. }
  split; [exact Hchk|]. unfold broadcast. rewrite Hchk.
  assert (HL : forall j, live (get (upd (thr m) i (TWait t s)) j) = live (get (thr m) j)).
  { intros j. rewrite live_upd by auto. destruct (Nat.eqb_spec j i) as [->|]; auto. now rewrite Hi, Hlx. }
  constructor; cbn [thr pend full token retired].
  - intros a b t1 s1 t2 s2 Hab. rewrite !HL. eauto.
  - constructor.
  - intros t0 s0 [].
  - intros a t0 s0. rewrite HL. intros E. right.
    destruct (existsb (fun e => snd e =? s0) (pend m)) eqn:Ex.
    + exists RFail. split; auto. exact I.
    + destruct (I_live0 _ _ _ E) as [Hin|(r & Hf & Hrt)].
      * exfalso. assert (existsb (fun e => snd e =? s0) (pend m) = true); [|congruence].
        apply existsb_exists. exists (t0, s0). split; auto. apply Nat.eqb_refl.
      * exists r. auto.
  - intros s0 r. destruct (existsb (fun e => snd e =? s0) (pend m)) eqn:Ex.
    + intros _. apply existsb_exists in Ex. destruct Ex as ([t0 s1] & Hin & He). cbn in He.
      apply Nat.eqb_eq in He. subst s1. destruct (I_pend0 _ _ Hin) as [_ [j B]]. exists j, t0. now rewrite HL.
    + intros E. destruct (I_full0 _ _ E) as (j & t0 & B). exists j, t0. now rewrite HL.
  - intros _ a. rewrite get_upd by auto. destruct (Nat.eqb_spec a i); cbn; auto.
  - intros a b. rewrite !get_upd by auto.
    destruct (Nat.eqb_spec a i), (Nat.eqb_spec b i); cbn; try tauto. apply I_tok_uniq0.
  - discriminate.
  - intros a t0 s0. rewrite HL. apply I_retired0.
  - intros a t0 s0 t1 s1 o1. rewrite get_upd by auto. destruct (Nat.eqb_spec a i); [discriminate|].
    intros E. exfalso. apply (Hnh a); auto. rewrite E. exact I.
  - intros a. rewrite get_upd by auto. destruct (Nat.eqb_spec a i); auto. split; discriminate.
  - intros a t0 s0 r. rewrite get_upd by auto. destruct (Nat.eqb_spec a i); [discriminate|eauto].
Qed.

Lemma broadcast_fails_all m i t s :
  existsb (fun e => is_some (full m (snd e))) (pend m) || negb (nodupb (map snd (pend m))) = false ->
  pend (broadcast m i t s) = [] /\ dead (broadcast m i t s) = dead m /\
  (i < length (thr m) -> get (thr (broadcast m i t s)) i = TWait t s) /\
  (forall j, j <> i -> get (thr (broadcast m i t s)) j = get (thr m) j) /\
  (forall x, full (broadcast m i t s) x = if existsb (fun e => snd e =? x) (pend m) then Some RFail else full m x) /\
  forall t0 s0, In (t0, s0) (pend m) -> full (broadcast m i t s) s0 = Some RFail.
Proof.
  intros Hchk. unfold broadcast. rewrite Hchk. cbn. split; auto. split; auto. split.
  - intros Hr. now apply get_upd_same.
  - split; [intros j Hj; now apply get_upd_other|]. split; auto.
    intros t0 s0 Hin.
    assert (E : existsb (fun e => snd e =? s0) (pend m) = true).
    { apply existsb_exists. exists (t0, s0). split; auto. apply Nat.eqb_refl. }
    now rewrite E.
Qed.

Lemma inv_kill m : Inv m -> Inv (mkst (thr m) (pend m) (full m) (token m) (retired m) true).
Proof. intros HI. destruct HI. constructor; cbn [thr pend full token retired]; auto. Qed.

Lemma inv_setthr m l : Inv (mkst l (pend m) (full m) (token m) (retired m) (dead m)) -> Inv (setthr m l).
Proof. auto. Qed.

(** ---- every step keeps the invariant: the code as fixed (dca25c9, 79e8d00), ARBITRARY peer ---- *)
Theorem step_inv mk m a m' : Inv m -> step true true true mk m a = Some m' -> Inv m'.
Proof.
  intros HI. destruct a as [i t s|i|i|i|i|i|i t' ok|i ok|]; cbn [step].
  - destruct (get (thr m) i) eqn:Hi; try discriminate.
    destruct (i <? length (thr m)) eqn:Hr; cbn [andb]; [|discriminate]. apply Nat.ltb_lt in Hr.
    destruct (fresh (thr m) t s) eqn:Hf; cbn [andb]; [|discriminate].
    destruct (existsb (Nat.eqb s) (retired m)) eqn:Hx; cbn [negb]; [discriminate|].
    intros E; inversion E; subst. apply step_start; auto.
    intros Hin. assert (existsb (Nat.eqb s) (retired m) = true); [|congruence].
    apply existsb_exists. exists s. split; auto. apply Nat.eqb_refl.
  - destruct (get (thr m) i) eqn:Hi; try discriminate. destruct (dead m); [discriminate|].
    intros E; inversion E; subst. apply inv_setthr.
    eapply inv_same_live with (x := TReg t s); eauto; try (intros; discriminate).
    + intros Htok. split; [exact (fun f => f)|]. intros j Hj. exfalso. eapply I_tok_free; eauto.
    + intros [].
    + intros Htok. right. destruct (I_tok_held m HI Htok) as [j Hj]. exists j. split; auto.
      intros ->. rewrite Hi in Hj. destruct Hj.
  - destruct (get (thr m) i) eqn:Hi; try discriminate. intros E; inversion E; subst. now apply step_sendfail.
  - destruct (get (thr m) i) eqn:Hi; try discriminate. destruct (full m s) eqn:Hf; [|discriminate].
    intros E; inversion E; subst. now apply step_waitdone.
  - destruct (get (thr m) i) eqn:Hi; try discriminate.
    destruct (token m) eqn:Htok; cbn [negb andb]; [discriminate|].
    destruct (is_some (full m s)); cbn [negb]; [discriminate|]. intros E; inversion E; subst.
    eapply inv_same_live with (x := TWait t s); eauto; try (intros; discriminate).
    + intros _ j Hj. exfalso. eapply I_tok_free; eauto.
    + intros _. left. exact I.
  - destruct (get (thr m) i) eqn:Hi; try discriminate. intros E; inversion E; subst.
    assert (HIb : Inv (broadcast m i t s)) by (eapply broadcast_ok; eauto; exact I).
    destruct mk; [now apply inv_kill|exact HIb].
  - destruct (get (thr m) i) eqn:Hi; try discriminate. destruct (dead m); [discriminate|].
    destruct (lookup t' (pend m)) as [s'|] eqn:Hl.
    + destruct ok; cbn [negb].
      * intros E; inversion E; subst. apply inv_setthr.
        assert (Hh : holder (get (thr m) i)) by (rewrite Hi; exact I).
        eapply inv_same_live with (x := TRecv t s); eauto; try (intros; discriminate).
        -- intros t0 s0 t1 s1 o1 E1. inversion E1; subst. right.
           pose proof (lookup_In _ _ _ Hl) as Hin. split; auto.
           destruct (I_pend m HI _ _ Hin) as [_ [j Hj]].
           rewrite (owner_of_spec (thr m) t1 s1 0 j); auto.
           intros a b x1 y1 x2 y2 Hab Ha Hb. destruct (I_distinct m HI _ _ _ _ _ _ Hab Ha Hb); auto.
        -- intros Htok. exfalso. eapply I_tok_free; eauto.
        -- intros _ j Hj. eapply I_tok_uniq; eauto.
        -- intros _. left. exact I.
      * intros E; inversion E; subst. eapply broadcast_ok; eauto. exact I.
    + intros E; inversion E; subst. eapply broadcast_ok; eauto. exact I.
  - destruct (get (thr m) i) eqn:Hi; try discriminate. destruct ok.
    + destruct (dead m) eqn:Hd; [discriminate|].
      pose proof (step_body_drop _ _ _ _ _ _ _ HI Hi) as Hdrop. rewrite Hd in Hdrop.
      destruct (lookup t' (pend m)) as [s''|] eqn:Hl; cbn [andb].
      * destruct (Nat.eqb_spec s'' s') as [->|Hne]; cbn [negb].
        -- destruct (step_body_complete _ _ _ _ _ _ _ HI Hi Hl) as (He & HI'). rewrite He. cbn [is_some].
           rewrite Hd in HI'. intros E; inversion E; subst. exact HI'.
        -- intros E; inversion E; subst. exact Hdrop.
      * intros E; inversion E; subst. exact Hdrop.
    + intros E; inversion E; subst. eapply broadcast_ok; eauto. exact I.
  - intros E; inversion E; subst. now apply inv_kill.
Qed.

Theorem reach_inv mk n m : reach true true true mk n m -> Inv m.
Proof. induction 1; [apply inv_init|eapply step_inv; eauto]. Qed.

Lemma run_reach wd k c mk n tr : forall m m', reach wd k c mk n m -> run wd k c mk m tr = Some m' -> reach wd k c mk n m'.
Proof.
  induction tr as [|a r IH]; intros m m' Hm; cbn.
  - intros E; inversion E; subst; auto.
  - destruct (step wd k c mk m a) as [m1|] eqn:Hs; [|discriminate]. apply IH. eapply reach_step; eauto.
Qed.

(** ---- consequences ---- *)

Definition fatal_action (m : mst) (a : action) : Prop :=
  match a with
  | ARecvErr _ => True
  | AFrame _ t' ok => lookup t' (pend m) = None \/ ok = false
  | ABody _ ok => ok = false
  | _ => False
  end.

Theorem fail_all mk n m a m' :
  reach true true true mk n m -> fatal_action m a -> step true true true mk m a = Some m' ->
  pend m' = [] /\ forall t0 s0, In (t0, s0) (pend m) -> full m' s0 = Some RFail.
Proof.
  intros Hre Hf Hs. pose proof (reach_inv _ _ _ Hre) as HI.
  destruct a as [i t s|i|i|i|i|i|i t' ok|i ok|]; cbn in Hf; try contradiction; cbn [step] in Hs.
  - destruct (get (thr m) i) eqn:Hi; try discriminate. inversion Hs; subst.
    destruct (broadcast_ok m i t s _ HI Hi I eq_refl) as [Hc _].
    destruct (broadcast_fails_all m i t s Hc) as (A & _ & _ & _ & _ & B). destruct mk; cbn [pend full]; auto.
  - destruct (get (thr m) i) eqn:Hi; try discriminate. destruct (dead m); [discriminate|].
    destruct (broadcast_ok m i t s _ HI Hi I eq_refl) as [Hc _].
    destruct (broadcast_fails_all m i t s Hc) as (A & _ & _ & _ & _ & B).
    destruct Hf as [Hn| ->].
    + rewrite Hn in Hs. inversion Hs; subst. auto.
    + destruct (lookup t' (pend m)); cbn in Hs; inversion Hs; subst; auto.
  - subst ok. destruct (get (thr m) i) eqn:Hi; try discriminate. inversion Hs; subst.
    destruct (broadcast_ok m i t s _ HI Hi I eq_refl) as [Hc _].
    destruct (broadcast_fails_all m i t s Hc) as (A & _ & _ & _ & _ & B). auto.
Qed.

Theorem no_stuck mk n m i t s :
  reach true true true mk n m -> get (thr m) i = TWait t s ->
  (exists r, full m s = Some r /\ routed i t s r /\ step true true true mk m (AWaitDone i) <> None) \/
  (In (t, s) (pend m) /\ full m s = None /\
   ((token m = false /\ step true true true mk m (AWaitToken i) <> None) \/
    (token m = true /\ exists j, j <> i /\ holder (get (thr m) j)))).
Proof.
  intros Hre Hi. pose proof (reach_inv _ _ _ Hre) as HI.
  assert (Hl : live (get (thr m) i) = Some (t, s)) by now rewrite Hi.
  destruct (I_live m HI _ _ _ Hl) as [Hin|(r & Hf & Hrt)].
  - right. destruct (I_pend m HI _ _ Hin) as [He _]. split; auto. split; auto.
    destruct (token m) eqn:Htok.
    + right. split; auto. destruct (I_tok_held m HI Htok) as [j Hj]. exists j. split; auto.
      intros ->. rewrite Hi in Hj. destruct Hj.
    + left. split; auto. cbn [step]. rewrite Hi, Htok, He. cbn. discriminate.
  - left. exists r. split; auto. split; auto. cbn [step]. rewrite Hi, Hf. discriminate.
Qed.

(** the holder of the token is never stuck inside the client: a receive error / a failing body read is always a step *)
Theorem holder_steps wd k c mk m i :
  holder (get (thr m) i) ->
  step wd k c mk m (ARecvErr i) <> None \/ step wd k c mk m (ABody i false) <> None.
Proof.
  destruct (get (thr m) i) eqn:Hi; cbn; try contradiction; intros _.
  - left. cbn [step]. rewrite Hi. discriminate.
  - right. cbn [step]. rewrite Hi. discriminate.
Qed.

(** ---- later calls fail: once the connection is dead, a call that has not started yet can only return an error ---- *)
Definition doomed (m : mst) (i : nat) : Prop :=
  match get (thr m) i with
  | TIdle => True
  | TReg _ s | TWait _ s | TRecv _ s => full m s = None \/ full m s = Some RFail
  | TDone _ _ r => r = RFail
  | _ => False
  end.

Lemma doomed_step mk m a m' i :
  Inv m -> dead m = true -> doomed m i -> step true true true mk m a = Some m' ->
  dead m' = true /\ doomed m' i.
Proof.
  intros HI Hd Hdm Hs. unfold doomed in *.
  assert (Hbc : forall j t s x, get (thr m) j = x -> holder x -> live x = Some (t, s) ->
            dead (broadcast m j t s) = true /\
            match get (thr (broadcast m j t s)) i with
            | TIdle => True
            | TReg _ s0 | TWait _ s0 | TRecv _ s0 =>
                full (broadcast m j t s) s0 = None \/ full (broadcast m j t s) s0 = Some RFail
            | TDone _ _ r => r = RFail
            | _ => False
            end).
  { intros j t s x Hj Hh Hl. destruct (broadcast_ok m j t s x HI Hj Hh Hl) as [Hc _].
    destruct (broadcast_fails_all m j t s Hc) as (_ & Hdd & Hsame & Hoth & Hfull & _).
    split; [congruence|].
    assert (Hr : j < length (thr m)) by (apply get_in_range; rewrite Hj; eapply live_not_idle; eauto).
    destruct (Nat.eq_dec i j) as [->|Hne].
    - rewrite Hsame by auto. rewrite Hfull.
      rewrite Hj in Hdm. destruct x; cbn in Hl, Hh, Hdm; try contradiction; inversion Hl; subst.
      destruct (existsb (fun e : nat * nat => snd e =? s) (pend m)); auto.
    - rewrite Hoth by auto.
      destruct (get (thr m) i) as [|? s0|? s0|? s0| | | |]; auto; rewrite Hfull;
        destruct (existsb (fun e : nat * nat => snd e =? s0) (pend m)); auto. }
  assert (Hfs : forall x s0, (full m x = None \/ full m x = Some RFail) ->
            (fset (full m) s0 None x = None \/ fset (full m) s0 None x = Some RFail)).
  { intros x s0 H. unfold fset. destruct (x =? s0); auto. }
  destruct a as [j t s|j|j|j|j|j|j t' ok|j ok|]; cbn [step] in Hs.
  - destruct (get (thr m) j) eqn:Hj; try discriminate.
    destruct ((j <? length (thr m)) && fresh (thr m) t s && negb (existsb (Nat.eqb s) (retired m))) eqn:Hc; [|discriminate].
    inversion Hs; subst; clear Hs. cbn [dead thr full]. split; auto.
    apply andb_true_iff in Hc. destruct Hc as [Hc _]. apply andb_true_iff in Hc. destruct Hc as [Hr Hf].
    apply Nat.ltb_lt in Hr. rewrite get_upd by auto. destruct (Nat.eqb_spec i j) as [->|]; auto.
    left. rewrite fresh_spec in Hf. destruct (full m s) eqn:E; auto.
    destruct (I_full m HI _ _ E) as (k & t0 & B). destruct (Hf _ _ _ B); congruence.
  - destruct (get (thr m) j) eqn:Hj; try discriminate. rewrite Hd in Hs. discriminate.
  - destruct (get (thr m) j) eqn:Hj; try discriminate. inversion Hs; subst; clear Hs. cbn [dead thr full]. split; auto.
    assert (Hr : j < length (thr m)) by (apply get_in_range; rewrite Hj; discriminate).
    rewrite get_upd by auto. destruct (Nat.eqb_spec i j) as [->|]; auto.
    destruct (get (thr m) i); auto.
  - destruct (get (thr m) j) eqn:Hj; try discriminate. destruct (full m s) eqn:Hf; [|discriminate].
    inversion Hs; subst; clear Hs. cbn [dead thr full]. split; auto.
    assert (Hr : j < length (thr m)) by (apply get_in_range; rewrite Hj; discriminate).
    rewrite get_upd by auto. destruct (Nat.eqb_spec i j) as [->|].
    + rewrite Hj in Hdm. destruct Hdm; congruence.
    + destruct (get (thr m) i); auto.
  - destruct (get (thr m) j) eqn:Hj; try discriminate.
    destruct (negb (token m) && negb (is_some (full m s))) eqn:Hc; [|discriminate].
    inversion Hs; subst; clear Hs. cbn [dead thr full]. split; auto.
    assert (Hr : j < length (thr m)) by (apply get_in_range; rewrite Hj; discriminate).
    rewrite get_upd by auto. destruct (Nat.eqb_spec i j) as [->|]; auto. now rewrite Hj in Hdm.
  - destruct (get (thr m) j) eqn:Hj; try discriminate. inversion Hs; subst.
    destruct (Hbc j t s _ Hj I eq_refl) as [A B]. destruct mk; cbn [dead thr full]; auto.
  - destruct (get (thr m) j) eqn:Hj; try discriminate. rewrite Hd in Hs. discriminate.
  - destruct (get (thr m) j) eqn:Hj; try discriminate. destruct ok.
    + rewrite Hd in Hs. discriminate.
    + inversion Hs; subst. eapply Hbc; eauto. exact I.
  - inversion Hs; subst. cbn [dead thr full]. auto.
Qed.

Theorem later_fail mk n m i : reach true true true mk n m -> dead m = true -> get (thr m) i = TIdle ->
  forall tr m' t s r, run true true true mk m tr = Some m' -> get (thr m') i = TDone t s r -> r = RFail.
Proof.
  intros Hre Hd Hi tr.
  assert (Hdm : doomed m i) by (unfold doomed; now rewrite Hi).
  pose proof (reach_inv _ _ _ Hre) as HI. clear Hre Hi.
  revert m Hd Hdm HI. induction tr as [|a r IH]; intros m Hd Hdm HI m' t s r0; cbn.
  - intros E; inversion E; subst. intros Hdone. unfold doomed in Hdm. now rewrite Hdone in Hdm.
  - destruct (step true true true mk m a) as [m1|] eqn:Hs; [|discriminate].
    destruct (doomed_step _ _ _ _ _ HI Hd Hdm Hs) as [Hd1 Hdm1].
    apply IH; auto. eapply step_inv; eauto.
Qed.

(** once dead, always dead; and a dead connection delivers nothing *)
Lemma dead_forever wd k c mk m a m' : dead m = true -> step wd k c mk m a = Some m' -> dead m' = true.
Proof.
  intros Hd. destruct a; cbn [step];
    repeat match goal with
           | |- context [match ?x with _ => _ end] => destruct x eqn:?; try discriminate
           end; intros E; inversion E; subst; auto; unfold broadcast, setthr;
    repeat match goal with
           | |- context [if ?x then _ else _] => destruct x
           end; cbn; auto; congruence.
Qed.

(** ---- refutations: each of the three fixes is needed ---- *)

(** dca25c9 reverted (no withdrawal): the broadcaster blocks for good on a recycled slot *)
Definition trace_stale : list action :=
  [AStart 0 1 0; ASendFail 0; AStart 1 2 0; ASendOk 1; AWaitToken 1; ARecvErr 1].

Lemma stale_blocks :
  exists m, run false false true false (init 2) trace_stale = Some m /\ get (thr m) 1 = TBlocked.
Proof. eexists. split; [vm_compute; reflexivity|reflexivity]. Qed.

(** 79e8d00 reverted (handleOne does not re-check): a reply for a tag whose send is failing: nil *response *)
Definition trace_race : list action :=
  [AStart 0 1 0; AStart 1 2 1; ASendOk 1; AWaitToken 1;
   AFrame 1 1 true;      (* header of a reply carrying call 0's tag: lookup finds call 0's slot *)
   ASendFail 0;          (* call 0's send fails: it withdraws its entry *)
   ABody 1 true].        (* completion re-reads pending[1] *)

Lemma race_panics :
  exists m, run true false false false (init 2) trace_race = Some m /\ get (thr m) 1 = TPanic.
Proof. eexists. split; [vm_compute; reflexivity|reflexivity]. Qed.

(** with the fix the frame is dropped and the receiver goes on *)
Lemma race_dropped :
  exists m, run true true true false (init 2) trace_race = Some m /\ get (thr m) 1 = TWait 2 1 /\
            get (thr m) 0 = TDone 1 0 RFail /\ token m = false.
Proof. eexists. split; [vm_compute; reflexivity|repeat split]. Qed.

(** the re-check alone, with the withdrawn slot recycled: a new call that got the same tag and the same
    slot is completed with a reply decoded into the old call's message *)
Definition trace_aba : list action :=
  [AStart 0 1 0; AStart 1 2 1; ASendOk 1; AWaitToken 1; AFrame 1 1 true; ASendFail 0;
   AStart 2 1 0; ASendOk 2; ABody 1 true; AWaitDone 2].

Lemma aba_foreign :
  exists m, run true false true false (init 3) trace_aba = Some m /\ get (thr m) 2 = TDone 1 0 (ROk 1 0 0).
Proof. eexists. split; [vm_compute; reflexivity|reflexivity]. Qed.

(** ---- a connection error reported by recv ---- *)

(** the receiver remembers it ([mark], commit 91df8ef): every call
    that has not started yet fails, whatever the peer and the transport do afterwards *)
Theorem later_fail_after_recv_error n m j m1 i :
  reach true true true true n m -> step true true true true m (ARecvErr j) = Some m1 -> get (thr m1) i = TIdle ->
  forall tr m' t s r, run true true true true m1 tr = Some m' -> get (thr m') i = TDone t s r -> r = RFail.
Proof.
  intros Hre Hs Hi. apply (later_fail true n m1 i); auto.
  - eapply reach_step; eauto.
  - cbn [step] in Hs. destruct (get (thr m) j); try discriminate. inversion Hs; subst. reflexivity.
Qed.

(** before that commit the error was forgotten; a later call is sent and waits in recv on the connection the
    client itself has declared broken (and hangs if the desynchronised stream does not happen to fail again) *)
Definition trace_forgotten : list action :=
  [AStart 0 1 0; ASendOk 0; AWaitToken 0; ARecvErr 0; AWaitDone 0; AStart 1 1 0; ASendOk 1; AWaitToken 1].

Lemma recv_error_forgotten :
  exists m, run true true true false (init 2) trace_forgotten = Some m /\
            get (thr m) 0 = TDone 1 0 RFail /\ get (thr m) 1 = TRecv 1 0 /\ dead m = false.
Proof. eexists. split; [vm_compute; reflexivity|repeat split]. Qed.

Lemma recv_error_remembered : run true true true true (init 2) trace_forgotten = None.
Proof. vm_compute. reflexivity. Qed.
