(** C10 — small-step interleaving model of p9/client.go sendRecv / waitAndRecv /
    handleOne (definitions only).

    A state has the calls (one thread per call), the [pending] map tag -> response
    slot, the content of every slot's [done] channel (capacity 1: empty or one
    value), the [recvr] token, the response slots that are never recycled, and
    whether the connection is dead.  Response slots have identity because they
    are recycled through responsePool; a slot may be handed to a new call as
    soon as no running call holds it, unless it was retired.  Steps are atomic
    at the granularity of the Go code's critical sections / channel operations:

      AStart i t s    tagPool.Get = t, responsePool.Get = s, pending[t] = s   (before send)
      ASendOk i       send succeeded (impossible once the connection is dead)
      ASendFail i     send failed: (if [wd]: withdraw pending[t] when it is still s, drain done;
                      if [keep]: the slot is not returned to responsePool) and return
      AWaitDone i     waitAndRecv: <-done
      AWaitToken i    waitAndRecv: recvr <- true with done empty, enter handleOne/recv
      ARecvErr i      recv returned an error before any lookup (connection error, bad header): broadcast
      AFrame i t' ok  recv read a header with tag t' and called lookup: unknown tag / wrong type
                      => broadcast; else the body is being read into the message of the slot found
      ABody i ok      body read and decoded: complete pending[t'] (if [chk]: only when it is still the
                      slot the lookup found, else the frame is dropped), or the read failed (broadcast)
      AKill           the connection breaks: from now on every send and every receive fails

    The peer is arbitrary: frames with any tag may arrive at any time (replies to
    requests never completely sent, duplicated or forged replies).
    A channel send that would block (done already full) while pendingMu is held
    is the bad state TBlocked; a nil *response dereference is TPanic.
    [wd], [keep], [chk], [mark] are read from the source by go2coq (ClientGen:
    sendrecv_withdraws, sendrecv_keeps_withdrawn, handleone_checks_found,
    recv_error_marks_dead: a ConnError reported by recv is remembered and the
    connection counts as dead; a call that starts on a dead connection fails
    without being sent, which the model renders as AStart followed by ASendFail). *)
From Coq Require Import Arith List Bool.
Import ListNotations.

Inductive res :=
| ROk (t s o : nat)           (* reply frame with tag t, decoded into the message of slot s, which call o held at lookup *)
| RFail.                      (* an error *)

Inductive tstate :=
| TIdle
| TReg (t s : nat)
| TWait (t s : nat)
| TRecv (t s : nat)
| TLooked (t s : nat) (t' s' o' : nat)
| TDone (t s : nat) (r : res)
| TBlocked
| TPanic.

Record mst := mkst {
  thr : list tstate;
  pend : list (nat * nat);
  full : nat -> option res;
  token : bool;
  retired : list nat;
  dead : bool }.

Inductive action :=
| AStart (i t s : nat)
| ASendOk (i : nat)
| ASendFail (i : nat)
| AWaitDone (i : nat)
| AWaitToken (i : nat)
| ARecvErr (i : nat)
| AFrame (i t' : nat) (type_ok : bool)
| ABody (i : nat) (ok : bool)
| AKill.

Definition get (l : list tstate) (i : nat) : tstate := nth i l TIdle.

Fixpoint upd (l : list tstate) (i : nat) (x : tstate) : list tstate :=
  match l, i with
  | [], _ => []
  | _ :: r, O => x :: r
  | y :: r, S i' => y :: upd r i' x
  end.

(** tag and slot held by a running call *)
Definition live (st : tstate) : option (nat * nat) :=
  match st with
  | TReg t s | TWait t s | TRecv t s | TLooked t s _ _ _ => Some (t, s)
  | _ => None
  end.

Fixpoint lookup (t : nat) (p : list (nat * nat)) : option nat :=
  match p with
  | [] => None
  | (t', s) :: r => if t' =? t then Some s else lookup t r
  end.

Fixpoint remove (t : nat) (p : list (nat * nat)) : list (nat * nat) :=
  match p with
  | [] => []
  | (t', s) :: r => if t' =? t then remove t r else (t', s) :: remove t r
  end.

Definition fset (f : nat -> option res) (s : nat) (v : option res) : nat -> option res :=
  fun x => if x =? s then v else f x.

Definition is_some {A} (o : option A) : bool := match o with Some _ => true | None => false end.

Definition fresh (l : list tstate) (t s : nat) : bool :=
  forallb (fun st => match live st with
                     | Some (t2, s2) => negb (t2 =? t) && negb (s2 =? s)
                     | None => true
                     end) l.

Fixpoint nodupb (l : list nat) : bool :=
  match l with
  | [] => true
  | x :: r => negb (existsb (Nat.eqb x) r) && nodupb r
  end.

(** the call that holds tag t and slot s (ghost: used to say whose message object a reply is decoded into) *)
Fixpoint owner_of (l : list tstate) (t s : nat) (i : nat) : nat :=
  match l with
  | [] => i
  | st :: r =>
      match live st with
      | Some (t2, s2) => if (t2 =? t) && (s2 =? s) then i else owner_of r t s (S i)
      | None => owner_of r t s (S i)
      end
  end.

Definition setthr (m : mst) (l : list tstate) : mst := mkst l (pend m) (full m) (token m) (retired m) (dead m).

(** handleOne's error path: for _, resp := range pending { resp.done <- err }; pending = {} *)
Definition broadcast (m : mst) (i t s : nat) : mst :=
  if existsb (fun e => is_some (full m (snd e))) (pend m) || negb (nodupb (map snd (pend m)))
  then setthr m (upd (thr m) i TBlocked)
  else mkst (upd (thr m) i (TWait t s)) []
            (fun x => if existsb (fun e => snd e =? x) (pend m) then Some RFail else full m x)
            false (retired m) (dead m).

Definition step (wd keep chk mark : bool) (m : mst) (a : action) : option mst :=
  match a with
  | AStart i t s =>
      match get (thr m) i with
      | TIdle =>
          if (i <? length (thr m)) && fresh (thr m) t s && negb (existsb (Nat.eqb s) (retired m))
          then Some (mkst (upd (thr m) i (TReg t s)) ((t, s) :: remove t (pend m)) (full m) (token m) (retired m) (dead m))
          else None
      | _ => None
      end
  | ASendOk i =>
      match get (thr m) i with
      | TReg t s => if dead m then None else Some (setthr m (upd (thr m) i (TWait t s)))
      | _ => None
      end
  | ASendFail i =>
      match get (thr m) i with
      | TReg t s =>
          if wd then
            Some (mkst (upd (thr m) i (TDone t s RFail))
                       (match lookup t (pend m) with
                        | Some s' => if s' =? s then remove t (pend m) else pend m
                        | None => pend m
                        end)
                       (fset (full m) s None) (token m)
                       (if keep then s :: retired m else retired m) (dead m))
          else Some (setthr m (upd (thr m) i (TDone t s RFail)))
      | _ => None
      end
  | AWaitDone i =>
      match get (thr m) i with
      | TWait t s =>
          match full m s with
          | Some r => Some (mkst (upd (thr m) i (TDone t s r)) (pend m) (fset (full m) s None) (token m) (retired m) (dead m))
          | None => None
          end
      | _ => None
      end
  | AWaitToken i =>
      match get (thr m) i with
      | TWait t s =>
          if negb (token m) && negb (is_some (full m s))
          then Some (mkst (upd (thr m) i (TRecv t s)) (pend m) (full m) true (retired m) (dead m))
          else None
      | _ => None
      end
  | ARecvErr i =>
      match get (thr m) i with
      | TRecv t s =>
          let b := broadcast m i t s in
          (* [mark]: the receiver remembers the connection error (Client.broken): the connection counts as dead *)
          Some (if mark then mkst (thr b) (pend b) (full b) (token b) (retired b) true else b)
      | _ => None
      end
  | AFrame i t' type_ok =>
      match get (thr m) i with
      | TRecv t s =>
          if dead m then None else
          match lookup t' (pend m) with
          | None => Some (broadcast m i t s)                       (* ErrUnexpectedTag *)
          | Some s' =>
              if negb type_ok then Some (broadcast m i t s)        (* ErrBadResponse *)
              else Some (setthr m (upd (thr m) i (TLooked t s t' s' (owner_of (thr m) t' s' 0))))
          end
      | _ => None
      end
  | ABody i ok =>
      match get (thr m) i with
      | TLooked t s t' s' o' =>
          if ok then
            if dead m then None else
            let drop := Some (mkst (upd (thr m) i (TWait t s)) (pend m) (full m) false (retired m) (dead m)) in
            match lookup t' (pend m) with
            | None => if chk then drop else Some (setthr m (upd (thr m) i TPanic))
            | Some s'' =>
                if chk && negb (s'' =? s') then drop
                else if is_some (full m s'')
                then Some (mkst (upd (thr m) i TBlocked) (remove t' (pend m)) (full m) (token m) (retired m) (dead m))
                else Some (mkst (upd (thr m) i (TWait t s)) (remove t' (pend m))
                                (fset (full m) s'' (Some (ROk t' s' o'))) false (retired m) (dead m))
            end
          else Some (broadcast m i t s)
      | _ => None
      end
  | AKill => Some (mkst (thr m) (pend m) (full m) (token m) (retired m) true)
  end.

Definition init (n : nat) : mst := mkst (repeat TIdle n) [] (fun _ => None) false [] false.

Fixpoint run (wd keep chk mark : bool) (m : mst) (tr : list action) : option mst :=
  match tr with
  | [] => Some m
  | a :: r => match step wd keep chk mark m a with Some m' => run wd keep chk mark m' r | None => None end
  end.

(** reachable states of n calls *)
Inductive reach (wd keep chk mark : bool) (n : nat) : mst -> Prop :=
| reach_init : reach wd keep chk mark n (init n)
| reach_step m a m' : reach wd keep chk mark n m -> step wd keep chk mark m a = Some m' -> reach wd keep chk mark n m'.
