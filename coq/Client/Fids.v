(** C10 — the client's fid discipline over the allocator of Client/Pool.v.

    The call sites (ClientGen.fid_sites): Attach, Walk, WalkGetAttr and
    xattrWalkRead do fidPool.Get, send the request that binds the new fid, and
    fidPool.Put it back when the request failed; Close and Remove Put the
    file's fid back only after Rclunk/Rremove, and throw it away on any error.
    [bound] is the set of fids the server has bound: a successful binding
    request binds, a refused one does not (server side: InsertFID only on the
    success path of tattach/twalk/twalkgetattr/txattrwalk), a confirmed
    clunk/remove unbinds. *)
From Coq Require Import NArith List Bool Lia ZifyN ZifyBool.
From P9V Require Import Client.Pool Client.PoolProofs.
Import ListNotations.
Open Scope N_scope.

Inductive fev :=
| FBind (ok : bool)              (* binding request: answered with its R-message / refused *)
| FClunk (f : N) (ok : bool).    (* Close/Remove of the File with fid f: confirmed / failed *)

(** returns, per FBind, the fid handed to the new File and whether the server had it bound *)
Fixpoint fid_run (p : pool) (out bound : list N) (evs : list fev) : list (option N * bool) :=
  match evs with
  | [] => []
  | FBind ok :: r =>
      match pool_get p with
      | (None, p') => (None, false) :: fid_run p' out bound r                 (* ErrOutOfFIDs *)
      | (Some f, p') =>
          (Some f, mem f bound) ::
          (if ok then fid_run p' (f :: out) (f :: bound) r
           else fid_run (pool_put p' f) out bound r)
      end
  | FClunk f ok :: r =>
      if mem f out then
        if ok then fid_run (pool_put p f) (remove1 f out) (remove1 f bound) r
        else fid_run p out bound r                                             (* fid thrown away *)
      else fid_run p out bound r                                               (* not a live File: EBADF locally *)
  end.

Lemma remove1_In v x l : In x (remove1 v l) -> In x l.
Proof.
  induction l as [|y r IH]; cbn; auto. destruct (N.eqb_spec y v); cbn; auto. intros [?|?]; auto.
Qed.

Lemma remove1_In_ne v x l : In x l -> x <> v -> In x (remove1 v l).
Proof.
  induction l as [|y r IH]; cbn; auto. intros [->|H] Hne.
  - destruct (N.eqb_spec x v); [congruence|now left].
  - destruct (N.eqb_spec y v); auto. right; auto.
Qed.

Lemma remove1_NoDup_notin v l : NoDup l -> ~ In v (remove1 v l).
Proof.
  induction 1 as [|y r Hy Hnd IH]; cbn; auto. destruct (N.eqb_spec y v) as [->|Hne]; auto.
  intros [->|H]; auto.
Qed.

Theorem fid_fresh start0 : forall evs p out bound,
  pinv start0 p out -> NoDup bound -> (forall f, In f bound -> In f out) ->
  Forall (fun x => snd x = false /\ match fst x with Some f => start0 <= f < p_limit p | None => True end)
         (fid_run p out bound evs).
Proof.
  induction evs as [|[ok|f ok] r IH]; intros p out bound Hinv Hnd Hsub; cbn; [constructor|..].
  - destruct (pool_get p) as [[f|] p'] eqn:Hg.
    + destruct (get_some _ _ _ _ _ Hinv Hg) as (Hinv' & Hnot & Hrange).
      assert (Hl : p_limit p' = p_limit p).
      { unfold pool_get in Hg. destruct (p_cache p); [destruct (p_start p =? p_limit p)|]; inversion Hg; reflexivity. }
      constructor.
      * cbn. split; auto. destruct (mem f bound) eqn:E; auto. apply mem_In in E. exfalso. auto.
      * destruct ok.
        -- rewrite <- Hl. apply IH; auto.
           ++ constructor; auto.
           ++ intros x [->|Hx]; [now left|right; auto].
        -- assert (Hput : pinv start0 (pool_put p' f) out).
           { pose proof (put_ok _ _ _ f Hinv' ltac:(now left)) as H. cbn in H. now rewrite N.eqb_refl in H. }
           replace (p_limit p) with (p_limit (pool_put p' f)) by (cbn; auto). apply IH; auto.
    + destruct (get_none _ _ _ _ Hinv Hg) as [-> _]. constructor; [cbn; auto|]. apply IH; auto.
  - destruct (mem f out) eqn:E; [|apply IH; auto]. apply mem_In in E. destruct ok; [|apply IH; auto].
    replace (p_limit p) with (p_limit (pool_put p f)) by (cbn; auto). apply IH.
    + now apply put_ok.
    + clear - Hnd. induction Hnd as [|y l Hy Hn IHn]; cbn; [constructor|].
      destruct (N.eqb_spec y f); auto. constructor; auto. intros H. apply Hy. eapply remove1_In; eauto.
    + intros x Hx. destruct (N.eq_dec x f) as [->|Hne].
      * exfalso. eapply remove1_NoDup_notin; eauto.
      * apply remove1_In_ne; auto. apply Hsub. eapply remove1_In; eauto.
Qed.
