(** C10 — the client's fid discipline over the allocator of Client/Pool.v.

    The call sites (ClientGen.fid_sites): Attach, Walk, WalkGetAttr and
    xattrWalkRead do fidPool.Get, send the request that binds the new fid, and on
    failure call releaseFID, which puts the fid back only when the server
    refused (Rlerror) and leaks it otherwise; Close and Remove Put the
    file's fid back only after Rclunk/Rremove, and throw it away on any error.
    [bound] is the set of fids the server has bound: a successful binding
    request binds, a refused one does not (server side: InsertFID only on the
    success path of tattach/twalk/twalkgetattr/txattrwalk), a confirmed
    clunk/remove unbinds. *)
From Coq Require Import NArith List Bool Lia ZifyN ZifyBool.
From P9V Require Import Client.Pool Client.PoolProofs.
Import ListNotations.
Open Scope N_scope.

(** how a binding request ended *)
Inductive bind_outcome :=
| BOk                          (* answered with its R-message: the fid is bound *)
| BRefused                     (* answered Rlerror: the fid is not bound *)
| BLost (server_bound : bool). (* failed otherwise (frame the client cannot accept, send/receive error):
                                  the server may or may not have carried the request out *)

Inductive fev :=
| FBind (o : bind_outcome)
| FClunk (f : N) (ok : bool).    (* Close/Remove of the File with fid f: confirmed / failed *)

(** [refused_only]: releaseFID puts the fid back only after Rlerror (commit 28ed22f; read from the
    source: ClientGen.release_fid_policy = "refused"); otherwise after any failure.
    Returns, per FBind, the fid handed out and whether the server had it bound at that moment. *)
Fixpoint fid_run (refused_only : bool) (p : pool) (out bound : list N) (evs : list fev) : list (option N * bool) :=
  match evs with
  | [] => []
  | FBind o :: r =>
      match pool_get p with
      | (None, p') => (None, false) :: fid_run refused_only p' out bound r                 (* ErrOutOfFIDs *)
      | (Some f, p') =>
          (Some f, mem f bound) ::
          match o with
          | BOk => fid_run refused_only p' (f :: out) (f :: bound) r
          | BRefused => fid_run refused_only (pool_put p' f) out bound r
          | BLost sb =>
              if refused_only then fid_run refused_only p' (f :: out) (if sb then f :: bound else bound) r   (* leaked *)
              else fid_run refused_only (pool_put p' f) out (if sb then f :: bound else bound) r
          end
      end
  | FClunk f ok :: r =>
      if mem f out then
        if ok then fid_run refused_only (pool_put p f) (remove1 f out) (remove1 f bound) r
        else fid_run refused_only p out bound r                                             (* fid thrown away *)
      else fid_run refused_only p out bound r                                               (* not a live File: EBADF locally *)
  end.

Lemma remove1_In v x l : In x (remove1 v l) -> In x l.
Proof.
  induction l as [|y r IH]; cbn; auto. destruct (N.eqb_spec y v); cbn; auto. intros [?|?]; auto.
Qed.

Lemma remove1_In_ne v x l : In x l -> x <> v -> In x (remove1 v l).
Proof.
  induction l as [|y r IH]; cbn; auto. intros [->|H] Hne.
  - destruct (N.eqb_spec x v); [congruence|now left].
  - destruct (N.eqb_spec y v); auto. right; auto.
Qed.

Lemma remove1_NoDup_notin v l : NoDup l -> ~ In v (remove1 v l).
Proof.
  induction 1 as [|y r Hy Hnd IH]; cbn; auto. destruct (N.eqb_spec y v) as [->|Hne]; auto.
  intros [->|H]; auto.
Qed.

Theorem fid_fresh start0 : forall evs p out bound,
  pinv start0 p out -> NoDup bound -> (forall f, In f bound -> In f out) ->
  Forall (fun x => snd x = false /\ match fst x with Some f => start0 <= f < p_limit p | None => True end)
         (fid_run true p out bound evs).
Proof.
  induction evs as [|[o|f ok] r IH]; intros p out bound Hinv Hnd Hsub; cbn; [constructor|..].
  - destruct (pool_get p) as [[f|] p'] eqn:Hg.
    + destruct (get_some _ _ _ _ _ Hinv Hg) as (Hinv' & Hnot & Hrange).
      assert (Hl : p_limit p' = p_limit p).
      { unfold pool_get in Hg. destruct (p_cache p); [destruct (p_start p =? p_limit p)|]; inversion Hg; reflexivity. }
      assert (Hnb : ~ In f bound) by auto.
      constructor.
      * cbn. split; auto. destruct (mem f bound) eqn:E; auto. apply mem_In in E. exfalso. auto.
      * destruct o as [| |sb].
        -- rewrite <- Hl. apply IH; auto.
           ++ constructor; auto.
           ++ intros x [->|Hx]; [now left|right; auto].
        -- assert (Hput : pinv start0 (pool_put p' f) out).
           { pose proof (put_ok _ _ _ f Hinv' ltac:(now left)) as H. cbn in H. now rewrite N.eqb_refl in H. }
           replace (p_limit p) with (p_limit (pool_put p' f)) by (cbn; auto). apply IH; auto.
        -- rewrite <- Hl. apply IH; auto.
           ++ destruct sb; auto. constructor; auto.
           ++ intros x Hx. destruct sb; [destruct Hx as [->|Hx]|]; [now left|right; auto|right; auto].
    + destruct (get_none _ _ _ _ Hinv Hg) as [-> _]. constructor; [cbn; auto|]. apply IH; auto.
  - destruct (mem f out) eqn:E; [|apply IH; auto]. apply mem_In in E. destruct ok; [|apply IH; auto].
    replace (p_limit p) with (p_limit (pool_put p f)) by (cbn; auto). apply IH.
    + now apply put_ok.
    + clear - Hnd. induction Hnd as [|y l Hy Hn IHn]; cbn; [constructor|].
      destruct (N.eqb_spec y f); auto. constructor; auto. intros H. apply Hy. eapply remove1_In; eauto.
    + intros x Hx. destruct (N.eq_dec x f) as [->|Hne].
      * exfalso. eapply remove1_NoDup_notin; eauto.
      * apply remove1_In_ne; auto. apply Hsub. eapply remove1_In; eauto.
Qed.

(** with the old policy (Put after any failure) a fid the server has bound is handed out again *)
Lemma fid_reuse_refuted :
  fid_run false (mkpool [] 1 4294967295) [] [] [FBind (BLost true); FBind BOk] = [(Some 1, false); (Some 1, true)].
Proof. vm_compute. reflexivity. Qed.
