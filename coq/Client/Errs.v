(** C03 — error values and linux.ExtractErrno (linux/errors.go, errors_linux.go), errno first. *)
From Coq Require Import NArith List Bool.
From P9V Require Import gen.ConstGen.
Import ListNotations.
Open Scope N_scope.

Inductive errv :=
| LinuxErrno (n : N)          (* linux.Errno *)
| SysErrno (n : N)            (* syscall.Errno *)
| OsNotExist | OsExist | OsPermission | OsInvalid    (* os.Err* sentinels *)
| EEOF                        (* io.EOF *)
| Opaque                      (* errors.New("...") *)
| Wrap (e : errv)             (* fmt.Errorf("%w"), *fs.PathError, ... : Unwrap() error *)
| Join (es : list errv).      (* errors.Join: Unwrap() []error *)

(** errors.As / errors.Is walk the tree depth first, in order *)
Fixpoint find (f : errv -> option N) (e : errv) : option N :=
  match f e with
  | Some n => Some n
  | None =>
      match e with
      | Wrap e' => find f e'
      | Join es =>
          (fix go (l : list errv) : option N :=
             match l with
             | [] => None
             | x :: r => match find f x with Some n => Some n | None => go r end
             end) es
      | _ => None
      end
  end.

Definition is_linux (e : errv) : option N := match e with LinuxErrno n => Some n | _ => None end.
Definition is_sys (e : errv) : option N := match e with SysErrno n => Some n | _ => None end.
(** errors.Is(err, os.ErrX): the sentinel itself, or a syscall.Errno whose Is method accepts it
    (EACCES, EPERM: ErrPermission; EEXIST, ENOTEMPTY: ErrExist; ENOENT: ErrNotExist) *)
Definition is_leaf (x : errv) (e : errv) : option N :=
  match x, e with
  | OsNotExist, OsNotExist | OsExist, OsExist | OsPermission, OsPermission | OsInvalid, OsInvalid => Some 0
  | OsNotExist, SysErrno n => if n =? linux_ENOENT then Some 0 else None
  | OsExist, SysErrno n => if (n =? linux_EEXIST) || (n =? linux_ENOTEMPTY) then Some 0 else None
  | OsPermission, SysErrno n => if (n =? linux_EACCES) || (n =? linux_EPERM) then Some 0 else None
  | _, _ => None
  end.

Definition has (x : errv) (e : errv) : bool := match find (is_leaf x) e with Some _ => true | None => false end.

Definition extract (e : errv) : N :=
  match find is_linux e with
  | Some n => n
  | None =>
      match find is_sys e with
      | Some (Npos p) => Npos p
      | _ =>
          if has OsNotExist e then linux_ENOENT
          else if has OsExist e then linux_EEXIST
          else if has OsPermission e then linux_EACCES
          else if has OsInvalid e then linux_EINVAL
          else linux_EIO
      end
  end.

Fixpoint wrapn (k : nat) (e : errv) : errv := match k with O => e | S k' => Wrap (wrapn k' e) end.

Lemma find_wrap f e : (forall x, f (Wrap x) = None) -> find f (Wrap e) = find f e.
Proof. intros H. cbn. now rewrite H. Qed.

Lemma extract_wrap e : extract (Wrap e) = extract e.
Proof.
  unfold extract, has. rewrite !find_wrap by (intros x; reflexivity). reflexivity.
Qed.

Lemma extract_wrapn k e : extract (wrapn k e) = extract e.
Proof. induction k as [|k IH]; cbn [wrapn]; [reflexivity|]. now rewrite extract_wrap. Qed.

(** the client turns Rlerror{n} into linux.Errno(n) *)
Definition client_error (n : N) : errv := LinuxErrno n.
