(** C03 — error values and linux.ExtractErrno (linux/errors.go, errors_linux.go), errno first. *)
From Coq Require Import NArith List Bool.
From P9V Require Import gen.ConstGen.
Import ListNotations.
Open Scope N_scope.

Inductive errv :=
| LinuxErrno (n : N)          (* linux.Errno *)
| SysErrno (n : N)            (* syscall.Errno *)
| OsNotExist | OsExist | OsPermission | OsInvalid    (* os.Err* sentinels *)
| EEOF                        (* io.EOF *)
| Opaque                      (* errors.New("...") *)
| Wrap (e : errv)             (* fmt.Errorf("%w"), *fs.PathError, ... : Unwrap() error *)
| Join (es : list errv).      (* errors.Join: Unwrap() []error *)

(** errors.As / errors.Is walk the tree depth first, in order *)
Fixpoint find (f : errv -> option N) (e : errv) : option N :=
  match f e with
  | Some n => Some n
  | None =>
      match e with
      | Wrap e' => find f e'
      | Join es =>
          (fix go (l : list errv) : option N :=
             match l with
             | [] => None
             | x :: r => match find f x with Some n => Some n | None => go r end
             end) es
      | _ => None
      end
  end.

Definition is_linux (e : errv) : option N := match e with LinuxErrno n => Some n | _ => None end.
Definition is_sys (e : errv) : option N := match e with SysErrno n => Some n | _ => None end.
(** errors.Is(err, os.ErrX): the sentinel itself, or a syscall.Errno whose Is method accepts it
    (EACCES, EPERM: ErrPermission; EEXIST, ENOTEMPTY: ErrExist; ENOENT: ErrNotExist) *)
Definition is_leaf (x : errv) (e : errv) : option N :=
  match x, e with
  | OsNotExist, OsNotExist | OsExist, OsExist | OsPermission, OsPermission | OsInvalid, OsInvalid => Some 0
  | OsNotExist, SysErrno n => if n =? linux_ENOENT then Some 0 else None
  | OsExist, SysErrno n => if (n =? linux_EEXIST) || (n =? linux_ENOTEMPTY) then Some 0 else None
  | OsPermission, SysErrno n => if (n =? linux_EACCES) || (n =? linux_EPERM) then Some 0 else None
  | _, _ => None
  end.

Definition has (x : errv) (e : errv) : bool := match find (is_leaf x) e with Some _ => true | None => false end.

Definition extract (e : errv) : N :=
  match find is_linux e with
  | Some n => n
  | None =>
      match find is_sys e with
      | Some (Npos p) => Npos p
      | _ =>
          if has OsNotExist e then linux_ENOENT
          else if has OsExist e then linux_EEXIST
          else if has OsPermission e then linux_EACCES
          else if has OsInvalid e then linux_EINVAL
          else linux_EIO
      end
  end.

Fixpoint wrapn (k : nat) (e : errv) : errv := match k with O => e | S k' => Wrap (wrapn k' e) end.

Lemma find_wrap f e : (forall x, f (Wrap x) = None) -> find f (Wrap e) = find f e.
Proof. intros H. cbn. now rewrite H. Qed.

Lemma extract_wrap e : extract (Wrap e) = extract e.
Proof.
  unfold extract, has. rewrite !find_wrap by (intros x; reflexivity). reflexivity.
Qed.

Lemma extract_wrapn k e : extract (wrapn k e) = extract e.
Proof. induction k as [|k IH]; cbn [wrapn]; [reflexivity|]. now rewrite extract_wrap. Qed.

(** the client turns Rlerror{n} into linux.Errno(n) *)
Definition client_error (n : N) : errv := LinuxErrno n.

(** ---- trees: errors.Join / fmt.Errorf with several %w (Unwrap() []error), nested to any depth ----
    ExtractErrno depends only on the sequence of LEAVES of the error tree in depth-first order: wrapping and
    joining (Join, multi-%w, *PathError, the server's own errors.Join around a failing Close) never hide an errno. *)

Lemma errv_tree_ind (P : errv -> Prop) :
  (forall n, P (LinuxErrno n)) -> (forall n, P (SysErrno n)) -> P OsNotExist -> P OsExist -> P OsPermission -> P OsInvalid ->
  P EEOF -> P Opaque -> (forall e, P e -> P (Wrap e)) -> (forall es, Forall P es -> P (Join es)) -> forall e, P e.
Proof.
  intros H1 H2 H3 H4 H5 H6 H7 H8 Hw Hj. fix IH 1. intros e. destruct e as [n|n| | | | | | |e'|es].
  - apply H1. - apply H2. - exact H3. - exact H4. - exact H5. - exact H6. - exact H7. - exact H8.
  - apply Hw, IH.
  - apply Hj. induction es as [|x r IHr]; constructor; [apply IH|exact IHr].
Qed.

Fixpoint leaves (e : errv) : list errv :=
  match e with
  | Wrap e' => leaves e'
  | Join es => (fix go (l : list errv) : list errv := match l with [] => [] | x :: r => leaves x ++ go r end) es
  | x => [x]
  end.

Fixpoint first_some (f : errv -> option N) (l : list errv) : option N :=
  match l with
  | [] => None
  | x :: r => match f x with Some n => Some n | None => first_some f r end
  end.

Lemma first_some_app f a b : first_some f (a ++ b) = match first_some f a with Some n => Some n | None => first_some f b end.
Proof. induction a as [|x r IH]; cbn; [reflexivity|]. destruct (f x); [reflexivity|exact IH]. Qed.

Definition transparent_to (f : errv -> option N) : Prop := (forall x, f (Wrap x) = None) /\ (forall l, f (Join l) = None).

Lemma find_leaves f e : transparent_to f -> find f e = first_some f (leaves e).
Proof.
  intros [Hw Hj]. induction e as [n|n| | | | | | |e' IH|es IH] using errv_tree_ind;
    try (cbn; destruct (f _); reflexivity).
  - rewrite find_wrap by exact Hw. exact IH.
  - cbn [find leaves]. rewrite Hj.
    induction IH as [|x r Hx Hr IHr]; [reflexivity|].
    rewrite first_some_app, <- Hx. destruct (find f x); [reflexivity|exact IHr].
Qed.

Lemma transparent_is_linux : transparent_to is_linux. Proof. split; reflexivity. Qed.
Lemma transparent_is_sys : transparent_to is_sys. Proof. split; reflexivity. Qed.
Lemma transparent_is_leaf x : transparent_to (is_leaf x). Proof. split; intros; destruct x; reflexivity. Qed.

(** ExtractErrno as a function of the leaf sequence *)
Definition extract_leaves (l : list errv) : N :=
  let has x := match first_some (is_leaf x) l with Some _ => true | None => false end in
  match first_some is_linux l with
  | Some n => n
  | None =>
      match first_some is_sys l with
      | Some (Npos p) => Npos p
      | _ => if has OsNotExist then linux_ENOENT else if has OsExist then linux_EEXIST
             else if has OsPermission then linux_EACCES else if has OsInvalid then linux_EINVAL else linux_EIO
      end
  end.

Lemma extract_by_leaves e : extract e = extract_leaves (leaves e).
Proof.
  unfold extract, extract_leaves, has.
  rewrite (find_leaves is_linux e transparent_is_linux), (find_leaves is_sys e transparent_is_sys),
    !(find_leaves (is_leaf _) e (transparent_is_leaf _)). reflexivity.
Qed.

(** the first linux.Errno among the leaves is the answer, however the tree is built *)
Lemma extract_first_linux_leaf e n : first_some is_linux (leaves e) = Some n -> extract e = n.
Proof. intros H. rewrite extract_by_leaves. unfold extract_leaves. now rewrite H. Qed.

(** what fidRef.DecRef makes of a failing backend Close: errors.Join(fmt.Errorf("file: %w", err)) — same errno *)
Definition server_close_error (e : errv) : errv := Join [Wrap e].
Lemma extract_close_error e : extract (server_close_error e) = extract e.
Proof. rewrite !extract_by_leaves. unfold server_close_error. cbn [leaves]. now rewrite app_nil_r. Qed.

(** a walker that follows only Unwrap() error (errors.Unwrap returns nil on a Join / multi-%w node: seeded change
    C03-m4) stops at the first Join: errnos below it are lost *)
Fixpoint find_single (f : errv -> option N) (e : errv) : option N :=
  match f e with
  | Some n => Some n
  | None => match e with Wrap e' => find_single f e' | _ => None end
  end.
Lemma single_chain_walker_refuted :
  find_single is_linux (server_close_error (LinuxErrno 122)) = None /\ extract (server_close_error (LinuxErrno 122)) = 122 /\
  find_single is_linux (Wrap (Join [Opaque; LinuxErrno 30])) = None /\ extract (Wrap (Join [Opaque; LinuxErrno 30])) = 30.
Proof. repeat split. Qed.
