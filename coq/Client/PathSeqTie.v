(** C03 — the same-entry short-circuit of Trename / Trenameat as go2coq's HandlerGen reads it from p9/handlers.go:
    the guard in front of the backend RenameAt compares the PATH NODES of the two directory references (and the two
    names), not the references themselves.  [PathSeq.pstep true] is therefore the model of the code; with a guard
    `ref == refTarget` (seeded change C03-m3) [rename_guard] computes [Some false] and the obligation below fails.
    Operand order and local names do not matter (alpha-renamed traces, both orders accepted). *)
From Coq Require Import NArith String Ascii List Bool.
From P9V Require Import gen.HandlerGen Client.ClientModel Client.HandlerTie Client.PathSeq.
Import ListNotations.
Open Scope string_scope.

(** split at the first occurrence of sep *)
Fixpoint split_at (sep acc s : string) : option (string * string) :=
  match s with
  | EmptyString => None
  | String c r => if starts_with sep s then Some (acc, drop (String.length sep) s) else split_at sep (acc ++ String c EmptyString) r
  end.

Fixpoint ends_with_from (suf s : string) : bool :=
  (s =? suf) || match s with EmptyString => false | String _ r => ends_with_from suf r end.

(** the condition of the `if ... { return nil }` that stands before the first backend call of a handler *)
Fixpoint shortcut_guard (evs : list string) : option string :=
  match evs with
  | e1 :: r =>
      if starts_with "call:" e1 then None
      else match r with
           | e2 :: _ => if starts_with "if:" e1 && (e2 =? "return:nil") then Some (drop 3 e1) else shortcut_guard r
           | [] => None
           end
  | [] => None
  end.

(** Some true: <a>.pathNode == <b>.pathNode && <n1> == <n2> with {a, b} = {origin, target};
    Some false: <origin> == <target> && ... (handle identity); None: anything else *)
Definition rename_guard (h origin target : string) : option bool :=
  match shortcut_guard (events h) with
  | None => None
  | Some g =>
      match split_at " && " EmptyString g with
      | None => None
      | Some (dirs, names) =>
          match split_at " == " EmptyString dirs, split_at " == " EmptyString names with
          | Some (a, b), Some (_, _) =>
              let po := origin ++ ".pathNode" in let pt := target ++ ".pathNode" in
              if ((a =? po) && (b =? pt)) || ((a =? pt) && (b =? po)) then Some true
              else if ((a =? origin) && (b =? target)) || ((a =? target) && (b =? origin)) then Some false
              else None
          | _, _ => None
          end
      end
  end.

Definition guard_names (h : string) : option (string * string) :=
  match shortcut_guard (events h) with
  | Some g => match split_at " && " EmptyString g with Some (_, n) => split_at " == " EmptyString n | None => None end
  | None => None
  end.
Definition same_pair (p : option (string * string)) (a b : string) : bool :=
  match p with Some (x, y) => ((x =? a) && (y =? b)) || ((x =? b) && (y =? a)) | None => false end.

(** the two directory references of a rename handler: first and second fid lookup *)
Definition lookup_vars (h : string) : list (string * string) := map (split_arrow EmptyString) (with_prefix "lookup:" (events h)).

(** the model instantiated with what the source does *)
Definition bynode_of_source : bool :=
  match rename_guard "trenameat.handle" "_v3" "_v5", rename_guard "trename.handle" "_v3.parent" "_v5" with
  | Some true, Some true => true
  | _, _ => false
  end.
