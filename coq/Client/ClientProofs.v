(** C03 — proofs about Client/ClientModel.v and the tie to the generated table. *)
From Coq Require Import NArith String List Bool Lia.
From P9V Require Import gen.ConstGen gen.ClientGen Client.ClientModel Client.Errs.
Import ListNotations.
Open Scope string_scope.

(** the table go2coq reads from p9/client_file.go is the reviewed one *)
Lemma gen_is_spec : ClientGen.methods = spec_methods.
Proof. reflexivity. Qed.

Definition versions : list N := [0; 1; 2; 3; 4; 5; 6; 7]%N.

Lemma versions_all v : (v <= 7)%N -> In v versions.
Proof.
  intros H. unfold versions.
  destruct v as [|p]; [now left|].
  do 7 (destruct p as [p|p|]; try (exfalso; lia); cbn; try tauto).
Qed.

Ltac each_in H := repeat (destruct H as [<-|H]; [|]); try contradiction.

(** every directly described method except Readdir and Walk: by computation with symbolic arguments *)
Lemma transparent_direct v name e :
  In v versions -> In name direct_methods -> name <> "Readdir" -> name <> "Walk" ->
  backend_calls v name e = expected v name e.
Proof.
  intros Hv Hn Hne Hnw. destruct e as [param fid newfid pfid msize].
  unfold versions in Hv. unfold direct_methods in Hn.
  cbn [In] in Hv, Hn.
  repeat (destruct Hn as [<-|Hn];
          [try congruence;
           repeat (destruct Hv as [<-|Hv]; [cbv -[N.modulo N.land N.ltb N.add N.sub N.min]; reflexivity|]); contradiction|]).
  contradiction.
Qed.

Lemma transparent_readdir v e :
  In v versions -> (11 <= e_msize e)%N ->
  backend_calls v "Readdir" e = expected v "Readdir" e.
Proof.
  intros Hv Hm. destruct e as [param fid newfid pfid msize]. cbn [e_msize] in Hm.
  assert (E : backend_calls v "Readdir" (mkenv param fid newfid pfid msize) =
              [mkbc "Readdir" (OnFid fid)
                 [param "offset";
                  match param "count" with
                  | VN c => VN (if (msize - (7 + 4) <? c)%N then (msize - (7 + 4))%N else c)
                  | x => x
                  end]]).
  { unfold versions in Hv. cbn [In] in Hv.
    repeat (destruct Hv as [<-|Hv];
            [cbv -[N.modulo N.land N.ltb N.add N.sub N.min]; destruct (param "count"); reflexivity|]). contradiction. }
  rewrite E. change (7 + 4)%N with 11%N.
  unfold expected. cbn -[N.min N.ltb N.sub]. destruct (param "count") as [c| | | | | | |]; try reflexivity.
  do 3 f_equal. destruct (N.ltb_spec (msize - 11) c); [rewrite N.min_r|rewrite N.min_l]; auto; lia.
Qed.

(** Walk: one WalkGetAttr per component on the server (a clone is one Walk(nil)) *)
Lemma transparent_walk v e :
  In v versions -> backend_calls v "Walk" e = expected v "Walk" e.
Proof.
  intros Hv. destruct e as [param fid newfid pfid msize].
  assert (E : client_msgs v "Walk" (mkenv param fid newfid pfid msize) =
              [("twalk", [("fid", VN fid); ("newFID", VN newfid); ("Names", param "names")])]).
  { unfold versions in Hv. cbn [In] in Hv.
    repeat (destruct Hv as [<-|Hv]; [cbv; reflexivity|]). contradiction. }
  unfold backend_calls. rewrite E. cbn [flat_map]. rewrite app_nil_r.
  cbv -[map]. destruct (param "names") as [| |l| | | | |]; try reflexivity.
Qed.

(** only message types the negotiated version defines *)
Lemma version_types v : In v versions -> forallb (defined_in v) (types_at v) = true.
Proof.
  intros Hv. unfold versions in Hv. cbn [In] in Hv.
  repeat (destruct Hv as [<-|Hv]; [vm_compute; reflexivity|]). contradiction.
Qed.

(** Tu* exactly from version 3 on, Twalkgetattr exactly from version 2 on *)
Lemma version_types_exact v : In v versions ->
  (existsb (String.eqb "tucreate") (types_at v) = (3 <=? v)%N) /\
  (existsb (String.eqb "tlcreate") (types_at v) = negb (3 <=? v)%N) /\
  (existsb (String.eqb "twalkgetattr") (types_at v) = (2 <=? v)%N).
Proof.
  intros Hv. unfold versions in Hv. cbn [In] in Hv.
  repeat (destruct Hv as [<-|Hv]; [vm_compute; repeat split|]). contradiction.
Qed.

(** SetXattr and RemoveXattr fail locally with ENOSYS and send nothing *)
Lemma enosys_local name v e : name = "SetXattr" \/ name = "RemoveXattr" ->
  client_msgs v name e = [] /\
  exists m, find_method name = Some m /\ gm_local m = "ENOSYS" /\ gm_sends m = [] /\ gm_text m = [].
Proof.
  intros [-> | ->]; (split; [reflexivity|]); eexists; (split; [reflexivity|]); repeat split.
Qed.

(** every other method of the File interface is in the table, guarded by the closed flag or composed of guarded methods *)
Lemma file_methods_present :
  forallb (fun n => match find_method n with Some _ => true | None => false end) file_methods = true.
Proof. vm_compute. reflexivity. Qed.

(** every message names the receiver's fid (as fid or as its directory) — a forgotten fid field is a table difference *)
Lemma every_send_has_receiver_fid :
  forallb (fun m => forallb (fun s => existsb (fun f => match snd f with GRecvFid => true | _ => false end) (gs_fields s)
                                     || String.eqb (gs_t s) "tattach")
                            (gm_sends m)) spec_methods = true.
Proof. vm_compute. reflexivity. Qed.

(** fid allocator discipline (used by C10): Get is always followed, on the error path of the binding
    request, by releaseFID (which puts the fid back only after Rlerror); no other method gives a new fid back;
    Put(c.fid) happens only in Close and Remove, after the exchange succeeded *)
Lemma fid_sites :
  map gm_name (filter gm_fid_get spec_methods) = ["Attach"; "Walk"; "WalkGetAttr"] /\
  forallb (fun m => forallb (fun s => String.eqb (gs_put_on_err s) "refused") (gm_sends m)) (filter gm_fid_get spec_methods) = true /\
  forallb (fun m => forallb (fun s => String.eqb (gs_put_on_err s) "") (gm_sends m)) (filter (fun m => negb (gm_fid_get m)) spec_methods) = true /\
  map gm_name (filter gm_fid_put_ok spec_methods) = ["Close"; "Remove"] /\
  forallb (fun m => String.eqb (gm_guard m) "cas") (filter gm_fid_put_ok spec_methods) = true /\
  ClientGen.release_fid_policy = "refused".
Proof. vm_compute. repeat split. Qed.

(** the values returned are the reply's fields, in the order of the File method's results *)
Definition ret_spec : list (string * list string) :=
  [("Open", ["QID"; "IoUnit"]); ("GetAttr", ["QID"; "Valid"; "Attr"]); ("StatFS", ["FSStat"]); ("Readlink", ["Target"]);
   ("Readdir", ["Entries"]); ("Mkdir", ["QID"]); ("Symlink", ["QID"]); ("Mknod", ["QID"]); ("Lock", ["Status"])].

Definition rets_ok (name : string) (fields : list string) : bool :=
  match find_method name with
  | Some m =>
      forallb (fun s =>
                 let r := gs_r s in     (* go2coq prints the reply variable as its type *)
                 if list_eq_dec string_dec (gs_rets s)
                      (map (fun f => r ++ "." ++ f) fields ++ [if String.eqb name "Lock" then "err" else "nil"])
                 then true else false)
              (gm_sends m)
  | None => false
  end.

Lemma returns_ok : forallb (fun x => rets_ok (fst x) (snd x)) ret_spec = true.
Proof. vm_compute. reflexivity. Qed.
