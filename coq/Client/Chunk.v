(** C11 — model of p9/client_file.go: chunk, readAt, writeAt (definitions only).

    [chunk] is modelled generically over the per-chunk function [fn]; a chunk is
    given to [fn] as (position in p, length, offset) because the Go slice
    p[total:total+chunkSize] aliases p.  The remote file is a size and a byte
    function over Z (so that offsets above 2^32 cost nothing); one remote
    operation (Twrite/Rwrite, Tread/Rread as the client sees them) is answered
    from a tape: a count (a short one allowed) or an error.  An answer that
    reports MORE than was asked is outside C11 (the tape counts are capped by
    the chunk length); the generic [chunk] keeps Go's panic for that case. *)
From Coq Require Import ZArith NArith List Bool.
Import ListNotations.

(** int64 wrap-around of [offset += int64(n)] *)
Definition wrap64 (z : Z) : Z :=
  ((z + 9223372036854775808) mod 18446744073709551616 - 9223372036854775808)%Z.

(** errors as the caller of ReadAt/WriteAt can tell them apart *)
Inductive cerr := CEOF | CErrno (n : N) | CConn.

Definition cerr_eqb (a b : cerr) : bool :=
  match a, b with
  | CEOF, CEOF | CConn, CConn => true
  | CErrno x, CErrno y => N.eqb x y
  | _, _ => false
  end.

Definition oerr_eqb (a b : option cerr) : bool :=
  match a, b with
  | None, None => true
  | Some x, Some y => cerr_eqb x y
  | _, _ => false
  end.

(** one application of fn: chunk p[pos:pos+len] at offset off returned (n, err) *)
Record ccall := mkcall { c_pos : nat; c_len : nat; c_off : Z; c_n : nat; c_err : option cerr }.

Inductive cout :=
| CRet (total : nat) (err : option cerr)
| CPanic                      (* "bytes completed > requested" *)
| CFuel.                      (* model only; excluded by chunk_fuel_enough *)

Section Chunk.
  Variable S : Type.
  Variable fn : S -> nat -> nat -> Z -> (nat * option cerr) * S.

  Fixpoint chunk_loop (fuel cs : nat) (st : S) (lenp total : nat) (off : Z)
    : (cout * list ccall) * S :=
    match fuel with
    | O => ((CFuel, []), st)
    | Datatypes.S fuel' =>
        if total =? lenp then ((CRet total None, []), st)
        else
          let len := if lenp <? total + cs then lenp - total else cs in
          match fn st total len off with
          | ((n, err), st') =>
              let c := mkcall total len off n err in
              let total' := total + n in
              let off' := wrap64 (off + Z.of_nat n) in
              match err with
              | Some e => ((CRet total' (Some e), [c]), st')
              | None =>
                  if n <? cs then ((CRet total' None, [c]), st')
                  else if lenp <? total' then ((CPanic, [c]), st')
                  else match chunk_loop fuel' cs st' lenp total' off' with
                       | ((r, cl), st'') => ((r, c :: cl), st'')
                       end
              end
          end
    end.

  (** chunk(chunkSize, fn, p, offset) with len p = lenp *)
  Definition chunk (cs : nat) (st : S) (lenp : nat) (off : Z) : (cout * list ccall) * S :=
    if lenp =? 0 then
      match fn st 0 0 off with
      | ((n, err), st') => ((CRet n err, [mkcall 0 0 off n err]), st')
      end
    else chunk_loop (Datatypes.S lenp) cs st lenp 0 off.
End Chunk.
Arguments chunk_loop {S}.
Arguments chunk {S}.

(** ---- fn driven by a tape of raw (n, err) answers: the direct differential on Go's chunk ---- *)
Definition tape_fn (st : list (nat * option cerr)) (pos len : nat) (off : Z)
  : (nat * option cerr) * list (nat * option cerr) :=
  match st with
  | [] => ((len, None), [])
  | a :: t => (a, t)
  end.

(** ---- the remote file ---- *)
Record rfile := mkrf { rf_size : Z; rf_byte : Z -> N }.

Definition rf_get (f : rfile) (i : Z) : N :=
  if (0 <=? i)%Z && (i <? rf_size f)%Z then rf_byte f i else 0%N.

(** storing d at off: bytes between the old end and off read as zero *)
Definition rf_store (f : rfile) (off : Z) (d : list N) : rfile :=
  match d with
  | [] => f
  | _ =>
      mkrf (Z.max (rf_size f) (off + Z.of_nat (length d)))
           (fun i => if (off <=? i)%Z && (i <? off + Z.of_nat (length d))%Z
                     then nth (Z.to_nat (i - off)) d 0%N
                     else rf_get f i)
  end.

(** extensional equality of remote files *)
Definition rf_eq (f g : rfile) : Prop :=
  rf_size f = rf_size g /\ forall i, rf_get f i = rf_get g i.

Definition rf_avail (f : rfile) (off : Z) (k : nat) : nat :=
  Z.to_nat (Z.min (Z.of_nat k) (Z.max 0 (rf_size f - off))).

(** file[off : off+k] cut at the end of the file *)
Definition rf_read (f : rfile) (off : Z) (k : nat) : list N :=
  map (fun j => rf_get f (off + Z.of_nat j)) (seq 0 (rf_avail f off k)).

Definition rf_of_list (l : list N) : rfile :=
  mkrf (Z.of_nat (length l)) (fun i => nth (Z.to_nat i) l 0%N).

(** ---- writeAt: one Twrite per chunk ---- *)
Inductive wans :=
| WCount (k : nat)                      (* Rwrite count: k bytes stored (capped by the chunk) *)
| WErr (e : cerr)                       (* an error, nothing stored *)
| WErrStored (k : nat) (e : cerr).      (* the backend stored k bytes and then failed: the client sees only the error *)
Record wstate := mkws { ws_file : rfile; ws_tape : list wans; ws_failed : bool (* a failing Twrite stored bytes *) }.

Definition write_fn (p : list N) (st : wstate) (pos len : nat) (off : Z)
  : (nat * option cerr) * wstate :=
  let data := firstn len (skipn pos p) in
  if ws_failed st then ((0, Some CConn), st)        (* never reached: chunk stops at the first error *)
  else
  match ws_tape st with
  | [] => ((length data, None), mkws (rf_store (ws_file st) off data) [] false)
  | WCount k :: t =>
      let d := firstn k data in
      ((length d, None), mkws (rf_store (ws_file st) off d) t false)
  | WErr e :: t => ((0, Some e), mkws (ws_file st) t false)
  | WErrStored k e :: t =>
      let d := firstn k data in
      ((0, Some e), mkws (rf_store (ws_file st) off d) t (negb (length d =? 0)))
  end.

Definition write_at (cs : nat) (p : list N) (off : Z) (f : rfile) (tape : list wans) :=
  chunk (write_fn p) cs (mkws f tape false) (length p) off.

(** ---- readAt: one Tread per chunk; an empty Rread for a non-empty chunk is io.EOF ---- *)
Inductive rans := RCount (k : nat) | RErr (e : cerr).
Record rstate := mkrs { rs_buf : list N; rs_tape : list rans }.

Definition splice (buf : list N) (pos : nat) (d : list N) : list N :=
  firstn pos buf ++ d ++ skipn (pos + length d) buf.

Definition read_serve (f : rfile) (st : rstate) (pos len : nat) (off : Z) (k : nat) (t : list rans) :=
  let d := rf_read f off (Nat.min k len) in
  if (length d =? 0) && (0 <? len) then ((0, Some CEOF), mkrs (rs_buf st) t)
  else ((length d, None), mkrs (splice (rs_buf st) pos d) t).

Definition read_fn (f : rfile) (st : rstate) (pos len : nat) (off : Z)
  : (nat * option cerr) * rstate :=
  match rs_tape st with
  | [] => read_serve f st pos len off len []
  | RCount k :: t => read_serve f st pos len off k t
  | RErr e :: t => ((0, Some e), mkrs (rs_buf st) t)
  end.

Definition read_at (cs : nat) (p : list N) (off : Z) (f : rfile) (tape : list rans) :=
  chunk (read_fn f) cs (mkrs p tape) (length p) off.
