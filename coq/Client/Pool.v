(** C10 — model of p9/pool.go (definitions only).  The Go cache is a slice used
    as a stack (append / take the last element); here the head of the list is
    the top of the stack.  [start++] is a uint64 increment. *)
From Coq Require Import NArith List Bool.
Import ListNotations.
Open Scope N_scope.

Record pool := mkpool { p_cache : list N; p_start : N; p_limit : N }.

Definition two64 : N := 18446744073709551616.

Definition pool_get (p : pool) : option N * pool :=
  match p_cache p with
  | v :: c => (Some v, mkpool c (p_start p) (p_limit p))
  | [] =>
      if p_start p =? p_limit p then (None, p)
      else (Some (p_start p), mkpool [] ((p_start p + 1) mod two64) (p_limit p))
  end.

Definition pool_put (p : pool) (v : N) : pool :=
  mkpool (v :: p_cache p) (p_start p) (p_limit p).

Inductive pool_op := PGet | PPut (v : N).

(** [remove1 v l] removes the first occurrence of v *)
Fixpoint remove1 (v : N) (l : list N) : list N :=
  match l with
  | [] => []
  | x :: r => if x =? v then r else x :: remove1 v r
  end.

Definition mem (v : N) (l : list N) : bool := existsb (N.eqb v) l.

(** run a sequence of operations keeping the list of outstanding values; a Put
    of a value that is not outstanding breaks the allocator's discipline
    (the client never does it: see ClientGen's Get/Put sites) and ends the run
    with None.  The result list has one entry per Get: the value or None. *)
Fixpoint pool_run (p : pool) (out : list N) (ops : list pool_op)
  : option (pool * list N * list (option N)) :=
  match ops with
  | [] => Some (p, out, [])
  | PGet :: r =>
      let '(v, p') := pool_get p in
      let out' := match v with Some x => x :: out | None => out end in
      match pool_run p' out' r with
      | Some (pf, of, res) => Some (pf, of, v :: res)
      | None => None
      end
  | PPut v :: r =>
      if mem v out then pool_run (pool_put p v) (remove1 v out) r else None
  end.
