(** C10 — proofs about Client/Pool.v *)
From Coq Require Import NArith List Bool Lia Permutation ZifyN ZifyBool.
From P9V Require Import Client.Pool.
Import ListNotations.
Open Scope N_scope.

(** cache and outstanding values together are exactly the range handed out so far, without repetition *)
Definition pinv (start0 : N) (p : pool) (out : list N) : Prop :=
  start0 <= p_start p <= p_limit p /\ p_limit p < two64 /\
  NoDup (p_cache p ++ out) /\
  forall v, In v (p_cache p ++ out) <-> start0 <= v < p_start p.

Lemma pinv_init start0 limit : start0 <= limit < two64 -> pinv start0 (mkpool [] start0 limit) [].
Proof.
  intros H. unfold pinv; cbn. repeat split; try lia; try constructor; try tauto.
Qed.

Lemma mem_In v l : mem v l = true <-> In v l.
Proof.
  unfold mem. rewrite existsb_exists. split.
  - intros (x & Hx & He). apply N.eqb_eq in He. now subst.
  - intros H. exists v. split; auto. apply N.eqb_refl.
Qed.

Lemma remove1_perm v l : In v l -> Permutation l (v :: remove1 v l).
Proof.
  induction l as [|x r IH]; cbn; [tauto|]. intros [->|H].
  - now rewrite N.eqb_refl.
  - destruct (N.eqb_spec x v) as [->|Hne]; [reflexivity|].
    rewrite perm_swap. constructor. auto.
Qed.

Lemma pinv_perm start0 c1 o1 c2 o2 s l :
  Permutation (c1 ++ o1) (c2 ++ o2) ->
  pinv start0 (mkpool c1 s l) o1 -> pinv start0 (mkpool c2 s l) o2.
Proof.
  intros P (A & B & C & D). cbn in *. split; [exact A|]. split; [exact B|]. split.
  - eapply Permutation_NoDup; eauto.
  - intros v. rewrite <- D. split; intros Hin.
    + eapply Permutation_in; [symmetry; exact P|exact Hin].
    + eapply Permutation_in; [exact P|exact Hin].
Qed.

Lemma get_some start0 p out v p' :
  pinv start0 p out -> pool_get p = (Some v, p') ->
  pinv start0 p' (v :: out) /\ ~ In v out /\ start0 <= v < p_limit p.
Proof.
  intros Hinv. pose proof Hinv as (A & B & C & D). destruct p as [c s l]. unfold pool_get. cbn in *.
  destruct c as [|x c].
  - destruct (N.eqb_spec s l) as [->|Hne]; [discriminate|]. intros H; inversion H; subst; clear H.
    assert (Hs : (v + 1) mod two64 = v + 1) by (apply N.mod_small; lia).
    rewrite Hs. split; [|split; [|lia]].
    + unfold pinv; cbn. repeat split; try lia.
      * constructor; auto. intros Hin. apply D in Hin. lia.
      * destruct H as [<-|H]; [lia|]. apply D in H. lia.
      * destruct H as [<-|H]; [lia|]. apply D in H. lia.
      * intros [H1 H2]. destruct (N.eq_dec v v0) as [->|Hne2]; [now left|]. right. apply D. lia.
    + intros Hin. apply D in Hin. lia.
  - intros H; inversion H; subst; clear H. split; [|split].
    + eapply pinv_perm; [|exact Hinv]. cbn. apply Permutation_middle.
    + cbn in C. inversion C; subst. intros Hin. apply H1. apply in_or_app. now right.
    + assert (Hin : In v ((v :: c) ++ out)) by now left. apply D in Hin. lia.
Qed.

Lemma get_none start0 p out p' :
  pinv start0 p out -> pool_get p = (None, p') ->
  p' = p /\ forall v, start0 <= v < p_limit p -> In v out.
Proof.
  intros (A & B & C & D). destruct p as [c s l]. unfold pool_get. cbn in *.
  destruct c as [|x c]; [|discriminate].
  destruct (N.eqb_spec s l) as [->|Hne]; [|discriminate].
  intros H; inversion H; subst. split; auto. intros v Hv. now apply D in Hv.
Qed.

Lemma put_ok start0 p out v :
  pinv start0 p out -> In v out -> pinv start0 (pool_put p v) (remove1 v out).
Proof.
  intros Hinv Hin. destruct p as [c s l]. unfold pool_put; cbn.
  eapply pinv_perm; [|exact Hinv]. cbn.
  rewrite (remove1_perm v out Hin) at 1. symmetry. apply Permutation_middle.
Qed.

(** what the invariant says about the outstanding values *)
Lemma pinv_out start0 p out :
  pinv start0 p out -> NoDup out /\ Forall (fun v => start0 <= v < p_limit p) out.
Proof.
  intros (A & B & C & D). split.
  - clear - C. induction (p_cache p) as [|x c IH]; cbn in C; auto. inversion C; auto.
  - rewrite Forall_forall. intros v Hv.
    assert (Hin : In v (p_cache p ++ out)) by (apply in_or_app; now right). apply D in Hin. lia.
Qed.

Lemma pool_run_inv start0 : forall ops p out pf of res,
  pinv start0 p out -> pool_run p out ops = Some (pf, of, res) ->
  pinv start0 pf of /\ p_limit pf = p_limit p.
Proof.
  induction ops as [|[|v] r IH]; intros p out pf of res Hinv; cbn.
  - intros H; inversion H; subst. auto.
  - destruct (pool_get p) as [[x|] p'] eqn:Hg.
    + destruct (get_some _ _ _ _ _ Hinv Hg) as (Hinv' & _ & _).
      destruct (pool_run p' (x :: out) r) as [[[pf' of'] res']|] eqn:Hr; [|discriminate].
      intros H; inversion H; subst. destruct (IH _ _ _ _ _ Hinv' Hr) as [? Hl]. split; auto.
      rewrite Hl. unfold pool_get in Hg. destruct (p_cache p); [destruct (p_start p =? p_limit p)|]; inversion Hg; reflexivity.
    + destruct (get_none _ _ _ _ Hinv Hg) as [-> _].
      destruct (pool_run p out r) as [[[pf' of'] res']|] eqn:Hr; [|discriminate].
      intros H; inversion H; subst. eapply IH; eauto.
  - destruct (mem v out) eqn:Hm; [|discriminate]. apply mem_In in Hm. intros Hr.
    destruct (IH _ _ _ _ _ (put_ok _ _ _ _ Hinv Hm) Hr) as [? Hl]. split; auto.
Qed.
