(** C10 — observations of the real pool / Client compared with Client/Pool.v and
    Client/Mux.v.  The Mux model is run under one canonical schedule (every
    schedule gives the same outcome: MuxProofs); the real runs are concurrent. *)
From Coq Require Import NArith Arith List Bool.
From P9V Require Import Client.Pool Client.Mux Client.Fids.
Import ListNotations.
Open Scope nat_scope.

(** what the scripted fake server does next *)
Inductive sitem :=
| SReply (i : nat)        (* the correct reply to call i *)
| SUnknown                (* a frame with a tag nobody waits for *)
| SWrong (i : nat)        (* a reply to call i of the wrong type *)
| SGarbage                (* a header with an impossible size *)
| SClose                  (* closes the connection *)
| SShort (i : nat).       (* header of a reply to call i, then the connection closes *)

Inductive obs := OOk | OForeign | OErr | OHang | OPanic.

(** calls started together (index, does its send fail), then what the server does *)
Definition phase := (list (nat * bool) * list sitem)%type.

Inductive c10case :=
| CPool (start limit : N) (ops : list pool_op) (results : list (option N))
| CBatch (n : nat) (phases : list phase) (outcomes : list obs)
(* a fixed schedule forced by the harness (gated transport): the trace of model actions and what each call returned *)
| CTrace (n : nat) (tr : list action) (outcomes : list obs)
(* binding requests / clunks against a scripted server: the fid each binding request carried *)
| CFids (evs : list fev) (fids : list (option N)).

(** the comparison model is the model of the code AS SPECIFIED (all four flags true; that the source has them is the
    obligation C10_source_shape): this file does not import gen/ClientGen.v, so the cases still evaluate — and yield
    concrete replays — when go2coq refuses a changed client.go *)
Definition mark_spec : bool := true.
Definition tag_of (i : nat) : nat := S i.

Fixpoint find_idx (f : tstate -> bool) (l : list tstate) (i : nat) : option nat :=
  match l with
  | [] => None
  | x :: r => if f x then Some i else find_idx f r (S i)
  end.

Definition try_step (m : mst) (a : action) : mst :=
  match step true true true mark_spec m a with Some m' => m' | None => m end.

Definition feed (m : mst) (j : nat) (it : sitem) : mst :=
  match it with
  | SReply i => try_step (try_step m (AFrame j (tag_of i) true)) (ABody j true)
  | SUnknown => try_step m (AFrame j 0 true)     (* tag 0 is never registered: tags are index + 1 *)
  | SWrong i => try_step m (AFrame j (tag_of i) false)
  | SGarbage | SClose => try_step m (ARecvErr j)
  | SShort i =>
      match step true true true mark_spec m (AFrame j (tag_of i) true) with
      | Some m' => match get (thr m') j with
                   | TLooked _ _ _ _ _ => try_step m' (ABody j false)
                   | _ => m'                       (* unknown tag: already broadcast *)
                   end
      | None => m
      end
  end.

Fixpoint drive (fuel : nat) (m : mst) (script : list sitem) : mst :=
  match fuel with
  | O => m
  | S fuel' =>
      match find_idx (fun st => match st with TWait _ s => is_some (full m s) | _ => false end) (thr m) 0 with
      | Some i => drive fuel' (try_step m (AWaitDone i)) script
      | None =>
          match find_idx (fun st => match st with TRecv _ _ => true | _ => false end) (thr m) 0 with
          | Some j =>
              match script with
              | [] => m
              | it :: rest => drive fuel' (feed m j it) rest
              end
          | None =>
              match find_idx (fun st => match st with TWait _ _ => true | _ => false end) (thr m) 0 with
              | Some i => drive fuel' (try_step m (AWaitToken i)) script
              | None => m
              end
          end
      end
  end.

Fixpoint run_phases (m : mst) (ps : list phase) : mst :=
  match ps with
  | [] => m
  | (calls, script) :: rest =>
      let m1 := fold_left (fun (m : mst) (c : nat * bool) =>
                  let m0 := try_step m (AStart (fst c) (tag_of (fst c)) (fst c)) in
                  if snd c then try_step m0 (ASendFail (fst c))
                  else match step true true true mark_spec m0 (ASendOk (fst c)) with
                       | Some m' => m'
                       | None => try_step m0 (ASendFail (fst c))     (* the connection is dead: the call fails without being sent *)
                       end) calls m in
      run_phases (drive (4 * (length (thr m) + length script) + 8) m1 script) rest
  end.

Definition obs_matches (st : tstate) (o : obs) : bool :=
  match st, o with
  | TDone _ _ (ROk _ _ _), OOk => true
  | TDone _ _ RFail, OErr => true
  | _, _ => false
  end.

Fixpoint all2 {A B} (f : A -> B -> bool) (a : list A) (b : list B) : bool :=
  match a, b with
  | [], [] => true
  | x :: a', y :: b' => f x y && all2 f a' b'
  | _, _ => false
  end.

Definition opt_eqb (a b : option N) : bool :=
  match a, b with
  | None, None => true
  | Some x, Some y => N.eqb x y
  | _, _ => false
  end.

Definition agrees (c : c10case) : bool :=
  match c with
  | CPool start limit ops results =>
      match pool_run (mkpool [] start limit) [] ops with
      | Some (_, _, res) => all2 opt_eqb res results
      | None => false
      end
  | CBatch n phases outcomes =>
      all2 obs_matches (thr (run_phases (init n) phases)) outcomes
  | CTrace n tr outcomes =>
      match run true true true mark_spec (init n) tr with
      | Some m => all2 obs_matches (thr m) outcomes
      | None => false
      end
  | CFids evs fids =>
      all2 opt_eqb (map fst (fid_run true (mkpool [] 1 4294967295) [] [] evs)) fids
  end.

(** replay of the server's bindings over the OBSERVED fids: none is handed out while bound *)
Fixpoint fids_obs_ok (bound : list N) (evs : list fev) (fids : list (option N)) : bool :=
  match evs, fids with
  | [], _ => true
  | FBind o :: r, Some f :: rf =>
      negb (mem f bound) && negb (f =? 4294967295)%N &&
      fids_obs_ok (match o with BOk | BLost true => f :: bound | _ => bound end) r rf
  | FBind _ :: r, None :: rf => fids_obs_ok bound r rf
  | FClunk f ok :: r, _ => fids_obs_ok (if ok then remove1 f bound else bound) r fids
  | _, _ => false
  end.

(** the property on the observed allocator results alone: replay Get/Put over the observed values *)
Fixpoint pool_obs_ok (start limit : N) (out : list N) (ops : list pool_op) (results : list (option N)) : bool :=
  match ops, results with
  | [], _ => true
  | PGet :: r, Some v :: rr =>
      negb (mem v out) && (start <=? v)%N && (v <? limit)%N && negb (v =? 65535)%N && negb (v =? 4294967295)%N &&
      pool_obs_ok start limit (v :: out) r rr
  | PGet :: r, None :: rr =>
      (N.of_nat (length out) =? limit - start)%N && pool_obs_ok start limit out r rr
  | PPut v :: r, _ => pool_obs_ok start limit (remove1 v out) r results
  | _, _ => false
  end.

(** calls the server answered correctly before doing anything else in their phase *)
Fixpoint answered (script : list sitem) : list nat :=
  match script with
  | SReply i :: r => i :: answered r
  | _ => []
  end.

Definition must_be_ok (phases : list phase) : list nat :=
  flat_map (fun ph : phase =>
              filter (fun i => existsb (fun c : nat * bool => (fst c =? i) && negb (snd c)) (fst ph)) (answered (snd ph)))
           phases.

(** no call hangs, none gets another call's data, and a call that was sent and answered correctly
    on a connection on which nothing had gone wrong in its phase returns its reply *)
Definition property_holds (c : c10case) : bool :=
  match c with
  | CPool start limit ops results => pool_obs_ok start limit [] ops results
  | CBatch _ phases outcomes =>
      forallb (fun o => match o with OOk | OErr => true | _ => false end) outcomes &&
      forallb (fun i => match nth i outcomes OHang with OOk => true | _ => false end) (must_be_ok phases)
  | CTrace _ _ outcomes => forallb (fun o => match o with OOk | OErr => true | _ => false end) outcomes
  | CFids evs fids => fids_obs_ok [] evs fids
  end.

Fixpoint failing (f : c10case -> bool) (i : nat) (l : list c10case) : list nat :=
  match l with
  | [] => []
  | c :: r => if f c then failing f (S i) r else i :: failing f (S i) r
  end.

Definition mismatches (l : list c10case) : list nat := failing agrees 0 l.
Definition property_failures (l : list c10case) : list nat := failing property_holds 0 l.

(** sanity of the canonical scheduler: three calls answered in reverse order, then a close *)
Example drive_ex :
  map (fun st => match st with TDone _ _ (ROk _ _ _) => 1 | TDone _ _ RFail => 2 | _ => 0 end)
      (thr (run_phases (init 4) [([(0, false); (1, false); (2, false)], [SReply 2; SReply 0; SClose]); ([(3, true)], [])]))
  = [1; 2; 1; 2].
Proof. vm_compute. reflexivity. Qed.
