(** C11 — comparison of observations of the real chunk / ReadAt / WriteAt with
    Client/Chunk.v, and the property evaluated on the observed behaviour only. *)
From Coq Require Import ZArith NArith List Bool.
From P9V Require Import Fs.Version Client.Chunk.
Import ListNotations.

(** backend / fn call as observed: offset, length given, count returned, error *)
Definition ocall := (Z * nat * nat * option cerr)%type.

Inductive c11case :=
(* Go's chunk() driven by a scripted fn; also used for the large-msize end-to-end runs, where the
   tape is what the backend answered and content_ok was computed by the harness *)
| CDirect (cs lenp : N) (off : Z) (tape : list (N * option cerr))
          (panicked : bool) (n : N) (err : option cerr) (calls : list (N * N * Z)) (content_ok : bool)
(* client.WriteAt through real client + server + sparse in-memory backend *)
| CWrite (msize cs : N) (p : list N) (off : Z) (base : Z) (file0 : list N) (tape : list wans)
         (n : nat) (err : option cerr) (calls : list ocall) (wstart : Z) (window : list N) (size_after : Z)
(* the same with msize >= 2201: buffers and files are given by generator parameters (byte i = (a*i + c + i/256) mod 256),
   the model is compared at length level (tape = what the backend answered), the content is checked here *)
| CBigW (msize cs : N) (a c lenp : N) (off : Z) (tape : list (N * option cerr)) (stored : N)
        (n : N) (err : option cerr) (calls : list (N * N * Z)) (wstart : Z) (window : list N)
| CBigR (msize cs : N) (a c lenp : N) (off base : Z) (fa fc flen : N) (tape : list (N * option cerr))
        (n : N) (err : option cerr) (calls : list (N * N * Z)) (buf_after : list N)
(* the payload size the client uses after negotiating msize *)
| CFilled (ok : bool)      (* reads in flight together on one connection after a zero-byte end-of-file read: each ReadAt
                             delivered its own file's bytes (compared by the harness, vhread_probe_test.go) *)
| CPayload (msize cs : N)
(* client.ReadAt *)
| CRead (msize cs : N) (p0 : list N) (off : Z) (base : Z) (file0 : list N) (tape : list rans)
        (n : nat) (err : option cerr) (calls : list ocall) (buf_after : list N).

(** sparse file: [file0] at [base, base+len), zero below *)
Definition rf_of_seg (base : Z) (l : list N) : rfile :=
  mkrf (if (length l =? 0)%nat then 0 else base + Z.of_nat (length l))%Z
       (fun i => if (i <? base)%Z then 0%N else nth (Z.to_nat (i - base)) l 0%N).

(** the harness's byte pattern, built with an accumulator (long buffers) *)
Fixpoint pattern_aux (a c : N) (i : N) (k : nat) (acc : list N) : list N :=
  match k with
  | O => acc
  | S k' => pattern_aux a c (i + 1) k' (((a * i + c + i / 256) mod 256)%N :: acc)
  end.
Definition pattern (a c len : N) : list N := rev_append (pattern_aux a c 0 (N.to_nat len) []) [].

Fixpoint list_eqb {A B} (eqb : A -> B -> bool) (a : list A) (b : list B) : bool :=
  match a, b with
  | [], [] => true
  | x :: a', y :: b' => eqb x y && list_eqb eqb a' b'
  | _, _ => false
  end.

(** model call vs backend log entry; for a failed call the log's count is what the backend stored before failing *)
Definition ocall_eqb (a b : ocall) : bool :=
  let '(o1, l1, n1, e1) := a in let '(o2, l2, n2, e2) := b in
  (o1 =? o2)%Z && (l1 =? l2)%nat && (match e2 with Some _ => true | None => (n1 =? n2)%nat end) && oerr_eqb e1 e2.

Definition ocall_of (c : ccall) : ocall := (c_off c, c_len c, c_n c, c_err c).
(** the backend of a read does not see the io.EOF the client makes of an empty reply *)
Definition ocall_of_read (c : ccall) : ocall :=
  (c_off c, c_len c, c_n c, match c_err c with Some CEOF => None | e => e end).

Definition window_of (f : rfile) (start : Z) (len : nat) : list N :=
  map (fun j => rf_get f (start + Z.of_nat j)%Z) (seq 0 len).

Definition agrees (c : c11case) : bool :=
  match c with
  | CDirect cs lenp off tape panicked n err calls _ =>
      let tape' := map (fun '(k, e) => (N.to_nat k, e)) tape in
      let '((out, cl), _) := chunk tape_fn (N.to_nat cs) tape' (N.to_nat lenp) off in
      list_eqb (fun (a : ccall) '(p, l, o) => (N.of_nat (c_pos a) =? p)%N && (N.of_nat (c_len a) =? l)%N && (c_off a =? o)%Z) cl calls &&
      match out with
      | CRet t e => negb panicked && (N.of_nat t =? n)%N && oerr_eqb e err
      | CPanic => panicked
      | CFuel => false
      end
  | CFilled _ => true
  | CPayload msize cs => (cs =? payload_of msize)%N
  | CBigW msize cs _ _ lenp off tape _ n err calls _ _
  | CBigR msize cs _ _ lenp off _ _ _ _ tape n err calls _ =>
      let tape' := map (fun '(k, e) => (N.to_nat k, e)) tape in
      let '((out, cl), _) := chunk tape_fn (N.to_nat cs) tape' (N.to_nat lenp) off in
      (cs =? payload_of msize)%N &&
      list_eqb (fun (a : ccall) '(p, l, o) => (N.of_nat (c_pos a) =? p)%N && (N.of_nat (c_len a) =? l)%N && (c_off a =? o)%Z) cl calls &&
      match out with
      | CRet t e => (N.of_nat t =? n)%N && oerr_eqb e err
      | _ => false
      end
  | CWrite msize cs p off base file0 tape n err calls wstart window size_after =>
      let '((out, cl), st) := write_at (N.to_nat cs) p off (rf_of_seg base file0) tape in
      (cs =? payload_of msize)%N &&
      list_eqb ocall_eqb (map ocall_of cl) calls &&
      list_eqb N.eqb (window_of (ws_file st) wstart (length window)) window &&
      (rf_size (ws_file st) =? size_after)%Z &&
      match out with CRet t e => (t =? n)%nat && oerr_eqb e err | _ => false end
  | CRead msize cs p0 off base file0 tape n err calls buf_after =>
      let '((out, cl), st) := read_at (N.to_nat cs) p0 off (rf_of_seg base file0) tape in
      (cs =? payload_of msize)%N &&
      list_eqb ocall_eqb (map ocall_of_read cl) calls &&
      list_eqb N.eqb (rs_buf st) buf_after &&
      match out with CRet t e => (t =? n)%nat && oerr_eqb e err | _ => false end
  end.

(** requests in increasing contiguous offsets from [off], each at most cs long and non-empty, none
    after a short or failed one; for an empty buffer exactly one empty request *)
Fixpoint calls_wf (cs : nat) (off : Z) (remaining : nat) (calls : list ocall) : bool :=
  match calls with
  | [] => (remaining =? 0)%nat
  | (o, l, k, e) :: rest =>
      (o =? off)%Z && (l =? Nat.min cs remaining)%nat && (0 <? l)%nat && (k <=? l)%nat &&
      match rest with
      | [] => match e with Some _ => true | None => (k <? cs)%nat || (remaining =? k)%nat end
      | _ => (k =? l)%nat && (l =? cs)%nat && match e with None => true | Some _ => false end &&
             calls_wf cs (off + Z.of_nat l) (remaining - l) rest
      end
  end.

Definition calls_ok (cs : nat) (off : Z) (lenp : nat) (calls : list ocall) : bool :=
  if (lenp =? 0)%nat then
    match calls with [(o, l, _, _)] => (o =? off)%Z && (l =? 0)%nat | _ => false end
  else match calls with [] => false | _ => calls_wf cs off lenp calls end.

Definition sum_n (calls : list ocall) : nat :=
  fold_right (fun '(_, _, k, e) a => match e with None => (k + a)%nat | Some _ => a end) 0%nat calls.
(** bytes a failing last request stored before it failed (backend log) *)
Definition stored_by_failure (calls : list ocall) : nat :=
  match last calls (0%Z, 0%nat, 0%nat, None) with (_, _, k, Some _) => k | _ => 0%nat end.
Definition last_err (calls : list ocall) : option cerr :=
  match last calls (0%Z, 0%nat, 0%nat, None) with (_, _, _, e) => e end.
Definition all_full (calls : list ocall) : bool :=
  forallb (fun '(_, l, k, e) => (k =? l)%nat && match e with None => true | _ => false end) calls.

(** "ReadAt fills p with the file's bytes up to end of file": when every backend call of the run returned all the
    file had for it (no short count, no failure — judged on the backend's log against the file), the caller got
    min(len p, size - off) bytes *)
Definition avail_from (size o : Z) : nat := Z.to_nat (Z.max 0 (size - o)).
Definition fills_to_eof (size off : Z) (lenp n : nat) (calls : list ocall) : bool :=
  if forallb (fun '(o, l, k, e) => match e with None => (k =? Nat.min l (avail_from size o))%nat | Some _ => false end) calls
  then (n =? Nat.min lenp (avail_from size off))%nat else true.

Definition property_holds (c : c11case) : bool :=
  match c with
  | CDirect _ _ _ _ _ _ _ _ content_ok => content_ok
  | CWrite _ cs p off _ _ _ n err calls wstart window _ =>
      let csn := N.to_nat cs in
      calls_ok csn off (length p) calls &&
      (n =? sum_n calls)%nat && oerr_eqb err (last_err calls) &&
      (* the file holds exactly p[:n] at off (p[:n+k] when the failing last request stored k bytes before failing) *)
      (let x := (n + stored_by_failure calls)%nat in
       list_eqb N.eqb (firstn x (skipn (Z.to_nat (off - wstart)) window)) (firstn x p)) &&
      (if all_full calls then (n =? length p)%nat && oerr_eqb err None else true)
  | CFilled ok => ok
  | CPayload msize cs =>
      (* every chunk within the payload limit: a full Twrite (23 bytes of header) and a full Rread (11) fit msize *)
      (1 <=? cs)%N && (cs + 23 <=? msize)%N
  | CBigW _ _ a c lenp off _ stored n _ _ wstart window =>
      let x := (N.to_nat n + N.to_nat stored)%nat in
      (n <=? lenp)%N &&
      list_eqb N.eqb (firstn x (skipn (Z.to_nat (off - wstart)) window)) (firstn x (pattern a c lenp))
  | CBigR _ _ a c lenp off base fa fc flen tape n err calls buf_after =>
      let nn := N.to_nat n in
      (n <=? lenp)%N && ((n =? 0)%N || (base <=? off)%Z && (off + Z.of_nat nn <=? base + Z.of_N flen)%Z) &&
      list_eqb N.eqb (firstn nn buf_after) (firstn nn (skipn (Z.to_nat (off - base)) (pattern fa fc flen))) &&
      list_eqb N.eqb (skipn nn buf_after) (skipn nn (pattern a c lenp)) &&
      (if oerr_eqb err (Some CEOF) then (n <? lenp)%N else true) &&
      (if (n =? 0)%N && (0 <? lenp)%N then negb (oerr_eqb err None) else true) &&
      (* up to end of file when the backend was not scripted to answer short or to fail *)
      (let size := (if (flen =? 0)%N then 0 else base + Z.of_N flen)%Z in
       if list_eqb (fun '(k, e) '(_, l, o) => match e with None | Some CEOF => (N.to_nat k =? Nat.min (N.to_nat l) (avail_from size o))%nat | _ => false end)
                   tape calls
       then (N.to_nat n =? Nat.min (N.to_nat lenp) (avail_from size off))%nat else true)
  | CRead _ cs p0 off base file0 _ n err calls buf_after =>
      let csn := N.to_nat cs in
      let lenp := length p0 in
      calls_ok csn off lenp calls &&
      (n =? sum_n calls)%nat && (n <=? lenp)%nat &&
      (* p[:n] = file[off:off+n], inside the file *)
      list_eqb N.eqb (firstn n buf_after) (rf_read (rf_of_seg base file0) off n) &&
      (length (rf_read (rf_of_seg base file0) off n) =? n)%nat &&
      fills_to_eof (rf_size (rf_of_seg base file0)) off lenp n calls &&
      (* io.EOF only if fewer than len p bytes were delivered; an error whenever none were for a non-empty p *)
      (if oerr_eqb err (Some CEOF) then (n <? lenp)%nat else true) &&
      (if (n =? 0)%nat && (0 <? lenp)%nat then negb (oerr_eqb err None) else true) &&
      (* a read that is not the last one never reported an error: EOF is the translation of an empty reply *)
      (match err with
       | Some CEOF => match last calls (0%Z, 0%nat, 0%nat, None) with (_, _, k, _) => (k =? 0)%nat end
       | _ => oerr_eqb err (last_err calls)
       end)
  end.

Fixpoint failing (f : c11case -> bool) (i : nat) (l : list c11case) : list nat :=
  match l with
  | [] => []
  | c :: r => if f c then failing f (Datatypes.S i) r else i :: failing f (Datatypes.S i) r
  end.

Definition mismatches (l : list c11case) : list nat := failing agrees 0%nat l.
Definition property_failures (l : list c11case) : list nat := failing property_holds 0%nat l.
