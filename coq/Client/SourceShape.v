(** C10 — the shape of the client functions the models restate (reviewed copies of what go2coq ClientGen prints:
    whole bodies, statement by statement, comments dropped, locals renamed by role), and what the models take from them.
    Any statement added to, removed from or changed in sendRecv, handleOne, waitAndRecv, releaseFID — or other bounds for
    the two pools in NewClient — makes [source_shape] fail.  pool.Get / pool.Put are no longer pinned as text: go2coq
    PoolGen TRANSLATES them and Client/PoolTie.v proves the translation equal to Pool.pool_get / pool_put. *)
From Coq Require Import String Ascii List Bool Arith.
From P9V Require Import gen.ClientGen.
Import ListNotations.
Open Scope string_scope.

Definition spec_src_Client_sendRecv : list string :=
  ["t, ok := c.tagPool.Get()";
   "if !ok { return ErrOutOfTags }";
   "defer c.tagPool.Put(t)";
   "resp := responsePool.Get().(*response)";
   "recycle := true";
   "defer func() { if recycle { responsePool.Put(resp) } }()";
   "resp.r = rm";
   "c.pendingMu.Lock()";
   "if c.broken != nil { err := c.broken c.pendingMu.Unlock() return fmt.Errorf(""connection broken: %w"", err) }";
   "c.pending[tag(t)] = resp";
   "c.pendingMu.Unlock()";
   "c.sendMu.Lock()";
   "err := send(c.log, c.conn, tag(t), tm)";
   "c.sendMu.Unlock()";
   "if err != nil { c.pendingMu.Lock() if c.pending[tag(t)] == resp { delete(c.pending, tag(t)) } select { case <-resp.done: default: } c.pendingMu.Unlock() recycle = false return fmt.Errorf(""send: %w"", err) }";
   "if err := c.waitAndRecv(resp.done); err != nil { return fmt.Errorf(""wait: %w"", err) }";
   "if _v8, ok := resp.r.(*rlerror); ok { return linux.Errno(_v8.Error) }";
   "return nil"].
Definition spec_src_Client_handleOne : list string :=
  ["var found *response";
   "t, r, err := recv(c.log, c.conn, c.messageSize, func(t tag, mt msgType) (message, error) { c.pendingMu.Lock() resp := c.pending[t] c.pendingMu.Unlock() found = resp if resp == nil { c.log.Printf(""client received unexpected tag %v, ignoring"", t) return nil, ErrUnexpectedTag } if mt == msgRlerror { return &rlerror{}, nil } if mt != resp.r.typ() { return nil, &ErrBadResponse{Got: mt, Want: resp.r.typ()} } return resp.r, nil })";
   "if err != nil { var connErr ConnError fatal := errors.As(err, &connErr) c.pendingMu.Lock() if fatal && c.broken == nil { c.broken = err } for _, resp := range c.pending { resp.done <- err } c.pending = make(map[tag]*response) c.pendingMu.Unlock() if fatal { c.conn.Close() } } else { c.pendingMu.Lock() resp := c.pending[t] if resp == nil || resp != found { c.pendingMu.Unlock() return } delete(c.pending, t) c.pendingMu.Unlock() resp.r = r resp.done <- err }"].
Definition spec_src_Client_waitAndRecv : list string :=
  ["for { select { case _v2 := <-done: return _v2 case c.recvr <- true: select { case _v2 := <-done: <-c.recvr return _v2 default: c.handleOne() <-c.recvr } } }"].
Definition spec_src_Client_releaseFID : list string :=
  ["if _, ok := err.(linux.Errno); ok { c.fidPool.Put(id) }"].
Definition spec_src_pool_Get : list string :=
  ["c.mu.Lock()";
   "defer c.mu.Unlock()";
   "if len(c.cache) > 0 { _v1 := c.cache[len(c.cache)-1] c.cache = c.cache[:len(c.cache)-1] return _v1, true }";
   "if c.start == c.limit { return 0, false }";
   "_v1 := c.start";
   "c.start++";
   "return _v1, true"].
Definition spec_src_pool_Put : list string :=
  ["c.mu.Lock()";
   "c.cache = append(c.cache, v)";
   "c.mu.Unlock()"].
Definition spec_newclient_pools : list (string * string * string) := [("tagPool", "1", "uint64(noTag)"); ("fidPool", "1", "uint64(noFID)")].


Lemma source_shape :
  src_Client_sendRecv = spec_src_Client_sendRecv /\ src_Client_handleOne = spec_src_Client_handleOne /\
  src_Client_waitAndRecv = spec_src_Client_waitAndRecv /\ src_Client_releaseFID = spec_src_Client_releaseFID /\
  newclient_pools = spec_newclient_pools.
Proof. repeat split. Qed.

Fixpoint prefix_of (p s : string) : bool :=
  match p, s with
  | EmptyString, _ => true
  | String a p', String b s' => Ascii.eqb a b && prefix_of p' s'
  | _, _ => false
  end.
Fixpoint mentions (p s : string) : bool :=
  prefix_of p s || match s with EmptyString => false | String _ r => mentions p r end.

Fixpoint index_of (x : string) (l : list string) (i : nat) : option nat :=
  match l with
  | [] => None
  | y :: r => if y =? x then Some i else index_of x r (S i)
  end.

(** sendRecv: the tag is taken first and given back by a DEFERRED Put (so only when the call returns: after its
    reply or error was consumed — Mux: the tag of a call stays its own until TDone); the response is registered
    under pendingMu before send (Mux: AStart registers, then ASendOk/ASendFail) *)
Lemma sendrecv_tag_discipline :
  index_of "t, ok := c.tagPool.Get()" spec_src_Client_sendRecv 0 = Some 0 /\
  index_of "defer c.tagPool.Put(t)" spec_src_Client_sendRecv 0 = Some 2 /\
  (exists i j, index_of "c.pending[tag(t)] = resp" spec_src_Client_sendRecv 0 = Some i /\
               index_of "err := send(c.log, c.conn, tag(t), tm)" spec_src_Client_sendRecv 0 = Some j /\ i < j) /\
  (* no other statement mentions the tag pool *)
  filter (mentions "tagPool") spec_src_Client_sendRecv = ["t, ok := c.tagPool.Get()"; "defer c.tagPool.Put(t)"].
Proof. repeat split; try reflexivity. exists 9, 12. repeat split; auto with arith. Qed.

(** waitAndRecv is one loop around one select: a value on done ends the call (Mux: AWaitDone); a successful send on
    recvr takes the token, after which either done is taken and the token given back (Mux: also AWaitDone — the two
    cases have the same effect), or handleOne runs once and the token is given back (Mux: AWaitToken, then the
    receive steps, each of which ends by releasing the token) *)
Lemma waitandrecv_shape :
  spec_src_Client_waitAndRecv =
  ["for { select { case _v2 := <-done: return _v2 case c.recvr <- true: select { case _v2 := <-done: <-c.recvr return _v2 default: c.handleOne() <-c.recvr } } }"].
Proof. reflexivity. Qed.

(** pool.Get and pool.Put touch cache/start only between mu.Lock and the (deferred) mu.Unlock; their bodies are
    Pool.pool_get / Pool.pool_put (the cache is a stack; start++ is the uint64 increment) *)
Lemma pool_locked :
  nth 0 spec_src_pool_Get "" = "c.mu.Lock()" /\ nth 1 spec_src_pool_Get "" = "defer c.mu.Unlock()" /\
  spec_src_pool_Put = ["c.mu.Lock()"; "c.cache = append(c.cache, v)"; "c.mu.Unlock()"] /\
  skipn 2 spec_src_pool_Get =
    ["if len(c.cache) > 0 { _v1 := c.cache[len(c.cache)-1] c.cache = c.cache[:len(c.cache)-1] return _v1, true }";
     "if c.start == c.limit { return 0, false }"; "_v1 := c.start"; "c.start++"; "return _v1, true"].
Proof. repeat split. Qed.

(** NewClient: both pools start at 1 and end before the reserved value *)
Lemma pool_bounds : spec_newclient_pools = [("tagPool", "1", "uint64(noTag)"); ("fidPool", "1", "uint64(noFID)")].
Proof. reflexivity. Qed.
