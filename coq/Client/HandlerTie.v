(** C03 — the server half of the model is what handlers.go does: the hand-written table
    ClientModel.handler_calls equals the interpretation of the backend-call events that
    go2coq's HandlerGen extracts from p9/handlers.go (gen/HandlerGen.v, handler_traces_alpha: locals are
    printed positionally, _v0 is the message t, so that renaming a local in handlers.go changes nothing here):
    "lookup:_v0.<fid field>=><ref variable>", "call:<ref variable>[.parent].file.<Method>(<argument expressions>)",
    "delegate:_v0.do(_v1, <uid expression>)" (in a do function _v2 is the uid parameter),
    "tree:<ref>.parent.pathNode.nameFor(<ref>)" (the entry's name, read under the rename lock). *)
From Coq Require Import NArith String Ascii List Bool.
From P9V Require Import gen.ConstGen gen.ClientGen gen.HandlerGen Client.ClientModel.
Import ListNotations.
Open Scope string_scope.

(** ---- a little string parsing ---- *)
Fixpoint starts_with (p s : string) : bool :=
  match p, s with
  | EmptyString, _ => true
  | String a p', String b s' => Ascii.eqb a b && starts_with p' s'
  | _, _ => false
  end.

Fixpoint drop (n : nat) (s : string) : string :=
  match n, s with
  | O, _ => s
  | S n', String _ s' => drop n' s'
  | _, EmptyString => EmptyString
  end.

(** events of one handler *)
Definition events (h : string) : list string :=
  match find (fun x => fst x =? h) handler_traces_alpha with Some x => snd x | None => [] end.

(** the raw (not renamed) traces, for the statements about which calls a function contains at all *)
Definition raw_events (h : string) : list string :=
  match find (fun x => fst x =? h) handler_traces with Some x => snd x | None => [] end.

Fixpoint contains_sub (p s : string) : bool :=
  starts_with p s || match s with EmptyString => false | String _ r => contains_sub p r end.

(** "a=>b" -> (a, b) *)
Fixpoint split_arrow (acc s : string) : string * string :=
  match s with
  | EmptyString => (acc, EmptyString)
  | String c r => if starts_with "=>" s then (acc, drop 2 s) else split_arrow (acc ++ String c EmptyString) r
  end.

Definition with_prefix (p : string) (l : list string) : list string :=
  map (drop (String.length p)) (filter (starts_with p) l).

(** "recv.Method(a, b(c), d)" -> (recv.Method, [a; b(c); d]) : split at the first '(' and at ", " of depth 0 *)
Fixpoint split_args (depth : nat) (cur : string) (s : string) : list string :=
  match s with
  | EmptyString => match cur with EmptyString => [] | _ => [cur] end
  | String c r =>
      if (Ascii.eqb c "(" || Ascii.eqb c "[")%bool then split_args (S depth) (cur ++ String c EmptyString) r
      else if (Ascii.eqb c ")" || Ascii.eqb c "]")%bool then
        match depth with
        | O => match cur with EmptyString => [] | _ => [cur] end       (* the closing parenthesis of the call *)
        | S d => split_args d (cur ++ String c EmptyString) r
        end
      else if Ascii.eqb c "," && Nat.eqb depth 0 then cur :: split_args depth EmptyString r
      else if Ascii.eqb c " " && (match cur with EmptyString => true | _ => false end) then split_args depth cur r
      else split_args depth (cur ++ String c EmptyString) r
  end.

Fixpoint split_call (head : string) (s : string) : string * list string :=
  match s with
  | EmptyString => (head, [])
  | String c r => if Ascii.eqb c "(" then (head, split_args 0 EmptyString r) else split_call (head ++ String c EmptyString) r
  end.

(** "ref.file.Open" -> ("ref.file", "Open") *)
Fixpoint last_dot (acc cur : string) (s : string) : string * string :=
  match s with
  | EmptyString => (acc, cur)
  | String c r =>
      if Ascii.eqb c "." then last_dot (match acc with EmptyString => cur | _ => acc ++ "." ++ cur end) EmptyString r
      else last_dot acc (cur ++ String c EmptyString) r
  end.

(** ---- interpretation of the expressions that occur ---- *)
Definition field_of (e : string) : string := if starts_with "_v0." e then drop 4 e else e.

Definition eval_arg (fs : list (string * val)) (ref_fid : N) (ref_var target_var target_field : string)
           (uid : option string) (has_name : bool) (e : string) : val :=
  if starts_with "_v0." e then fld (drop 4 e) fs
  else if (e =? "_v2") && match uid with Some _ => true | None => false end then
    match uid with
    | Some u => if u =? "NoUID" then VN p9_NoUID else fld (field_of u) fs
    | None => VS e
    end
  else if e =? (target_var ++ ".file") then filev (fld target_field fs)
  else if e =? "int(_v0.PID)" then sext32 (fld "PID" fs)
  else if e =? "int64(_v0.Offset)" then fld "Offset" fs
  else if contains_sub "[:" e then VBuf (fidof (fld "Count" fs))     (* the read buffer cut to the count *)
  else if e =? "0" then VN 0
  else if starts_with "_v" e && has_name then VNameOf ref_fid           (* the local holding nameFor(ref) *)
  else VS e.

(** the handler function that makes the backend call, and the uid expression it is given (do functions only) *)
Definition body_of (t : string) : string * option string :=
  match with_prefix "delegate:" (events (t ++ ".handle")) with
  | d :: _ =>
      let '(hd, args) := split_call EmptyString d in
      let fn := if starts_with "_v0.do" hd then t ++ ".do"
                else if starts_with "_v0." hd then drop 4 hd else hd in
      (fn, Some (nth 1 args "NoUID"))
  | [] => (t ++ ".handle", None)
  end.

Definition gen_handler_calls (t : string) (fs : list (string * val)) : list bcall :=
  let '(fn, uid) := body_of t in
  let evs := events fn in
  let lookups := map (split_arrow EmptyString) (with_prefix "lookup:" evs) in
  let '(ref_field, ref_var) := nth 0 lookups ("_v0.fid", "?") in
  let '(target_field, target_var) := nth 1 lookups ("?", "?") in
  let ref_fid := fidof (fld (field_of ref_field) fs) in
  let has_name := existsb (contains_sub ".pathNode.nameFor(") (with_prefix "tree:" evs) in
  map (fun c =>
         let '(hd, args) := split_call EmptyString c in
         let '(recv, meth) := last_dot EmptyString EmptyString hd in
         mkbc meth (if recv =? (ref_var ++ ".parent.file") then OnParentOf ref_fid else OnFid ref_fid)
              (map (eval_arg fs ref_fid ref_var target_var (field_of target_field) uid has_name) args))
      (with_prefix "call:" evs).

(** the T-messages whose handler makes exactly the backend call(s) listed in its trace *)
Definition simple_handlers : list string :=
  ["tlopen"; "tlcreate"; "tucreate"; "tmkdir"; "tumkdir"; "tsymlink"; "tusymlink"; "tmknod"; "tumknod"; "tlink";
   "trenameat"; "tunlinkat"; "trename"; "treadlink"; "tgetattr"; "tsetattr"; "tstatfs"; "tfsync"; "tlock"; "treaddir";
   "tread"; "twrite"].

Lemma handler_table_generated : forall t fs, In t simple_handlers ->
  handler_calls (t, fs) = gen_handler_calls t fs.
Proof.
  intros t fs Hin. unfold simple_handlers in Hin. cbn [In] in Hin.
  repeat (destruct Hin as [<-|Hin]; [cbv -[N.modulo N.land N.ltb N.add N.sub N.min]; reflexivity|]). contradiction.
Qed.

(** Tremove: the removal on the parent is the handler's call; the Close is the release of the fid
    (DeleteFID -> fidRef.DecRef -> "call:f.file.Close()"), as for Tclunk *)
Lemma handler_table_remove : forall fs,
  handler_calls ("tremove", fs) = (gen_handler_calls "tremove" fs ++ [mkbc "Close" (OnFid (fidof (fld "fid" fs))) []])%list /\
  In "call:f.file.Close()" (raw_events "fidRef.DecRef").
Proof. intros fs. split; [cbv -[N.modulo N.land N.ltb N.add N.sub N.min]; reflexivity|vm_compute; tauto]. Qed.

Lemma handler_table_clunk : forall fs,
  handler_calls ("tclunk", fs) = [mkbc "Close" (OnFid (fidof (fld "fid" fs))) []] /\
  In "call:f.file.Close()" (raw_events "fidRef.DecRef").
Proof. intros fs. split; [reflexivity|vm_compute; tauto]. Qed.

(** ---- the handlers with loops and branches: Twalk, Twalkgetattr, Txattrwalk, Tattach ----
    Their backend calls and delegations, as extracted from handlers.go (alpha-renamed: _v0 is the message,
    "<_vN>" a File-typed local), are exactly these (so the model's
    vocabulary for them — Walk / WalkGetAttr with the names, GetAttr(AttrMaskAll) on the walked file, Close of
    it when that failed, GetXattr(t.Name) / ListXattrs(), Attach() — is what the source has).  WHICH of them
    run, in what order and how often (one walkOne per component, the ENOSYS fallback from WalkGetAttr to
    Walk + GetAttr, the branch on len(t.Name)) is control flow that ClientModel.handler_calls models by hand
    and that only the differential runs check. *)
Definition calls_and_delegations (h : string) : list string :=
  filter (fun e => starts_with "call:" e || starts_with "delegate:" e) (events h).

Lemma walk_handlers_events :
  calls_and_delegations "twalk.handle" = ["delegate:doWalk(_v1, _v2, _v0.Names, false)"] /\
  calls_and_delegations "twalkgetattr.handle" = ["delegate:doWalk(_v1, _v2, _v0.Names, true)"] /\
  calls_and_delegations "doWalk" =
    ["delegate:walkOne(nil, _v1.file, _v1.pathNode, nil, _v3)";
     "delegate:walkOne(_v4, _v11.file, _v11.pathNode, _v2[_v12 : _v12+1], true)"] /\
  calls_and_delegations "walkOne" =
    ["call:<_v1>.WalkGetAttr(_v3)"; "call:<_v1>.Walk(_v3)"; "call:<_v7>.GetAttr(AttrMaskAll)"; "call:<_v7>.GetAttr(AttrMaskAll)";
     "call:<_v7>.Close()"; "call:<_v7>.Close()"] /\
  calls_and_delegations "txattrwalk.handle" = ["call:_v2.file.GetXattr(_v0.Name)"; "call:_v2.file.ListXattrs()"] /\
  calls_and_delegations "tattach.handle" =
    ["call:attacher.Attach()"; "call:<_v2>.GetAttr(AttrMaskAll)"; "delegate:doWalk(_v1, _v4, _v8, false)"] /\
  with_prefix "lookup:" (events "twalk.handle") = ["_v0.fid=>_v2"] /\
  with_prefix "lookup:" (events "twalkgetattr.handle") = ["_v0.fid=>_v2"] /\
  with_prefix "lookup:" (events "txattrwalk.handle") = ["_v0.fid=>_v2"].
Proof. vm_compute. repeat split. Qed.
