(** C03 — the server half of the model is what handlers.go does: the hand-written table
    ClientModel.handler_calls equals the interpretation of the backend-call events that
    go2coq's HandlerGen extracts from p9/handlers.go (gen/HandlerGen.v, handler_traces:
    "lookup:<fid field>", "call:<receiver>.<Method>(<argument expressions>)",
    "delegate:t.do(cs, <uid expression>)"). *)
From Coq Require Import NArith String Ascii List Bool.
From P9V Require Import gen.ConstGen gen.ClientGen gen.HandlerGen Client.ClientModel.
Import ListNotations.
Open Scope string_scope.

(** ---- a little string parsing ---- *)
Fixpoint starts_with (p s : string) : bool :=
  match p, s with
  | EmptyString, _ => true
  | String a p', String b s' => Ascii.eqb a b && starts_with p' s'
  | _, _ => false
  end.

Fixpoint drop (n : nat) (s : string) : string :=
  match n, s with
  | O, _ => s
  | S n', String _ s' => drop n' s'
  | _, EmptyString => EmptyString
  end.

(** events of one handler *)
Definition events (h : string) : list string :=
  match find (fun x => fst x =? h) handler_traces with Some x => snd x | None => [] end.

Definition with_prefix (p : string) (l : list string) : list string :=
  map (drop (String.length p)) (filter (starts_with p) l).

(** "recv.Method(a, b(c), d)" -> (recv.Method, [a; b(c); d]) : split at the first '(' and at ", " of depth 0 *)
Fixpoint split_args (depth : nat) (cur : string) (s : string) : list string :=
  match s with
  | EmptyString => match cur with EmptyString => [] | _ => [cur] end
  | String c r =>
      if (Ascii.eqb c "(" || Ascii.eqb c "[")%bool then split_args (S depth) (cur ++ String c EmptyString) r
      else if (Ascii.eqb c ")" || Ascii.eqb c "]")%bool then
        match depth with
        | O => match cur with EmptyString => [] | _ => [cur] end       (* the closing parenthesis of the call *)
        | S d => split_args d (cur ++ String c EmptyString) r
        end
      else if Ascii.eqb c "," && Nat.eqb depth 0 then cur :: split_args depth EmptyString r
      else if Ascii.eqb c " " && (match cur with EmptyString => true | _ => false end) then split_args depth cur r
      else split_args depth (cur ++ String c EmptyString) r
  end.

Fixpoint split_call (head : string) (s : string) : string * list string :=
  match s with
  | EmptyString => (head, [])
  | String c r => if Ascii.eqb c "(" then (head, split_args 0 EmptyString r) else split_call (head ++ String c EmptyString) r
  end.

(** "ref.file.Open" -> ("ref.file", "Open") *)
Fixpoint last_dot (acc cur : string) (s : string) : string * string :=
  match s with
  | EmptyString => (acc, cur)
  | String c r =>
      if Ascii.eqb c "." then last_dot (match acc with EmptyString => cur | _ => acc ++ "." ++ cur end) EmptyString r
      else last_dot acc (cur ++ String c EmptyString) r
  end.

(** ---- interpretation of the expressions that occur ---- *)
Definition field_of (e : string) : string := if starts_with "t." e then drop 2 e else e.

Definition eval_arg (fs : list (string * val)) (ref_fid : N) (target_field : string) (uid : string) (e : string) : val :=
  if e =? "uid" then (if uid =? "NoUID" then VN p9_NoUID else fld (field_of uid) fs)
  else if e =? "refTarget.file" then filev (fld target_field fs)
  else if e =? "int(t.PID)" then sext32 (fld "PID" fs)
  else if e =? "int64(t.Offset)" then fld "Offset" fs
  else if e =? "dataBuf[:count]" then VBuf (fidof (fld "Count" fs))
  else if (e =? "name") || (e =? "oldName") then VNameOf ref_fid     (* nameFor(ref) read under the rename lock *)
  else if e =? "0" then VN 0
  else if starts_with "t." e then fld (drop 2 e) fs
  else VS e.

(** the handler function that makes the backend call, and the uid expression it is given *)
Definition body_of (t : string) : string * string :=
  match with_prefix "delegate:" (events (t ++ ".handle")) with
  | d :: _ =>
      let '(hd, args) := split_call EmptyString d in
      let fn := if starts_with "t.do" hd then t ++ ".do"
                else if starts_with "t." hd then drop 2 hd else hd in
      (fn, nth 1 args "NoUID")
  | [] => (t ++ ".handle", "NoUID")
  end.

Definition gen_handler_calls (t : string) (fs : list (string * val)) : list bcall :=
  let '(fn, uid) := body_of t in
  let evs := events fn in
  let lookups := map field_of (with_prefix "lookup:" evs) in
  let ref_field := nth 0 lookups "fid" in
  let target_field := nth 1 lookups "?" in
  let ref_fid := fidof (fld ref_field fs) in
  map (fun c =>
         let '(hd, args) := split_call EmptyString c in
         let '(recv, meth) := last_dot EmptyString EmptyString hd in
         mkbc meth (if recv =? "ref.parent.file" then OnParentOf ref_fid else OnFid ref_fid)
              (map (eval_arg fs ref_fid target_field uid) args))
      (with_prefix "call:" evs).

(** the T-messages whose handler makes exactly the backend call(s) listed in its trace *)
Definition simple_handlers : list string :=
  ["tlopen"; "tlcreate"; "tucreate"; "tmkdir"; "tumkdir"; "tsymlink"; "tusymlink"; "tmknod"; "tumknod"; "tlink";
   "trenameat"; "tunlinkat"; "trename"; "treadlink"; "tgetattr"; "tsetattr"; "tstatfs"; "tfsync"; "tlock"; "treaddir";
   "tread"; "twrite"].

Lemma handler_table_generated : forall t fs, In t simple_handlers ->
  handler_calls (t, fs) = gen_handler_calls t fs.
Proof.
  intros t fs Hin. unfold simple_handlers in Hin. cbn [In] in Hin.
  repeat (destruct Hin as [<-|Hin]; [cbv -[N.modulo N.land N.ltb N.add N.sub N.min]; reflexivity|]). contradiction.
Qed.

(** Tremove: the removal on the parent is the handler's call; the Close is the release of the fid
    (DeleteFID -> fidRef.DecRef -> "call:f.file.Close()"), as for Tclunk *)
Lemma handler_table_remove : forall fs,
  handler_calls ("tremove", fs) = (gen_handler_calls "tremove" fs ++ [mkbc "Close" (OnFid (fidof (fld "fid" fs))) []])%list /\
  In "call:f.file.Close()" (events "fidRef.DecRef").
Proof. intros fs. split; [cbv -[N.modulo N.land N.ltb N.add N.sub N.min]; reflexivity|vm_compute; tauto]. Qed.

Lemma handler_table_clunk : forall fs,
  handler_calls ("tclunk", fs) = [mkbc "Close" (OnFid (fidof (fld "fid" fs))) []] /\
  In "call:f.file.Close()" (events "fidRef.DecRef").
Proof. intros fs. split; [reflexivity|vm_compute; tauto]. Qed.

(** ---- the handlers with loops and branches: Twalk, Twalkgetattr, Txattrwalk, Tattach ----
    Their backend calls and delegations, as extracted from handlers.go, are exactly these (so the model's
    vocabulary for them — Walk / WalkGetAttr with the names, GetAttr(AttrMaskAll) on the walked file, Close of
    it when that failed, GetXattr(t.Name) / ListXattrs(), Attach() — is what the source has).  WHICH of them
    run, in what order and how often (one walkOne per component, the ENOSYS fallback from WalkGetAttr to
    Walk + GetAttr, the branch on len(t.Name)) is control flow that ClientModel.handler_calls models by hand
    and that only the differential runs check. *)
Definition calls_and_delegations (h : string) : list string :=
  filter (fun e => starts_with "call:" e || starts_with "delegate:" e) (events h).

Lemma walk_handlers_events :
  calls_and_delegations "twalk.handle" = ["delegate:doWalk(cs, ref, t.Names, false)"] /\
  calls_and_delegations "twalkgetattr.handle" = ["delegate:doWalk(cs, ref, t.Names, true)"] /\
  calls_and_delegations "doWalk" =
    ["delegate:walkOne(nil, ref.file, ref.pathNode, nil, getattr)";
     "delegate:walkOne(qids, walkRef.file, walkRef.pathNode, names[i : i+1], true)"] /\
  calls_and_delegations "walkOne" =
    ["call:from.WalkGetAttr(names)"; "call:from.Walk(names)"; "call:sf.GetAttr(AttrMaskAll)"; "call:sf.GetAttr(AttrMaskAll)";
     "call:sf.Close()"; "call:sf.Close()"] /\
  calls_and_delegations "txattrwalk.handle" = ["call:ref.file.GetXattr(t.Name)"; "call:ref.file.ListXattrs()"] /\
  calls_and_delegations "tattach.handle" =
    ["call:attacher.Attach()"; "call:sf.GetAttr(AttrMaskAll)"; "delegate:doWalk(cs, root, names, false)"] /\
  with_prefix "lookup:" (events "twalk.handle") = ["t.fid"] /\
  with_prefix "lookup:" (events "twalkgetattr.handle") = ["t.fid"] /\
  with_prefix "lookup:" (events "txattrwalk.handle") = ["t.fid"].
Proof. vm_compute. repeat split. Qed.
