(** C03 — obligations over Client/PathSeqTie.v (kept apart so that the cases evaluator, which only needs the
    definitions, still builds when an obligation fails on a changed source). *)
From Coq Require Import NArith String Ascii List Bool.
From P9V Require Import gen.HandlerGen Client.ClientModel Client.HandlerTie Client.PathSeq Client.PathSeqTie.
Import ListNotations.
Open Scope string_scope.

Lemma rename_guard_generated :
  lookup_vars "trenameat.handle" = [("_v0.OldDirectory", "_v3"); ("_v0.NewDirectory", "_v5")] /\
  rename_guard "trenameat.handle" "_v3" "_v5" = Some true /\
  lookup_vars "trename.handle" = [("_v0.fid", "_v3"); ("_v0.Directory", "_v5")] /\
  rename_guard "trename.handle" "_v3.parent" "_v5" = Some true /\
  (* the names compared: Trenameat the two names of the message; Trename the entry's current name (nameFor, read
     under the rename lock) and the name of the message *)
  same_pair (guard_names "trenameat.handle") "_v0.OldName" "_v0.NewName" = true /\
  In "tree:_v3.parent.pathNode.nameFor(_v3)" (events "trename.handle") /\
  same_pair (guard_names "trename.handle") "_v6" "_v0.Name" = true.
Proof.
  split; [vm_compute; reflexivity|]. split; [vm_compute; reflexivity|]. split; [vm_compute; reflexivity|].
  split; [vm_compute; reflexivity|]. split; [vm_compute; reflexivity|]. split; [vm_compute; tauto|].
  vm_compute; reflexivity.
Qed.

Lemma bynode_of_source_true : bynode_of_source = true.
Proof. vm_compute. reflexivity. Qed.
