(** C11 -- client_file.go chunk, as go2coq ArithGen TRANSLATES its pieces on every run
    (gen/ArithGen.v: the empty-buffer test, the part of the loop body before the call of fn, the slice and
    offset handed to fn, the part after the call), run by the loop skeleton the translator checked
    ([for { before; call; after }], total starting at 0), computes exactly what the hand model
    Client/Chunk.v computes -- for every chunk size, buffer length, offset, per-chunk function and state.
    All of C11's theorems are about Chunk.chunk; this file makes them theorems about the source's loop. *)
From Coq Require Import ZArith NArith List Bool Lia ZifyNat ZifyBool.
From P9V Require Import Base.GoArith gen.ArithGen Client.Chunk.
Import ListNotations.
Ltac Zify.zify_post_hook ::= Z.div_mod_to_equations.
Local Open Scope nat_scope.

Section Tie.
  Variable S : Type.
  Variable fn : S -> nat -> nat -> Z -> (nat * option cerr) * S.

  Definition gerr_of (e : option cerr) : gerr := match e with None => ENil | Some _ => EFn end.
  Definition err_back (g : gerr) (e : option cerr) : option cerr := match g with ENil => None | EFn => e end.

  (** the loop of chunk over the generated pieces; a slice expression p[lo:hi] with lo > hi or
      hi > len(p) is a Go panic *)
  Fixpoint gen_loop (fuel : nat) (cs : Z) (st : S) (lenp total off : Z) : (cout * list ccall) * S :=
    match fuel with
    | O => ((CFuel, []), st)
    | Datatypes.S fuel' =>
        match gen_chunk_before cs lenp total off with
        | GReturn t e => ((CRet (Z.to_nat t) (err_back e None), []), st)
        | GCall =>
            match gen_chunk_call cs lenp total off with
            | (lo, hi, o) =>
                if ((lo <? 0) || (hi <? lo) || (lenp <? hi))%Z%bool then ((CPanic, []), st)
                else
                  match fn st (Z.to_nat lo) (Z.to_nat (hi - lo)) o with
                  | ((n, err), st') =>
                      let c := mkcall (Z.to_nat lo) (Z.to_nat (hi - lo)) o n err in
                      match gen_chunk_after cs lenp total off (Z.of_nat n) (gerr_of err) with
                      | GRet t e => ((CRet (Z.to_nat t) (err_back e err), [c]), st')
                      | GPanic => ((CPanic, [c]), st')
                      | GNext t o' =>
                          match gen_loop fuel' cs st' lenp t o' with
                          | ((r, cl), st'') => ((r, c :: cl), st'')
                          end
                      end
                  end
            end
        end
    end.

  Definition gen_chunk (cs : Z) (st : S) (lenp : Z) (off : Z) : (cout * list ccall) * S :=
    if gen_chunk_empty_case lenp then
      match fn st 0 0 off with
      | ((n, err), st') => ((CRet n err, [mkcall 0 0 off n err]), st')
      end
    else gen_loop (Datatypes.S (Z.to_nat lenp)) cs st lenp 0 off.

  (** fn never reports more than 2^62 bytes (what it reports beyond the chunk it was handed makes the
      Go code panic; the model says so too) *)
  Hypothesis fn_small : forall st pos len off, (Z.of_nat (fst (fst (fn st pos len off))) < 2 ^ 62)%Z.

  Lemma wi64_small z : (- 2 ^ 63 <= z < 2 ^ 63)%Z -> wi64 z = z.
  Proof. intros H. unfold wi64. change (2 ^ 63)%Z with 9223372036854775808%Z in H. lia. Qed.
  Lemma wi64_wrap64 z : wi64 z = wrap64 z. Proof. reflexivity. Qed.

  Lemma gen_loop_ok : forall (fuel cs : nat) (st : S) (lenp total : nat) (off : Z),
    (0 < cs)%nat -> (Z.of_nat cs < 2 ^ 32)%Z -> (Z.of_nat lenp < 2 ^ 62)%Z -> (total <= lenp)%nat ->
    gen_loop fuel (Z.of_nat cs) st (Z.of_nat lenp) (Z.of_nat total) off = chunk_loop fn fuel cs st lenp total off.
  Proof.
    induction fuel as [|fuel IH]; intros cs st lenp total off Hcs Hcs32 Hlen Htot; [reflexivity|].
    cbn [gen_loop chunk_loop]. unfold gen_chunk_before.
    destruct (Z.eqb_spec (Z.of_nat total) (Z.of_nat lenp)) as [E|E]; destruct (Nat.eqb_spec total lenp) as [E'|E']; try lia.
    { cbn [err_back]. rewrite Nat2Z.id. reflexivity. }
    unfold gen_chunk_call.
    change (2 ^ 32)%Z with 4294967296%Z in Hcs32. change (2 ^ 62)%Z with 4611686018427387904%Z in Hlen.
    rewrite (wi64_small (Z.of_nat cs)) by lia.
    rewrite (wi64_small (Z.of_nat total + Z.of_nat cs)) by lia.
    destruct (Z.ltb_spec (Z.of_nat lenp) (Z.of_nat total + Z.of_nat cs)) as [L|L];
      destruct (Nat.ltb_spec lenp (total + cs)) as [L'|L']; try lia.
    - (* last, short chunk: p[total:] *)
      replace ((Z.of_nat total <? 0) || (Z.of_nat lenp <? Z.of_nat total) || (Z.of_nat lenp <? Z.of_nat lenp))%Z%bool with false by lia.
      rewrite Nat2Z.id. replace (Z.to_nat (Z.of_nat lenp - Z.of_nat total)) with (lenp - total) by lia.
      pose proof (fn_small st total (lenp - total) off) as Hn.
      destruct (fn st total (lenp - total) off) as [[n err] st'] eqn:F. cbn [fst] in Hn.
      change (2 ^ 62)%Z with 4611686018427387904%Z in Hn.
      unfold gen_chunk_after. rewrite (wi64_small (Z.of_nat total + Z.of_nat n)) by lia.
      rewrite (wi64_small (Z.of_nat n)) by lia. rewrite ?(wi64_small (Z.of_nat cs)) by lia.
      destruct err as [e|]; cbn [gerr_of err_neqb err_eqb negb err_back].
      + replace (Z.to_nat (Z.of_nat total + Z.of_nat n)) with (total + n) by lia. reflexivity.
      + destruct (Z.ltb_spec (Z.of_nat n) (Z.of_nat cs)) as [P|P]; destruct (Nat.ltb_spec n cs) as [P'|P']; try lia.
        * cbn [err_back]. replace (Z.to_nat (Z.of_nat total + Z.of_nat n)) with (total + n) by lia. reflexivity.
        * destruct (Z.ltb_spec (Z.of_nat lenp) (Z.of_nat total + Z.of_nat n)) as [Q|Q];
            destruct (Nat.ltb_spec lenp (total + n)) as [Q'|Q']; try lia; try reflexivity.
          all: rewrite wi64_wrap64; replace (Z.of_nat total + Z.of_nat n)%Z with (Z.of_nat (total + n)) by lia;
            rewrite IH by lia; reflexivity.
    - (* full chunk: p[total:total+chunkSize] *)
      replace ((Z.of_nat total <? 0) || (Z.of_nat total + Z.of_nat cs <? Z.of_nat total) || (Z.of_nat lenp <? Z.of_nat total + Z.of_nat cs))%Z%bool with false by lia.
      rewrite Nat2Z.id. replace (Z.to_nat (Z.of_nat total + Z.of_nat cs - Z.of_nat total)) with cs by lia.
      pose proof (fn_small st total cs off) as Hn.
      destruct (fn st total cs off) as [[n err] st'] eqn:F. cbn [fst] in Hn.
      change (2 ^ 62)%Z with 4611686018427387904%Z in Hn.
      unfold gen_chunk_after. rewrite (wi64_small (Z.of_nat total + Z.of_nat n)) by lia.
      rewrite (wi64_small (Z.of_nat n)) by lia. rewrite ?(wi64_small (Z.of_nat cs)) by lia.
      destruct err as [e|]; cbn [gerr_of err_neqb err_eqb negb err_back].
      + replace (Z.to_nat (Z.of_nat total + Z.of_nat n)) with (total + n) by lia. reflexivity.
      + destruct (Z.ltb_spec (Z.of_nat n) (Z.of_nat cs)) as [P|P]; destruct (Nat.ltb_spec n cs) as [P'|P']; try lia.
        * cbn [err_back]. replace (Z.to_nat (Z.of_nat total + Z.of_nat n)) with (total + n) by lia. reflexivity.
        * destruct (Z.ltb_spec (Z.of_nat lenp) (Z.of_nat total + Z.of_nat n)) as [Q|Q];
            destruct (Nat.ltb_spec lenp (total + n)) as [Q'|Q']; try lia; try reflexivity.
          all: rewrite wi64_wrap64; replace (Z.of_nat total + Z.of_nat n)%Z with (Z.of_nat (total + n)) by lia;
            rewrite IH by lia; reflexivity.
  Qed.

  (** chunk(chunkSize, fn, p, offset) of the source = the model, for every chunk size a uint32 can
      hold (0 excluded: the client's payload size is positive, Frame/ArithTie.v), every buffer length
      below 2^62 and every offset *)
  Theorem gen_chunk_is_model : forall (cs : nat) (st : S) (lenp : nat) (off : Z),
    (0 < cs)%nat -> (Z.of_nat cs < 2 ^ 32)%Z -> (Z.of_nat lenp < 2 ^ 62)%Z ->
    gen_chunk (Z.of_nat cs) st (Z.of_nat lenp) off = chunk fn cs st lenp off.
  Proof.
    intros cs st lenp off Hcs H32 Hlen. unfold gen_chunk, chunk, gen_chunk_empty_case.
    destruct (Z.eqb_spec (Z.of_nat lenp) 0) as [E|E]; destruct (Nat.eqb_spec lenp 0) as [E'|E']; try lia; [reflexivity|].
    rewrite Nat2Z.id. exact (gen_loop_ok (Datatypes.S lenp) cs st lenp 0 off Hcs H32 Hlen ltac:(lia)).
  Qed.
End Tie.
