(** C10 — the hand-over of the receive token in waitAndRecv, as an explicit parameter of the interleaving model.

    waitAndRecv:  for { select { case err := <-done: return err
                                 case c.recvr <- true:  [rck: select { case err := <-done: <-c.recvr; return err; default: }]
                                                        c.handleOne(); <-c.recvr } }
    When BOTH cases of the outer select are ready (the call's reply was delivered by another receiver before the
    call got here, and the token is free) Go picks one at random.  [rck] says whether the winner of the token looks
    at done again before it enters handleOne (go2coq: ClientGen.waitandrecv_rechecks_done, read from the statement
    structure of waitAndRecv).  Mux.step is the model WITH the re-check: AWaitToken is enabled only when done is
    empty, because taking the token with done full has the same effect as AWaitDone.  [step_t false] is the model
    without it: the token may be taken with done full, and the call then sits in recv although its reply is there.
    If nothing else is outstanding no frame ever arrives: the call hangs for ever ([token_recheck_needed]). *)
From Coq Require Import Arith List Bool.
From P9V Require Import Client.Mux Client.MuxProofs.
Import ListNotations.

Definition step_t (rck wd keep chk mark : bool) (m : mst) (a : action) : option mst :=
  match a with
  | AWaitToken i =>
      match get (thr m) i with
      | TWait t s =>
          if negb (token m) && (negb rck || negb (is_some (full m s)))
          then Some (mkst (upd (thr m) i (TRecv t s)) (pend m) (full m) true (retired m) (dead m))
          else None
      | _ => None
      end
  | _ => step wd keep chk mark m a
  end.

Fixpoint run_t (rck wd keep chk mark : bool) (m : mst) (tr : list action) : option mst :=
  match tr with
  | [] => Some m
  | a :: r => match step_t rck wd keep chk mark m a with Some m' => run_t rck wd keep chk mark m' r | None => None end
  end.

(** with the re-check the parameterised model IS Mux.step: every theorem of MuxProofs is about the code as read *)
Lemma step_t_recheck : forall wd keep chk mark m a, step_t true wd keep chk mark m a = step wd keep chk mark m a.
Proof. intros wd keep chk mark m a. destruct a; reflexivity. Qed.

Lemma run_t_recheck : forall wd keep chk mark tr m, run_t true wd keep chk mark m tr = run wd keep chk mark m tr.
Proof.
  intros wd keep chk mark tr. induction tr as [|a r IH]; intros m; cbn [run_t run]; [reflexivity|].
  rewrite step_t_recheck. destruct (step wd keep chk mark m a); auto.
Qed.

(** a call is stuck for good: it sits in recv holding the token, its own reply is already in its done channel, and
    nothing is pending — a correct server has nothing left to send, so the only way out is a connection error *)
Definition stuck_in_recv (m : mst) (i : nat) : Prop :=
  exists t s r, get (thr m) i = TRecv t s /\ full m s = Some r /\ pend m = [] /\ dead m = false.

(** B (call 1) holds the token; A (call 0) has registered and is still inside send; the server answers A, then B;
    B returns and frees the token; A's send returns: done full AND token free *)
Definition trace_late : list action :=
  [AStart 1 2 1; ASendOk 1; AWaitToken 1; AStart 0 1 0; AFrame 1 1 true; ABody 1 true; AWaitToken 1;
   AFrame 1 2 true; ABody 1 true; AWaitDone 1; ASendOk 0].

Lemma token_recheck_needed :
  (* without the re-check the token can be taken, and the call is stuck *)
  (exists m, run_t false true true true true (init 2) (trace_late ++ [AWaitToken 0]) = Some m /\ stuck_in_recv m 0) /\
  (* with it the token cannot be taken in that state, and the call returns its own reply *)
  (exists m, run true true true true (init 2) trace_late = Some m /\
             step true true true true m (AWaitToken 0) = None /\
             exists m', step true true true true m (AWaitDone 0) = Some m' /\ get (thr m') 0 = TDone 1 0 (ROk 1 0 0)).
Proof.
  split.
  - eexists. split; [vm_compute; reflexivity|]. exists 1, 0, (ROk 1 0 0). repeat split.
  - eexists. split; [vm_compute; reflexivity|]. split; [reflexivity|]. eexists. split; reflexivity.
Qed.

(** with the re-check the token is only ever taken with the caller's own done channel empty *)
Lemma token_taken_with_done_empty mk m i m' t s :
  step_t true true true true mk m (AWaitToken i) = Some m' -> get (thr m') i = TRecv t s -> full m' s = None.
Proof.
  intros Hs Hi. cbn [step_t] in Hs.
  destruct (get (thr m) i) eqn:Hg; try discriminate.
  destruct (negb (token m) && (negb true || negb (is_some (full m s0)))) eqn:Hc; [|discriminate].
  injection Hs as <-. cbn [thr full] in *.
  assert (Hlt : i < length (thr m)) by (apply get_in_range; rewrite Hg; discriminate).
  rewrite get_upd_same in Hi by exact Hlt. injection Hi as <- <-.
  apply andb_prop in Hc as [_ Hc]. cbn in Hc. destruct (full m s0); [discriminate|reflexivity].
Qed.
