(** Codec/FrameProofs.v — what [recv] makes of a frame written by [send]
    (all tags, layouts, values), the Rreaddir truncation, and the exact extent of
    [mnorm]. *)
From Coq Require Import NArith List String Bool Lia ZArith ZifyN ZifyBool ZifyNat.
From P9V Require Import Codec.Layout Codec.LayoutProofs Codec.Frame.
Import ListNotations.
Open Scope N_scope.

(** * Rreaddir: which entries are packed *)

Lemma fit_spec entry count : forall rows acc sz keep,
  fit entry count acc rows = (sz, keep) ->
  exists drop, rows = keep ++ drop /\ sz = acc + len (enc_rows entry keep) /\
    (acc <= count -> sz <= count) /\
    match drop with
    | [] => True
    | d :: _ => count < sz + len (enc_row entry d)       (* the first dropped entry does not fit *)
    end.
Proof.
  induction rows as [|r rows IH]; intros acc sz keep H; cbn in H.
  - inversion H; subst. exists []. cbn. repeat split; lia.
  - destruct (count <? acc + len (enc_row entry r)) eqn:E.
    + inversion H; subst. exists (r :: rows). apply N.ltb_lt in E. cbn. repeat split; try lia.
    + destruct (fit entry count (acc + len (enc_row entry r)) rows) as [sz' keep'] eqn:F.
      inversion H; subst. apply N.ltb_ge in E.
      destruct (IH _ _ _ F) as (drop & Hrows & Hsz & Hle & Hdrop).
      exists drop. subst rows. repeat split.
      * rewrite Hsz. unfold enc_rows, len. cbn [flat_map]. rewrite app_length. lia.
      * intros _. apply Hle. exact E.
      * exact Hdrop.
Qed.

Lemma parse_all_enc entry : ok_row entry = true -> (0 < min_row entry)%nat ->
  forall keep fuel, forallb (wf_row entry) keep = true ->
  (List.length (enc_rows entry keep) < fuel)%nat ->
  parse_all entry fuel (enc_rows entry keep) = map (norm_row entry) keep.
Proof.
  intros Hok Hmin keep; induction keep as [|r keep IH]; intros fuel Hwf Hfuel.
  - destruct fuel as [|f]; [lia|]. cbn.
    destruct (dec_row entry []) as [[row rr]|] eqn:E; [|reflexivity].
    apply dec_row_length in E. cbn in E. lia.
  - cbn in Hwf. apply andb_true_iff in Hwf as [Hr Hwf].
    destruct fuel as [|f]; [lia|].
    unfold enc_rows in *. cbn [flat_map parse_all map] in *.
    rewrite dec_enc_row by assumption.
    f_equal. apply IH; [exact Hwf|].
    rewrite app_length in Hfuel. pose proof (enc_row_min _ _ Hr). lia.
Qed.

(** * recv (send m) *)

Lemma firstn_app_exact {A} (a b : list A) : firstn (List.length a) (a ++ b) = a.
Proof. induction a; cbn; [now destruct b|now f_equal]. Qed.

Lemma skipn_app_exact {A} (a b : list A) : skipn (List.length a) (a ++ b) = b.
Proof. induction a; cbn; auto. Qed.

Lemma forallb_app_l {A} (f : A -> bool) a b : forallb f (a ++ b) = true -> forallb f a = true.
Proof. rewrite forallb_app. intros H. now apply andb_true_iff in H. Qed.

Local Opaque le_enc le_dec.

Lemma recv_body_send ml mv d p :
  ml_ok ml = true -> mwf ml mv = true -> send_body ml mv = (d, p) ->
  len p < 2 ^ 32 ->
  recv_body ml (d ++ p) = Some (mnorm ml mv) /\
  match fixed_size ml with Some fs => fs = List.length d | None => True end.
Proof.
  intros Hok Hwf Hsend Hp.
  unfold ml_ok in Hok. apply andb_true_iff in Hok as [Hokf Hokp].
  unfold mwf in Hwf. apply andb_true_iff in Hwf as [Hwff Hwfp].
  unfold send_body in Hsend. unfold recv_body, mnorm, fixed_size.
  destruct ml as [fixed pay]; destruct mv as [vs pv]; cbn [ml_fixed ml_pay mv_fixed mv_pay] in *.
  destruct pay as [|c dn|c en entry].
  - (* no payload *)
    inversion Hsend; subst. split; [|exact I].
    rewrite dec_enc_fields by assumption. destruct pv; try discriminate. reflexivity.
  - destruct pv as [|bs|]; try discriminate.
    destruct (static_fields fixed) as [n|] eqn:Es; [|discriminate].
    inversion Hsend; subst d p; clear Hsend.
    pose proof (static_fields_length _ _ _ Es Hwff) as Hlen.
    assert (Hd : List.length (enc_fields fixed vs ++ le_enc 4 (len bs)) = (n + 4)%nat)
      by (rewrite app_length, le_enc_length; lia).
    split; [|now rewrite Hd].
    rewrite <- Hd. rewrite firstn_app_exact, skipn_app_exact.
    rewrite dec_enc_fields by assumption.
    pose proof (le_dec_enc 4 (len bs) []) as Hle. rewrite app_nil_r in Hle. rewrite Hle by exact Hp.
    rewrite N.mod_small by exact Hp. rewrite N.eqb_refl. reflexivity.
  - destruct pv as [| |count rows]; try discriminate.
    destruct (static_fields fixed) as [n|] eqn:Es; [|discriminate].
    apply andb_true_iff in Hokp as [Hokp Hmin]. apply andb_true_iff in Hokp as [_ Hokr].
    apply Nat.ltb_lt in Hmin.
    apply andb_true_iff in Hwfp as [Hcount Hrows]. apply N.ltb_lt in Hcount.
    destruct (fit entry count 0 rows) as [sz keep] eqn:F.
    inversion Hsend; subst d p; clear Hsend.
    destruct (fit_spec _ _ _ _ _ _ F) as (drop & Hsplit & Hsz & Hle & _).
    assert (Hszc : sz <= count) by (apply Hle; lia).
    pose proof (static_fields_length _ _ _ Es Hwff) as Hlen.
    assert (Hd : List.length (enc_fields fixed vs ++ le_enc 4 sz) = (n + 4)%nat)
      by (rewrite app_length, le_enc_length; lia).
    split; [|now rewrite Hd].
    rewrite <- Hd. rewrite firstn_app_exact, skipn_app_exact.
    rewrite dec_enc_fields by assumption.
    pose proof (le_dec_enc 4 sz []) as Hl4. rewrite app_nil_r in Hl4. rewrite Hl4 by lia.
    rewrite parse_all_enc; try assumption; [reflexivity| |lia].
    subst rows. exact (forallb_app_l _ _ _ Hrows).
Qed.

Theorem recv_send msize tbl tag typ ml mv rest :
  lookup typ tbl = Some ml -> ml_ok ml = true -> mwf ml mv = true -> tag < 65536 ->
  frame_size ml mv <= msize -> frame_size ml mv <= maximum_length ->
  recv msize tbl (send tag typ ml mv ++ rest) = ROk tag typ (mnorm ml mv) rest.
Proof.
  intros Hlk Hok Hwf Htag Hms Hmax.
  unfold send, frame_size in *.
  destruct (send_body ml mv) as [d p] eqn:Hsb.
  unfold maximum_length, header_length in *.
  assert (Hd : len d < 2 ^ 32) by (change (2 ^ 32) with 4294967296; lia).
  assert (Hp : len p < 2 ^ 32) by (change (2 ^ 32) with 4294967296; lia).
  destruct (recv_body_send ml mv d p Hok Hwf Hsb Hp) as [Hbody Hfs].
  rewrite !(N.mod_small _ (2 ^ 32)); try assumption; [|change (2 ^ 32) with 4294967296; lia].
  unfold recv. rewrite <- !app_assoc.
  rewrite le_dec_enc by (change (2 ^ (8 * N.of_nat 4)) with 4294967296; lia).
  cbn [app]. rewrite le_dec_enc by exact Htag.
  unfold header_length, maximum_length.
  replace (7 + len d + len p <? 7) with false by (symmetry; apply N.ltb_ge; lia).
  replace (4194304 <? 7 + len d + len p) with false by (symmetry; apply N.ltb_ge; lia).
  replace (msize <? 7 + len d + len p) with false by (symmetry; apply N.ltb_ge; lia).
  cbn [orb]. rewrite Hlk.
  assert (Hrem : N.to_nat (7 + len d + len p - 7) = List.length (d ++ p)).
  { rewrite app_length. unfold len. lia. }
  rewrite Hrem.
  replace (match fixed_size ml with Some fs => Nat.ltb (List.length (d ++ p)) fs | None => false end) with false.
  2:{ destruct (fixed_size ml) as [fs|]; [|reflexivity]. subst fs. symmetry. apply Nat.ltb_ge. rewrite app_length. lia. }
  rewrite (app_assoc d p rest).
  replace (Nat.ltb (List.length ((d ++ p) ++ rest)) (List.length (d ++ p))) with false
    by (symmetry; apply Nat.ltb_ge; rewrite (app_length (d ++ p)); lia).
  rewrite firstn_app_exact, skipn_app_exact, Hbody. reflexivity.
Qed.

(** the bytes [send] writes are bytes *)
Lemma send_bytes tag typ ml mv : mwf ml mv = true -> typ < 256 ->
  Forall (fun b => b < 256) (send tag typ ml mv).
Proof.
  intros Hwf Htyp. unfold send.
  destruct (send_body ml mv) as [d p] eqn:Hsb.
  assert (Hdp : Forall (fun b => b < 256) d /\ Forall (fun b => b < 256) p).
  { unfold mwf in Hwf. apply andb_true_iff in Hwf as [Hf Hp]. unfold send_body in Hsb.
    pose proof (enc_fields_bytes _ _ Hf) as Hfx.
    destruct (ml_pay ml) as [|c dn|c en entry]; destruct (mv_pay mv) as [|bs|count rows]; try discriminate Hp;
      try (inversion Hsb; subst; split; [assumption|constructor]).
    - inversion Hsb; subst. split; [apply Forall_app; split; [assumption|apply le_enc_bytes]|now apply all_bytes_Forall].
    - destruct (fit entry count 0 rows) as [sz keep] eqn:F. inversion Hsb; subst.
      apply andb_true_iff in Hp as [_ Hrows].
      destruct (fit_spec _ _ _ _ _ _ F) as (drop & Hsplit & _). subst rows.
      split; [apply Forall_app; split; [assumption|apply le_enc_bytes]|].
      apply enc_rows_bytes. exact (forallb_app_l _ _ _ Hrows). }
  destruct Hdp as [Hd Hp].
  repeat (apply Forall_app; split); try apply le_enc_bytes; try assumption.
  constructor; [exact Htyp|constructor].
Qed.

(** * extent of the normalisation *)

Definition low_perm_s (k : skind) (v : sval) : bool :=
  match k, v with
  | KPerm, VInt n => n <=? perm_mask
  | _, _ => true
  end.

Fixpoint low_perm_row (l : slayout) (vs : list sval) : bool :=
  match l, vs with
  | (_, k) :: l', v :: vs' => low_perm_s k v && low_perm_row l' vs'
  | _, _ => true
  end.

Definition low_perm (k : kind) (v : val) : bool :=
  match k, v with
  | KS s, VS x => low_perm_s s x
  | KList16 elem, VList rows => forallb (low_perm_row elem) rows
  | _, _ => true
  end.

Fixpoint low_perm_fields (l : layout) (vs : list val) : bool :=
  match l, vs with
  | (_, k) :: l', v :: vs' => low_perm k v && low_perm_fields l' vs'
  | _, _ => true
  end.

Lemma norm_s_id k v : low_perm_s k v = true -> norm_s k v = v.
Proof.
  intros H. destruct k, v; cbn in *; try reflexivity.
  apply N.leb_le in H. f_equal. unfold perm_mask in *. change 4095 with (N.ones 12).
  rewrite N.land_ones. apply N.mod_small. change (2 ^ 12) with 4096. lia.
Qed.

Lemma norm_row_id l : forall vs, low_perm_row l vs = true -> norm_row l vs = vs.
Proof.
  induction l as [|[nm k] l IH]; intros vs H; destruct vs as [|v vs]; cbn in *; try reflexivity.
  apply andb_true_iff in H as [H1 H2]. now rewrite norm_s_id, IH.
Qed.

Lemma norm_id k v : low_perm k v = true -> norm k v = v.
Proof.
  destruct k, v; cbn; intros H; try reflexivity; [now rewrite norm_s_id|].
  f_equal. induction rows as [|r rows IH]; cbn in *; [reflexivity|].
  apply andb_true_iff in H as [H1 H2]. now rewrite norm_row_id, IH.
Qed.

(** [norm] is the identity unless some permission field carries bits above 0o7777 ... *)
Theorem norm_fields_id l : forall vs, low_perm_fields l vs = true -> norm_fields l vs = vs.
Proof.
  induction l as [|[nm k] l IH]; intros vs H; destruct vs as [|v vs]; cbn in *; try reflexivity.
  apply andb_true_iff in H as [H1 H2]. now rewrite norm_id, IH.
Qed.

(** ... and a directory reply keeps exactly the longest prefix of whole entries that fits Count,
    with Count replaced by the size of that prefix *)
Theorem mnorm_extent ml mv :
  low_perm_fields (ml_fixed ml) (mv_fixed mv) = true ->
  match ml_pay ml, mv_pay mv with
  | PDirents _ _ entry, PVDirents count rows =>
      exists keep drop sz,
        rows = keep ++ drop /\ sz = len (enc_rows entry keep) /\ sz <= count /\
        match drop with [] => True | d :: _ => count < sz + len (enc_row entry d) end /\
        mnorm ml mv = {| mv_fixed := mv_fixed mv; mv_pay := PVDirents sz (map (norm_row entry) keep) |}
  | _, _ => mnorm ml mv = mv
  end.
Proof.
  intros Hlow. unfold mnorm. rewrite norm_fields_id by exact Hlow.
  destruct mv as [vs pv]; cbn [mv_fixed mv_pay].
  destruct (ml_pay ml) as [|c d|c e entry]; try reflexivity.
  destruct pv as [| |count rows]; try reflexivity.
  destruct (fit entry count 0 rows) as [sz keep] eqn:F.
  destruct (fit_spec _ _ _ _ _ _ F) as (drop & Hsplit & Hsz & Hle & Hdrop).
  exists keep, drop, sz. repeat split; try assumption; try lia.
Qed.

(** names do not matter to send/recv *)
Lemma fit_rename f entry count : forall rows acc,
  fit (rename_row f entry) count acc rows = fit entry count acc rows.
Proof.
  induction rows as [|r rows IH]; intros acc; cbn; [reflexivity|].
  rewrite enc_row_rename. rewrite IH. reflexivity.
Qed.

Lemma send_body_rename f ml mv : send_body (rename_ml f ml) mv = send_body ml mv.
Proof.
  unfold send_body, rename_ml. destruct ml as [fixed pay]; cbn [ml_fixed ml_pay].
  rewrite enc_fields_rename.
  destruct pay, (mv_pay mv); try reflexivity.
  rewrite fit_rename. destruct (fit entry count 0 rows) as [sz keep].
  f_equal. unfold enc_rows. apply flat_map_ext. intros row. apply enc_row_rename.
Qed.

Lemma send_rename f tag typ ml mv : send tag typ (rename_ml f ml) mv = send tag typ ml mv.
Proof. unfold send. now rewrite send_body_rename. Qed.

Lemma mlayout_eqb_eq a b : mlayout_eqb a b = true -> a = b.
Proof.
  destruct a as [fa pa], b as [fb pb]. unfold mlayout_eqb. cbn [ml_fixed ml_pay]. intros H.
  apply andb_true_iff in H as [H1 H2]. apply layout_eqb_eq in H1. subst. f_equal.
  destruct pa, pb; cbn in H2; try discriminate; try reflexivity.
  - apply andb_true_iff in H2 as [H2 H3]. apply String.eqb_eq in H2, H3. now subst.
  - apply andb_true_iff in H2 as [H2 H4]. apply andb_true_iff in H2 as [H2 H3].
    apply String.eqb_eq in H2, H3. apply slayout_eqb_eq in H4. now subst.
Qed.

Lemma lookup_map_spec {A} (typ : A -> N) (lay : A -> mlayout) (find : N -> list A -> option A) :
  (forall t l, find t l = match l with [] => None | m :: r => if typ m =? t then Some m else find t r end) ->
  forall t l m, find t l = Some m -> lookup t (map (fun x => (typ x, lay x)) l) = Some (lay m).
Proof.
  intros Hf t l; induction l as [|x l IH]; intros m H; rewrite Hf in H; [discriminate|].
  cbn. destruct (typ x =? t); [now inversion H|]. now apply IH.
Qed.

(** * recv and the stream: exact consumption, independence from what follows the frame
    (statements C02 can build on) *)

Lemma le_dec_skipn w : forall bs n r, le_dec w bs = Some (n, r) -> r = skipn w bs.
Proof.
  induction w as [|w IH]; intros bs n r H; cbn [le_dec] in H.
  - now inversion H.
  - destruct bs as [|b bs']; [discriminate|].
    destruct (le_dec w bs') as [[n' r']|] eqn:E; [|discriminate].
    inversion H; subst. cbn. now apply (IH _ _ _ E).
Qed.

Lemma le_dec_app w : forall bs n r e, le_dec w bs = Some (n, r) -> le_dec w (bs ++ e) = Some (n, r ++ e).
Proof.
  induction w as [|w IH]; intros bs n r e H; cbn [le_dec] in *.
  - now inversion H.
  - destruct bs as [|b bs']; [discriminate|]. cbn [app].
    destruct (le_dec w bs') as [[n' r']|] eqn:E; [|discriminate].
    rewrite (IH _ _ _ e E). now inversion H.
Qed.

Lemma skipn_skipn {A} a b (l : list A) : skipn a (skipn b l) = skipn (b + a) l.
Proof.
  revert l; induction b as [|b IH]; intros l; cbn; [reflexivity|].
  destruct l; [now destruct a|]. apply IH.
Qed.

(** Whenever recv does not report a connection error it has consumed exactly [size] bytes, the
    value of the frame's own size field — whether the message was delivered, rejected
    (ErrNoValidMessage) or of unknown type: the next frame starts right after. *)
Theorem recv_consumes_size msize tbl s :
  match recv msize tbl s with
  | RConnErr => True
  | RUnknown _ rest | RInvalid rest | ROk _ _ _ rest =>
      exists size r, le_dec 4 s = Some (size, r) /\ header_length <= size /\ size <= msize /\ size <= maximum_length /\
                     rest = skipn (N.to_nat size) s
  end.
Proof.
  unfold recv.
  destruct (le_dec 4 s) as [[size r1]|] eqn:E1; [|exact I].
  destruct r1 as [|typ r2]; [exact I|].
  destruct (le_dec 2 r2) as [[tag r3]|] eqn:E2; [|exact I].
  destruct (size <? header_length) eqn:Hs; [exact I|].
  destruct ((maximum_length <? size) || (msize <? size)) eqn:Hm; [exact I|].
  apply N.ltb_ge in Hs. apply orb_false_iff in Hm as [Hm1 Hm2]. apply N.ltb_ge in Hm1, Hm2.
  assert (Hrest : skipn (N.to_nat (size - header_length)) r3 = skipn (N.to_nat size) s).
  { pose proof (le_dec_skipn _ _ _ _ E1) as H1. pose proof (le_dec_skipn _ _ _ _ E2) as H2.
    assert (H3 : r2 = skipn 5 s).
    { change 5%nat with (4 + 1)%nat. rewrite <- skipn_skipn. rewrite <- H1. reflexivity. }
    rewrite H2, H3, !skipn_skipn. f_equal. unfold header_length in *. lia. }
  assert (Hex : exists size0 r, Some (size, typ :: r2) = Some (size0, r) /\ header_length <= size0 /\ size0 <= msize /\
                  size0 <= maximum_length /\ skipn (N.to_nat (size - header_length)) r3 = skipn (N.to_nat size0) s).
  { exists size, (typ :: r2). repeat split; assumption. }
  destruct (lookup typ tbl) as [ml|]; [|exact Hex].
  destruct (match fixed_size ml with Some fs => Nat.ltb (N.to_nat (size - header_length)) fs | None => false end); [exact Hex|].
  destruct (Nat.ltb (List.length r3) (N.to_nat (size - header_length))); [exact I|].
  destruct (recv_body ml (firstn (N.to_nat (size - header_length)) r3)); exact Hex.
Qed.

Lemma firstn_app_le {A} n (l e : list A) : (n <= List.length l)%nat -> firstn n (l ++ e) = firstn n l.
Proof. intros H. rewrite firstn_app. replace (n - List.length l)%nat with O by lia. cbn. apply app_nil_r. Qed.

Lemma skipn_app_le {A} n (l e : list A) : (n <= List.length l)%nat -> skipn n (l ++ e) = skipn n l ++ e.
Proof. intros H. rewrite skipn_app. replace (n - List.length l)%nat with O by lia. reflexivity. Qed.

(** A delivered or rejected frame is judged on its own bytes: whatever follows it in the stream
    changes nothing but the unread rest. *)
Theorem recv_ignores_following msize tbl s e :
  match recv msize tbl s with
  | RConnErr => True
  | RUnknown tag rest =>
      (* the body of an unknown type is discarded as far as it is there *)
      exists rest', recv msize tbl (s ++ e) = RUnknown tag rest'
  | RInvalid rest => exists rest', recv msize tbl (s ++ e) = RInvalid rest'
  | ROk tag typ mv rest => recv msize tbl (s ++ e) = ROk tag typ mv (rest ++ e)
  end.
Proof.
  unfold recv.
  destruct (le_dec 4 s) as [[size r1]|] eqn:E1; [|exact I].
  destruct r1 as [|typ r2]; [exact I|].
  destruct (le_dec 2 r2) as [[tag r3]|] eqn:E2; [|exact I].
  rewrite (le_dec_app _ _ _ _ e E1). cbn [app]. rewrite (le_dec_app _ _ _ _ e E2).
  destruct (size <? header_length); [exact I|].
  destruct ((maximum_length <? size) || (msize <? size)); [exact I|].
  destruct (lookup typ tbl) as [ml|]; [|eexists; reflexivity].
  destruct (match fixed_size ml with Some fs => Nat.ltb (N.to_nat (size - header_length)) fs | None => false end);
    [eexists; reflexivity|].
  destruct (Nat.ltb (List.length r3) (N.to_nat (size - header_length))) eqn:El; [exact I|].
  apply Nat.ltb_ge in El.
  replace (Nat.ltb (List.length (r3 ++ e)) (N.to_nat (size - header_length))) with false
    by (symmetry; apply Nat.ltb_ge; rewrite app_length; lia).
  rewrite (firstn_app_le _ _ _ El), (skipn_app_le _ _ _ El).
  destruct (recv_body ml (firstn (N.to_nat (size - header_length)) r3)); [reflexivity|eexists; reflexivity].
Qed.

(** decoding never reads behind itself: the unread rest is a suffix of the input *)
Lemma take_suffix n : forall bs h t, take n bs = Some (h, t) -> bs = h ++ t.
Proof.
  induction n as [|n IH]; intros bs h t H; cbn in H; [now inversion H|].
  destruct bs as [|b bs]; [discriminate|]. destruct (take n bs) as [[h' t']|] eqn:E; [|discriminate].
  inversion H; subst. cbn. f_equal. now apply IH.
Qed.

Lemma dec_s_suffix k bs v r : dec_s k bs = Some (v, r) -> exists used, bs = used ++ r.
Proof.
  assert (Hle : forall w bs n r, le_dec w bs = Some (n, r) -> exists used, bs = used ++ r).
  { intros w bs0 n r0 H. exists (firstn w bs0). rewrite (le_dec_skipn _ _ _ _ H). symmetry. apply firstn_skipn. }
  destruct k; cbn [dec_s]; intros H.
  - destruct (le_dec w bs) as [[n r']|] eqn:E; [|discriminate]. inversion H; subst. eapply Hle; eauto.
  - destruct (le_dec 4 bs) as [[n r']|] eqn:E; [|discriminate]. inversion H; subst. eapply Hle; eauto.
  - destruct (le_dec 2 bs) as [[n r']|] eqn:E; [|discriminate].
    destruct (take (N.to_nat n) r') as [[s r'']|] eqn:E2; [|discriminate]. inversion H; subst.
    destruct (Hle _ _ _ _ E) as [u Hu]. apply take_suffix in E2. exists (u ++ s). rewrite <- app_assoc. now rewrite <- E2.
  - destruct (le_dec w bs) as [[n r']|] eqn:E; [|discriminate]. inversion H; subst. eapply Hle; eauto.
Qed.

Lemma dec_row_suffix l : forall bs vs r, dec_row l bs = Some (vs, r) -> exists used, bs = used ++ r.
Proof.
  induction l as [|[nm k] l IH]; intros bs vs r H; cbn in H.
  - inversion H; subst. now exists [].
  - destruct (dec_s k bs) as [[v r1]|] eqn:E1; [|discriminate].
    destruct (dec_row l r1) as [[vs' r2]|] eqn:E2; [|discriminate]. inversion H; subst.
    destruct (dec_s_suffix _ _ _ _ E1) as [u1 H1]. destruct (IH _ _ _ E2) as [u2 H2].
    exists (u1 ++ u2). rewrite <- app_assoc. now rewrite <- H2.
Qed.

Lemma dec_rows_suffix l c : forall bs rows r, dec_rows l c bs = Some (rows, r) -> exists used, bs = used ++ r.
Proof.
  induction c as [|c IH]; intros bs rows r H; cbn in H.
  - inversion H; subst. now exists [].
  - destruct (dec_row l bs) as [[row r1]|] eqn:E1; [|discriminate].
    destruct (dec_rows l c r1) as [[rows' r2]|] eqn:E2; [|discriminate]. inversion H; subst.
    destruct (dec_row_suffix _ _ _ _ E1) as [u1 H1]. destruct (IH _ _ _ E2) as [u2 H2].
    exists (u1 ++ u2). rewrite <- app_assoc. now rewrite <- H2.
Qed.

Theorem dec_fields_suffix l : forall bs vs r, dec_fields l bs = Some (vs, r) -> exists used, bs = used ++ r.
Proof.
  induction l as [|[nm k] l IH]; intros bs vs r H; cbn in H.
  - inversion H; subst. now exists [].
  - destruct (dec k bs) as [[v r1]|] eqn:E1; [|discriminate].
    destruct (dec_fields l r1) as [[vs' r2]|] eqn:E2; [|discriminate]. inversion H; subst.
    assert (H1 : exists u1, bs = u1 ++ r1).
    { destruct k as [sk|elem]; cbn [dec] in E1.
      - destruct (dec_s sk bs) as [[x rr]|] eqn:E; [|discriminate]. inversion E1; subst. eapply dec_s_suffix; eauto.
      - destruct (le_dec 2 bs) as [[n rr]|] eqn:E; [|discriminate].
        destruct (dec_rows elem (N.to_nat n) rr) as [[rows r'']|] eqn:E3; [|discriminate]. inversion E1; subst.
        destruct (dec_rows_suffix _ _ _ _ _ E3) as [u Hu].
        exists (firstn 2 bs ++ u). rewrite <- app_assoc, <- Hu. rewrite (le_dec_skipn _ _ _ _ E). symmetry. apply firstn_skipn. }
    destruct H1 as [u1 H1]. destruct (IH _ _ _ E2) as [u2 H2].
    exists (u1 ++ u2). rewrite <- app_assoc. now rewrite <- H2.
Qed.
