(** Codec/GenCheck.v — the obligations over the tables go2coq reads off the Go
    source (gen/CodecGen.v, gen/ConstGen.v).  These re-open whenever an encode or
    decode body, a primitive of buffer.go, a payloader method, the registry's
    init() or a constant changes.  Finite checks by vm_compute over the 256 type
    bytes, lifted to ∀ with forallb_forall. *)
From Coq Require Import NArith List String Bool Lia.
From P9V Require Import Codec.Layout Codec.LayoutProofs Codec.Frame Codec.FrameProofs
  Codec.Reuse Codec.Spec9P gen.ConstGen gen.CodecGen.
Import ListNotations.
Open Scope N_scope.

Definition all_types : list N := map N.of_nat (seq 0 256).

Lemma in_all_types t : t < 256 -> In t all_types.
Proof.
  intros H. unfold all_types. apply in_map_iff. exists (N.to_nat t). split; [lia|].
  apply in_seq. lia.
Qed.

Fixpoint gen_find (t : N) (l : list gen_msg) : option gen_msg :=
  match l with
  | [] => None
  | g :: r => if gm_typ g =? t then Some g else gen_find t r
  end.

Definition gen_registry_enc : registry := map (fun g => (gm_typ g, gm_enc g)) gen_msgs.

Definition opt_N_eqb (a b : option N) : bool :=
  match a, b with Some x, Some y => x =? y | None, None => true | _, _ => false end.

Definition opt_str_eqb (a b : option string) : bool :=
  match a, b with Some x, Some y => String.eqb x y | None, None => true | _, _ => false end.

Definition pay_data_name (ml : mlayout) : option string :=
  match ml_pay ml with PNone => None | PData _ d => Some d | PDirents _ _ _ => Some "payload"%string end.

(** one type byte: registered in Go iff defined by the protocol table; same struct as the
    binding names; encode program = decode program = protocol layout after renaming;
    FixedSize() = size of the fixed fields + 4; Payload()/SetPayload() touch the data field *)
Definition check_type (t : N) : bool :=
  match gen_find t gen_msgs, spec_find t spec, bind_find t binding with
  | None, None, None => true
  | Some g, Some s, Some b =>
      let f := to_spec (b_map b) in
      String.eqb (gm_go g) (b_go b) &&
      String.eqb (gm_const g) (String.append "msg" (sm_name s)) &&
      mlayout_eqb (rename_ml f (gm_enc g)) (sm_layout s) &&
      match layout_of (gm_dec g) with
      | Some ml => mlayout_eqb (rename_ml f ml) (sm_layout s)
      | None => false
      end &&
      ml_ok (sm_layout s) &&
      opt_N_eqb (gm_fixed_size g) (option_map N.of_nat (fixed_size (gm_enc g))) &&
      opt_str_eqb (gm_payload g) (pay_data_name (gm_enc g))
  | _, _, _ => false
  end.

Lemma all_types_checked : forallb check_type all_types = true.
Proof. vm_compute. reflexivity. Qed.

Lemma no_duplicate_registration : nodup_N (map gm_typ gen_msgs) = true /\ nodup_N (map sm_typ spec) = true.
Proof. split; vm_compute; reflexivity. Qed.

(** C01_layout_is_spec, unpacked *)
Theorem layout_is_spec t : t < 256 ->
  match gen_find t gen_msgs with
  | None => spec_find t spec = None
  | Some g =>
      exists s b dl,
        spec_find t spec = Some s /\ bind_find t binding = Some b /\ gm_go g = b_go b /\
        rename_ml (to_spec (b_map b)) (gm_enc g) = sm_layout s /\
        layout_of (gm_dec g) = Some dl /\ rename_ml (to_spec (b_map b)) dl = sm_layout s /\
        ml_ok (sm_layout s) = true /\
        gm_fixed_size g = option_map N.of_nat (fixed_size (gm_enc g))
  end.
Proof.
  intros Ht. pose proof all_types_checked as H. rewrite forallb_forall in H.
  specialize (H t (in_all_types t Ht)). unfold check_type in H.
  destruct (gen_find t gen_msgs) as [g|]; destruct (spec_find t spec) as [s|]; destruct (bind_find t binding) as [b|];
    try discriminate; try reflexivity.
  repeat (apply andb_true_iff in H as [H ?]).
  destruct (layout_of (gm_dec g)) as [dl|]; [|discriminate].
  exists s, b, dl. repeat split; try reflexivity.
  - now apply String.eqb_eq.
  - now apply mlayout_eqb_eq.
  - now apply mlayout_eqb_eq.
  - assumption.
  - destruct (gm_fixed_size g), (option_map N.of_nat (fixed_size (gm_enc g))); cbn in *; try discriminate; try reflexivity.
    f_equal. now apply N.eqb_eq.
Qed.

(** consequence: the bytes written according to the encode program are the bytes the protocol
    table prescribes, for every value *)
Theorem gen_send_is_spec_send t g s : t < 256 -> gen_find t gen_msgs = Some g -> spec_find t spec = Some s ->
  forall tag mv, send tag t (gm_enc g) mv = send tag t (sm_layout s) mv.
Proof.
  intros Ht Hg Hs tag mv. pose proof (layout_is_spec t Ht) as H. rewrite Hg in H.
  destruct H as (s' & b & dl & Hs' & _ & _ & Henc & _). rewrite Hs in Hs'. inversion Hs'; subst s'.
  rewrite <- Henc. now rewrite send_rename.
Qed.

(** constants *)
Lemma constants_agree :
  gen_perm_mask = perm_mask /\ p9_permissionsMask = perm_mask /\
  p9_headerLength = header_length /\ p9_maximumLength = maximum_length.
Proof. repeat split; reflexivity. Qed.

(** readers and writers of one name have the same wire kind, Permissions is the only masked one *)
Lemma readers_match_writers :
  forallb (fun wr => String.eqb (fst (fst wr)) (fst (snd wr)) && skind_eqb (snd (fst wr)) (snd (snd wr)))
    (combine gen_writers gen_readers) = true /\ List.length gen_writers = List.length gen_readers.
Proof. split; vm_compute; reflexivity. Qed.

(** C01_mask_bits: the bit values of the protocol header are single bits, distinct, and after
    renaming exactly the generated tables (part of check_type); here: nothing is lost by log2 *)
Lemma spec_bits_are_powers_of_two :
  forallb (fun vn => 2 ^ N.log2 (fst vn) =? fst vn) (getattr_values ++ setattr_values) = true.
Proof. vm_compute. reflexivity. Qed.

(** fields narrowed on the wire are fids only *)
Definition narrowed_ok (e : string * list string) : bool :=
  match find (fun b => String.eqb (b_go b) (fst e)) binding with
  | Some b => forallb (fun f => spec_is_fid (to_spec (b_map b) f)) (snd e)
  | None => false
  end.

Lemma narrowed_are_fids : forallb narrowed_ok gen_narrowed = true.
Proof. vm_compute. reflexivity. Qed.


(** ---- transport.go framing as go2coq reads it (by role, not by spelling) = what Codec/Frame.v send/recv stand for ----
    send (Frame.send): header = Write32(total) WriteMsgType(typ) WriteTag(tag); vectors header, data, payload in that order;
    total = headerLength + uint32(len data) + uint32(len payload).
    recv (Frame.recv): header = Read32 -> size, ReadMsgType -> type, ReadTag -> tag; size < headerLength and
    size > maximumLength || size > msize are ConnErrors, in that order, before lookup; remaining = size - headerLength;
    payloaders: FixedSize > remaining is ErrNoValidMessage, FixedSize bytes go to the decode buffer, remaining - FixedSize
    bytes are the payload; others: the whole body is the decode buffer.
    This is a comparison of the READ shape with a hand-written table; that Frame.v computes what the table says is by
    inspection of Frame.v (the semantic tie stays the differential on real send/recv). *)
Definition spec_send_header : list (string * string) := [("TOTAL", "32"); ("MSG.typ()", "MsgType"); ("TAG", "Tag")]%string.
Definition spec_send_vectors : list string := ["HDR[:]"; "DATA.data"; "PAYLOAD"]%string.
Definition spec_send_total : list string := ["headerLength"; "uint32(len(DATA.data))"; "uint32(len(PAYLOAD))"]%string.
Definition spec_recv_header : list (string * string) := [("size", "32"); ("typ", "MsgType"); ("tag", "Tag")]%string.
Definition spec_recv_checks : list string :=
  ["SIZE<headerLength=>ConnError"; "SIZE>maximumLength||SIZE>MSIZE=>ConnError"; "REMAINING=SIZE-headerLength"]%string.
Definition spec_recv_split : list string :=
  ["payloader: FIXED>REMAINING=>ErrNoValidMessage"; "payloader: if FIXED!=0"; "payloader: decode-buffer int(FIXED)";
   "payloader: if PAYLOAD==nil||len(PAYLOAD)!=int(REMAINING-FIXED)"; "payloader: payload REMAINING-FIXED";
   "payloader: if len(PAYLOAD)>0"; "other: if REMAINING!=0"; "other: decode-buffer int(REMAINING)"]%string.

Fixpoint assoc_kind (n : string) (l : list (string * skind)) : option skind :=
  match l with [] => None | (k, v) :: r => if String.eqb k n then Some v else assoc_kind n r end.

Lemma frame_shape_agrees :
  gen_send_header = spec_send_header /\ gen_send_vectors = spec_send_vectors /\ gen_send_total = spec_send_total /\
  gen_recv_header = spec_recv_header /\ gen_recv_checks = spec_recv_checks /\ gen_recv_split = spec_recv_split /\
  map (fun p => assoc_kind (snd p) gen_writers) gen_send_header = [Some (KInt 4); Some (KInt 1); Some (KInt 2)] /\
  map (fun p => assoc_kind (snd p) gen_readers) gen_recv_header = [Some (KInt 4); Some (KInt 1); Some (KInt 2)].
Proof. repeat split; reflexivity. Qed.
