(** Codec/Layout.v — the universe of 9P2000.L field kinds with executable
    encoders and decoders over [list N] byte streams.  Definitions only; the
    proofs are in LayoutProofs.v.

    Faithful to /repo/p9/buffer.go:
      - integers are little endian, a reader consumes all of its bytes or none
        (buffer.consume) and a failed read marks the buffer overrun, which makes
        recv reject the frame: modelled by the option monad;
      - WriteString writes uint16(len(s)) (wraps) then the bytes; ReadString reads
        the length, checks has(len) and copies;
      - WritePermissions and ReadPermissions both mask with permissionsMask;
      - bool-record masks: encode ORs the constant of every set field, decode
        tests mask&C != 0 (unknown bits are dropped).
    Decoders accept any N as a "byte"; encoders emit values < 256 (LayoutProofs). *)
From Coq Require Import NArith List String Bool.
Import ListNotations.
Open Scope N_scope.

(** scalar kinds (one wire field) *)
Inductive skind :=
| KInt (w : nat)                              (* w-byte little-endian unsigned *)
| KPerm                                       (* u32 masked with permissionsMask on write AND read *)
| KStr                                        (* len[2] bytes *)
| KMask (w : nat) (bits : list (N * string)). (* w-byte mask; (bit position, name of the bool) *)

Definition slayout := list (string * skind).

Inductive kind :=
| KS (s : skind)
| KList16 (elem : slayout).                   (* count[2] then count elements, each a row of scalars *)

Definition layout := list (string * kind).

Inductive sval :=
| VInt (n : N)
| VStr (bs : list N)
| VMask (bs : list bool).

Inductive val :=
| VS (v : sval)
| VList (rows : list (list sval)).

Definition perm_mask : N := 4095.             (* = permissionsMask (obligation in GenCheck.v) *)

Definition len (A : Type) (l : list A) : N := N.of_nat (List.length l).
Arguments len {A} l.

(** little endian; [le_enc w n] keeps the low w bytes (Go's uintN(x) wrap-around) *)
Fixpoint le_enc (w : nat) (n : N) : list N :=
  match w with
  | O => []
  | S w' => N.land n 255 :: le_enc w' (N.shiftr n 8)     (* n mod 256, n / 256 *)
  end.

Fixpoint le_dec (w : nat) (bs : list N) : option (N * list N) :=
  match w with
  | O => Some (0, bs)
  | S w' =>
      match bs with
      | [] => None
      | b :: r =>
          match le_dec w' r with
          | Some (n, rest) => Some (b + N.shiftl n 8, rest)      (* b + 256 * n *)
          | None => None
          end
      end
  end.

Fixpoint mask_enc (bits : list (N * string)) (bs : list bool) : N :=
  match bits, bs with
  | (p, _) :: bits', b :: bs' => if b then N.setbit (mask_enc bits' bs') p else mask_enc bits' bs'
  | _, _ => 0
  end.

Definition mask_dec (bits : list (N * string)) (m : N) : list bool :=
  map (fun pb => N.testbit m (fst pb)) bits.

(** take n elements or fail (buffer.has) *)
Fixpoint take (n : nat) (bs : list N) : option (list N * list N) :=
  match n with
  | O => Some ([], bs)
  | S n' =>
      match bs with
      | [] => None
      | b :: r => match take n' r with Some (h, t) => Some (b :: h, t) | None => None end
      end
  end.

Definition enc_s (k : skind) (v : sval) : list N :=
  match k, v with
  | KInt w, VInt n => le_enc w n
  | KPerm, VInt n => le_enc 4 (N.land n perm_mask)
  | KStr, VStr bs => le_enc 2 (len bs) ++ bs
  | KMask w bits, VMask bs => le_enc w (mask_enc bits bs)
  | _, _ => []
  end.

Definition dec_s (k : skind) (bs : list N) : option (sval * list N) :=
  match k with
  | KInt w => match le_dec w bs with Some (n, r) => Some (VInt n, r) | None => None end
  | KPerm => match le_dec 4 bs with Some (n, r) => Some (VInt (N.land n perm_mask), r) | None => None end
  | KStr =>
      match le_dec 2 bs with
      | Some (n, r) => match take (N.to_nat n) r with Some (s, r') => Some (VStr s, r') | None => None end
      | None => None
      end
  | KMask w bits => match le_dec w bs with Some (m, r) => Some (VMask (mask_dec bits m), r) | None => None end
  end.

Definition all_bytes (bs : list N) : bool := forallb (fun b => b <? 256) bs.

Definition wf_s (k : skind) (v : sval) : bool :=
  match k, v with
  | KInt w, VInt n => n <? 2 ^ (8 * N.of_nat w)
  | KPerm, VInt n => n <? 2 ^ 32
  | KStr, VStr bs => (len bs <? 65536) && all_bytes bs
  | KMask w bits, VMask bs => Nat.eqb (List.length bs) (List.length bits)
  | _, _ => false
  end.

Definition norm_s (k : skind) (v : sval) : sval :=
  match k, v with
  | KPerm, VInt n => VInt (N.land n perm_mask)
  | _, _ => v
  end.

(** rows: sequences of scalars (list elements, directory entries) *)
Fixpoint enc_row (l : slayout) (vs : list sval) : list N :=
  match l, vs with
  | (_, k) :: l', v :: vs' => enc_s k v ++ enc_row l' vs'
  | _, _ => []
  end.

Fixpoint dec_row (l : slayout) (bs : list N) : option (list sval * list N) :=
  match l with
  | [] => Some ([], bs)
  | (_, k) :: l' =>
      match dec_s k bs with
      | Some (v, r) => match dec_row l' r with Some (vs, r') => Some (v :: vs, r') | None => None end
      | None => None
      end
  end.

Fixpoint wf_row (l : slayout) (vs : list sval) : bool :=
  match l, vs with
  | [], [] => true
  | (_, k) :: l', v :: vs' => wf_s k v && wf_row l' vs'
  | _, _ => false
  end.

Fixpoint norm_row (l : slayout) (vs : list sval) : list sval :=
  match l, vs with
  | (_, k) :: l', v :: vs' => norm_s k v :: norm_row l' vs'
  | _, _ => vs
  end.

Definition enc_rows (l : slayout) (rows : list (list sval)) : list N := flat_map (enc_row l) rows.

Fixpoint dec_rows (l : slayout) (c : nat) (bs : list N) : option (list (list sval) * list N) :=
  match c with
  | O => Some ([], bs)
  | S c' =>
      match dec_row l bs with
      | Some (row, r) => match dec_rows l c' r with Some (rows, r') => Some (row :: rows, r') | None => None end
      | None => None
      end
  end.

Definition enc (k : kind) (v : val) : list N :=
  match k, v with
  | KS s, VS x => enc_s s x
  | KList16 elem, VList rows => le_enc 2 (len rows) ++ enc_rows elem rows
  | _, _ => []
  end.

Definition dec (k : kind) (bs : list N) : option (val * list N) :=
  match k with
  | KS s => match dec_s s bs with Some (x, r) => Some (VS x, r) | None => None end
  | KList16 elem =>
      match le_dec 2 bs with
      | Some (n, r) => match dec_rows elem (N.to_nat n) r with Some (rows, r') => Some (VList rows, r') | None => None end
      | None => None
      end
  end.

Definition wf (k : kind) (v : val) : bool :=
  match k, v with
  | KS s, VS x => wf_s s x
  | KList16 elem, VList rows => (len rows <? 65536) && forallb (wf_row elem) rows
  | _, _ => false
  end.

Definition norm (k : kind) (v : val) : val :=
  match k, v with
  | KS s, VS x => VS (norm_s s x)
  | KList16 elem, VList rows => VList (map (norm_row elem) rows)
  | _, _ => v
  end.

Fixpoint enc_fields (l : layout) (vs : list val) : list N :=
  match l, vs with
  | (_, k) :: l', v :: vs' => enc k v ++ enc_fields l' vs'
  | _, _ => []
  end.

Fixpoint dec_fields (l : layout) (bs : list N) : option (list val * list N) :=
  match l with
  | [] => Some ([], bs)
  | (_, k) :: l' =>
      match dec k bs with
      | Some (v, r) => match dec_fields l' r with Some (vs, r') => Some (v :: vs, r') | None => None end
      | None => None
      end
  end.

Fixpoint wf_fields (l : layout) (vs : list val) : bool :=
  match l, vs with
  | [], [] => true
  | (_, k) :: l', v :: vs' => wf k v && wf_fields l' vs'
  | _, _ => false
  end.

Fixpoint norm_fields (l : layout) (vs : list val) : list val :=
  match l, vs with
  | (_, k) :: l', v :: vs' => norm k v :: norm_fields l' vs'
  | _, _ => vs
  end.

(** static well-formedness of a layout: mask bit positions are distinct and fit the width *)
Fixpoint nodup_N (l : list N) : bool :=
  match l with
  | [] => true
  | x :: r => negb (existsb (N.eqb x) r) && nodup_N r
  end.

Definition ok_s (k : skind) : bool :=
  match k with
  | KMask w bits => nodup_N (map fst bits) && forallb (fun pb => fst pb <? 8 * N.of_nat w) bits
  | _ => true
  end.

Definition ok_row (l : slayout) : bool := forallb (fun nk => ok_s (snd nk)) l.

Definition ok_k (k : kind) : bool :=
  match k with
  | KS s => ok_s s
  | KList16 elem => ok_row elem
  end.

Definition ok_fields (l : layout) : bool := forallb (fun nk => ok_k (snd nk)) l.

(** size of a field when it does not depend on the value *)
Definition static_s (k : skind) : option nat :=
  match k with
  | KInt w => Some w
  | KPerm => Some 4%nat
  | KStr => None
  | KMask w _ => Some w
  end.

Fixpoint static_fields (l : layout) : option nat :=
  match l with
  | [] => Some O
  | (_, KS s) :: l' =>
      match static_s s, static_fields l' with
      | Some a, Some b => Some (a + b)%nat
      | _, _ => None
      end
  | (_, KList16 _) :: _ => None
  end.

(** fewest bytes a row occupies (a directory entry is never empty) *)
Definition min_s (k : skind) : nat :=
  match k with
  | KInt w => w
  | KPerm => 4
  | KStr => 2
  | KMask w _ => w
  end.

Fixpoint min_row (l : slayout) : nat :=
  match l with
  | [] => O
  | (_, k) :: l' => (min_s k + min_row l')%nat
  end.

(** renaming of field (and mask bit) names; codecs ignore names *)
Definition rename_s (f : string -> string) (k : skind) : skind :=
  match k with
  | KMask w bits => KMask w (map (fun pb => (fst pb, f (snd pb))) bits)
  | _ => k
  end.
Definition rename_row (f : string -> string) (l : slayout) : slayout :=
  map (fun nk => (f (fst nk), rename_s f (snd nk))) l.
Definition rename_k (f : string -> string) (k : kind) : kind :=
  match k with
  | KS s => KS (rename_s f s)
  | KList16 elem => KList16 (rename_row f elem)
  end.
Definition rename_fields (f : string -> string) (l : layout) : layout :=
  map (fun nk => (f (fst nk), rename_k f (snd nk))) l.

(** decidable equality of layouts (used by the generated-table obligations) *)
Fixpoint bits_eqb (a b : list (N * string)) : bool :=
  match a, b with
  | [], [] => true
  | (p, s) :: a', (q, t) :: b' => (p =? q) && String.eqb s t && bits_eqb a' b'
  | _, _ => false
  end.

Definition skind_eqb (a b : skind) : bool :=
  match a, b with
  | KInt w, KInt w' => Nat.eqb w w'
  | KPerm, KPerm => true
  | KStr, KStr => true
  | KMask w bits, KMask w' bits' => Nat.eqb w w' && bits_eqb bits bits'
  | _, _ => false
  end.

Fixpoint slayout_eqb (a b : slayout) : bool :=
  match a, b with
  | [], [] => true
  | (s, k) :: a', (t, k') :: b' => String.eqb s t && skind_eqb k k' && slayout_eqb a' b'
  | _, _ => false
  end.

Definition kind_eqb (a b : kind) : bool :=
  match a, b with
  | KS s, KS t => skind_eqb s t
  | KList16 e, KList16 e' => slayout_eqb e e'
  | _, _ => false
  end.

Fixpoint layout_eqb (a b : layout) : bool :=
  match a, b with
  | [], [] => true
  | (s, k) :: a', (t, k') :: b' => String.eqb s t && kind_eqb k k' && layout_eqb a' b'
  | _, _ => false
  end.
