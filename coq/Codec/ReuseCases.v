(** Codec/ReuseCases.v — C18 differential.  Property predicate on OBSERVED behaviour only:
    what the real recv delivered into a recycled object (taken from the registry's cache,
    holding the previous message) equals what it delivered for the same frame into a new
    object; what the backend of a real Server saw / what a raw peer read equals what the
    request / the backend's answer carried. *)
From Coq Require Import NArith List String Bool.
Require Import Coq.Init.Byte.
From P9V Require Import Codec.Layout Codec.Frame Codec.Reuse Codec.Dump.
Import ListNotations.
Open Scope N_scope.

Inductive c18case :=
| CReuse (typ msize : N) (wire : list N) (old : dump) (reused : bool) (rec fresh : rawres)
| CSrv (sent seen : dump)
| CCut (msize : N) (wire : list N) (a b : rawres)   (* one frame received twice after different earlier pool content *)
| COver (typ n present appended : N) (rejected : bool)  (* list count n backed by [present] elements only: elements appended to the object *)
| C18Bad.

Definition property_holds (c : c18case) : bool :=
  match c with
  | CReuse _ _ _ _ _ rec fresh => rawres_eqb rec fresh
  | CSrv sent seen => dump_eqb sent seen
  | CCut _ _ a b => rawres_eqb a b
  | COver _ n present appended rejected =>
      (* the frame is rejected, and decoding stopped at the first element that did not fit *)
      if present <? n then rejected && (appended <=? present + 1) else true
  | C18Bad => true
  end.

Definition property_failures (l : list c18case) : list nat := failing property_holds 0 l.

(** ---- compact cases ---- *)
Fixpoint anon_row (vs : list cval) : option (list (string * dval)) :=
  match vs with
  | [] => Some []
  | v :: r =>
      match leaf_dval v, anon_row r with
      | Some d, Some x => Some ((EmptyString, d) :: x)
      | _, _ => None
      end
  end.

Fixpoint anon_rows (rows : list (list cval)) : option (list (list (string * dval))) :=
  match rows with
  | [] => Some []
  | r :: rs => match anon_row r, anon_rows rs with Some x, Some xs => Some (x :: xs) | _, _ => None end
  end.

Fixpoint anon (vs : list cval) : option dump :=
  match vs with
  | [] => Some []
  | CLs rows :: r =>
      match anon_rows rows, anon r with Some d, Some x => Some ((EmptyString, DList d) :: x) | _, _ => None end
  | v :: r =>
      match leaf_dval v, anon r with Some d, Some x => Some ((EmptyString, d) :: x) | _, _ => None end
  end.

Inductive c18c :=
| KReuse (typ : byte) (msize : list byte) (wire : list cseg) (old : list cval) (reused : bool) (rec fresh : cres)
| KSrv (sent seen : list cval)
| KCut (msize : list byte) (wire : list cseg) (a b : cres)
| KOver (typ : byte) (n present appended : list byte) (rejected : bool).

Definition to_case18 (sc : schema) (c : c18c) : c18case :=
  match c with
  | KReuse typ msize wire old reused rec fresh =>
      match schema_find (bN typ) sc with
      | Some s =>
          match mk_dump s old, mk_res sc None rec, mk_res sc None fresh with
          | Some d, Some r, Some f => CReuse (bN typ) (le_num msize) (expand wire) d reused r f
          | _, _, _ => C18Bad
          end
      | None => C18Bad
      end
  | KSrv a b =>
      match anon a, anon b with
      | Some x, Some y => CSrv x y
      | _, _ => C18Bad
      end
  | KOver typ n present appended rejected => COver (bN typ) (le_num n) (le_num present) (le_num appended) rejected
  | KCut msize wire a b =>
      match mk_res sc None a, mk_res sc None b with
      | Some x, Some y => CCut (le_num msize) (expand wire) x y
      | _, _ => C18Bad
      end
  end.

Definition is_bad18 (c : c18case) : bool := match c with C18Bad => true | _ => false end.
Definition bad_cases18 (l : list c18case) : list nat := failing (fun c => negb (is_bad18 c)) 0 l.
