(** Codec/PoolConcProofs.v — exclusive ownership of pooled read buffers under every interleaving. *)
From Coq Require Import NArith List Bool PeanoNat Lia.
From P9V Require Import Codec.Pool Codec.PoolProofs Codec.PoolConc.
Import ListNotations.
Open Scope N_scope.

(** ---- list helpers ---- *)
Lemma remove_nth_incl : forall k l x, In x (remove_nth k l) -> In x l.
Proof.
  induction k as [|k IH]; intros [|y l] x H; cbn in *; auto.
  destruct H as [H|H]; [now left|right; now apply IH].
Qed.

Lemma remove_nth_NoDup : forall k l, NoDup l -> NoDup (remove_nth k l).
Proof.
  induction k as [|k IH]; intros [|y l] H; cbn; auto; inversion H; subst; auto.
  constructor; [intros Hin; apply remove_nth_incl in Hin; contradiction|now apply IH].
Qed.

Lemma remove_nth_notin : forall k l b, NoDup l -> nth_error l k = Some b -> ~ In b (remove_nth k l).
Proof.
  induction k as [|k IH]; intros [|y l] b H E; cbn in *; try discriminate.
  - inversion E; subst. now inversion H.
  - inversion H; subst. intros [Hy|Hin].
    + subst. apply nth_error_In in E. contradiction.
    + now apply (IH l b).
Qed.

Lemma zero_after_read (hb w : buf) n : zero_buf hb -> (List.length w <= n)%nat ->
  zero_buf (skipn n (w ++ skipn (List.length w) hb)).
Proof.
  intros Hz Hw. rewrite skipn_app. apply Forall_app. split.
  - rewrite skipn_all2 by lia. constructor.
  - apply zero_skipn. now apply zero_skipn.
Qed.

Lemma zero_cleanup (hb : buf) n : zero_buf (skipn n hb) -> zero_buf (cleanup hb n).
Proof. intros H. unfold cleanup. apply Forall_app. split; [apply zero_repeat|exact H]. Qed.

Lemma upd_same {A} (f : nat -> A) i x : upd f i x i = x.
Proof. unfold upd. now rewrite Nat.eqb_refl. Qed.

Lemma upd_other {A} (f : nat -> A) i j x : j <> i -> upd f i x j = f j.
Proof. intros H. unfold upd. apply Nat.eqb_neq in H. now rewrite H. Qed.

Section Safe.
Variable msize : nat.
Variable calls : nat -> call.
Hypothesis calls_ok : forall i, call_ok msize (calls i).

Definition mid (hp : nat -> buf) (nx : nat) (pl : list nat) (t : thr) (P : nat -> Prop) : Prop :=
  exists b, tb t = Some b /\ (b < nx)%nat /\ ~ In b pl /\ P b.

(** where a request is, and what it may rely on *)
Definition tok (hp : nat -> buf) (nx : nat) (pl : list nat) (c : call) (t : thr) : Prop :=
  (pc t = spec_ops /\ tb t = None /\ reply t = None) \/
  (pc t = [ORead; OSend; OZero; OPut] /\ reply t = None /\ mid hp nx pl t (fun b => zero_buf (hp b))) \/
  (pc t = [OSend; OZero; OPut] /\ reply t = None /\ tn t = snd c /\
     mid hp nx pl t (fun b => firstn (snd c) (hp b) = intended c /\ zero_buf (skipn (snd c) (hp b)))) \/
  (pc t = [OZero; OPut] /\ reply t = Some (intended c) /\ tn t = snd c /\
     mid hp nx pl t (fun b => zero_buf (skipn (snd c) (hp b)))) \/
  (pc t = [OPut] /\ reply t = Some (intended c) /\ mid hp nx pl t (fun b => zero_buf (hp b))) \/
  (pc t = [] /\ reply t = Some (intended c)).

(** a request owns a buffer from its Get until it has run to completion *)
Definition owns (t : thr) (b : nat) : Prop := tb t = Some b /\ pc t <> [].

Record Inv (s : cst) : Prop := {
  i_len : forall b, (b < next s)%nat -> List.length (heap s b) = msize;
  i_nodup : NoDup (pool s);
  i_pool : forall b, In b (pool s) -> (b < next s)%nat /\ zero_buf (heap s b);
  i_thr : forall i, tok (heap s) (next s) (pool s) (calls i) (th s i);
  i_excl : forall i j b, i <> j -> owns (th s i) b -> owns (th s j) b -> False }.

Lemma tok_owned hp nx pl c t b : tok hp nx pl c t -> owns t b -> (b < nx)%nat /\ ~ In b pl.
Proof.
  intros H [Hb Hpc].
  destruct H as [H|[H|[H|[H|[H|H]]]]].
  - destruct H as (_ & H & _). congruence.
  - destruct H as (_ & _ & b' & Hb' & Hlt & Hni & _). assert (b' = b) by congruence. subst. auto.
  - destruct H as (_ & _ & _ & b' & Hb' & Hlt & Hni & _). assert (b' = b) by congruence. subst. auto.
  - destruct H as (_ & _ & _ & b' & Hb' & Hlt & Hni & _). assert (b' = b) by congruence. subst. auto.
  - destruct H as (_ & _ & b' & Hb' & Hlt & Hni & _). assert (b' = b) by congruence. subst. auto.
  - destruct H as (H & _). contradiction.
Qed.

(** what a request relies on survives any change that leaves its own buffer alone and out of the pool *)
Lemma tok_frame hp nx pl hp' nx' pl' c t :
  tok hp nx pl c t -> (nx <= nx')%nat ->
  (forall b, owns t b -> (b < nx)%nat -> ~ In b pl -> hp' b = hp b /\ ~ In b pl') ->
  tok hp' nx' pl' c t.
Proof.
  intros H Hle Hf.
  assert (Hm : forall P, pc t <> [] -> mid hp nx pl t (fun b => P (hp b)) -> mid hp' nx' pl' t (fun b => P (hp' b))).
  { intros P Hpc (b & Hb & Hlt & Hni & HP). destruct (Hf b) as [Heq Hni']; [now split|exact Hlt|exact Hni|].
    exists b. rewrite Heq. repeat split; auto. lia. }
  destruct H as [H|[H|[H|[H|[H|H]]]]].
  - left. exact H.
  - right; left. destruct H as (Hpc & Hr & M). repeat split; auto.
    apply (Hm (fun x => zero_buf x)); [rewrite Hpc; discriminate|exact M].
  - right; right; left. destruct H as (Hpc & Hr & Hn & M). repeat split; auto.
    apply (Hm (fun x => firstn (snd c) x = intended c /\ zero_buf (skipn (snd c) x))); [rewrite Hpc; discriminate|exact M].
  - right; right; right; left. destruct H as (Hpc & Hr & Hn & M). repeat split; auto.
    apply (Hm (fun x => zero_buf (skipn (snd c) x))); [rewrite Hpc; discriminate|exact M].
  - right; right; right; right; left. destruct H as (Hpc & Hr & M). repeat split; auto.
    apply (Hm (fun x => zero_buf x)); [rewrite Hpc; discriminate|exact M].
  - right; right; right; right; right. exact H.
Qed.

Lemma excl_upd (f : nat -> thr) i t' :
  (forall a b c, a <> b -> owns (f a) c -> owns (f b) c -> False) ->
  (forall c, owns t' c -> owns (f i) c) ->
  forall a b c, a <> b -> owns (upd f i t' a) c -> owns (upd f i t' b) c -> False.
Proof.
  intros Hex Hsub a b c Hab Ha Hb. unfold upd in *.
  destruct (Nat.eqb a i) eqn:Ea, (Nat.eqb b i) eqn:Eb.
  - apply Nat.eqb_eq in Ea, Eb. congruence.
  - apply Nat.eqb_eq in Ea. subst. apply (Hex i b c); auto.
  - apply Nat.eqb_eq in Eb. subst. apply (Hex a i c); auto.
  - apply (Hex a b c); auto.
Qed.

(** a request that takes a buffer nobody owns *)
Lemma excl_take (s : cst) i t' b0 :
  (forall a b c, a <> b -> owns (th s a) c -> owns (th s b) c -> False) ->
  (forall j, tok (heap s) (next s) (pool s) (calls j) (th s j)) ->
  (forall c, owns t' c -> c = b0) -> (In b0 (pool s) \/ (next s <= b0)%nat) ->
  forall a b c, a <> b -> owns (upd (th s) i t' a) c -> owns (upd (th s) i t' b) c -> False.
Proof.
  intros Hex Hthr Hown Hfree a b c Hab Ha Hb. unfold upd in *.
  assert (Hno : forall j, owns (th s j) b0 -> False).
  { intros j Hj. destruct (tok_owned _ _ _ _ _ _ (Hthr j) Hj) as [Hlt Hni]. destruct Hfree; [contradiction|lia]. }
  destruct (Nat.eqb a i) eqn:Ea, (Nat.eqb b i) eqn:Eb.
  - apply Nat.eqb_eq in Ea, Eb. congruence.
  - apply Hown in Ha. subst. eapply Hno; eauto.
  - apply Hown in Hb. subst. eapply Hno; eauto.
  - apply (Hex a b c); auto.
Qed.

Lemma cstep_inv s i c : Inv s -> Inv (cstep msize calls s i c).
Proof.
  intros [Hlen Hnd Hpool Hthr Hex]. pose proof (Hthr i) as Hi. pose proof (calls_ok i) as [Hw Hn].
  unfold cstep. destruct Hi as [H|[H|[H|[H|[H|H]]]]].
  - (* Get *)
    destruct H as (Hpc & Htb & Hr). rewrite Hpc. unfold spec_ops.
    assert (Hfresh : Inv {| heap := upd (heap s) (next s) (repeat 0 msize); next := S (next s); pool := pool s;
               th := upd (th s) i {| pc := [ORead; OSend; OZero; OPut]; tb := Some (next s); tn := tn (th s i); reply := reply (th s i) |} |}).
    { constructor; cbn [heap next pool th].
      - intros b Hb. destruct (Nat.eq_dec b (next s)) as [->|Hne]; [rewrite upd_same; apply repeat_length|].
        rewrite upd_other by exact Hne. apply Hlen. lia.
      - exact Hnd.
      - intros b Hb. destruct (Hpool b Hb) as [Hlt Hz]. rewrite upd_other by lia. split; [lia|exact Hz].
      - intros j. destruct (Nat.eq_dec j i) as [->|Hne].
        + rewrite upd_same. right; left. cbn. repeat split; auto. exists (next s). rewrite upd_same.
          repeat split; [lia| |apply zero_repeat]. intros Hin. apply Hpool in Hin. lia.
        + rewrite upd_other by exact Hne. apply (tok_frame _ _ _ _ _ _ _ _ (Hthr j)); [lia|].
          intros b _ Hlt Hni. rewrite upd_other by lia. auto.
      - apply (excl_take s i _ (next s)); auto.
        intros c0 [Hc0 _]. cbn in Hc0. congruence. }
    destruct c as [k|]; [|exact Hfresh].
    destruct (nth_error (pool s) k) as [b|] eqn:E; cbn [option_map]; [|exact Hfresh].
    assert (Hin : In b (pool s)) by (eapply nth_error_In; eauto).
    destruct (Hpool b Hin) as [Hlt Hz].
    constructor; cbn [heap next pool th].
    + exact Hlen.
    + now apply remove_nth_NoDup.
    + intros b' Hb'. apply Hpool. eapply remove_nth_incl; eauto.
    + intros j. destruct (Nat.eq_dec j i) as [->|Hne].
      * rewrite upd_same. right; left. cbn. repeat split; auto. exists b.
        repeat split; auto. now apply remove_nth_notin.
      * rewrite upd_other by exact Hne. apply (tok_frame _ _ _ _ _ _ _ _ (Hthr j)); [lia|].
        intros b' _ _ Hni. split; [reflexivity|]. intros Hx. apply Hni. eapply remove_nth_incl; eauto.
    + apply (excl_take s i _ b); auto.
      intros c0 [Hc0 _]. cbn in Hc0. congruence.
  - (* Read *)
    destruct H as (Hpc & Hr & b & Hb & Hlt & Hni & Hz). rewrite Hpc, Hb.
    destruct (calls i) as [w n] eqn:Ec. cbn [fst snd] in Hw, Hn.
    assert (Hl : List.length (heap s b) = msize) by now apply Hlen.
    constructor; cbn [heap next pool th].
    + intros b' Hb'. destruct (Nat.eq_dec b' b) as [->|Hne]; [|rewrite upd_other by exact Hne; now apply Hlen].
      rewrite upd_same, app_length, skipn_length. lia.
    + exact Hnd.
    + intros b' Hb'. destruct (Nat.eq_dec b' b) as [->|Hne]; [contradiction|].
      rewrite upd_other by exact Hne. now apply Hpool.
    + intros j. destruct (Nat.eq_dec j i) as [->|Hne].
      * rewrite upd_same, Ec. right; right; left. cbn [pc reply tn snd]. repeat split; auto.
        exists b. rewrite upd_same. repeat split; auto.
        -- pose proof (tread_reply (heap s b) w n Hz Hw ltac:(lia)) as T. unfold tread in T. cbn [fst] in T. exact T.
        -- now apply zero_after_read.
      * rewrite upd_other by exact Hne. apply (tok_frame _ _ _ _ _ _ _ _ (Hthr j)); [lia|].
        intros b' Hown _ Hni'. split; [|exact Hni'].
        destruct (Nat.eq_dec b' b) as [->|Hnb]; [|now rewrite upd_other].
        exfalso. apply (Hex j i b Hne Hown). split; [exact Hb|rewrite Hpc; discriminate].
    + apply excl_upd; [exact Hex|]. intros c0 [Hc0 _]. cbn in Hc0. split; [congruence|rewrite Hpc; discriminate].
  - (* Send *)
    destruct H as (Hpc & Hr & Htn & b & Hb & Hlt & Hni & Hf & Hz). rewrite Hpc.
    constructor; cbn [heap next pool th]; auto.
    + intros j. destruct (Nat.eq_dec j i) as [->|Hne].
      * rewrite upd_same. right; right; right; left. cbn [pc reply tn tb]. rewrite Hb, Htn, Hf.
        repeat split; auto. exists b. cbn [tb]. repeat split; auto.
      * rewrite upd_other by exact Hne. apply Hthr.
    + apply excl_upd; [exact Hex|]. intros c0 [Hc0 _]. cbn in Hc0. split; [congruence|rewrite Hpc; discriminate].
  - (* Zero *)
    destruct H as (Hpc & Hr & Htn & b & Hb & Hlt & Hni & Hz). rewrite Hpc, Hb.
    assert (Hl : List.length (heap s b) = msize) by now apply Hlen.
    constructor; cbn [heap next pool th].
    + intros b' Hb'. destruct (Nat.eq_dec b' b) as [->|Hne]; [|rewrite upd_other by exact Hne; now apply Hlen].
      rewrite upd_same. unfold cleanup. rewrite app_length, repeat_length, skipn_length, Htn. lia.
    + exact Hnd.
    + intros b' Hb'. destruct (Nat.eq_dec b' b) as [->|Hne]; [contradiction|].
      rewrite upd_other by exact Hne. now apply Hpool.
    + intros j. destruct (Nat.eq_dec j i) as [->|Hne].
      * rewrite upd_same. right; right; right; right; left. unfold set_pc. cbn [pc reply tb]. repeat split; auto.
        exists b. rewrite upd_same. repeat split; auto. rewrite Htn. now apply zero_cleanup.
      * rewrite upd_other by exact Hne. apply (tok_frame _ _ _ _ _ _ _ _ (Hthr j)); [lia|].
        intros b' Hown _ Hni'. split; [|exact Hni'].
        destruct (Nat.eq_dec b' b) as [->|Hnb]; [|now rewrite upd_other].
        exfalso. apply (Hex j i b Hne Hown). split; [exact Hb|rewrite Hpc; discriminate].
    + apply excl_upd; [exact Hex|]. intros c0 [Hc0 _]. unfold set_pc in Hc0. cbn in Hc0. split; [congruence|rewrite Hpc; discriminate].
  - (* Put *)
    destruct H as (Hpc & Hr & b & Hb & Hlt & Hni & Hz). rewrite Hpc, Hb.
    constructor; cbn [heap next pool th].
    + exact Hlen.
    + constructor; assumption.
    + intros b' [<-|Hb']; [split; assumption|now apply Hpool].
    + intros j. destruct (Nat.eq_dec j i) as [->|Hne].
      * rewrite upd_same. right; right; right; right; right. unfold set_pc. cbn. auto.
      * rewrite upd_other by exact Hne. apply (tok_frame _ _ _ _ _ _ _ _ (Hthr j)); [lia|].
        intros b' Hown _ Hni'. split; [reflexivity|]. intros [<-|Hx]; [|contradiction].
        apply (Hex j i b Hne Hown). split; [exact Hb|rewrite Hpc; discriminate].
    + apply excl_upd; [exact Hex|]. intros c0 [_ Hc0]. unfold set_pc in Hc0. cbn in Hc0. contradiction.
  - (* finished *)
    destruct H as (Hpc & Hr). rewrite Hpc. constructor; assumption.
Qed.

Lemma cinit_inv : Inv (cinit spec_ops).
Proof.
  constructor; cbn.
  - intros b Hb. lia.
  - constructor.
  - intros b [].
  - intros i. left. auto.
  - intros i j b _ [Hb _]. cbn in Hb. discriminate.
Qed.

Lemma crun_inv : forall sc s, Inv s -> Inv (crun msize calls s sc).
Proof. induction sc as [|[i c] sc IH]; intros s H; cbn; [exact H|]. apply IH. now apply cstep_inv. Qed.

(** C18_read_data_concurrent: any number of Treads in flight on one connection, every interleaving of their
    Get / ReadAt / send / zeroing / Put steps, every choice sync.Pool makes, honest and lazy backends: a
    reply that reaches the wire carries what the backend meant for THAT request. *)
Theorem pool_conc_safe : forall sc i r,
  reply_of msize calls spec_ops sc i = Some r -> r = intended (calls i).
Proof.
  intros sc i r H. unfold reply_of in H.
  pose proof (crun_inv sc _ cinit_inv) as [_ _ _ Hthr _]. specialize (Hthr i).
  destruct Hthr as [T|[T|[T|[T|[T|T]]]]].
  - destruct T as (_ & _ & T). congruence.
  - destruct T as (_ & T & _). congruence.
  - destruct T as (_ & T & _). congruence.
  - destruct T as (_ & T & _). congruence.
  - destruct T as (_ & T & _). congruence.
  - destruct T as (_ & T). congruence.
Qed.

(** ... and no two requests in flight ever hold the same buffer *)
Theorem pool_conc_exclusive : forall sc i j b, i <> j ->
  let s := crun msize calls (cinit spec_ops) sc in
  owns (th s i) b -> owns (th s j) b -> False.
Proof. intros sc i j b Hij s. pose proof (crun_inv sc _ cinit_inv) as [_ _ _ _ Hex]. now apply Hex. Qed.

End Safe.

(** The model can express the leak: with the buffer put back before the reply is sent (defer Put in
    tread.handle) a second request is handed the same memory and the first reply carries its bytes. *)
Theorem pool_conc_early_put_refuted :
  exists msize calls sc i r, (forall j, call_ok msize (calls j)) /\
    reply_of msize calls bad_ops sc i = Some r /\ r <> intended (calls i).
Proof.
  exists 4%nat, (fun j => if Nat.eqb j 0 then ([5; 6; 7], 3%nat) else ([9; 9; 9], 3%nat)).
  exists [(0%nat, None); (0%nat, None); (0%nat, None); (1%nat, Some 0%nat); (1%nat, None); (0%nat, None)].
  exists 0%nat, [9; 9; 9]. split; [|split].
  - intros j. destruct (Nat.eqb j 0); split; cbn; lia.
  - vm_compute. reflexivity.
  - vm_compute. discriminate.
Qed.

(** and without the zeroing a lazy backend's reply shows an earlier request's bytes even sequentially *)
Theorem pool_conc_no_zero_refuted :
  exists msize calls sc i r, (forall j, call_ok msize (calls j)) /\
    reply_of msize calls [OGet; ORead; OSend; OPut] sc i = Some r /\ r <> intended (calls i).
Proof.
  exists 4%nat, (fun j => if Nat.eqb j 0 then ([5; 6; 7], 3%nat) else ([1], 3%nat)).
  exists [(0%nat, None); (0%nat, None); (0%nat, None); (0%nat, None); (1%nat, Some 0%nat); (1%nat, None); (1%nat, None)].
  exists 1%nat, [1; 6; 7]. split; [|split].
  - intros j. destruct (Nat.eqb j 0); split; cbn; lia.
  - vm_compute. reflexivity.
  - vm_compute. discriminate.
Qed.
