(** Codec/GenCheckReuse.v — C18's obligations over the tables go2coq reads off the Go source
    (kept apart from GenCheck.v so that a layout-only change does not re-open C18). *)
From Coq Require Import NArith List String Bool Lia.
From P9V Require Import Codec.Layout Codec.Frame Codec.Reuse Codec.ReuseProofs Codec.Pool Codec.PoolProofs Codec.PoolConc Codec.PoolConcProofs gen.CodecGen.
Import ListNotations.
Open Scope N_scope.

(** ---- C18: every decode program defines every field of its struct ---- *)

Definition post_of (g : gen_msg) : list string :=
  match find (fun e => String.eqb (fst e) (gm_go g)) gen_receiver_resets with
  | Some e => snd e
  | None => []
  end.

Definition pre_of (g : gen_msg) : list string :=
  match gm_payload g with Some p => [p] | None => [] end.

Definition covers_gen (g : gen_msg) : bool :=
  covers2 (payload_name g) (pre_of g) (post_of g) (gm_dec g) (gm_fields g).

Lemma all_covered : forallb covers_gen gen_msgs = true.
Proof. vm_compute. reflexivity. Qed.

Theorem covers_registered g : In g gen_msgs -> covers_gen g = true.
Proof. intros H. pose proof all_covered as A. rewrite forallb_forall in A. now apply A. Qed.

(** every list decoder stops at the first element that does not fit (no append driven by an
    unchecked count once the body has run out) *)
Lemma all_loops_guarded : forallb (fun g => loops_guarded (gm_dec g)) gen_msgs = true.
Proof. vm_compute. reflexivity. Qed.

(** the three places of the Go source the pool model (Codec/Pool.v) stands for have the modelled shape *)
Lemma pool_facts :
  gen_recv_buffer_exact = true /\ gen_rread_data_is_n = true /\ gen_cleanup_zeroes_before_put = true.
Proof. repeat split; reflexivity. Qed.

(** ---- the pool operations a Tread goes through, as read off tread.handle / send / PayloadCleanup ---- *)
Definition gen_read_prog : list rop :=
  match rops_of_names gen_read_ops with Some p => p | None => [] end.

(** obligation: they are Get, ReadAt, send, zeroing, Put — in that order, each once *)
Lemma read_ops_spec : rops_of_names gen_read_ops = Some spec_ops.
Proof. reflexivity. Qed.

(** hence, for the program the source has: any number of Treads in flight, every interleaving, every choice
    of the pool, honest and lazy backends — a reply on the wire is what the backend meant for that request *)
Theorem read_prog_safe : forall msize calls, (forall i, call_ok msize (calls i)) ->
  forall sc i r, reply_of msize calls gen_read_prog sc i = Some r -> r = intended (calls i).
Proof.
  unfold gen_read_prog. rewrite read_ops_spec. exact pool_conc_safe.
Qed.

(** ---- recv's appendBuffer as read structurally ---- *)
Definition slice_of_name (s : string) : option slice :=
  if String.eqb s "first" then Some SFirst else if String.eqb s "len" then Some SLen
  else if String.eqb s "cap" then Some SCap else None.

Definition gen_recv_view : option (slice * slice * slice) :=
  match slice_of_name gen_recv_grow_cmp, slice_of_name gen_recv_decode_slice, slice_of_name gen_recv_read_slice with
  | Some a, Some b, Some c => Some (a, b, c)
  | _, _, _ => None
  end.

(** obligation: growth is decided by the pooled slice's length, decode and ReadFrom both get x[:size] *)
Lemma recv_slices_spec : gen_recv_view = Some (SLen, SFirst, SFirst).
Proof. reflexivity. Qed.

(** hence, for the views the source uses: what m.decode sees is independent of everything the pooled buffer
    held before, within its length and between its length and its capacity *)
Theorem recv_generated_independent : forall cmp dec rd, gen_recv_view = Some (cmp, dec, rd) ->
  forall prev hid prev' hid' size stream,
  recv_buffer_g cmp dec rd prev hid size stream = recv_buffer_g cmp dec rd prev' hid' size stream.
Proof.
  intros cmp dec rd H. rewrite recv_slices_spec in H. inversion H; subst. exact PoolProofs.recv_buffer_g_independent.
Qed.
