(** Codec/CodecCases.v — C01 differential: observations of the real send/recv
    against (a) the protocol table Spec9P (property predicate, evaluated on the
    observed bytes and values only) and (b) the tables read off the Go source
    (model agreement; Codec/GenTables.v supplies them). *)
From Coq Require Import NArith List String Bool.
Require Import Coq.Init.Byte.
From P9V Require Import Codec.Layout Codec.Frame Codec.Reuse Codec.Dump Codec.Spec9P.
Import ListNotations.
Open Scope N_scope.

(** tables as data: per type byte the layout written and the layout read, with the dump paths
    (Go field paths) as field names *)
Record tables := { tb_enc : registry; tb_dec : registry }.

Definition idn (s : string) : string := s.

Inductive c01case :=
| CSend (typ tag msize : N) (sent : dump) (wire : list N) (res : rawres)   (* real send, then real recv of those bytes *)
| CRaw (msize : N) (wire : list N) (res : rawres)                          (* harness-made bytes into the real recv *)
| CConn (msize : N) (wire : list N) (res : rawres)                         (* frame captured on a live connection *)
| CBad.                                                                    (* observation that does not fit the schema *)

Definition got_is (T : tables) (tag typ : N) (mv : mval) (res : rawres) : bool :=
  match res with
  | RROk tag' typ' gd =>
      (tag' =? tag) && (typ' =? typ) &&
      match lookup typ (tb_dec T) with
      | Some dl => match build idn dl gd with Some mv' => mval_eqb mv' mv | None => false end
      | None => false
      end
  | _ => false
  end.

(** the bytes are the table's encoding of what was sent, and what recv delivered is its norm *)
Definition check_send (T : tables) (c : c01case) : bool :=
  match c with
  | CSend typ tag msize sent wire res =>
      match lookup typ (tb_enc T) with
      | Some el =>
          match build idn el sent with
          | Some mv =>
              mwf el mv && bytes_eqb wire (send tag typ el mv) &&
              (if (frame_size el mv <=? msize) && (frame_size el mv <=? maximum_length)
               then got_is T tag typ (mnorm el mv) res
               else match res with RRConn => true | _ => false end)
          | None => false
          end
      | None => false
      end
  | _ => true
  end.

(** the model's recv on arbitrary bytes does what the real recv did *)
Definition check_raw_model (T : tables) (c : c01case) : bool :=
  match c with
  | CRaw msize wire res | CConn msize wire res =>
      match recv msize (tb_dec T) wire, res with
      | RConnErr, RRConn => true
      | RUnknown tag _, RRUnknown tag' => tag =? tag'
      | RInvalid _, RRInvalid => true
      | ROk tag typ mv _, RROk _ _ _ => got_is T tag typ mv res
      | _, _ => false
      end
  | _ => true
  end.

(** property on a frame a foreign peer could have written: if the bytes are exactly the
    table's encoding of some value v (permission fields taken as plain u32, so v may carry
    high bits), the real recv must deliver norm v *)
Definition check_raw_prop (T : tables) (reg_unperm : registry) (c : c01case) : bool :=
  match c with
  | CRaw msize wire res =>
      let bs := wire in
      match recv msize reg_unperm bs with
      | ROk tag typ mvraw _ =>
          match lookup typ (tb_enc T) with
          | Some el =>
              if bytes_eqb (send tag typ (unperm el) mvraw) bs
              then got_is T tag typ (mnorm el mvraw) res
              else true
          | None => true
          end
      | RConnErr | RInvalid _ | RUnknown _ _ =>
          (* no complete frame (cut short, size below the header or above the limit), a body too short for
             the fields of its type, a payload count that contradicts the frame, an unregistered type:
             nothing may be delivered *)
          match res with RROk _ _ _ => false | _ => true end
      end
  | _ => true
  end.

(** a frame written by a real peer must be exactly the table's encoding of some message of its
    type byte (nothing left over, no non-canonical field), and recv must deliver that message *)
Definition check_conn_prop (T : tables) (reg_unperm : registry) (c : c01case) : bool :=
  match c with
  | CConn msize wire res =>
      match recv msize reg_unperm wire with
      | ROk tag typ mvraw rest =>
          match lookup typ (tb_enc T), rest with
          | Some el, [] => bytes_eqb (send tag typ (unperm el) mvraw) wire && got_is T tag typ (mnorm el mvraw) res
          | _, _ => false
          end
      | _ => false
      end
  | _ => true
  end.

(** ---- the protocol tables, field names replaced by the Go paths of the binding ---- *)
Definition spec_go_registry : registry :=
  Eval vm_compute in
    flat_map (fun m => match bind_find (sm_typ m) binding with
                       | Some b => [(sm_typ m, rename_ml (to_go (b_map b)) (sm_layout m))]
                       | None => []
                       end) spec.

Definition spec_tables : tables := {| tb_enc := spec_go_registry; tb_dec := spec_go_registry |}.
Definition spec_reg_unperm : registry := Eval vm_compute in map (fun e => (fst e, unperm (snd e))) spec_go_registry.

Definition property_holds (c : c01case) : bool :=
  check_send spec_tables c && check_raw_prop spec_tables spec_reg_unperm c && check_conn_prop spec_tables spec_reg_unperm c.

Definition property_failures (l : list c01case) : list nat := failing property_holds 0 l.

(** ---- compact cases as written by props/C01.py ---- *)
Inductive ccase :=
| KSend (typ : byte) (tag msize : list byte) (sent : list cval) (wire : list cseg) (res : cres)
| KRaw (msize : list byte) (wire : list cseg) (res : cres)
| KConn (msize : list byte) (wire : list cseg) (res : cres).

Definition to_case (sc : schema) (c : ccase) : c01case :=
  match c with
  | KSend typ tag msize sent wire res =>
      match schema_find (bN typ) sc with
      | Some s =>
          match mk_dump s sent with
          | Some d =>
              match mk_res sc (Some (le_num tag, bN typ, d)) res with
              | Some r => CSend (bN typ) (le_num tag) (le_num msize) d (expand wire) r
              | None => CBad
              end
          | None => CBad
          end
      | None => CBad
      end
  | KRaw msize wire res =>
      match mk_res sc None res with
      | Some r => CRaw (le_num msize) (expand wire) r
      | None => CBad
      end
  | KConn msize wire res =>
      match mk_res sc None res with
      | Some r => CConn (le_num msize) (expand wire) r
      | None => CBad
      end
  end.

Definition is_bad (c : c01case) : bool := match c with CBad => true | _ => false end.
Definition bad_cases (l : list c01case) : list nat := failing (fun c => negb (is_bad c)) 0 l.
