(** Codec/GenTables.v — the tables of gen/CodecGen.v in the form the cases files use
    (model agreement: the translator's reading of the Go source reproduces what the
    real code did). *)
From Coq Require Import NArith List String Bool.
From P9V Require Import Codec.Layout Codec.Frame Codec.Reuse Codec.Dump Codec.CodecCases gen.CodecGen.
Import ListNotations.
Open Scope N_scope.

Definition gen_tables : tables :=
  Eval vm_compute in
    {| tb_enc := map (fun g => (gm_typ g, gm_enc g)) gen_msgs;
       tb_dec := flat_map (fun g => match layout_of (gm_dec g) with Some ml => [(gm_typ g, ml)] | None => [] end) gen_msgs |}.

Definition agrees (c : c01case) : bool := check_send gen_tables c && check_raw_model gen_tables c.
Definition mismatches (l : list c01case) : list nat := failing agrees 0 l.
