(** Codec/PoolProofs.v — the modelled pools never carry bytes from one message into another. *)
From Coq Require Import NArith List Bool Lia PeanoNat.
From P9V Require Import Codec.Pool.
Import ListNotations.
Open Scope N_scope.

Lemma pool_slice_length prev size : List.length (pool_slice prev size) = size.
Proof.
  unfold pool_slice. destruct (Nat.ltb (List.length prev) size) eqn:E.
  - apply repeat_length.
  - apply Nat.ltb_ge in E. now apply firstn_length_le.
Qed.

(** What decode sees does not depend on what the pooled buffer held: for every previous
    content, every size, every stream. *)
Theorem recv_buffer_independent prev prev' size stream :
  recv_buffer prev size stream = recv_buffer prev' size stream.
Proof.
  unfold recv_buffer, read_full.
  destruct (Nat.ltb (List.length stream) size); [reflexivity|].
  rewrite (skipn_all2 (pool_slice prev size)) by (rewrite pool_slice_length; lia).
  rewrite (skipn_all2 (pool_slice prev' size)) by (rewrite pool_slice_length; lia). reflexivity.
Qed.

Theorem recv_buffer_is_stream prev size stream b rest :
  recv_buffer prev size stream = Some (b, rest) -> stream = b ++ rest /\ List.length b = size.
Proof.
  unfold recv_buffer, read_full. destruct (Nat.ltb (List.length stream) size) eqn:E; [discriminate|].
  apply Nat.ltb_ge in E. rewrite skipn_all2 by (rewrite pool_slice_length; lia). rewrite app_nil_r.
  intros H; inversion H; subst. split; [symmetry; apply firstn_skipn|now apply firstn_length_le].
Qed.

(** ... whereas the variant that keeps the capacity is refuted: a stale tail reaches the decoder *)
Theorem recv_buffer_stale_refuted :
  exists prev prev' size stream, recv_buffer_stale prev size stream <> recv_buffer_stale prev' size stream.
Proof. exists [1; 2; 3; 4], [1; 2; 3; 9], 2%nat, [7; 7]. vm_compute. discriminate. Qed.

(** the structural reading of appendBuffer with the views the fixed tree uses is the model above ... *)
Theorem recv_buffer_g_exact prev hid size stream :
  recv_buffer_g SLen SFirst SFirst prev hid size stream = recv_buffer prev size stream.
Proof.
  unfold recv_buffer_g, recv_buffer, pool_slice, grows, view.
  destruct (Nat.ltb (List.length prev) size) eqn:E; [reflexivity|].
  apply Nat.ltb_ge in E. rewrite (firstn_length_le prev E). reflexivity.
Qed.

(** ... so what decode sees depends neither on the visible nor on the hidden previous content *)
Theorem recv_buffer_g_independent prev hid prev' hid' size stream :
  recv_buffer_g SLen SFirst SFirst prev hid size stream = recv_buffer_g SLen SFirst SFirst prev' hid' size stream.
Proof. rewrite !recv_buffer_g_exact. apply recv_buffer_independent. Qed.

(** ... whereas EVERY other view handed to decode (whole length, whole capacity), whatever decides growth,
    lets bytes of an earlier message reach the decoder *)
Theorem recv_buffer_g_stale_refuted : forall cmp dec, dec <> SFirst ->
  exists prev hid prev' hid' size stream,
    recv_buffer_g cmp dec SFirst prev hid size stream <> recv_buffer_g cmp dec SFirst prev' hid' size stream.
Proof.
  intros cmp dec H. exists [1; 2; 3; 4], [], [1; 2; 3; 9], [], 2%nat, [7; 7].
  destruct cmp, dec; try (exfalso; apply H; reflexivity); vm_compute; discriminate.
Qed.

(** ---- server read buffer ---- *)

Lemma zero_repeat n : zero_buf (repeat 0 n).
Proof. unfold zero_buf. induction n; cbn; constructor; auto. Qed.

Lemma zero_skipn n b : zero_buf b -> zero_buf (skipn n b).
Proof.
  unfold zero_buf. revert b; induction n as [|n IH]; intros b H; cbn; [exact H|].
  destruct b; [constructor|]. inversion H; subst. now apply IH.
Qed.

Lemma zero_firstn_is_repeat n : forall b, zero_buf b -> (n <= List.length b)%nat -> firstn n b = repeat 0 n.
Proof.
  unfold zero_buf. induction n as [|n IH]; intros b H Hl; cbn; [reflexivity|].
  destruct b as [|x b]; [cbn in Hl; lia|]. inversion H; subst. cbn in Hl. f_equal. apply IH; [assumption|lia].
Qed.

(** one read from a zeroed buffer: the reply is what the backend meant *)
Lemma tread_reply b w n : zero_buf b -> (List.length w <= n)%nat -> (n <= List.length b)%nat ->
  fst (tread b w n) = intended (w, n).
Proof.
  intros Hz Hw Hn. unfold tread, intended. cbn [fst snd].
  rewrite firstn_app. rewrite firstn_all2 by lia. f_equal.
  apply zero_firstn_is_repeat; [now apply zero_skipn|]. rewrite skipn_length. lia.
Qed.

(** and after PayloadCleanup the buffer is zero again and as long as before *)
Lemma cleanup_restores b w n : zero_buf b -> (List.length w <= n)%nat -> (n <= List.length b)%nat ->
  zero_buf (cleanup (snd (tread b w n)) n) /\ List.length (cleanup (snd (tread b w n)) n) = List.length b.
Proof.
  intros Hz Hw Hn. unfold tread, cleanup. cbn [snd]. split.
  - apply Forall_app. split; [apply zero_repeat|].
    rewrite skipn_app. apply Forall_app. split.
    + rewrite skipn_all2 by lia. constructor.
    + apply zero_skipn. now apply zero_skipn.
  - rewrite app_length, repeat_length, skipn_length, app_length, skipn_length. lia.
Qed.

(** C18_read_data: along any sequence of reads on a connection — honest backends and lazy ones that
    report more than they wrote — every reply carries exactly the bytes the backend produced for
    THAT request (then zeros up to the reported count), given that the pooled buffer starts zeroed
    (make) and PayloadCleanup runs before each Put. *)
Theorem treads_replies msize : forall cs b, zero_buf b -> List.length b = msize ->
  Forall (call_ok msize) cs -> treads true b cs = map intended cs.
Proof.
  induction cs as [|[w n] cs IH]; intros b Hz Hl Hok; [reflexivity|].
  inversion Hok as [|? ? [Hw Hn] Hrest]; subst. cbn [fst snd] in Hw, Hn.
  cbn [treads map]. destruct (tread b w n) as [reply b'] eqn:E.
  assert (Hr : reply = intended (w, n)) by (rewrite <- (tread_reply b w n Hz Hw) by lia; now rewrite E).
  assert (Hc := cleanup_restores b w n Hz Hw ltac:(lia)). rewrite E in Hc. cbn [snd] in Hc. destruct Hc as [Hz' Hl'].
  rewrite Hr. f_equal. apply IH; [exact Hz'|lia|exact Hrest].
Qed.

(** without the zeroing the clause fails: a lazy read after a longer one returns the earlier bytes *)
Theorem treads_without_cleanup_refuted :
  exists b cs, zero_buf b /\ Forall (call_ok (List.length b)) cs /\ treads false b cs <> map intended cs.
Proof.
  exists [0; 0; 0; 0], [([5; 6; 7], 3%nat); ([1], 3%nat)].
  split; [repeat constructor|]. split; [repeat constructor; cbn; lia|]. vm_compute. discriminate.
Qed.

(** honest backends need no zeroing for their own replies (the zeroing protects against lazy ones) *)
Theorem treads_honest : forall cs b clean, Forall (fun c => List.length (fst c) = snd c) cs ->
  treads clean b cs = map fst cs.
Proof.
  induction cs as [|[w n] cs IH]; intros b clean H; [reflexivity|].
  inversion H as [|? ? Hc Hr]; subst. cbn [fst snd] in Hc. cbn [treads map fst]. unfold tread.
  rewrite firstn_app. rewrite <- Hc, firstn_all, Nat.sub_diag. cbn [firstn]. rewrite app_nil_r.
  f_equal. apply IH. exact Hr.
Qed.
