(** Codec/Frame.v — message layouts (fixed fields + payload), [send] and [recv]
    faithful to /repo/p9/transport.go.  Definitions only.

    send:  m.encode(dataBuf); totalLength = headerLength + uint32(len(data)) [+ uint32(len(payload))]
           (uint32 arithmetic, wraps); header = Write32(total) WriteMsgType(typ) WriteTag(tag);
           the vectors header, data, payload are written in that order.
    recv:  reads 7 header bytes; size < 7, size > maximumLength or size > msize is a ConnError;
           remaining = size-7; unknown type: the body is discarded and the tag returned with the
           error; payloaders: FixedSize() bytes go to the decode buffer, the other
           remaining-FixedSize bytes become the payload (SetPayload) — FixedSize > remaining is
           ErrNoValidMessage; others: the whole body is the decode buffer; decode; overrun is
           ErrNoValidMessage.  Bytes of the body after the last field are ignored.
    Payload kinds:
      PData     count[4] data[count]    Rread / Twrite: encode writes uint32(len(Data)); decode reads
                                        count and marks overrun unless count == uint32(len(Data))
      PDirents  count[4] entries        Rreaddir: encode packs whole entries while their total size
                                        is <= Count, stores that size in Count; decode reads Count
                                        and then entries from the payload until one does not fit. *)
From Coq Require Import NArith List String Bool.
From P9V Require Import Codec.Layout.
Import ListNotations.
Open Scope N_scope.

Inductive pkind :=
| PNone
| PData (cname dname : string)
| PDirents (cname ename : string) (entry : slayout).

Record mlayout := { ml_fixed : layout; ml_pay : pkind }.

Inductive pval :=
| PVNone
| PVData (bs : list N)
| PVDirents (count : N) (rows : list (list sval)).

Record mval := { mv_fixed : list val; mv_pay : pval }.

Definition header_length : N := 7.            (* = headerLength   (GenCheck.v) *)
Definition maximum_length : N := 4194304.     (* = maximumLength  (GenCheck.v) *)

(** the entries that Rreaddir.encode packs: longest prefix whose total encoded size stays <= count *)
Fixpoint fit (entry : slayout) (count : N) (acc : N) (rows : list (list sval)) : N * list (list sval) :=
  match rows with
  | [] => (acc, [])
  | r :: rows' =>
      let acc' := acc + len (enc_row entry r) in
      if count <? acc' then (acc, [])
      else let '(sz, keep) := fit entry count acc' rows' in (sz, r :: keep)
  end.

(** Rreaddir.decode: entries until one does not decode completely; [fuel] bounds the loop
    (length of the payload + 1 always suffices because an entry occupies at least one byte,
    see FrameProofs.parse_all_enough) *)
Fixpoint parse_all (entry : slayout) (fuel : nat) (bs : list N) : list (list sval) :=
  match fuel with
  | O => []
  | S f =>
      match dec_row entry bs with
      | Some (row, r) => row :: parse_all entry f r
      | None => []
      end
  end.

Definition fixed_size (ml : mlayout) : option nat :=
  match ml_pay ml with
  | PNone => None
  | _ => match static_fields (ml_fixed ml) with Some n => Some (n + 4)%nat | None => None end
  end.

(** data vector and payload vector of a message *)
Definition send_body (ml : mlayout) (mv : mval) : list N * list N :=
  let fx := enc_fields (ml_fixed ml) (mv_fixed mv) in
  match ml_pay ml, mv_pay mv with
  | PNone, _ => (fx, [])
  | PData _ _, PVData bs => (fx ++ le_enc 4 (len bs), bs)
  | PDirents _ _ entry, PVDirents count rows =>
      let '(sz, keep) := fit entry count 0 rows in
      (fx ++ le_enc 4 sz, enc_rows entry keep)
  | _, _ => (fx, [])
  end.

Definition send (tag typ : N) (ml : mlayout) (mv : mval) : list N :=
  let '(d, p) := send_body ml mv in
  le_enc 4 ((header_length + len d mod 2 ^ 32 + len p mod 2 ^ 32) mod 2 ^ 32) ++ [typ] ++ le_enc 2 tag ++ d ++ p.

Definition frame_size (ml : mlayout) (mv : mval) : N :=
  let '(d, p) := send_body ml mv in header_length + len d + len p.

Inductive rres :=
| RConnErr                                     (* ConnError: short stream, size < 7, size too large *)
| RUnknown (tag : N) (rest : list N)           (* ErrInvalidMsgType, body discarded, tag returned *)
| RInvalid (rest : list N)                     (* ErrNoValidMessage, NoTag *)
| ROk (tag typ : N) (mv : mval) (rest : list N).

Definition registry := list (N * mlayout).

Fixpoint lookup (typ : N) (tbl : registry) : option mlayout :=
  match tbl with
  | [] => None
  | (t, ml) :: r => if t =? typ then Some ml else lookup typ r
  end.

Definition recv_body (ml : mlayout) (body : list N) : option mval :=
  match ml_pay ml with
  | PNone =>
      match dec_fields (ml_fixed ml) body with
      | Some (vs, _) => Some {| mv_fixed := vs; mv_pay := PVNone |}
      | None => None
      end
  | PData _ _ =>
      match fixed_size ml with
      | Some fs =>
          let fx := firstn fs body in
          let pay := skipn fs body in
          match dec_fields (ml_fixed ml) fx with
          | Some (vs, r) =>
              match le_dec 4 r with
              | Some (count, _) =>
                  if count =? (len pay) mod 2 ^ 32 then Some {| mv_fixed := vs; mv_pay := PVData pay |} else None
              | None => None
              end
          | None => None
          end
      | None => None
      end
  | PDirents _ _ entry =>
      match fixed_size ml with
      | Some fs =>
          let fx := firstn fs body in
          let pay := skipn fs body in
          match dec_fields (ml_fixed ml) fx with
          | Some (vs, r) =>
              match le_dec 4 r with
              | Some (count, _) =>
                  Some {| mv_fixed := vs; mv_pay := PVDirents count (parse_all entry (S (List.length pay)) pay) |}
              | None => None
              end
          | None => None
          end
      | None => None
      end
  end.

Definition recv (msize : N) (tbl : registry) (stream : list N) : rres :=
  match le_dec 4 stream with
  | None => RConnErr
  | Some (size, r1) =>
      match r1 with
      | [] => RConnErr
      | typ :: r2 =>
          match le_dec 2 r2 with
          | None => RConnErr
          | Some (tag, r3) =>
              if size <? header_length then RConnErr
              else if (maximum_length <? size) || (msize <? size) then RConnErr
              else
                let remaining := N.to_nat (size - header_length) in
                match lookup typ tbl with
                | None => RUnknown tag (skipn remaining r3)
                | Some ml =>
                    let too_short :=
                      match fixed_size ml with Some fs => Nat.ltb remaining fs | None => false end in
                    if too_short then RInvalid (skipn remaining r3)
                    else if Nat.ltb (List.length r3) remaining then RConnErr
                    else
                      match recv_body ml (firstn remaining r3) with
                      | Some mv => ROk tag typ mv (skipn remaining r3)
                      | None => RInvalid (skipn remaining r3)
                      end
                end
          end
      end
  end.

(** well-formed message values and the documented normalisation *)
Definition mwf (ml : mlayout) (mv : mval) : bool :=
  wf_fields (ml_fixed ml) (mv_fixed mv) &&
  match ml_pay ml, mv_pay mv with
  | PNone, PVNone => true
  | PData _ _, PVData bs => all_bytes bs
  | PDirents _ _ entry, PVDirents count rows => (count <? 2 ^ 32) && forallb (wf_row entry) rows
  | _, _ => false
  end.

Definition mnorm (ml : mlayout) (mv : mval) : mval :=
  {| mv_fixed := norm_fields (ml_fixed ml) (mv_fixed mv);
     mv_pay :=
       match ml_pay ml, mv_pay mv with
       | PDirents _ _ entry, PVDirents count rows =>
           let '(sz, keep) := fit entry count 0 rows in PVDirents sz (map (norm_row entry) keep)
       | _, p => p
       end |}.

(** static conditions on a message layout *)
Definition ml_ok (ml : mlayout) : bool :=
  ok_fields (ml_fixed ml) &&
  match ml_pay ml with
  | PNone => true
  | PData _ _ => match static_fields (ml_fixed ml) with Some _ => true | None => false end
  | PDirents _ _ entry =>
      match static_fields (ml_fixed ml) with Some _ => true | None => false end
      && ok_row entry && Nat.ltb 0 (min_row entry)
  end.

Definition rename_ml (f : string -> string) (ml : mlayout) : mlayout :=
  {| ml_fixed := rename_fields f (ml_fixed ml);
     ml_pay := match ml_pay ml with
               | PNone => PNone
               | PData c d => PData (f c) (f d)
               | PDirents c e entry => PDirents (f c) (f e) (rename_row f entry)
               end |}.

Definition pkind_eqb (a b : pkind) : bool :=
  match a, b with
  | PNone, PNone => true
  | PData c d, PData c' d' => String.eqb c c' && String.eqb d d'
  | PDirents c e entry, PDirents c' e' entry' => String.eqb c c' && String.eqb e e' && slayout_eqb entry entry'
  | _, _ => false
  end.

Definition mlayout_eqb (a b : mlayout) : bool :=
  layout_eqb (ml_fixed a) (ml_fixed b) && pkind_eqb (ml_pay a) (ml_pay b).
