(** Codec/Reuse.v — decoding INTO an existing (recycled) message object, as the
    Go decode methods do, driven by the decode programs that go2coq CodecGen reads
    off the method bodies; the registry's cache; pooled buffers.  Definitions only
    (proofs: ReuseProofs.v).

    A decode method is a sequence of statements over the receiver's fields:
      DAssign p k        RECV.p = b.ReadK()                       (also T(b.ReadK()))
      DMask p w bits     mask := b.ReadN(); RECV.<bit path> = mask&C != 0   for every bit
      DLen16             n := b.Read16()
      DReset p           RECV.p = RECV.p[:0]
      DLoop p elem g     for i := 0; i < int(n) [&& !b.isOverrun() if g]; i++ { RECV.p = append(RECV.p, <elem decoded into a fresh variable>) }
                         When the body runs out before n elements, the frame is rejected either way (overrun);
                         what has been appended to the (discarded) object by then is [appended_on_overrun]:
                         guarded: the complete elements plus the one that failed; unguarded: n elements (zero values
                         for the rest) — an allocation driven by an unchecked count.
      DCountCheck c p    count := b.Read32(); if count != uint32(len(RECV.p)) { b.markOverrun() }
      DDirents c e entry reset
                         RECV.c = b.Read32(); entriesBuf := buffer{data: RECV.payload};
                         [RECV.e = RECV.e[:0] if reset]; for { var d Dirent; d.decode(&entriesBuf);
                         if overrun {break}; RECV.e = append(RECV.e, d) }
    A field that no statement assigns keeps the value the object had before. *)
From Coq Require Import NArith List String Bool.
From P9V Require Import Codec.Layout Codec.Frame.
Import ListNotations.
Open Scope N_scope.

Inductive dstmt :=
| DAssign (p : string) (k : skind)
| DMask (p : string) (w : nat) (bits : list (N * string))
| DLen16
| DReset (p : string)
| DLoop (p : string) (elem : slayout) (guarded : bool)
| DCountCheck (c p : string)
| DDirents (c e : string) (entry : slayout) (reset : bool).

(** what a field of a message object holds *)
Inductive oval :=
| OScalar (v : sval)
| OBool (b : bool)
| ORows (rows : list (list sval))
| OBytes (bs : list N).

Definition store := list (string * oval).

Fixpoint get (p : string) (s : store) : option oval :=
  match s with
  | [] => None
  | (q, v) :: r => if String.eqb q p then Some v else get p r
  end.

Definition set (p : string) (v : oval) (s : store) : store := (p, v) :: s.

Fixpoint set_bits (bits : list (N * string)) (m : N) (s : store) : store :=
  match bits with
  | [] => s
  | (pos, name) :: r => set name (OBool (N.testbit m pos)) (set_bits r m s)
  end.

Definition rows_of (o : option oval) : list (list sval) :=
  match o with Some (ORows r) => r | _ => [] end.

Definition bytes_of (o : option oval) : list N :=
  match o with Some (OBytes b) => b | _ => [] end.

(** state of a running decode: the object, the local n, the unread bytes *)
Definition dstate := (store * N * list N)%type.

Definition step (payload : string) (st : dstmt) (d : dstate) : option dstate :=
  let '(s, n, bs) := d in
  match st with
  | DAssign p k =>
      match dec_s k bs with Some (v, r) => Some (set p (OScalar v) s, n, r) | None => None end
  | DMask p w bits =>
      match le_dec w bs with Some (m, r) => Some (set_bits bits m s, n, r) | None => None end
  | DLen16 =>
      match le_dec 2 bs with Some (m, r) => Some (s, m, r) | None => None end
  | DReset p => Some (set p (ORows []) s, n, bs)
  | DLoop p elem _ =>
      match dec_rows elem (N.to_nat n) bs with
      | Some (rows, r) => Some (set p (ORows (rows_of (get p s) ++ rows)) s, n, r)
      | None => None
      end
  | DCountCheck c p =>
      match le_dec 4 bs with
      | Some (count, r) => if count =? len (bytes_of (get p s)) mod 2 ^ 32 then Some (s, n, r) else None
      | None => None
      end
  | DDirents c e entry reset =>
      match le_dec 4 bs with
      | Some (count, r) =>
          let pay := bytes_of (get payload s) in
          let before := if reset then [] else rows_of (get e s) in
          Some (set e (ORows (before ++ parse_all entry (S (List.length pay)) pay)) (set c (OScalar (VInt count)) s), n, r)
      | None => None
      end
  end.

Fixpoint run (payload : string) (prog : list dstmt) (d : dstate) : option dstate :=
  match prog with
  | [] => Some d
  | st :: r => match step payload st d with Some d' => run payload r d' | None => None end
  end.

(** m.decode(&buffer{data: bytes}) on an object in state [old]; None = buffer overrun *)
Definition decode_into (payload : string) (prog : list dstmt) (old : store) (bytes : list N) : option store :=
  match run payload prog (old, 0, bytes) with
  | Some (s, _, _) => Some s
  | None => None
  end.

(** number of complete rows at the head of [bs], at most c *)
Fixpoint complete_rows (elem : slayout) (c : nat) (bs : list N) : nat :=
  match c with
  | O => O
  | S c' => match dec_row elem bs with Some (_, r) => S (complete_rows elem c' r) | None => O end
  end.

(** elements appended by a DLoop asked for n elements (what len(RECV.p) grows by), also when the frame is rejected *)
Definition appended_by_loop (elem : slayout) (guarded : bool) (n : nat) (bs : list N) : nat :=
  let k := complete_rows elem n bs in
  if Nat.eqb k n then n else if guarded then S k else n.

Definition loops_guarded (prog : list dstmt) : bool :=
  forallb (fun st => match st with DLoop _ _ g => g | _ => true end) prog.

(** ---- which fields a program (re)defines ---- *)

Definition mem (p : string) (l : list string) : bool := existsb (String.eqb p) l.

(** [covers_from A prog] = Some A' : every read of an old field value by [prog] is of a field
    in the set defined so far, and A' are the fields defined at the end.  None: some statement
    reads a field that may still hold the previous message's value. *)
Fixpoint covers_from (payload : string) (A : list string) (prog : list dstmt) : option (list string) :=
  match prog with
  | [] => Some A
  | DAssign p _ :: r => covers_from payload (p :: A) r
  | DMask _ _ bits :: r => covers_from payload (map snd bits ++ A) r
  | DLen16 :: r => covers_from payload A r
  | DReset p :: r => covers_from payload (p :: A) r
  | DLoop p _ _ :: r => if mem p A then covers_from payload A r else None
  | DCountCheck _ p :: r => if mem p A then covers_from payload A r else None
  | DDirents c e _ reset :: r =>
      if mem payload A && (reset || mem e A) then covers_from payload (e :: c :: A) r else None
  end.

(** [init]: fields the receiver sets before decode runs (the payload, via SetPayload in recv)
    or right after it (tflush.wait, in handleRequest) *)
Definition covers (payload : string) (init : list string) (prog : list dstmt) (fields : list string) : bool :=
  match covers_from payload init prog with
  | Some A => forallb (fun f => mem f A) fields
  | None => false
  end.

Definition agree_on (A : list string) (s s' : store) : Prop :=
  forall p, mem p A = true -> get p s = get p s'.

(** ---- the layout a decode program reads ---- *)
Fixpoint layout_of (prog : list dstmt) : option mlayout :=
  match prog with
  | [] => Some {| ml_fixed := []; ml_pay := PNone |}
  | DAssign p k :: r =>
      match layout_of r with Some ml => Some {| ml_fixed := (p, KS k) :: ml_fixed ml; ml_pay := ml_pay ml |} | None => None end
  | DMask p w bits :: r =>
      match layout_of r with Some ml => Some {| ml_fixed := (p, KS (KMask w bits)) :: ml_fixed ml; ml_pay := ml_pay ml |} | None => None end
  | DLen16 :: DReset p :: DLoop q elem _ :: r =>
      if String.eqb p q then
        match layout_of r with Some ml => Some {| ml_fixed := (p, KList16 elem) :: ml_fixed ml; ml_pay := ml_pay ml |} | None => None end
      else None
  | DLen16 :: DLoop p elem _ :: r =>
      match layout_of r with Some ml => Some {| ml_fixed := (p, KList16 elem) :: ml_fixed ml; ml_pay := ml_pay ml |} | None => None end
  | [DCountCheck c p] => Some {| ml_fixed := []; ml_pay := PData c p |}
  | [DDirents c e entry _] => Some {| ml_fixed := []; ml_pay := PDirents c e entry |}
  | _ => None
  end.

(** ---- the tables CodecGen emits, one record per registered message type ---- *)
Record gen_msg := {
  gm_typ : N;                        (* registry key: value of the msgT.../msgR... constant *)
  gm_const : string;                 (* that constant's name *)
  gm_go : string;                    (* Go struct the registered constructor returns *)
  gm_enc : mlayout;                  (* what encode (+ Payload) writes *)
  gm_dec : list dstmt;               (* what decode does *)
  gm_fields : list string;           (* every leaf field of the struct, wire or not *)
  gm_fixed_size : option N;          (* FixedSize() of payloaders *)
  gm_payload : option string         (* field behind Payload()/SetPayload() *)
}.

Definition payload_name (g : gen_msg) : string :=
  match gm_payload g with Some p => p | None => EmptyString end.

(** ---- registry cache and pooled buffers ---- *)

(** registry.put: payloaders get SetPayload(nil) before the object is cached *)
Definition put (g : gen_msg) (s : store) : store :=
  match gm_payload g with Some p => set p (OBytes []) s | None => s end.

(** a pooled byte slice of prior content [buf] sliced to the needed size and filled by ReadFrom *)
Definition fill (buf data : list N) : list N := data ++ skipn (List.length data) buf.

(** recv on a payloader: the object's payload slice is kept if it has exactly the needed
    length, otherwise a new one is made; then ReadFrom fills it *)
Definition recv_payload (old_payload data : list N) : list N :=
  if Nat.eqb (List.length old_payload) (List.length data) then fill old_payload data
  else fill (repeat 0 (List.length data)) data.

(** recv of one body into the object [old] taken from the cache (or new): pooled decode buffer
    with prior content [dirty] *)
Definition recv_into (g : gen_msg) (old : store) (dirty : list N) (body : list N) : option store :=
  match gm_payload g with
  | Some p =>
      let fsn := N.to_nat (match gm_fixed_size g with Some fs => fs | None => 0 end) in
      if Nat.ltb (List.length body) fsn then None
      else
        let fx := fill (firstn fsn dirty) (firstn fsn body) in
        let pay := recv_payload (bytes_of (get p old)) (skipn fsn body) in
        decode_into p (gm_dec g) (set p (OBytes pay) old) (firstn fsn fx)
  | None =>
      let buf := fill (firstn (List.length body) dirty) body in
      decode_into EmptyString (gm_dec g) old (firstn (List.length body) buf)
  end.
