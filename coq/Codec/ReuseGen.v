(** Codec/ReuseGen.v — C18 model agreement: [recv_into], driven by the decode program go2coq
    read off the Go source, run on the state the recycled object really had, reproduces what
    the real recv left in that object; and the plain recv model reproduces the fresh decode. *)
From Coq Require Import NArith List String Bool.
From P9V Require Import Codec.Layout Codec.Frame Codec.Reuse Codec.Dump Codec.CodecCases Codec.GenTables
  Codec.ReuseCases gen.CodecGen.
Import ListNotations.
Open Scope N_scope.

Fixpoint gfind (t : N) (l : list gen_msg) : option gen_msg :=
  match l with
  | [] => None
  | g :: r => if gm_typ g =? t then Some g else gfind t r
  end.

Definition sval_of (d : dval) : sval :=
  match d with
  | DInt n => VInt n
  | DStr s => VStr s
  | DBytes s => VStr s
  | DBool b => VMask [b]
  | DList _ => VInt 0
  end.

(** the object as the harness dumped it (rows in the struct's field order) *)
Fixpoint store_of_dump (d : dump) : store :=
  match d with
  | [] => []
  | (p, DInt n) :: r => (p, OScalar (VInt n)) :: store_of_dump r
  | (p, DStr s) :: r => (p, OScalar (VStr s)) :: store_of_dump r
  | (p, DBytes s) :: r => (p, OBytes s) :: store_of_dump r
  | (p, DBool b) :: r => (p, OBool b) :: store_of_dump r
  | (p, DList rows) :: r => (p, ORows (map (fun row => map (fun pv => sval_of (snd pv)) row) rows)) :: store_of_dump r
  end.

Definition post_fields (g : gen_msg) : list string :=
  match find (fun e => String.eqb (fst e) (gm_go g)) gen_receiver_resets with
  | Some e => snd e
  | None => []
  end.

(** a nil slice and an empty slice dump alike *)
Definition oval_norm (o : option oval) : option oval :=
  match o with
  | None => None
  | Some (ORows []) => None
  | Some (OBytes []) => None
  | _ => o
  end.

Definition dirty : list N := repeat 170 200.

Definition agrees18 (c : c18case) : bool :=
  match c with
  | CReuse typ msize wire old reused rec fresh =>
      check_raw_model gen_tables (CRaw msize wire fresh) &&
      match gfind typ gen_msgs with
      | Some g =>
          match recv_into g (store_of_dump old) dirty (skipn 7 wire), rec with
          | Some s, RROk _ ty gd =>
              (ty =? typ) &&
              forallb (fun f => mem f (post_fields g) || oval_eqb (oval_norm (get f s)) (oval_norm (get f (store_of_dump gd))))
                      (gm_fields g)
          | None, RRInvalid => true
          | _, _ => false
          end
      | None => false
      end
  | COver typ n present appended rejected =>
      match gfind typ gen_msgs with
      | Some g =>
          let guarded := loops_guarded (gm_dec g) in
          if present <? n then rejected && (appended =? (if guarded then present + 1 else n)) else true
      | None => false
      end
  | CCut msize wire a b => check_raw_model gen_tables (CRaw msize wire a) && check_raw_model gen_tables (CRaw msize wire b)
  | _ => true
  end.

Definition mismatches18 (l : list c18case) : list nat := failing agrees18 0 l.
