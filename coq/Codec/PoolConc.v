(** Codec/PoolConc.v — the server's read-buffer pool (connState.readBufPool) under CONCURRENT Treads
    on one connection.  Definitions only (proofs: PoolConcProofs.v).

    A Tread is served by a program of pool operations; go2coq reads it off the source
    (gen_read_ops: tread.handle, then send's WriteTo and the deferred PayloadCleanup):

      OGet    data := cs.readBufPool.Get()       any buffer currently in the pool, or a new zeroed one
      ORead   n, err = file.ReadAt(buf[:count])  the backend writes a prefix of what it reports
      OSend   vecs.WriteTo(w)                    the reply carries buf[:n] AS IT IS AT THAT MOMENT
      OZero   copy(r.Data, pristineZeros)
      OPut    cs.readBufPool.Put(&fullBuffer)    the request KEEPS its reference (a Put does not end its use)

    Buffers live in a heap addressed by identity; the pool is a list of identities (a double Put makes
    a duplicate, and then two requests in flight are handed the same memory).  Any number of requests
    run interleaved: a schedule is a list of (request, choice) steps, the choice selecting what Get
    returns.  Stale content CAN leak in this model: see [bad_ops] / pool_conc_early_put_refuted. *)
From Coq Require Import NArith List Bool PeanoNat String.
From P9V Require Import Codec.Pool.
Import ListNotations.
Open Scope N_scope.

Inductive rop := OGet | ORead | OSend | OZero | OPut.

Definition rop_eqb (a b : rop) : bool :=
  match a, b with
  | OGet, OGet | ORead, ORead | OSend, OSend | OZero, OZero | OPut, OPut => true
  | _, _ => false
  end.

(** the program of the fixed tree *)
Definition spec_ops : list rop := [OGet; ORead; OSend; OZero; OPut].
(** "return the buffer on every path" (defer Put in tread.handle): one Put too early, one too many *)
Definition bad_ops : list rop := [OGet; ORead; OPut; OSend; OZero; OPut].

Record thr := { pc : list rop; tb : option nat; tn : nat; reply : option (list N) }.

Record cst := { heap : nat -> buf; next : nat; pool : list nat; th : nat -> thr }.

Definition upd {A} (f : nat -> A) (i : nat) (x : A) : nat -> A := fun j => if Nat.eqb j i then x else f j.

Fixpoint remove_nth (k : nat) (l : list nat) : list nat :=
  match l, k with
  | [], _ => []
  | _ :: r, O => r
  | x :: r, S k' => x :: remove_nth k' r
  end.

Definition set_pc (t : thr) (p : list rop) : thr := {| pc := p; tb := tb t; tn := tn t; reply := reply t |}.

(** one step of request [i]; [c] is what the pool's Get picks (an index into the pool; anything else: New) *)
Definition cstep (msize : nat) (calls : nat -> call) (s : cst) (i : nat) (c : option nat) : cst :=
  let t := th s i in
  match pc t with
  | [] => s
  | OGet :: rest =>
      match (match c with Some k => option_map (fun b => (k, b)) (nth_error (pool s) k) | None => None end) with
      | Some (k, b) =>
          {| heap := heap s; next := next s; pool := remove_nth k (pool s);
             th := upd (th s) i {| pc := rest; tb := Some b; tn := tn t; reply := reply t |} |}
      | None =>
          {| heap := upd (heap s) (next s) (repeat 0 msize); next := S (next s); pool := pool s;
             th := upd (th s) i {| pc := rest; tb := Some (next s); tn := tn t; reply := reply t |} |}
      end
  | ORead :: rest =>
      match tb t with
      | Some b =>
          let '(w, n) := calls i in
          {| heap := upd (heap s) b (w ++ skipn (List.length w) (heap s b)); next := next s; pool := pool s;
             th := upd (th s) i {| pc := rest; tb := Some b; tn := n; reply := reply t |} |}
      | None => {| heap := heap s; next := next s; pool := pool s; th := upd (th s) i (set_pc t rest) |}
      end
  | OSend :: rest =>
      {| heap := heap s; next := next s; pool := pool s;
         th := upd (th s) i {| pc := rest; tb := tb t; tn := tn t;
                               reply := Some (match tb t with Some b => firstn (tn t) (heap s b) | None => [] end) |} |}
  | OZero :: rest =>
      match tb t with
      | Some b => {| heap := upd (heap s) b (cleanup (heap s b) (tn t)); next := next s; pool := pool s;
                     th := upd (th s) i (set_pc t rest) |}
      | None => {| heap := heap s; next := next s; pool := pool s; th := upd (th s) i (set_pc t rest) |}
      end
  | OPut :: rest =>
      match tb t with
      | Some b => {| heap := heap s; next := next s; pool := b :: pool s; th := upd (th s) i (set_pc t rest) |}
      | None => {| heap := heap s; next := next s; pool := pool s; th := upd (th s) i (set_pc t rest) |}
      end
  end.

Definition sched := list (nat * option nat).

Fixpoint crun (msize : nat) (calls : nat -> call) (s : cst) (sc : sched) : cst :=
  match sc with
  | [] => s
  | (i, c) :: r => crun msize calls (cstep msize calls s i c) r
  end.

(** a fresh connection: empty pool (tversion.handle installs a new sync.Pool), every request still
    to be served by [prog] *)
Definition cinit (prog : list rop) : cst :=
  {| heap := fun _ => []; next := 0; pool := [];
     th := fun _ => {| pc := prog; tb := None; tn := 0; reply := None |} |}.

(** the reply request [i] put on the wire, if it got that far *)
Definition reply_of (msize : nat) (calls : nat -> call) (prog : list rop) (sc : sched) (i : nat) : option (list N) :=
  reply (th (crun msize calls (cinit prog) sc) i).

(** go2coq emits the program as names *)
Definition rop_of_name (s : String.string) : option rop :=
  if String.eqb s "get"%string then Some OGet else if String.eqb s "read"%string then Some ORead
  else if String.eqb s "send"%string then Some OSend else if String.eqb s "zero"%string then Some OZero
  else if String.eqb s "put"%string then Some OPut else None.

Fixpoint rops_of_names (l : list String.string) : option (list rop) :=
  match l with
  | [] => Some []
  | x :: r => match rop_of_name x, rops_of_names r with Some o, Some os => Some (o :: os) | _, _ => None end
  end.
