(** Codec/Spec9P.v — the 9P2000.L wire layouts, HAND-WRITTEN from the protocol
    definitions, not from this repository's encode/decode bodies:

      - classic messages (Tversion .. Tremove): 9P2000 intro(5) and the per-message manual
        pages; with the 9P2000.u/.L extension n_uname[4] on Tauth/Tattach;
      - 9P2000.L messages (Rlerror, Tstatfs .. Tunlinkat): the 9P2000.L protocol description
        (diod protocol.md) and Linux include/net/9p/9p.h, net/9p/client.c format strings
        ("dsddd" style); the P9_GETATTR_* / P9_SETATTR_* bit values are those of 9p.h;
      - 9P2000.L.Google.N extensions (Twalkgetattr 126/127, Tucreate 128/129, Tumkdir
        130/131, Tumknod 132/133, Tusymlink 134/135): the only definition is gVisor's
        (pkg/p9/messages.go doc comments): Twalkgetattr = Twalk's layout; Rwalkgetattr =
        valid[8] attr nwqid[2] nwqid*(qid[13]); TuX = TX followed by uid[4]; RuX = RX.

    Notation of the documents:  name[n] = n-byte little-endian unsigned;  name[s] = len[2]
    followed by len bytes;  qid[13] = type[1] version[4] path[8];  n*(x) = n repetitions.
    Every message is  size[4] type[1] tag[2]  followed by the fields listed here.
    Receivers ignore bytes after the last field of a message without payload (the Linux
    client's Tfsync carries datasync[4] after fid[4]; it lands there).

    "Permission" fields (mode of Tlcreate, Tmkdir, Tsetattr and their .Google variants) carry
    permission bits only: both peers keep the low 12 bits (0o7777).  Tmknod's mode and the
    mode of Rgetattr carry the file type bits as well and are plain 32-bit fields. *)
From Coq Require Import NArith List String Bool.
From P9V Require Import Codec.Layout Codec.Frame.
Import ListNotations.
Open Scope string_scope.
Open Scope N_scope.
Open Scope list_scope.
Infix "^^" := String.append (at level 35, right associativity).

Definition u8 := KInt 1.
Definition u16 := KInt 2.
Definition u32 := KInt 4.
Definition u64 := KInt 8.

Definition lift (l : slayout) : layout := map (fun nk => (fst nk, KS (snd nk))) l.

(** qid[13] *)
Definition qid (p : string) : slayout :=
  [(p ^^ ".type", u8); (p ^^ ".version", u32); (p ^^ ".path", u64)].

(** a mask bit given by its value in the header file; [N.log2] turns it into a position
    (spec_bits_are_powers_of_two in GenCheck.v checks that nothing is lost) *)
Definition mbit (value : N) (name : string) : N * string := (N.log2 value, name).

(** include/net/9p/9p.h: P9_GETATTR_* (request_mask of Tgetattr, valid of Rgetattr) *)
Definition getattr_values : list (N * string) :=
  [ (0x00000001, "P9_GETATTR_MODE");
    (0x00000002, "P9_GETATTR_NLINK");
    (0x00000004, "P9_GETATTR_UID");
    (0x00000008, "P9_GETATTR_GID");
    (0x00000010, "P9_GETATTR_RDEV");
    (0x00000020, "P9_GETATTR_ATIME");
    (0x00000040, "P9_GETATTR_MTIME");
    (0x00000080, "P9_GETATTR_CTIME");
    (0x00000100, "P9_GETATTR_INO");
    (0x00000200, "P9_GETATTR_SIZE");
    (0x00000400, "P9_GETATTR_BLOCKS");
    (0x00000800, "P9_GETATTR_BTIME");
    (0x00001000, "P9_GETATTR_GEN");
    (0x00002000, "P9_GETATTR_DATA_VERSION") ].

(** include/net/9p/9p.h: P9_SETATTR_* (valid of Tsetattr) *)
Definition setattr_values : list (N * string) :=
  [ (0x00000001, "P9_SETATTR_MODE");
    (0x00000002, "P9_SETATTR_UID");
    (0x00000004, "P9_SETATTR_GID");
    (0x00000008, "P9_SETATTR_SIZE");
    (0x00000010, "P9_SETATTR_ATIME");
    (0x00000020, "P9_SETATTR_MTIME");
    (0x00000040, "P9_SETATTR_CTIME");
    (0x00000080, "P9_SETATTR_ATIME_SET");
    (0x00000100, "P9_SETATTR_MTIME_SET") ].

Definition getattr_bits (p : string) : list (N * string) :=
  map (fun vn => mbit (fst vn) (p ^^ "." ^^ snd vn)) getattr_values.
Definition setattr_bits (p : string) : list (N * string) :=
  map (fun vn => mbit (fst vn) (p ^^ "." ^^ snd vn)) setattr_values.

(** the attribute block of Rgetattr after valid[8] qid[13] *)
Definition attr : slayout :=
  [ ("mode", u32); ("uid", u32); ("gid", u32); ("nlink", u64); ("rdev", u64); ("size", u64);
    ("blksize", u64); ("blocks", u64);
    ("atime_sec", u64); ("atime_nsec", u64); ("mtime_sec", u64); ("mtime_nsec", u64);
    ("ctime_sec", u64); ("ctime_nsec", u64); ("btime_sec", u64); ("btime_nsec", u64);
    ("gen", u64); ("data_version", u64) ].

(** one directory entry of Rreaddir: qid[13] offset[8] type[1] name[s] *)
Definition dirent (p : string) : slayout :=
  qid (p ^^ ".qid") ++ [(p ^^ ".offset", u64); (p ^^ ".type", u8); (p ^^ ".name", KStr)].

Definition plain (l : slayout) : mlayout := {| ml_fixed := lift l; ml_pay := PNone |}.
Definition plainl (l : layout) : mlayout := {| ml_fixed := l; ml_pay := PNone |}.

Definition walk_names : layout :=
  lift [("fid", u32); ("newfid", u32)] ++ [("nwname", KList16 [("wname", KStr)])].
Definition walk_qids : layout := [("nwqid", KList16 (qid "wqid"))].

Definition t_lcreate : slayout := [("fid", u32); ("name", KStr); ("flags", u32); ("mode", KPerm); ("gid", u32)].
Definition t_mkdir : slayout := [("dfid", u32); ("name", KStr); ("mode", KPerm); ("gid", u32)].
Definition t_mknod : slayout :=
  [("dfid", u32); ("name", KStr); ("mode", u32); ("major", u32); ("minor", u32); ("gid", u32)].
Definition t_symlink : slayout := [("fid", u32); ("name", KStr); ("symtgt", KStr); ("gid", u32)].
Definition r_lopen : slayout := qid "qid" ++ [("iounit", u32)].

Record spec_msg := { sm_typ : N; sm_name : string; sm_layout : mlayout }.
Definition M (t : N) (n : string) (l : mlayout) : spec_msg := {| sm_typ := t; sm_name := n; sm_layout := l |}.

Definition spec : list spec_msg :=
  [ (* ---- 9P2000.L ---- *)
    M 7 "Rlerror" (plain [("ecode", u32)]);
    M 8 "Tstatfs" (plain [("fid", u32)]);
    M 9 "Rstatfs" (plain [("type", u32); ("bsize", u32); ("blocks", u64); ("bfree", u64); ("bavail", u64);
                          ("files", u64); ("ffree", u64); ("fsid", u64); ("namelen", u32)]);
    M 12 "Tlopen" (plain [("fid", u32); ("flags", u32)]);
    M 13 "Rlopen" (plain r_lopen);
    M 14 "Tlcreate" (plain t_lcreate);
    M 15 "Rlcreate" (plain r_lopen);
    M 16 "Tsymlink" (plain t_symlink);
    M 17 "Rsymlink" (plain (qid "qid"));
    M 18 "Tmknod" (plain t_mknod);
    M 19 "Rmknod" (plain (qid "qid"));
    M 20 "Trename" (plain [("fid", u32); ("dfid", u32); ("name", KStr)]);
    M 21 "Rrename" (plain []);
    M 22 "Treadlink" (plain [("fid", u32)]);
    M 23 "Rreadlink" (plain [("target", KStr)]);
    M 24 "Tgetattr" (plain [("fid", u32); ("request_mask", KMask 8 (getattr_bits "request_mask"))]);
    M 25 "Rgetattr" (plain ([("valid", KMask 8 (getattr_bits "valid"))] ++ qid "qid" ++ attr));
    M 26 "Tsetattr" (plain [("fid", u32); ("valid", KMask 4 (setattr_bits "valid"));
                            ("mode", KPerm); ("uid", u32); ("gid", u32); ("size", u64);
                            ("atime_sec", u64); ("atime_nsec", u64); ("mtime_sec", u64); ("mtime_nsec", u64)]);
    M 27 "Rsetattr" (plain []);
    M 30 "Txattrwalk" (plain [("fid", u32); ("newfid", u32); ("name", KStr)]);
    M 31 "Rxattrwalk" (plain [("size", u64)]);
    M 32 "Txattrcreate" (plain [("fid", u32); ("name", KStr); ("attr_size", u64); ("flags", u32)]);
    M 33 "Rxattrcreate" (plain []);
    M 40 "Treaddir" (plain [("fid", u32); ("offset", u64); ("count", u32)]);
    M 41 "Rreaddir" {| ml_fixed := []; ml_pay := PDirents "count" "data" (dirent "data") |};
    M 50 "Tfsync" (plain [("fid", u32)]);
    M 51 "Rfsync" (plain []);
    M 52 "Tlock" (plain [("fid", u32); ("type", u8); ("flags", u32); ("start", u64); ("length", u64);
                         ("proc_id", u32); ("client_id", KStr)]);
    M 53 "Rlock" (plain [("status", u8)]);
    M 70 "Tlink" (plain [("dfid", u32); ("fid", u32); ("name", KStr)]);
    M 71 "Rlink" (plain []);
    M 72 "Tmkdir" (plain t_mkdir);
    M 73 "Rmkdir" (plain (qid "qid"));
    M 74 "Trenameat" (plain [("olddirfid", u32); ("oldname", KStr); ("newdirfid", u32); ("newname", KStr)]);
    M 75 "Rrenameat" (plain []);
    M 76 "Tunlinkat" (plain [("dirfd", u32); ("name", KStr); ("flags", u32)]);
    M 77 "Runlinkat" (plain []);
    (* ---- classic 9P2000 (as used by .L) ---- *)
    M 100 "Tversion" (plain [("msize", u32); ("version", KStr)]);
    M 101 "Rversion" (plain [("msize", u32); ("version", KStr)]);
    M 102 "Tauth" (plain [("afid", u32); ("uname", KStr); ("aname", KStr); ("n_uname", u32)]);
    M 103 "Rauth" (plain (qid "aqid"));
    M 104 "Tattach" (plain [("fid", u32); ("afid", u32); ("uname", KStr); ("aname", KStr); ("n_uname", u32)]);
    M 105 "Rattach" (plain (qid "qid"));
    M 108 "Tflush" (plain [("oldtag", u16)]);
    M 109 "Rflush" (plain []);
    M 110 "Twalk" (plainl walk_names);
    M 111 "Rwalk" (plainl walk_qids);
    M 116 "Tread" (plain [("fid", u32); ("offset", u64); ("count", u32)]);
    M 117 "Rread" {| ml_fixed := []; ml_pay := PData "count" "data" |};
    M 118 "Twrite" {| ml_fixed := lift [("fid", u32); ("offset", u64)]; ml_pay := PData "count" "data" |};
    M 119 "Rwrite" (plain [("count", u32)]);
    M 120 "Tclunk" (plain [("fid", u32)]);
    M 121 "Rclunk" (plain []);
    M 122 "Tremove" (plain [("fid", u32)]);
    M 123 "Rremove" (plain []);
    (* ---- 9P2000.L.Google.N (gVisor) ---- *)
    M 126 "Twalkgetattr" (plainl walk_names);
    M 127 "Rwalkgetattr" (plainl (lift ([("valid", KMask 8 (getattr_bits "valid"))] ++ attr) ++ walk_qids));
    M 128 "Tucreate" (plain (t_lcreate ++ [("uid", u32)]));
    M 129 "Rucreate" (plain r_lopen);
    M 130 "Tumkdir" (plain (t_mkdir ++ [("uid", u32)]));
    M 131 "Rumkdir" (plain (qid "qid"));
    M 132 "Tumknod" (plain (t_mknod ++ [("uid", u32)]));
    M 133 "Rumknod" (plain (qid "qid"));
    M 134 "Tusymlink" (plain (t_symlink ++ [("uid", u32)]));
    M 135 "Rusymlink" (plain (qid "qid")) ].

Definition spec_registry : registry := map (fun m => (sm_typ m, sm_layout m)) spec.

Fixpoint spec_find (t : N) (l : list spec_msg) : option spec_msg :=
  match l with
  | [] => None
  | m :: r => if sm_typ m =? t then Some m else spec_find t r
  end.

(** ------------------------------------------------------------------------
    Binding of the Go structs to the protocol: for every type number the Go struct
    that carries it and, for every Go field path (as go2coq CodecGen and the harness
    spell them), the protocol field it holds.  This table is the only place where
    Go names meet protocol names. *)

Definition b_qid (g s : string) : list (string * string) :=
  [(g ^^ ".Type", s ^^ ".type"); (g ^^ ".Version", s ^^ ".version"); (g ^^ ".Path", s ^^ ".path")].

Definition b_attrmask (g s : string) : list (string * string) :=
  (g, s) ::
  map (fun gs => (g ^^ "." ^^ fst gs, s ^^ "." ^^ snd gs))
    [ ("Mode", "P9_GETATTR_MODE"); ("NLink", "P9_GETATTR_NLINK"); ("UID", "P9_GETATTR_UID");
      ("GID", "P9_GETATTR_GID"); ("RDev", "P9_GETATTR_RDEV"); ("ATime", "P9_GETATTR_ATIME");
      ("MTime", "P9_GETATTR_MTIME"); ("CTime", "P9_GETATTR_CTIME"); ("INo", "P9_GETATTR_INO");
      ("Size", "P9_GETATTR_SIZE"); ("Blocks", "P9_GETATTR_BLOCKS"); ("BTime", "P9_GETATTR_BTIME");
      ("Gen", "P9_GETATTR_GEN"); ("DataVersion", "P9_GETATTR_DATA_VERSION") ].

Definition b_setattrmask (g s : string) : list (string * string) :=
  (g, s) ::
  map (fun gs => (g ^^ "." ^^ fst gs, s ^^ "." ^^ snd gs))
    [ ("Permissions", "P9_SETATTR_MODE"); ("UID", "P9_SETATTR_UID"); ("GID", "P9_SETATTR_GID");
      ("Size", "P9_SETATTR_SIZE"); ("ATime", "P9_SETATTR_ATIME"); ("MTime", "P9_SETATTR_MTIME");
      ("CTime", "P9_SETATTR_CTIME"); ("ATimeNotSystemTime", "P9_SETATTR_ATIME_SET");
      ("MTimeNotSystemTime", "P9_SETATTR_MTIME_SET") ].

Definition b_attr (g : string) : list (string * string) :=
  map (fun gs => (g ^^ "." ^^ fst gs, snd gs))
    [ ("Mode", "mode"); ("UID", "uid"); ("GID", "gid"); ("NLink", "nlink"); ("RDev", "rdev"); ("Size", "size");
      ("BlockSize", "blksize"); ("Blocks", "blocks");
      ("ATimeSeconds", "atime_sec"); ("ATimeNanoSeconds", "atime_nsec");
      ("MTimeSeconds", "mtime_sec"); ("MTimeNanoSeconds", "mtime_nsec");
      ("CTimeSeconds", "ctime_sec"); ("CTimeNanoSeconds", "ctime_nsec");
      ("BTimeSeconds", "btime_sec"); ("BTimeNanoSeconds", "btime_nsec");
      ("Gen", "gen"); ("DataVersion", "data_version") ].

Definition b_pre (p : string) (l : list (string * string)) : list (string * string) :=
  map (fun gs => (p ^^ fst gs, snd gs)) l.

Definition b_lcreate : list (string * string) :=
  [("fid", "fid"); ("Name", "name"); ("OpenFlags", "flags"); ("Permissions", "mode"); ("GID", "gid")].
Definition b_mkdir : list (string * string) :=
  [("Directory", "dfid"); ("Name", "name"); ("Permissions", "mode"); ("GID", "gid")].
Definition b_mknod : list (string * string) :=
  [("Directory", "dfid"); ("Name", "name"); ("Mode", "mode"); ("Major", "major"); ("Minor", "minor"); ("GID", "gid")].
Definition b_symlink : list (string * string) :=
  [("Directory", "fid"); ("Name", "name"); ("Target", "symtgt"); ("GID", "gid")].
Definition b_lopen : list (string * string) := b_qid "QID" "qid" ++ [("IoUnit", "iounit")].
Definition b_walk : list (string * string) :=
  [("fid", "fid"); ("newFID", "newfid"); ("Names", "nwname"); ("Names[]", "wname")].
Definition b_wqids : list (string * string) := ("QIDs", "nwqid") :: b_qid "QIDs[]" "wqid".
Definition b_auth : list (string * string) :=
  [("Authenticationfid", "afid"); ("UserName", "uname"); ("AttachName", "aname"); ("UID", "n_uname")].

Record bind := { b_typ : N; b_go : string; b_map : list (string * string) }.
Definition B (t : N) (g : string) (m : list (string * string)) : bind := {| b_typ := t; b_go := g; b_map := m |}.

Definition binding : list bind :=
  [ B 7 "rlerror" [("Error", "ecode")];
    B 8 "tstatfs" [("fid", "fid")];
    B 9 "rstatfs" (b_pre "FSStat." [("Type", "type"); ("BlockSize", "bsize"); ("Blocks", "blocks"); ("BlocksFree", "bfree");
                   ("BlocksAvailable", "bavail"); ("Files", "files"); ("FilesFree", "ffree"); ("FSID", "fsid");
                   ("NameLength", "namelen")]);
    B 12 "tlopen" [("fid", "fid"); ("Flags", "flags")];
    B 13 "rlopen" b_lopen;
    B 14 "tlcreate" b_lcreate;
    B 15 "rlcreate" (b_pre "rlopen." b_lopen);
    B 16 "tsymlink" b_symlink;
    B 17 "rsymlink" (b_qid "QID" "qid");
    B 18 "tmknod" b_mknod;
    B 19 "rmknod" (b_qid "QID" "qid");
    B 20 "trename" [("fid", "fid"); ("Directory", "dfid"); ("Name", "name")];
    B 21 "rrename" [];
    B 22 "treadlink" [("fid", "fid")];
    B 23 "rreadlink" [("Target", "target")];
    B 24 "tgetattr" (("fid", "fid") :: b_attrmask "AttrMask" "request_mask");
    B 25 "rgetattr" (b_attrmask "Valid" "valid" ++ b_qid "QID" "qid" ++ b_attr "Attr");
    B 26 "tsetattr" (("fid", "fid") :: b_setattrmask "Valid" "valid" ++
                     b_pre "SetAttr." [("Permissions", "mode"); ("UID", "uid"); ("GID", "gid"); ("Size", "size");
                       ("ATimeSeconds", "atime_sec"); ("ATimeNanoSeconds", "atime_nsec");
                       ("MTimeSeconds", "mtime_sec"); ("MTimeNanoSeconds", "mtime_nsec")]);
    B 27 "rsetattr" [];
    B 30 "txattrwalk" [("fid", "fid"); ("newFID", "newfid"); ("Name", "name")];
    B 31 "rxattrwalk" [("Size", "size")];
    B 32 "txattrcreate" [("fid", "fid"); ("Name", "name"); ("AttrSize", "attr_size"); ("Flags", "flags")];
    B 33 "rxattrcreate" [];
    B 40 "treaddir" [("Directory", "fid"); ("Offset", "offset"); ("Count", "count")];
    B 41 "rreaddir" ([("Count", "count"); ("Entries", "data")] ++ b_qid "Entries[].QID" "data.qid" ++
                     [("Entries[].Offset", "data.offset"); ("Entries[].Type", "data.type"); ("Entries[].Name", "data.name")]);
    B 50 "tfsync" [("fid", "fid")];
    B 51 "rfsync" [];
    B 52 "tlock" [("fid", "fid"); ("Type", "type"); ("Flags", "flags"); ("Start", "start"); ("Length", "length");
                  ("PID", "proc_id"); ("Client", "client_id")];
    B 53 "rlock" [("Status", "status")];
    B 70 "tlink" [("Directory", "dfid"); ("Target", "fid"); ("Name", "name")];
    B 71 "rlink" [];
    B 72 "tmkdir" b_mkdir;
    B 73 "rmkdir" (b_qid "QID" "qid");
    B 74 "trenameat" [("OldDirectory", "olddirfid"); ("OldName", "oldname"); ("NewDirectory", "newdirfid"); ("NewName", "newname")];
    B 75 "rrenameat" [];
    B 76 "tunlinkat" [("Directory", "dirfd"); ("Name", "name"); ("Flags", "flags")];
    B 77 "runlinkat" [];
    B 100 "tversion" [("MSize", "msize"); ("Version", "version")];
    B 101 "rversion" [("MSize", "msize"); ("Version", "version")];
    B 102 "tauth" b_auth;
    B 103 "rauth" (b_qid "QID" "aqid");
    B 104 "tattach" (("fid", "fid") :: b_pre "Auth." b_auth);
    B 105 "rattach" (b_qid "QID" "qid");
    B 108 "tflush" [("OldTag", "oldtag")];
    B 109 "rflush" [];
    B 110 "twalk" b_walk;
    B 111 "rwalk" b_wqids;
    B 116 "tread" [("fid", "fid"); ("Offset", "offset"); ("Count", "count")];
    B 117 "rread" [("len(Data)", "count"); ("Data", "data")];
    B 118 "twrite" [("fid", "fid"); ("Offset", "offset"); ("len(Data)", "count"); ("Data", "data")];
    B 119 "rwrite" [("Count", "count")];
    B 120 "tclunk" [("fid", "fid")];
    B 121 "rclunk" [];
    B 122 "tremove" [("fid", "fid")];
    B 123 "rremove" [];
    B 126 "twalkgetattr" b_walk;
    B 127 "rwalkgetattr" (b_attrmask "Valid" "valid" ++ b_attr "Attr" ++ b_wqids);
    B 128 "tucreate" (b_pre "tlcreate." b_lcreate ++ [("UID", "uid")]);
    B 129 "rucreate" (b_pre "rlcreate.rlopen." b_lopen);
    B 130 "tumkdir" (b_pre "tmkdir." b_mkdir ++ [("UID", "uid")]);
    B 131 "rumkdir" (b_pre "rmkdir." (b_qid "QID" "qid"));
    B 132 "tumknod" (b_pre "tmknod." b_mknod ++ [("UID", "uid")]);
    B 133 "rumknod" (b_pre "rmknod." (b_qid "QID" "qid"));
    B 134 "tusymlink" (b_pre "tsymlink." b_symlink ++ [("UID", "uid")]);
    B 135 "rusymlink" (b_pre "rsymlink." (b_qid "QID" "qid")) ].

Fixpoint bind_find (t : N) (l : list bind) : option bind :=
  match l with
  | [] => None
  | b :: r => if b_typ b =? t then Some b else bind_find t r
  end.

Fixpoint assoc (k : string) (l : list (string * string)) : option string :=
  match l with
  | [] => None
  | (a, b) :: r => if String.eqb a k then Some b else assoc k r
  end.

(** Go path -> protocol name; an unbound Go path keeps its name with a "?" in front and so
    never equals a protocol name *)
Definition to_spec (m : list (string * string)) (g : string) : string :=
  match assoc g m with Some s => s | None => "?" ^^ g end.

Definition swap (m : list (string * string)) : list (string * string) := map (fun ab => (snd ab, fst ab)) m.

(** protocol name -> Go path *)
Definition to_go (m : list (string * string)) (s : string) : string :=
  match assoc s (swap m) with Some g => g | None => "?" ^^ s end.

(** Fields that are wider in memory than on the wire: Go keeps fids in a uint64 and writes
    uint32(fid).  Only fids; values >= 2^32 are outside [mwf] (Layout.wf_s). *)
Definition spec_is_fid (name : string) : bool :=
  existsb (String.eqb name) ["fid"; "afid"; "newfid"; "dfid"; "olddirfid"; "newdirfid"; "dirfd"].
