(** Codec/LayoutProofs.v — round trip of every layout of the universe, for all
    values (no bound on lengths or integers), plus the facts about [norm],
    masks, byte-ness of encoder output and renaming. *)
From Coq Require Import NArith List String Bool Lia ZArith ZifyN ZifyBool ZifyNat.
From P9V Require Import Codec.Layout.
Import ListNotations.
Open Scope N_scope.
Ltac Zify.zify_post_hook ::= Z.div_mod_to_equations.

(** * little-endian integers *)

Lemma pow8_succ w : 2 ^ (8 * N.of_nat (S w)) = 256 * 2 ^ (8 * N.of_nat w).
Proof.
  rewrite Nat2N.inj_succ.
  replace (8 * N.succ (N.of_nat w)) with (8 + 8 * N.of_nat w) by lia.
  rewrite N.pow_add_r. reflexivity.
Qed.

Lemma land255 n : N.land n 255 = n mod 256.
Proof. change 255 with (N.ones 8). rewrite N.land_ones. reflexivity. Qed.
Lemma shiftr8 n : N.shiftr n 8 = n / 256.
Proof. rewrite N.shiftr_div_pow2. reflexivity. Qed.
Lemma shiftl8 n : N.shiftl n 8 = 256 * n.
Proof. rewrite N.shiftl_mul_pow2. change (2 ^ 8) with 256. lia. Qed.

Lemma le_dec_enc w : forall n rest, n < 2 ^ (8 * N.of_nat w) ->
  le_dec w (le_enc w n ++ rest) = Some (n, rest).
Proof.
  induction w as [|w IH]; intros n rest Hn.
  - cbn in *. f_equal. f_equal. lia.
  - rewrite pow8_succ in Hn.
    cbn [le_enc le_dec app]. rewrite land255, shiftr8.
    rewrite IH by (apply N.div_lt_upper_bound; lia). rewrite shiftl8.
    f_equal. f_equal. pose proof (N.div_mod n 256). lia.
Qed.

Lemma le_enc_length w n : List.length (le_enc w n) = w.
Proof. revert n; induction w as [|w IH]; intros n; cbn; [reflexivity|now rewrite IH]. Qed.

Lemma le_enc_bytes w : forall n, Forall (fun b => b < 256) (le_enc w n).
Proof.
  induction w as [|w IH]; intros n; cbn [le_enc]; constructor; [|apply IH].
  rewrite land255. apply N.mod_lt. lia.
Qed.

Lemma le_dec_length w : forall bs n r, le_dec w bs = Some (n, r) -> List.length bs = (w + List.length r)%nat.
Proof.
  induction w as [|w IH]; intros bs n r H; cbn in H.
  - inversion H; subst. reflexivity.
  - destruct bs as [|b bs']; [discriminate|].
    destruct (le_dec w bs') as [[n' r']|] eqn:E; [|discriminate].
    inversion H; subst. cbn. rewrite (IH _ _ _ E). reflexivity.
Qed.

Lemma le_dec_short w : forall bs, (List.length bs < w)%nat -> le_dec w bs = None.
Proof.
  induction w as [|w IH]; intros bs H; [lia|].
  destruct bs as [|b bs']; cbn; [reflexivity|]. cbn in H. rewrite IH by lia. reflexivity.
Qed.

(** * strings *)

Lemma take_app s : forall rest, take (List.length s) (s ++ rest) = Some (s, rest).
Proof. induction s as [|b s IH]; intros rest; cbn; [reflexivity|now rewrite IH]. Qed.

Lemma to_nat_len {A} (l : list A) : N.to_nat (len l) = List.length l.
Proof. unfold len. apply Nat2N.id. Qed.

(** * masks *)

Lemma mask_enc_notin bits : forall bs p,
  (forall pb, In pb bits -> fst pb <> p) -> N.testbit (mask_enc bits bs) p = false.
Proof.
  induction bits as [|[q s] bits IH]; intros bs p Hnot; cbn; [reflexivity|].
  destruct bs as [|b bs]; [reflexivity|].
  assert (Hq : q <> p) by (apply (Hnot (q, s)); now left).
  assert (Hrest : N.testbit (mask_enc bits bs) p = false) by (apply IH; intros pb Hin; apply Hnot; now right).
  destruct b; [|exact Hrest].
  rewrite N.setbit_neq by exact Hq. exact Hrest.
Qed.

Lemma existsb_eqb_false x l : existsb (N.eqb x) l = false -> forall y, In y l -> y <> x.
Proof.
  intros H y Hin Heq; subst y.
  assert (existsb (N.eqb x) l = true) by (apply existsb_exists; exists x; split; [assumption|apply N.eqb_refl]).
  congruence.
Qed.

Lemma mask_dec_enc bits : forall bs,
  nodup_N (map fst bits) = true -> List.length bs = List.length bits ->
  mask_dec bits (mask_enc bits bs) = bs.
Proof.
  induction bits as [|[q s] bits IH]; intros bs Hnd Hlen.
  - destruct bs; [reflexivity|discriminate].
  - destruct bs as [|b bs]; [discriminate|].
    cbn in Hnd. apply andb_true_iff in Hnd as [Hq Hnd]. apply negb_true_iff in Hq.
    injection Hlen as Hlen.
    assert (Hnotin : forall pb, In pb bits -> fst pb <> q).
    { intros pb Hin. apply (existsb_eqb_false _ _ Hq). now apply in_map. }
    unfold mask_dec. cbn [map fst mask_enc].
    f_equal.
    + destruct b.
      * apply N.setbit_eq.
      * apply mask_enc_notin. exact Hnotin.
    + transitivity (mask_dec bits (mask_enc bits bs)); [|exact (IH bs Hnd Hlen)].
      unfold mask_dec. apply map_ext_in. intros [p t] Hin. cbn [fst].
      destruct b; [|reflexivity].
      apply N.setbit_neq. intro; subst. exact (Hnotin (p, t) Hin eq_refl).
Qed.

Lemma lor_lt_pow2 a b B : a < 2 ^ B -> b < 2 ^ B -> N.lor a b < 2 ^ B.
Proof.
  intros Ha Hb.
  destruct (N.eq_dec a 0) as [->|Ha0]; [now rewrite N.lor_0_l|].
  destruct (N.eq_dec b 0) as [->|Hb0]; [now rewrite N.lor_0_r|].
  assert (Hl : N.lor a b <> 0) by (intro H; apply N.lor_eq_0_iff in H; tauto).
  apply N.log2_lt_pow2; [lia|].
  rewrite N.log2_lor.
  apply N.log2_lt_pow2 in Ha; [|lia]. apply N.log2_lt_pow2 in Hb; [|lia]. lia.
Qed.

Lemma mask_enc_lt bits B : forall bs,
  forallb (fun pb => fst pb <? B) bits = true -> mask_enc bits bs < 2 ^ B.
Proof.
  induction bits as [|[q s] bits IH]; intros bs Hall; cbn.
  - apply N.neq_0_lt_0. apply N.pow_nonzero. lia.
  - destruct bs as [|b bs]; [apply N.neq_0_lt_0; apply N.pow_nonzero; lia|].
    cbn in Hall. apply andb_true_iff in Hall as [Hq Hall]. apply N.ltb_lt in Hq.
    specialize (IH bs Hall).
    destruct b; [|exact IH].
    unfold N.setbit. apply lor_lt_pow2; [exact IH|].
    rewrite N.shiftl_1_l. apply N.pow_lt_mono_r; lia.
Qed.

(** * scalars *)

Lemma land_perm_lt n : N.land n perm_mask < 2 ^ 32.
Proof.
  unfold perm_mask. change 4095 with (N.ones 12). rewrite N.land_ones.
  pose proof (N.mod_lt n (2 ^ 12)). change (2 ^ 12) with 4096 in *. change (2 ^ 32) with 4294967296. lia.
Qed.

Lemma dec_enc_s k v rest : ok_s k = true -> wf_s k v = true ->
  dec_s k (enc_s k v ++ rest) = Some (norm_s k v, rest).
Proof.
  intros Hok Hwf.
  destruct k as [w| | |w bits]; destruct v as [n|bs|bs]; try discriminate Hwf; cbn [enc_s dec_s norm_s].
  - apply N.ltb_lt in Hwf. rewrite le_dec_enc by exact Hwf. reflexivity.
  - rewrite (le_dec_enc 4) by (apply land_perm_lt).
    f_equal. f_equal. f_equal.
    unfold perm_mask. rewrite <- N.land_assoc. now rewrite N.land_diag.
  - cbn in Hwf. apply andb_true_iff in Hwf as [Hl _]. apply N.ltb_lt in Hl.
    rewrite <- app_assoc. rewrite (le_dec_enc 2) by exact Hl.
    rewrite to_nat_len, take_app. reflexivity.
  - cbn in Hwf, Hok. apply Nat.eqb_eq in Hwf. apply andb_true_iff in Hok as [Hnd Hlt].
    rewrite le_dec_enc by (apply mask_enc_lt; exact Hlt).
    rewrite mask_dec_enc by assumption. reflexivity.
Qed.

Lemma dec_enc_row l : forall vs rest, ok_row l = true -> wf_row l vs = true ->
  dec_row l (enc_row l vs ++ rest) = Some (norm_row l vs, rest).
Proof.
  induction l as [|[nm k] l IH]; intros vs rest Hok Hwf.
  - destruct vs; [reflexivity|discriminate].
  - destruct vs as [|v vs]; [discriminate|].
    cbn in Hok, Hwf. apply andb_true_iff in Hok as [Hk Hok]. apply andb_true_iff in Hwf as [Hv Hwf].
    cbn [enc_row dec_row norm_row]. rewrite <- app_assoc.
    rewrite dec_enc_s by assumption. rewrite IH by assumption. reflexivity.
Qed.

Lemma dec_enc_rows l : forall rows rest, ok_row l = true -> forallb (wf_row l) rows = true ->
  dec_rows l (List.length rows) (enc_rows l rows ++ rest) = Some (map (norm_row l) rows, rest).
Proof.
  intros rows; induction rows as [|r rows IH]; intros rest Hok Hwf; [reflexivity|].
  cbn in Hwf. apply andb_true_iff in Hwf as [Hr Hwf].
  unfold enc_rows in *. cbn [flat_map List.length dec_rows map]. rewrite <- app_assoc.
  rewrite dec_enc_row by assumption. rewrite IH by assumption. reflexivity.
Qed.

(** * the generic round trip (C01_roundtrip) *)

Theorem dec_enc k v rest : ok_k k = true -> wf k v = true ->
  dec k (enc k v ++ rest) = Some (norm k v, rest).
Proof.
  intros Hok Hwf.
  destruct k as [s|elem]; destruct v as [x|rows]; try discriminate Hwf; cbn [enc dec norm].
  - rewrite dec_enc_s by assumption. reflexivity.
  - cbn in Hwf, Hok. apply andb_true_iff in Hwf as [Hl Hwf]. apply N.ltb_lt in Hl.
    rewrite <- app_assoc. rewrite (le_dec_enc 2) by exact Hl.
    rewrite to_nat_len. rewrite dec_enc_rows by assumption. reflexivity.
Qed.

Theorem dec_enc_fields l : forall vs rest, ok_fields l = true -> wf_fields l vs = true ->
  dec_fields l (enc_fields l vs ++ rest) = Some (norm_fields l vs, rest).
Proof.
  induction l as [|[nm k] l IH]; intros vs rest Hok Hwf.
  - destruct vs; [reflexivity|discriminate].
  - destruct vs as [|v vs]; [discriminate|].
    cbn in Hok, Hwf. apply andb_true_iff in Hok as [Hk Hok]. apply andb_true_iff in Hwf as [Hv Hwf].
    cbn [enc_fields dec_fields norm_fields]. rewrite <- app_assoc.
    rewrite dec_enc by assumption. rewrite IH by assumption. reflexivity.
Qed.

(** * encoders emit bytes *)

Lemma all_bytes_Forall bs : all_bytes bs = true -> Forall (fun b => b < 256) bs.
Proof.
  unfold all_bytes. intros H. apply Forall_forall. intros x Hin.
  rewrite forallb_forall in H. apply N.ltb_lt. now apply H.
Qed.

Lemma enc_s_bytes k v : wf_s k v = true -> Forall (fun b => b < 256) (enc_s k v).
Proof.
  destruct k, v; cbn [enc_s wf_s]; intros H; try discriminate H; try apply le_enc_bytes.
  apply andb_true_iff in H as [_ H]. apply Forall_app; split; [apply le_enc_bytes|now apply all_bytes_Forall].
Qed.

Lemma enc_row_bytes l : forall vs, wf_row l vs = true -> Forall (fun b => b < 256) (enc_row l vs).
Proof.
  induction l as [|[nm k] l IH]; intros vs H; destruct vs as [|v vs]; cbn; try constructor.
  cbn in H. apply andb_true_iff in H as [H1 H2].
  apply Forall_app; split; [now apply enc_s_bytes|now apply IH].
Qed.

Lemma enc_rows_bytes l rows : forallb (wf_row l) rows = true -> Forall (fun b => b < 256) (enc_rows l rows).
Proof.
  induction rows as [|r rows IH]; cbn; intros H; [constructor|].
  apply andb_true_iff in H as [H1 H2]. apply Forall_app; split; [now apply enc_row_bytes|now apply IH].
Qed.

Lemma enc_bytes k v : wf k v = true -> Forall (fun b => b < 256) (enc k v).
Proof.
  destruct k, v; cbn [enc wf]; intros H; try discriminate H; [now apply enc_s_bytes|].
  apply andb_true_iff in H as [_ H]. apply Forall_app; split; [apply le_enc_bytes|now apply enc_rows_bytes].
Qed.

Lemma enc_fields_bytes l : forall vs, wf_fields l vs = true -> Forall (fun b => b < 256) (enc_fields l vs).
Proof.
  induction l as [|[nm k] l IH]; intros vs H; destruct vs as [|v vs]; cbn; try constructor.
  cbn in H. apply andb_true_iff in H as [H1 H2].
  apply Forall_app; split; [now apply enc_bytes|now apply IH].
Qed.

(** * norm changes permission fields only, and only bits above 0o7777 *)

Lemma norm_s_changes k v : norm_s k v <> v ->
  exists n, k = KPerm /\ v = VInt n /\ norm_s k v = VInt (N.land n perm_mask) /\ perm_mask < n.
Proof.
  destruct k, v; cbn; intros H; try congruence.
  exists n. repeat split; try reflexivity.
  destruct (N.le_gt_cases n perm_mask) as [Hle|Hgt]; [|exact Hgt].
  exfalso. apply H. f_equal.
  unfold perm_mask in *. change 4095 with (N.ones 12). rewrite N.land_ones.
  apply N.mod_small. change (2 ^ 12) with 4096. lia.
Qed.

Lemma norm_s_idem k v : norm_s k (norm_s k v) = norm_s k v.
Proof.
  destruct k, v; cbn; try reflexivity.
  f_equal. rewrite <- N.land_assoc. now rewrite N.land_diag.
Qed.


(** * names are irrelevant to the codec *)

Lemma enc_s_rename f k v : enc_s (rename_s f k) v = enc_s k v.
Proof.
  destruct k, v; cbn; try reflexivity.
  f_equal. revert bs. induction bits as [|[p s] bits IH]; intros bs; cbn; [reflexivity|].
  destruct bs as [|b bs]; [reflexivity|]. now rewrite IH.
Qed.

Lemma dec_s_rename f k bs : dec_s (rename_s f k) bs = dec_s k bs.
Proof.
  destruct k; cbn [dec_s rename_s]; try reflexivity.
  destruct (le_dec w bs) as [[m r]|]; [|reflexivity].
  unfold mask_dec. rewrite map_map. reflexivity.
Qed.

Lemma enc_row_rename f l : forall vs, enc_row (rename_row f l) vs = enc_row l vs.
Proof.
  induction l as [|[nm k] l IH]; intros vs; cbn; [reflexivity|].
  destruct vs; [reflexivity|]. rewrite enc_s_rename. fold (rename_row f l). now rewrite IH.
Qed.

Lemma dec_row_rename f l : forall bs, dec_row (rename_row f l) bs = dec_row l bs.
Proof.
  induction l as [|[nm k] l IH]; intros bs; cbn; [reflexivity|].
  rewrite dec_s_rename. destruct (dec_s k bs) as [[v r]|]; [|reflexivity].
  fold (rename_row f l). now rewrite IH.
Qed.

Lemma dec_rows_rename f l c : forall bs, dec_rows (rename_row f l) c bs = dec_rows l c bs.
Proof.
  induction c as [|c IH]; intros bs; cbn; [reflexivity|].
  rewrite dec_row_rename. destruct (dec_row l bs) as [[row r]|]; [|reflexivity]. now rewrite IH.
Qed.

Lemma enc_rename f k v : enc (rename_k f k) v = enc k v.
Proof.
  destruct k, v; cbn [enc rename_k]; try reflexivity; [apply enc_s_rename|].
  f_equal. unfold enc_rows. apply flat_map_ext. intros row. apply enc_row_rename.
Qed.

Lemma dec_rename f k bs : dec (rename_k f k) bs = dec k bs.
Proof.
  destruct k; cbn [dec rename_k]; [now rewrite dec_s_rename|].
  destruct (le_dec 2 bs) as [[n r]|]; [|reflexivity]. now rewrite dec_rows_rename.
Qed.

Lemma enc_fields_rename f l : forall vs, enc_fields (rename_fields f l) vs = enc_fields l vs.
Proof.
  induction l as [|[nm k] l IH]; intros vs; cbn; [reflexivity|].
  destruct vs; [reflexivity|]. rewrite enc_rename. fold (rename_fields f l). now rewrite IH.
Qed.

Lemma dec_fields_rename f l : forall bs, dec_fields (rename_fields f l) bs = dec_fields l bs.
Proof.
  induction l as [|[nm k] l IH]; intros bs; cbn; [reflexivity|].
  rewrite dec_rename. destruct (dec k bs) as [[v r]|]; [|reflexivity].
  fold (rename_fields f l). now rewrite IH.
Qed.

(** * sizes *)

Lemma enc_s_min k v : wf_s k v = true -> (min_s k <= List.length (enc_s k v))%nat.
Proof.
  destruct k, v; cbn [enc_s wf_s min_s]; intros H; try discriminate H; rewrite ?app_length, ?le_enc_length; lia.
Qed.

Lemma enc_row_min l : forall vs, wf_row l vs = true -> (min_row l <= List.length (enc_row l vs))%nat.
Proof.
  induction l as [|[nm k] l IH]; intros vs H; destruct vs as [|v vs]; cbn in *; try lia; try discriminate.
  apply andb_true_iff in H as [H1 H2]. rewrite app_length.
  pose proof (enc_s_min _ _ H1). pose proof (IH _ H2). lia.
Qed.

Lemma static_s_length k v n : static_s k = Some n -> wf_s k v = true -> List.length (enc_s k v) = n.
Proof.
  destruct k, v; cbn [enc_s wf_s static_s]; intros Hs Hw; try discriminate; inversion Hs; subst; apply le_enc_length.
Qed.

Lemma static_fields_length l : forall vs n, static_fields l = Some n -> wf_fields l vs = true ->
  List.length (enc_fields l vs) = n.
Proof.
  induction l as [|[nm k] l IH]; intros vs n Hs Hw.
  - destruct vs; [|discriminate]. cbn in *. now inversion Hs.
  - destruct vs as [|v vs]; [discriminate|]. cbn in Hs, Hw.
    destruct k as [s|]; [|discriminate].
    destruct (static_s s) as [a|] eqn:Ea; [|discriminate].
    destruct (static_fields l) as [b|] eqn:Eb; [|discriminate].
    inversion Hs; subst. apply andb_true_iff in Hw as [H1 H2].
    destruct v as [x|]; [|discriminate].
    cbn [enc_fields enc]. rewrite app_length. rewrite (static_s_length _ _ _ Ea H1). rewrite (IH _ _ eq_refl H2). reflexivity.
Qed.

(** dec consumes: the rest is a suffix, and decoding fails on too short input *)
Lemma take_length n : forall bs h t, take n bs = Some (h, t) -> List.length bs = (n + List.length t)%nat.
Proof.
  induction n as [|n IH]; intros bs h t H; cbn in H.
  - inversion H; subst. reflexivity.
  - destruct bs as [|b bs]; [discriminate|]. destruct (take n bs) as [[h' t']|] eqn:E; [|discriminate].
    inversion H; subst. cbn. now rewrite (IH _ _ _ E).
Qed.

Lemma dec_s_length k bs v r : dec_s k bs = Some (v, r) -> (min_s k + List.length r <= List.length bs)%nat.
Proof.
  destruct k; cbn [dec_s min_s]; intros H.
  - destruct (le_dec w bs) as [[n r']|] eqn:E; [|discriminate]. inversion H; subst. rewrite (le_dec_length _ _ _ _ E). lia.
  - destruct (le_dec 4 bs) as [[n r']|] eqn:E; [|discriminate]. inversion H; subst. rewrite (le_dec_length _ _ _ _ E). lia.
  - destruct (le_dec 2 bs) as [[n r']|] eqn:E; [|discriminate].
    destruct (take (N.to_nat n) r') as [[s r'']|] eqn:E2; [|discriminate]. inversion H; subst.
    rewrite (le_dec_length _ _ _ _ E). rewrite (take_length _ _ _ _ E2). lia.
  - destruct (le_dec w bs) as [[n r']|] eqn:E; [|discriminate]. inversion H; subst. rewrite (le_dec_length _ _ _ _ E). lia.
Qed.

Lemma dec_row_length l : forall bs vs r, dec_row l bs = Some (vs, r) -> (min_row l + List.length r <= List.length bs)%nat.
Proof.
  induction l as [|[nm k] l IH]; intros bs vs r H; cbn in H.
  - inversion H; subst. cbn. lia.
  - destruct (dec_s k bs) as [[v r1]|] eqn:E1; [|discriminate].
    destruct (dec_row l r1) as [[vs' r2]|] eqn:E2; [|discriminate]. inversion H; subst.
    pose proof (dec_s_length _ _ _ _ E1). pose proof (IH _ _ _ E2). cbn. lia.
Qed.

(** * soundness of the decidable equalities *)

Lemma bits_eqb_eq a : forall b, bits_eqb a b = true -> a = b.
Proof.
  induction a as [|[p s] a IH]; intros [|[q t] b] H; cbn in H; try discriminate; [reflexivity|].
  apply andb_true_iff in H as [H H3]. apply andb_true_iff in H as [H1 H2].
  apply N.eqb_eq in H1. apply String.eqb_eq in H2. subst. f_equal. now apply IH.
Qed.

Lemma skind_eqb_eq a b : skind_eqb a b = true -> a = b.
Proof.
  destruct a, b; cbn; intros H; try discriminate; try reflexivity.
  - apply Nat.eqb_eq in H. now subst.
  - apply andb_true_iff in H as [H1 H2]. apply Nat.eqb_eq in H1. apply bits_eqb_eq in H2. now subst.
Qed.

Lemma slayout_eqb_eq a : forall b, slayout_eqb a b = true -> a = b.
Proof.
  induction a as [|[s k] a IH]; intros [|[t k'] b] H; cbn in H; try discriminate; [reflexivity|].
  apply andb_true_iff in H as [H H3]. apply andb_true_iff in H as [H1 H2].
  apply String.eqb_eq in H1. apply skind_eqb_eq in H2. subst. f_equal. now apply IH.
Qed.

Lemma kind_eqb_eq a b : kind_eqb a b = true -> a = b.
Proof.
  destruct a, b; cbn; intros H; try discriminate.
  - apply skind_eqb_eq in H. now subst.
  - apply slayout_eqb_eq in H. now subst.
Qed.

Lemma layout_eqb_eq a : forall b, layout_eqb a b = true -> a = b.
Proof.
  induction a as [|[s k] a IH]; intros [|[t k'] b] H; cbn in H; try discriminate; [reflexivity|].
  apply andb_true_iff in H as [H H3]. apply andb_true_iff in H as [H1 H2].
  apply String.eqb_eq in H1. apply kind_eqb_eq in H2. subst. f_equal. now apply IH.
Qed.
