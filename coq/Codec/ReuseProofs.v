(** Codec/ReuseProofs.v — a decode program that (re)defines every field it reads
    yields an object that does not depend on what the recycled object held
    before, nor on the previous content of pooled buffers. *)
From Coq Require Import NArith List String Bool Lia PeanoNat.
From P9V Require Import Codec.Layout Codec.Frame Codec.Reuse.
Import ListNotations.
Open Scope N_scope.

Lemma mem_cons p q A : mem p (q :: A) = String.eqb p q || mem p A.
Proof. reflexivity. Qed.

Lemma mem_app p A B : mem p (A ++ B) = mem p A || mem p B.
Proof. unfold mem. apply existsb_app. Qed.

Lemma get_set p q v s : get p (set q v s) = if String.eqb q p then Some v else get p s.
Proof. reflexivity. Qed.

Lemma agree_set A s s' p v : agree_on A s s' -> agree_on (p :: A) (set p v s) (set p v s').
Proof.
  intros H q Hq. rewrite !get_set. destruct (String.eqb p q) eqn:E; [reflexivity|].
  apply H. rewrite mem_cons in Hq. rewrite String.eqb_sym in E. rewrite E in Hq. exact Hq.
Qed.

Lemma agree_weaken A B s s' : (forall p, mem p B = true -> mem p A = true) -> agree_on A s s' -> agree_on B s s'.
Proof. intros Hsub H p Hp. apply H. now apply Hsub. Qed.

Lemma agree_set_bits bits m : forall A s s', agree_on A s s' ->
  agree_on (map snd bits ++ A) (set_bits bits m s) (set_bits bits m s').
Proof.
  induction bits as [|[pos name] bits IH]; intros A s s' H; cbn [map snd app set_bits]; [exact H|].
  apply agree_set. now apply IH.
Qed.

Lemma agree_get A s s' p : agree_on A s s' -> mem p A = true -> get p s = get p s'.
Proof. intros H Hp. now apply H. Qed.

(** outcome of two runs: both fail, or both succeed with the same locals and agreeing objects *)
Definition same_outcome (A : list string) (a b : option dstate) : Prop :=
  match a, b with
  | Some (t, m, r), Some (t', m', r') => agree_on A t t' /\ m = m' /\ r = r'
  | None, None => True
  | _, _ => False
  end.

Lemma run_agree payload : forall prog A A' s s' n bs,
  agree_on A s s' -> covers_from payload A prog = Some A' ->
  same_outcome A' (run payload prog (s, n, bs)) (run payload prog (s', n, bs)).
Proof.
  induction prog as [|st prog IH]; intros A A' s s' n bs Hag Hcov.
  - cbn in *. inversion Hcov; subst. cbn. auto.
  - destruct st as [p k|p w bits| |p|p elem guarded|c p|c e entry reset]; cbn [run step]; cbn [covers_from] in Hcov.
    + destruct (dec_s k bs) as [[v r]|]; [|exact I].
      apply (IH _ _ _ _ _ _ (agree_set _ _ _ p (OScalar v) Hag) Hcov).
    + destruct (le_dec w bs) as [[m r]|]; [|exact I].
      apply (IH _ _ _ _ _ _ (agree_set_bits bits m _ _ _ Hag) Hcov).
    + destruct (le_dec 2 bs) as [[m r]|]; [|exact I].
      apply (IH _ _ _ _ _ _ Hag Hcov).
    + apply (IH _ _ _ _ _ _ (agree_set _ _ _ p (ORows []) Hag) Hcov).
    + destruct (mem p A) eqn:Hm; [|discriminate].
      destruct (dec_rows elem (N.to_nat n) bs) as [[rows r]|]; [|exact I].
      rewrite (agree_get _ _ _ _ Hag Hm).
      refine (IH _ _ _ _ _ _ _ Hcov).
      eapply agree_weaken; [|apply (agree_set _ _ _ p _ Hag)].
      intros q Hq. rewrite mem_cons, Hq. apply orb_true_r.
    + destruct (mem p A) eqn:Hm; [|discriminate].
      destruct (le_dec 4 bs) as [[count r]|]; [|exact I].
      rewrite (agree_get _ _ _ _ Hag Hm).
      destruct (count =? len (bytes_of (get p s')) mod 2 ^ 32); [|exact I].
      apply (IH _ _ _ _ _ _ Hag Hcov).
    + destruct (mem payload A) eqn:Hp; [|discriminate]. cbn [andb] in Hcov.
      destruct (le_dec 4 bs) as [[count r]|]; [|destruct (reset || mem e A); [exact I|discriminate]].
      rewrite (agree_get _ _ _ _ Hag Hp).
      destruct reset; cbn [orb] in Hcov.
      * apply (IH _ _ _ _ _ _ (agree_set _ _ _ e _ (agree_set _ _ _ c _ Hag)) Hcov).
      * destruct (mem e A) eqn:He; [|discriminate].
        rewrite (agree_get _ _ _ _ Hag He).
        apply (IH _ _ _ _ _ _ (agree_set _ _ _ e _ (agree_set _ _ _ c _ Hag)) Hcov).
Qed.

(** C18_independent: what decode leaves in every field it is responsible for does not depend on
    the state of the object it decodes into. [pre]: fields the receiver has set before decode
    (the payload); [post]: fields the receiver overwrites right after recv. *)
Definition covers2 (payload : string) (pre post : list string) (prog : list dstmt) (fields : list string) : bool :=
  match covers_from payload pre prog with
  | Some A => forallb (fun f => mem f A || mem f post) fields
  | None => false
  end.

Theorem decode_into_independent payload pre post prog fields :
  covers2 payload pre post prog fields = true ->
  forall old old' bytes, agree_on pre old old' ->
  match decode_into payload prog old bytes, decode_into payload prog old' bytes with
  | Some s, Some s' => forall f, In f fields -> mem f post = false -> get f s = get f s'
  | None, None => True
  | _, _ => False
  end.
Proof.
  unfold covers2, decode_into. intros Hcov old old' bytes Hag.
  destruct (covers_from payload pre prog) as [A|] eqn:E; [|discriminate].
  pose proof (run_agree payload prog pre A old old' 0 bytes Hag E) as H.
  unfold same_outcome in H.
  destruct (run payload prog (old, 0, bytes)) as [[[t m] r]|];
    destruct (run payload prog (old', 0, bytes)) as [[[t' m'] r']|]; try contradiction; [|exact I].
  destruct H as [Hagree _]. intros f Hin Hpost.
  apply Hagree. rewrite forallb_forall in Hcov. specialize (Hcov f Hin). rewrite Hpost in Hcov.
  now rewrite orb_false_r in Hcov.
Qed.

(** ---- pooled buffers: the bytes decode sees are the received bytes ---- *)

Lemma firstn_fill buf data : firstn (List.length data) (fill buf data) = data.
Proof.
  unfold fill. rewrite firstn_app, Nat.sub_diag, firstn_all. cbn. now rewrite app_nil_r.
Qed.

Lemma firstn_fill_n n buf data : List.length data = n -> firstn n (fill buf data) = data.
Proof. intros <-. apply firstn_fill. Qed.

Lemma fill_exact buf data : List.length buf = List.length data -> fill buf data = data.
Proof. intros H. unfold fill. rewrite <- H, skipn_all. apply app_nil_r. Qed.

(** C18_dirty_buffer (payload part): whatever slice the object held, the payload after recv is
    exactly the received bytes *)
Lemma recv_payload_eq old data : recv_payload old data = data.
Proof.
  unfold recv_payload. destruct (Nat.eqb (List.length old) (List.length data)) eqn:E.
  - apply Nat.eqb_eq in E. now apply fill_exact.
  - apply fill_exact. apply repeat_length.
Qed.

(** C18_payload_cleared: registry.put leaves no payload in a cached object *)
Lemma put_clears g s p : gm_payload g = Some p -> get p (put g s) = Some (OBytes []).
Proof. intros H. unfold put. rewrite H. rewrite get_set. now rewrite String.eqb_refl. Qed.

(** recv into a recycled object with dirty pooled buffers *)
Theorem recv_into_independent g post :
  covers2 (payload_name g) (match gm_payload g with Some p => [p] | None => [] end) post (gm_dec g) (gm_fields g) = true ->
  forall old old' dirty dirty' body,
  match recv_into g old dirty body, recv_into g old' dirty' body with
  | Some s, Some s' => forall f, In f (gm_fields g) -> mem f post = false -> get f s = get f s'
  | None, None => True
  | _, _ => False
  end.
Proof.
  intros Hcov old old' dirty dirty' body. unfold recv_into, payload_name in *.
  destruct (gm_payload g) as [p|] eqn:Ep.
  - set (fsn := N.to_nat (match gm_fixed_size g with Some fs => fs | None => 0 end)).
    destruct (Nat.ltb (List.length body) fsn) eqn:El; [exact I|].
    apply Nat.ltb_ge in El.
    assert (Hlen : List.length (firstn fsn body) = fsn) by (apply firstn_length_le; exact El).
    rewrite !recv_payload_eq.
    rewrite !(firstn_fill_n fsn _ _ Hlen).
    apply (decode_into_independent p [p] post (gm_dec g) (gm_fields g) Hcov).
    intros q Hq. rewrite !get_set. destruct (String.eqb p q) eqn:E; [reflexivity|].
    rewrite mem_cons in Hq. rewrite String.eqb_sym, E in Hq. discriminate.
  - rewrite !firstn_fill.
    apply (decode_into_independent EmptyString [] post (gm_dec g) (gm_fields g) Hcov).
    intros q Hq; discriminate.
Qed.
