(** Codec/Dump.v — observations of the real code as the harness dumps them
    (field path -> value, by reflection over the Go structs), compact byte
    strings, and their conversion to the values of Layout/Frame/Reuse.
    Used only by the cases files (evaluated with vm_compute). *)
From Coq Require Import NArith List String Bool.
Require Import Coq.Init.Byte Coq.Strings.Byte.
From P9V Require Import Codec.Layout Codec.Frame Codec.Reuse.
Import ListNotations.
Open Scope N_scope.

(** byte strings as the cases files spell them: short literal chunks of [Byte.byte]
    constructors (no number or string notation: those are slow to parse) and arithmetic runs
    (a + b*i) mod 256, i < n *)
Definition bN (b : byte) : N := Coq.Strings.Byte.to_N b.

Fixpoint le_num (l : list byte) : N :=
  match l with
  | [] => 0
  | b :: r => bN b + 256 * le_num r
  end.

Inductive cseg := CL (l : list byte) | CR (n : list byte) (a b : byte).

(** built from the last element backwards with one subtraction per byte (no division) *)
Definition run_bytes (n a b : N) : list N :=
  let a := a mod 256 in
  let b := b mod 256 in
  match n with
  | 0 => []
  | _ =>
      let last := (a + b * (n - 1)) mod 256 in
      snd (N.iter n (fun st => let '(cur, acc) := st in
                               ((if cur <? b then cur + 256 - b else cur - b), cur :: acc)) (last, []))
  end.

Fixpoint expand (s : list cseg) : list N :=
  match s with
  | [] => []
  | CL l :: r => map bN l ++ expand r
  | CR n a b :: r => run_bytes (le_num n) (bN a) (bN b) ++ expand r
  end.

Inductive dval :=
| DInt (n : N)
| DStr (s : list N)              (* Go string *)
| DBytes (s : list N)            (* Go []byte *)
| DBool (b : bool)
| DList (rows : list (list (string * dval))).

Definition dump := list (string * dval).

Fixpoint dget (p : string) (d : dump) : option dval :=
  match d with
  | [] => None
  | (q, v) :: r => if String.eqb q p then Some v else dget p r
  end.

(** outcome of the real recv *)
Inductive rawres :=
| RRConn
| RRUnknown (tag : N)
| RRInvalid
| RROk (tag typ : N) (d : dump).

Section Build.
  (** [nm]: layout field name -> dump path *)
  Variable nm : string -> string.

  Fixpoint build_bits (bits : list (N * string)) (d : dump) : option (list bool) :=
    match bits with
    | [] => Some []
    | (_, name) :: r =>
        match dget (nm name) d, build_bits r d with
        | Some (DBool b), Some bs => Some (b :: bs)
        | _, _ => None
        end
    end.

  Definition build_s (d : dump) (name : string) (k : skind) : option sval :=
    match k with
    | KInt _ | KPerm => match dget (nm name) d with Some (DInt n) => Some (VInt n) | _ => None end
    | KStr => match dget (nm name) d with Some (DStr s) => Some (VStr s) | _ => None end
    | KMask _ bits => match build_bits bits d with Some bs => Some (VMask bs) | None => None end
    end.

  Fixpoint build_row (l : slayout) (d : dump) : option (list sval) :=
    match l with
    | [] => Some []
    | (name, k) :: r =>
        match build_s d name k, build_row r d with
        | Some v, Some vs => Some (v :: vs)
        | _, _ => None
        end
    end.

  Fixpoint build_rows (l : slayout) (rows : list dump) : option (list (list sval)) :=
    match rows with
    | [] => Some []
    | r :: rs =>
        match build_row l r, build_rows l rs with
        | Some v, Some vs => Some (v :: vs)
        | _, _ => None
        end
    end.

  Fixpoint build_fields (l : layout) (d : dump) : option (list val) :=
    match l with
    | [] => Some []
    | (name, KS k) :: r =>
        match build_s d name k, build_fields r d with
        | Some v, Some vs => Some (VS v :: vs)
        | _, _ => None
        end
    | (name, KList16 elem) :: r =>
        match dget (nm name) d with
        | Some (DList rows) =>
            match build_rows elem rows, build_fields r d with
            | Some v, Some vs => Some (VList v :: vs)
            | _, _ => None
            end
        | _ => None
        end
    end.

  Definition build (ml : mlayout) (d : dump) : option mval :=
    match build_fields (ml_fixed ml) d with
    | None => None
    | Some vs =>
        match ml_pay ml with
        | PNone => Some {| mv_fixed := vs; mv_pay := PVNone |}
        | PData _ dn =>
            match dget (nm dn) d with
            | Some (DBytes s) => Some {| mv_fixed := vs; mv_pay := PVData s |}
            | _ => None
            end
        | PDirents c e entry =>
            match dget (nm c) d, dget (nm e) d with
            | Some (DInt n), Some (DList rows) =>
                match build_rows entry rows with
                | Some rs => Some {| mv_fixed := vs; mv_pay := PVDirents n rs |}
                | None => None
                end
            | _, _ => None
            end
        end
    end.
End Build.

(** ---- decidable equality of values ---- *)
Fixpoint bytes_eqb (a b : list N) : bool :=
  match a, b with
  | [], [] => true
  | x :: a', y :: b' => (x =? y) && bytes_eqb a' b'
  | _, _ => false
  end.

Fixpoint bools_eqb (a b : list bool) : bool :=
  match a, b with
  | [], [] => true
  | x :: a', y :: b' => Bool.eqb x y && bools_eqb a' b'
  | _, _ => false
  end.

Definition sval_eqb (a b : sval) : bool :=
  match a, b with
  | VInt x, VInt y => x =? y
  | VStr x, VStr y => bytes_eqb x y
  | VMask x, VMask y => bools_eqb x y
  | _, _ => false
  end.

Fixpoint row_eqb (a b : list sval) : bool :=
  match a, b with
  | [], [] => true
  | x :: a', y :: b' => sval_eqb x y && row_eqb a' b'
  | _, _ => false
  end.

Fixpoint rows_eqb (a b : list (list sval)) : bool :=
  match a, b with
  | [], [] => true
  | x :: a', y :: b' => row_eqb x y && rows_eqb a' b'
  | _, _ => false
  end.

Definition val_eqb (a b : val) : bool :=
  match a, b with
  | VS x, VS y => sval_eqb x y
  | VList x, VList y => rows_eqb x y
  | _, _ => false
  end.

Fixpoint vals_eqb (a b : list val) : bool :=
  match a, b with
  | [], [] => true
  | x :: a', y :: b' => val_eqb x y && vals_eqb a' b'
  | _, _ => false
  end.

Definition mval_eqb (a b : mval) : bool :=
  vals_eqb (mv_fixed a) (mv_fixed b) &&
  match mv_pay a, mv_pay b with
  | PVNone, PVNone => true
  | PVData x, PVData y => bytes_eqb x y
  | PVDirents c x, PVDirents c' y => (c =? c') && rows_eqb x y
  | _, _ => false
  end.

Definition oval_eqb (a b : option oval) : bool :=
  match a, b with
  | None, None => true
  | Some (OScalar x), Some (OScalar y) => sval_eqb x y
  | Some (OBool x), Some (OBool y) => Bool.eqb x y
  | Some (ORows x), Some (ORows y) => rows_eqb x y
  | Some (OBytes x), Some (OBytes y) => bytes_eqb x y
  | _, _ => false
  end.

(** structural equality of dumps (same reflection order on both sides) *)
Fixpoint dval_eqb (a b : dval) {struct a} : bool :=
  match a, b with
  | DInt x, DInt y => x =? y
  | DStr x, DStr y => bytes_eqb x y
  | DBytes x, DBytes y => bytes_eqb x y
  | DBool x, DBool y => Bool.eqb x y
  | DList x, DList y =>
      (fix rows (x y : list (list (string * dval))) {struct x} : bool :=
         match x, y with
         | [], [] => true
         | r :: x', s :: y' =>
             (fix row (r s : list (string * dval)) {struct r} : bool :=
                match r, s with
                | [], [] => true
                | (p, v) :: r', (q, w) :: s' => String.eqb p q && dval_eqb v w && row r' s'
                | _, _ => false
                end) r s && rows x' y'
         | _, _ => false
         end) x y
  | _, _ => false
  end.

Fixpoint dump_eqb (a b : dump) : bool :=
  match a, b with
  | [], [] => true
  | (p, v) :: a', (q, w) :: b' => String.eqb p q && dval_eqb v w && dump_eqb a' b'
  | _, _ => false
  end.

Definition rawres_eqb (a b : rawres) : bool :=
  match a, b with
  | RRConn, RRConn => true
  | RRUnknown x, RRUnknown y => x =? y
  | RRInvalid, RRInvalid => true
  | RROk t y d, RROk t' y' d' => (t =? t') && (y =? y') && dump_eqb d d'
  | _, _ => false
  end.

(** permission fields read as plain 32-bit fields: what a foreign peer put on the wire *)
Definition unperm_s (k : skind) : skind := match k with KPerm => KInt 4 | _ => k end.
Definition unperm_row (l : slayout) : slayout := map (fun nk => (fst nk, unperm_s (snd nk))) l.
Definition unperm_k (k : kind) : kind :=
  match k with KS s => KS (unperm_s s) | KList16 e => KList16 (unperm_row e) end.
Definition unperm (ml : mlayout) : mlayout :=
  {| ml_fixed := map (fun nk => (fst nk, unperm_k (snd nk))) (ml_fixed ml);
     ml_pay := match ml_pay ml with
               | PDirents c e entry => PDirents c e (unperm_row entry)
               | p => p
               end |}.

Fixpoint failing {A} (f : A -> bool) (i : nat) (l : list A) : list nat :=
  match l with
  | [] => []
  | c :: r => if f c then failing f (S i) r else i :: failing f (S i) r
  end.

(** ---- compact observations: positional values + a schema of field paths per type ---- *)
Inductive cval :=
| CI (le : list byte)            (* integer, little-endian bytes, high zero bytes dropped *)
| CS (s : list cseg)
| CB (s : list cseg)
| CT | CF
| CLs (rows : list (list cval)).

Inductive sch := SLeaf (p : string) | SRows (p : string) (cols : list string).

Definition leaf_dval (v : cval) : option dval :=
  match v with
  | CI le => Some (DInt (le_num le))
  | CS s => Some (DStr (expand s))
  | CB s => Some (DBytes (expand s))
  | CT => Some (DBool true)
  | CF => Some (DBool false)
  | CLs _ => None
  end.

Fixpoint mk_row (cols : list string) (vs : list cval) : option (list (string * dval)) :=
  match cols, vs with
  | [], [] => Some []
  | c :: cols', v :: vs' =>
      match leaf_dval v, mk_row cols' vs' with
      | Some d, Some r => Some ((c, d) :: r)
      | _, _ => None
      end
  | _, _ => None
  end.

Fixpoint mk_rows (cols : list string) (rows : list (list cval)) : option (list (list (string * dval))) :=
  match rows with
  | [] => Some []
  | r :: rs =>
      match mk_row cols r, mk_rows cols rs with
      | Some x, Some xs => Some (x :: xs)
      | _, _ => None
      end
  end.

Fixpoint mk_dump (s : list sch) (vs : list cval) : option dump :=
  match s, vs with
  | [], [] => Some []
  | SLeaf p :: s', v :: vs' =>
      match leaf_dval v, mk_dump s' vs' with
      | Some d, Some r => Some ((p, d) :: r)
      | _, _ => None
      end
  | SRows p cols :: s', CLs rows :: vs' =>
      match mk_rows cols rows, mk_dump s' vs' with
      | Some d, Some r => Some ((p, DList d) :: r)
      | _, _ => None
      end
  | _, _ => None
  end.

Definition schema := list (N * list sch).

Fixpoint schema_find (t : N) (sc : schema) : option (list sch) :=
  match sc with
  | [] => None
  | (u, s) :: r => if u =? t then Some s else schema_find t r
  end.

Inductive cres :=
| XConn
| XUnknown (tag : list byte)
| XInvalid
| XOk (tag : list byte) (typ : byte) (got : list cval)
| XSame.                          (* delivered, same tag and type, dump identical to the one sent *)

Definition mk_res (sc : schema) (sent : option (N * N * dump)) (r : cres) : option rawres :=
  match r with
  | XConn => Some RRConn
  | XUnknown t => Some (RRUnknown (le_num t))
  | XInvalid => Some RRInvalid
  | XOk t y got =>
      match schema_find (bN y) sc with
      | Some s => match mk_dump s got with Some d => Some (RROk (le_num t) (bN y) d) | None => None end
      | None => None
      end
  | XSame => match sent with Some (t, y, d) => Some (RROk t y d) | None => None end
  end.
