(** Codec/Pool.v — pooled byte buffers of p9/transport.go (dataPool) and of the server's Tread
    path (connState.readBufPool, rreadServerPayloader), with ARBITRARY previous content.
    Definitions only (proofs: PoolProofs.v).

    recv (appendBuffer):  data := *dataPool.Get();  if size > len(data) { data = make([]byte, size) }
                          else { data = data[:size] };  dataBuf = buffer{data: data};  vecs.ReadFrom(r) fills
                          the whole slice or recv fails.                     [gen_recv_buffer_exact]
    tread.handle:         dataBuf := *readBufPool.Get()  (msize bytes);  n, err = file.ReadAt(dataBuf[:count], off);
                          reply Data = dataBuf[:n], fullBuffer = dataBuf.    [gen_rread_data_is_n]
    PayloadCleanup:       copy(r.Data, pristineZeros);  readBufPool.Put(&fullBuffer)   (after send)
                                                                             [gen_cleanup_zeroes_before_put] *)
From Coq Require Import NArith List Bool.
Import ListNotations.
Open Scope N_scope.

Definition buf := list N.

(** the slice recv decodes from, given what the pool handed out *)
Definition pool_slice (prev : buf) (size : nat) : buf :=
  if Nat.ltb (List.length prev) size then repeat 0 size else firstn size prev.

(** the audit's mutant  buffer{data: data[:cap(data)]}: the stale tail stays visible *)
Definition pool_slice_stale (prev : buf) (size : nat) : buf :=
  if Nat.ltb (List.length prev) size then repeat 0 size else prev.

(** vecs.ReadFrom into a slice: all of it is overwritten from the stream, or the read fails;
    a longer slice keeps its tail *)
Definition read_full (slice : buf) (size : nat) (stream : list N) : option (buf * list N) :=
  if Nat.ltb (List.length stream) size then None
  else Some (firstn size stream ++ skipn size slice, skipn size stream).

(** what m.decode gets to see for a body of [size] bytes *)
Definition recv_buffer (prev : buf) (size : nat) (stream : list N) : option (buf * list N) :=
  read_full (pool_slice prev size) size stream.
Definition recv_buffer_stale (prev : buf) (size : nat) (stream : list N) : option (buf * list N) :=
  read_full (pool_slice_stale prev size) size stream.

(** ---- recv's appendBuffer as go2coq reads it (gen_recv_grow_cmp / gen_recv_decode_slice / gen_recv_read_slice) ----
    The pooled buffer is its visible content [prev] (up to its length) plus [hid], the bytes between its
    length and its capacity (send puts buffers back cut down, so earlier messages do sit there).
    A view of it: SFirst = x[:size], SLen = *datap, SCap = x[:cap(x)]. *)
Inductive slice := SFirst | SLen | SCap.

Definition view (sl : slice) (prev hid : buf) (size : nat) : buf :=
  match sl with SFirst => firstn size prev | SLen => prev | SCap => prev ++ hid end.

(** if size > len(<cmp view>) a new zeroed buffer of exactly [size] bytes is made *)
Definition grows (cmp : slice) (prev hid : buf) (size : nat) : bool :=
  Nat.ltb (List.length (match cmp with SCap => prev ++ hid | _ => prev end)) size.

(** what m.decode gets to see and what is left of the stream: ReadFrom fills the [rd] view completely (or recv
    fails); the [dec] view shares its memory from index 0, so whatever it has beyond that stays visible *)
Definition recv_buffer_g (cmp dec rd : slice) (prev hid : buf) (size : nat) (stream : list N) : option (buf * list N) :=
  if grows cmp prev hid size then read_full (repeat 0 size) size stream
  else
    let k := List.length (view rd prev hid size) in
    if Nat.ltb (List.length stream) k then None
    else Some (firstn k stream ++ skipn k (view dec prev hid size), skipn k stream).

(** ---- the server's read buffer ---- *)

(** one Tread: the backend writes [written] at the start of the buffer and reports n;
    returns the reply data and the buffer as the backend left it *)
Definition tread (b : buf) (written : list N) (n : nat) : list N * buf :=
  let b' := written ++ skipn (List.length written) b in (firstn n b', b').

(** PayloadCleanup: Data = fullBuffer[:n] is overwritten with zeros *)
Definition cleanup (b : buf) (n : nat) : buf := repeat 0 n ++ skipn n b.

Definition zero_buf (b : buf) : Prop := Forall (fun x => x = 0) b.

(** a backend call: what it writes and the count it reports.  Honest (io.ReaderAt): it has written
    all n bytes it reports.  Lazy: it reports n but wrote only a prefix, relying on zeros. *)
Definition call := (list N * nat)%type.
Definition call_ok (msize : nat) (c : call) : Prop := (List.length (fst c) <= snd c)%nat /\ (snd c <= msize)%nat.

(** replies of a sequence of Treads on one connection, the buffer going through the pool each time *)
Fixpoint treads (clean : bool) (b : buf) (cs : list call) : list (list N) :=
  match cs with
  | [] => []
  | (w, n) :: r =>
      let '(reply, b') := tread b w n in
      reply :: treads clean (if clean then cleanup b' n else b') r
  end.

(** what the backend meant: its bytes, then zeros up to the count it reported *)
Definition intended (c : call) : list N := fst c ++ repeat 0 (snd c - List.length (fst c)).
