(** Codec/SpecProofs.v — facts about the hand-written protocol table alone (no
    generated input): every layout is statically well formed, the frame theorem
    instantiated to the table, examples that the hypotheses are satisfiable. *)
From Coq Require Import NArith List String Bool Lia.
From P9V Require Import Codec.Layout Codec.LayoutProofs Codec.Frame Codec.FrameProofs Codec.Spec9P Codec.Dump.
Import ListNotations.
Open Scope N_scope.

Lemma spec_layouts_ok : forallb (fun m => ml_ok (sm_layout m)) spec = true.
Proof. vm_compute. reflexivity. Qed.

Lemma spec_count : List.length spec = 65%nat /\ List.length binding = 65%nat.
Proof. split; reflexivity. Qed.

Lemma spec_find_in t : forall l s, spec_find t l = Some s -> In s l /\ sm_typ s = t.
Proof.
  induction l as [|m l IH]; intros s H; cbn in H; [discriminate|].
  destruct (sm_typ m =? t) eqn:E.
  - inversion H; subst. split; [now left|now apply N.eqb_eq].
  - destruct (IH _ H) as [Hin Ht]. split; [now right|exact Ht].
Qed.

Lemma spec_lookup t s : spec_find t spec = Some s -> lookup t spec_registry = Some (sm_layout s).
Proof.
  unfold spec_registry. generalize spec. induction l as [|m l IH]; intros H; cbn in *; [discriminate|].
  destruct (sm_typ m =? t); [now inversion H|now apply IH].
Qed.

(** recv of what send wrote, for every message of the protocol table *)
Theorem spec_frame t s tag mv msize rest :
  spec_find t spec = Some s -> mwf (sm_layout s) mv = true -> tag < 65536 ->
  frame_size (sm_layout s) mv <= msize -> frame_size (sm_layout s) mv <= maximum_length ->
  recv msize spec_registry (send tag t (sm_layout s) mv ++ rest) = ROk tag t (mnorm (sm_layout s) mv) rest.
Proof.
  intros Hs Hwf Htag Hms Hmax.
  apply recv_send; try assumption.
  - now apply spec_lookup.
  - pose proof spec_layouts_ok as H. rewrite forallb_forall in H. apply H. now apply (spec_find_in t spec s).
Qed.

(** strings of 65536 bytes and more are outside [wf]: the 16-bit length prefix wraps and the
    decoder returns the empty string, leaving the bytes unread (recorded, not part of C01) *)
Lemma long_string_wraps :
  exists bs, len bs = 65536 /\
    match dec_s KStr (enc_s KStr (VStr bs)) with
    | Some (VStr s, r) => (len s =? 0) && bytes_eqb r bs
    | _ => false
    end = true.
Proof. exists (run_bytes 65536 7 3). split; vm_compute; reflexivity. Qed.

(** ---- the hypotheses are satisfiable by non-trivial values ---- *)
Definition ex_twalk : mval :=
  {| mv_fixed := [VS (VInt 4294967295); VS (VInt 0); VList [[VStr (run_bytes 40000 97 1)]; [VStr []]; [VStr [0; 47; 255]]]];
     mv_pay := PVNone |}.

Definition ex_tsetattr : mval :=
  {| mv_fixed := map VS [VInt 1; VMask (repeat true 9); VInt 33261 (* 0o100755: high bits set *); VInt 4294967295; VInt 4294967295;
                         VInt 18446744073709551615; VInt 0; VInt 1; VInt 2; VInt 3];
     mv_pay := PVNone |}.

Definition ex_rreaddir : mval :=
  {| mv_fixed := [];
     mv_pay := PVDirents 60 [[VInt 128; VInt 1; VInt 2; VInt 1; VInt 4; VStr [97]];
                             [VInt 0; VInt 1; VInt 3; VInt 2; VInt 8; VStr [98; 99]];
                             [VInt 0; VInt 1; VInt 4; VInt 3; VInt 8; VStr [100]]] |}.

Definition layout_of_typ (t : N) : mlayout :=
  match spec_find t spec with Some s => sm_layout s | None => {| ml_fixed := []; ml_pay := PNone |} end.

Example ex_twalk_wf : mwf (layout_of_typ 110) ex_twalk = true /\ frame_size (layout_of_typ 110) ex_twalk = 40026.
Proof. split; vm_compute; reflexivity. Qed.

Example ex_tsetattr_wf_and_norm :
  mwf (layout_of_typ 26) ex_tsetattr = true /\
  nth 2 (mv_fixed (mnorm (layout_of_typ 26) ex_tsetattr)) (VS (VInt 0)) = VS (VInt 493) (* 0o755 *).
Proof. split; vm_compute; reflexivity. Qed.

(** Count = 60 holds two entries (25 + 26 bytes), the third is dropped and Count becomes 51 *)
Example ex_rreaddir_truncated :
  mwf (layout_of_typ 41) ex_rreaddir = true /\
  match mv_pay (mnorm (layout_of_typ 41) ex_rreaddir) with PVDirents c rows => c = 51 /\ List.length rows = 2%nat | _ => False end.
Proof. split; vm_compute; [reflexivity|split; reflexivity]. Qed.

Example ex_sentinels : forall rest,
  recv 8192 spec_registry (send 65535 120 (layout_of_typ 120) {| mv_fixed := [VS (VInt 4294967295)]; mv_pay := PVNone |} ++ rest)
  = ROk 65535 120 {| mv_fixed := [VS (VInt 4294967295)]; mv_pay := PVNone |} rest.
Proof.
  intros rest.
  destruct (spec_find 120 spec) as [s|] eqn:E; [|discriminate E].
  pose proof (spec_frame 120 s 65535 {| mv_fixed := [VS (VInt 4294967295)]; mv_pay := PVNone |} 8192 rest E) as H.
  vm_compute in E. inversion E; subst s; clear E.
  apply H; vm_compute; try reflexivity; discriminate.
Qed.
