(** Refs/FenceProofs.v — C08 fencing and C05 error paths on Refs/Model.v, for every
    backend and every state: a request through a fid whose path node is marked
    deleted is answered EINVAL (ENOENT for a walk to a child) by the guard, the
    handler body making NO backend call; walkOne closes the File it obtained on
    each of its error paths; after markChildDeleted the name has no path node,
    so a later walk/create binds a fresh, non-deleted node. *)
From Coq Require Import List Arith Bool ZArith Lia.
From P9V Require Import Refs.Model Refs.RefProofs Refs.RefStep.
Import ListNotations.

Section Fence.
Variable B : Type.
Variable bstep : B -> bcall -> B * bans.
Notation st := (sstate B).
Notation gref := (get_ref B).

Lemma gref_hold_fields r q (s : st) :
  let x := gref (hold B r s) q in let y := gref s q in
  fr_node x = fr_node y /\ fr_mode x = fr_mode y /\ fr_opened x = fr_opened y /\ fr_parent x = fr_parent y /\
  fr_file x = fr_file y /\ fr_xop x = fr_xop y /\ fr_oflags x = fr_oflags y /\ fr_xattrOf x = fr_xattrOf y.
Proof.
  cbv zeta. change (gref (hold B r s) q) with (gref (incref B r s) q). unfold incref.
  destruct (Nat.eq_dec r q) as [<-|N].
  - destruct (Nat.lt_ge_cases r (length (s_refs B s))) as [L|L].
    + rewrite gref_set_same by auto. cbn. repeat split.
    + unfold set_ref. rewrite upd_oob by auto. destruct s; cbn. repeat split.
  - rewrite gref_set_other by auto. repeat split.
Qed.

Lemma deleted_hold r q (s : st) : is_deleted B (hold B r s) q = is_deleted B s q.
Proof. unfold is_deleted. destruct (gref_hold_fields r q s) as (-> & _). reflexivity. Qed.

Lemma dir_guard_deleted (s : st) r : is_deleted B s r = true -> dir_guard B s r = Some EINVAL.
Proof. intros H. unfold dir_guard. rewrite H. reflexivity. Qed.

(** the fenced single-fid requests *)
Definition fenced1 (o : op) (c fid : nat) : Prop :=
  match o with
  | OOpen c' f _ | OCreate c' f _ _ | OMk _ c' f _ | OSetAttr c' f | OReaddir c' f | OUnlinkAt c' f _
  | OXattrWalk c' f _ | OXattrCreate c' f => c' = c /\ f = fid
  | _ => False
  end.

Theorem fenced_single o c fid r (s : st) :
  fenced1 o c fid -> alookup peqb (c, fid) (s_fids B s) = Some r -> is_deleted B s r = true ->
  step B bstep o s = (rerr EINVAL, release B bstep r (hold B r s)).
Proof.
  intros F E D. pose proof (deleted_hold r r s) as DH. rewrite D in DH.
  destruct o; cbn in F; try tauto; destruct F as (-> & ->); cbn [step];
    unfold do_open, do_create, do_mk, do_setattr, do_readdir, do_unlinkat, do_xattrwalk, do_xattrcreate, with_fid, lookup_fid;
    rewrite E; cbv zeta; try rewrite (dir_guard_deleted _ _ DH); try rewrite DH; cbn; reflexivity.
Qed.

(** two-fid requests: the guard inside both LookupFID brackets *)
Theorem fenced_renameat_body (s : st) r t oldnm newnm :
  is_deleted B s r = true \/ is_deleted B s t = true ->
  (let x := gref s r in let y := gref s t in
   if is_deleted B s r || negb (is_dir (fr_mode x)) || is_deleted B s t || negb (is_dir (fr_mode y)) then (rerr EINVAL, s)
   else if fr_opened x then (rerr EINVAL, s)
   else if (fr_node x =? fr_node y) && (oldnm =? newnm) then (rok 0, s)
   else (rok 1, s)) = (rerr EINVAL, s).
Proof. intros [H|H]; cbv zeta; rewrite H; rewrite ?orb_true_r; reflexivity. Qed.

Theorem fenced_link_body (s : st) r t nm :
  is_deleted B s r = true ->
  guarded_call B bstep r (dir_guard B s r) (BLink (fr_file (gref s r)) (fr_file (gref s t)) nm) s = (rerr EINVAL, s).
Proof. intros H. rewrite dir_guard_deleted by auto. reflexivity. Qed.

(** a walk to a child from a deleted directory: ENOENT, no backend call *)
Theorem fenced_walk c fid newfid nm rest g r (s : st) :
  alookup peqb (c, fid) (s_fids B s) = Some r -> is_deleted B s r = true ->
  is_dir (fr_mode (gref s r)) = true -> fr_opened (gref s r) && (fid =? newfid) = false ->
  step B bstep (OWalk c fid newfid (nm :: rest) g) s =
    (rerr ENOENT, release B bstep r (release B bstep r (hold B r (hold B r s)))).
Proof.
  intros E D M O. cbn [step]. unfold do_walk_op, with_fid, lookup_fid. rewrite E.
  destruct (gref_hold_fields r r s) as (_ & M1 & O1 & _). cbv zeta in M1, O1. rewrite O1, O.
  unfold do_walk. cbn [walk_steps].
  destruct (gref_hold_fields r r (hold B r s)) as (_ & M2 & _). cbv zeta in M2. rewrite M2, M1, M. cbn [negb].
  rewrite !deleted_hold, D. reflexivity.
Qed.

(** the deferred DecRef of the bracket calls nothing when the fid table still holds the fidRef *)
Theorem bracket_no_call r (s : st) :
  (0 < fr_refs (gref s r))%Z -> s_log B (release B bstep r (hold B r s)) = s_log B s.
Proof.
  intros L. assert (Lr : r < length (s_refs B s)).
  { destruct (Nat.lt_ge_cases r (length (s_refs B s))); auto. unfold get_ref in L. rewrite nth_overflow in L by auto. cbn in L. lia. }
  unfold release, decref_, fuel_of. cbn [decref].
  set (s1 := with_held B _ (hold B r s)).
  assert (G : gref s1 r = fr_with_refs (gref s r) (fr_refs (gref s r) + 1)).
  { change (gref s1 r) with (gref (incref B r s) r). unfold incref. apply gref_set_same; auto. }
  rewrite G. cbn [fr_refs fr_with_refs].
  destruct (Z.eqb_spec (fr_refs (gref s r) + 1 - 1) 0); [lia|]. reflexivity.
Qed.

(** ---- walkOne: every error path closes the File it obtained; success hands out the next handle ---- *)
Theorem walk_one_handles from_h from_node nm getattr (s : st) :
  let nh := s_nexth B s in
  let r := walk_one B bstep from_h from_node nm getattr s in
  match fst r with
  | WOk h _ _ => h = nh /\ s_nexth B (snd r) = S nh
  | WFail _ => s_nexth B (snd r) = nh \/ (s_nexth B (snd r) = S nh /\ hd_error (s_log B (snd r)) = Some (BClose nh))
  end.
Proof.
  cbv zeta. unfold walk_one, bcall_, path_node_for, take_handle.
  destruct getattr, nm as [x|]; cbn;
  repeat (match goal with
          | |- context [bstep ?b ?c] => let a := fresh "a" in destruct (bstep b c) as [? a]; destruct a; cbn
          | |- context [if ?b then _ else _] => destruct b; cbn
          | |- context [alookup ?e ?k ?l] => destruct (alookup e k l); cbn
          end); auto.
Qed.

(** ---- after markChildDeleted the name has no path node (later bindings get a fresh one) ---- *)
Definition gnode := get_node B.

Lemma gnode_set_nodes n x (s : st) m :
  pn_nodes (gnode (set_node B n x s) m) = if (m =? n) && (n <? length (s_nodes B s)) then pn_nodes x else pn_nodes (gnode s m).
Proof.
  unfold gnode, get_node, set_node. cbn [s_nodes with_nodes].
  destruct (Nat.eqb_spec m n) as [->|N]; cbn [andb].
  - destruct (Nat.ltb_spec n (length (s_nodes B s))); [rewrite nth_upd_same by auto; reflexivity | rewrite upd_oob by auto; reflexivity].
  - rewrite nth_upd_other by auto. reflexivity.
Qed.

Definition nodes_same (s s' : st) : Prop :=
  length (s_nodes B s') = length (s_nodes B s) /\ forall m, pn_nodes (gnode s' m) = pn_nodes (gnode s m).

Lemma nodes_same_refl s : nodes_same s s. Proof. split; auto. Qed.
Lemma nodes_same_trans a b c : nodes_same a b -> nodes_same b c -> nodes_same a c.
Proof. intros (L1 & H1) (L2 & H2). split; [congruence|]. intros m. rewrite H2, H1. reflexivity. Qed.

Lemma ns_set_node n x (s : st) : pn_nodes x = pn_nodes (gnode s n) -> nodes_same s (set_node B n x s).
Proof.
  intros E. split; [cbn; apply upd_length|]. intros m. rewrite gnode_set_nodes.
  destruct (Nat.eqb_spec m n) as [->|N]; cbn [andb]; auto. destruct (n <? length (s_nodes B s)); auto.
Qed.

Lemma ns_fold {A} (f : A -> st -> st) (l : list A) :
  (forall a s, nodes_same s (f a s)) -> forall s, nodes_same s (fold_left (fun st a => f a st) l s).
Proof.
  intros H. induction l as [|a l IH]; intros s; cbn; [apply nodes_same_refl|].
  eapply nodes_same_trans; [apply H | apply IH].
Qed.

Lemma ns_notify_delete fuel : forall n s, nodes_same s (notify_delete B fuel n s).
Proof.
  induction fuel as [|f IH]; intros n s; cbn [notify_delete]; [split; [reflexivity | intros; reflexivity]|].
  eapply nodes_same_trans; [apply (ns_set_node n (pn_with_deleted (get_node B s n))); reflexivity|].
  apply (ns_fold (fun c st => notify_delete B f (snd c) st)). intros a s0. apply IH.
Qed.

Lemma ns_rwn_none n nm m : forall held s, nodes_same s (snd (rwn_loop B n nm None m held s)).
Proof.
  induction m as [|r m IH]; intros held s; cbn [rwn_loop]; [apply nodes_same_refl|]. cbv zeta.
  eapply nodes_same_trans; [|apply IH]. apply ns_set_node. reflexivity.
Qed.

Lemma held_rwn_none n nm m : forall held s, fst (rwn_loop B n nm None m held s) = held.
Proof. induction m as [|r m IH]; intros held s; cbn; auto. Qed.

Lemma alookup_adel_same nm (l : list (nat * nat)) : alookup Nat.eqb nm (adel Nat.eqb nm l) = None.
Proof.
  induction l as [|[k v] l IH]; cbn; auto. destruct (Nat.eqb_spec nm k); cbn; auto.
  destruct (Nat.eqb_spec nm k); [congruence | auto].
Qed.

Theorem unlinked_name_has_no_node n nm (s : st) :
  n < length (s_nodes B s) ->
  alookup Nat.eqb nm (pn_nodes (gnode (mark_child_deleted B bstep n nm s) n)) = None.
Proof.
  intros L. unfold mark_child_deleted, remove_with_name.
  set (lp := match alookup Nat.eqb nm (pn_refs (get_node B s n)) with
             | Some m => rwn_loop B n nm None m [] s | None => ([], s) end).
  assert (H1 : fst lp = [] /\ nodes_same s (snd lp)).
  { unfold lp. destruct (alookup Nat.eqb nm (pn_refs (get_node B s n))); [|split; [reflexivity | apply nodes_same_refl]].
    split; [apply held_rwn_none | apply ns_rwn_none]. }
  destruct lp as [held s1]. cbn [fst snd] in H1. destruct H1 as (-> & (L1 & N1)). cbn [release_all].
  set (s2 := set_node B n _ s1).
  assert (E2 : pn_nodes (gnode s2 n) = adel Nat.eqb nm (pn_nodes (gnode s1 n))).
  { unfold s2. rewrite gnode_set_nodes, Nat.eqb_refl. cbn [andb].
    destruct (Nat.ltb_spec n (length (s_nodes B s1))); [reflexivity | lia]. }
  destruct (alookup Nat.eqb nm (pn_nodes (get_node B s1 n))) as [c|].
  - destruct (ns_notify_delete (node_fuel B s2) c s2) as (_ & N3). rewrite N3, E2. apply alookup_adel_same.
  - rewrite E2. apply alookup_adel_same.
Qed.

(** ... so that the next walk / create of that name allocates a new node, which is not deleted *)
Theorem fresh_node_not_deleted n nm (s : st) :
  alookup Nat.eqb nm (pn_nodes (gnode s n)) = None -> n < length (s_nodes B s) ->
  let '(c, s') := path_node_for B n nm s in
  c = length (s_nodes B s) /\ pn_deleted (get_node B s' c) = false.
Proof.
  intros E L. unfold path_node_for. unfold gnode in E. rewrite E. split; [reflexivity|].
  unfold get_node, set_node; cbn. rewrite nth_upd_other by lia.
  rewrite app_nth2 by lia. rewrite Nat.sub_diag. reflexivity.
Qed.

(** renameChildTo's callback tells the moved fidRef its new parent File and new name; only the DecRef
    of the original parent (possibly Close calls) follows *)
Theorem rename_cb_notifies tgt newnm r p (s : st) :
  fr_parent (gref s r) = Some p ->
  exists s2 s3, rename_cb B bstep tgt newnm r s = snd (decref_ B bstep p s3) /\
                hd_error (s_log B s3) = Some (BRenamed (fr_file (gref s2 r)) (fr_file (gref s2 tgt)) newnm).
Proof.
  intros E. unfold rename_cb. rewrite E. eexists. eexists. split; [reflexivity|]. unfold bcall_.
  match goal with |- context [bstep ?b ?c] => destruct (bstep b c) end. cbn. reflexivity.
Qed.

(** an xattr fid cannot be cloned: EINVAL, no backend call in the handler, nothing bound *)
Theorem xattr_clone_refused c fid newfid g r o (s : st) :
  alookup peqb (c, fid) (s_fids B s) = Some r -> fr_xattrOf (gref s r) = Some o ->
  fr_opened (gref s r) && (fid =? newfid) = false ->
  step B bstep (OWalk c fid newfid [] g) s = (rerr EINVAL, release B bstep r (hold B r s)).
Proof.
  intros E X O. cbn [step]. unfold do_walk_op, with_fid, lookup_fid. rewrite E.
  destruct (gref_hold_fields r r s) as (_ & _ & O1 & _ & _ & _ & _ & X1). cbv zeta in O1, X1. rewrite O1, O.
  unfold do_walk. rewrite X1, X. reflexivity.
Qed.

(** ---- notifyDelete marks the whole subtree of the victim ---- *)
Definition ndel (s : st) (m : nat) : bool := pn_deleted (get_node B s m).
Definition nlen (s : st) : nat := length (s_nodes B s).

Lemma ndel_set_node n x (s : st) m :
  ndel (set_node B n x s) m = if (m =? n) && (n <? nlen s) then pn_deleted x else ndel s m.
Proof.
  unfold ndel, nlen, get_node, set_node. cbn [s_nodes with_nodes].
  destruct (Nat.eqb_spec m n) as [->|N]; cbn [andb].
  - destruct (Nat.ltb_spec n (length (s_nodes B s))); [rewrite nth_upd_same by auto; reflexivity | rewrite upd_oob by auto; reflexivity].
  - rewrite nth_upd_other by auto. reflexivity.
Qed.

(** deletion marks are never taken back by notifyDelete *)
Definition del_mono (s s' : st) : Prop := forall m, ndel s m = true -> ndel s' m = true.

Lemma dm_fold {A} (f : A -> st -> st) (l : list A) :
  (forall a s, del_mono s (f a s)) -> forall s, del_mono s (fold_left (fun st a => f a st) l s).
Proof.
  intros H. induction l as [|a l IH]; intros s m Hm; cbn; auto. apply IH. apply H. exact Hm.
Qed.

Lemma dm_notify_delete fuel : forall n s, del_mono s (notify_delete B fuel n s).
Proof.
  induction fuel as [|f IH]; intros n s m Hm; cbn [notify_delete]; [exact Hm|].
  apply (dm_fold (fun c st => notify_delete B f (snd c) st)); [intros a s0; apply IH|].
  rewrite ndel_set_node. destruct ((m =? n) && (n <? nlen s)); auto.
Qed.

(** [reach s n c k]: c is k childNodes-edges below n *)
Fixpoint reach (s : st) (n c k : nat) : Prop :=
  match k with
  | 0 => n = c
  | S k' => exists nm c1, In (nm, c1) (pn_nodes (gnode s n)) /\ c1 < nlen s /\ reach s c1 c k'
  end.

Lemma reach_nodes_same s s' n c k : nodes_same s s' -> reach s n c k -> reach s' n c k.
Proof.
  intros (L & N). revert n. induction k as [|k IH]; intros n; cbn; auto.
  intros (nm & c1 & Hin & Hl & R). exists nm, c1. rewrite N. unfold nlen in *. rewrite L. auto.
Qed.

Theorem notify_delete_marks fuel : forall n s c k,
  k < fuel -> n < nlen s -> reach s n c k -> ndel (notify_delete B fuel n s) c = true.
Proof.
  induction fuel as [|f IH]; intros n s c k Hk Hn R; [lia|]. cbn [notify_delete].
  set (s1 := set_node B n (pn_with_deleted (get_node B s n)) s).
  assert (NS1 : nodes_same s s1) by (apply ns_set_node; reflexivity).
  destruct k as [|k].
  - cbn in R. subst c.
    apply (dm_fold (fun c st => notify_delete B f (snd c) st)); [intros a s0; apply dm_notify_delete|].
    unfold s1. rewrite ndel_set_node, Nat.eqb_refl. cbn [andb].
    destruct (Nat.ltb_spec n (nlen s)); [reflexivity | lia].
  - cbn in R. destruct R as (nm & c1 & Hin & Hl & R).
    assert (Child : forall s', nodes_same s s' -> ndel (notify_delete B f c1 s') c = true).
    { intros s' NS. apply (IH c1 s' c k); [lia | destruct NS as (L & _); unfold nlen in *; lia | eapply reach_nodes_same; eauto]. }
    assert (Fold : forall l s0, nodes_same s s0 -> In (nm, c1) l ->
              ndel (fold_left (fun st a => notify_delete B f (snd a) st) l s0) c = true).
    { induction l as [|a l IHl]; intros s0 NS0 Hl0; [contradiction|]. cbn [fold_left]. destruct Hl0 as [->|Hl0].
      - cbn [snd]. apply (dm_fold (fun a st => notify_delete B f (snd a) st)); [intros a s2; apply dm_notify_delete|].
        apply Child; auto.
      - apply IHl; auto. eapply nodes_same_trans; [exact NS0 | apply ns_notify_delete]. }
    apply Fold; auto.
Qed.

(** C08_fenced, completeness: after markChildDeleted every path node at or below the victim (in the
    tree from which the victim has been detached) carries the deleted mark - whatever the shape of the
    node graph: the fuel is the number of nodes + 1, enough for every simple path - hence every fidRef
    whose node is at or below the victim is fenced ([is_deleted] reads that mark). *)
Definition detached (n nm : nat) (s : st) : st := snd (remove_with_name B bstep n nm None s).

Theorem mark_child_deleted_marks_subtree n nm v c k (s : st) :
  alookup Nat.eqb nm (pn_nodes (gnode s n)) = Some v -> v < nlen s ->
  reach (detached n nm s) v c k -> k <= nlen s ->
  ndel (mark_child_deleted B bstep n nm s) c = true.
Proof.
  intros Ev Hv R Hk. unfold mark_child_deleted. unfold detached in R.
  assert (NS : nodes_same s (snd (remove_with_name B bstep n nm None s)) \/ True) by (right; exact I).
  assert (O : fst (remove_with_name B bstep n nm None s) = Some v /\ nlen (snd (remove_with_name B bstep n nm None s)) = nlen s).
  { unfold remove_with_name.
    set (lp := match alookup Nat.eqb nm (pn_refs (get_node B s n)) with
               | Some m => rwn_loop B n nm None m [] s | None => ([], s) end).
    assert (H1 : fst lp = [] /\ nodes_same s (snd lp)).
    { unfold lp. destruct (alookup Nat.eqb nm (pn_refs (get_node B s n))); [|split; [reflexivity | apply nodes_same_refl]].
      split; [apply held_rwn_none | apply ns_rwn_none]. }
    destruct lp as [held s1]. cbn [fst snd] in H1. destruct H1 as (-> & (L1 & N1)). cbn [release_all fst snd].
    split; [change (get_node B s1 n) with (gnode s1 n); rewrite N1; exact Ev|].
    unfold nlen, set_node. cbn. rewrite upd_length. exact L1. }
  destruct (remove_with_name B bstep n nm None s) as [orig s2]. cbn [fst snd] in *. destruct O as (-> & L2).
  apply (notify_delete_marks (node_fuel B s2) v s2 c k); auto.
  - unfold node_fuel. unfold nlen in *. lia.
  - lia.
Qed.

(** ... in particular a fidRef whose node is there is fenced afterwards *)
Corollary fenced_below_victim n nm v k r (s : st) :
  alookup Nat.eqb nm (pn_nodes (gnode s n)) = Some v -> v < nlen s ->
  reach (detached n nm s) v (fr_node (gref s r)) k -> k <= nlen s ->
  is_deleted B (mark_child_deleted B bstep n nm s) r = true.
Proof.
  intros Ev Hv R Hk. unfold is_deleted.
  destruct (sc_mark_child_deleted B bstep n nm s) as (_ & _ & E & _).
  unfold get_ref at 1. rewrite E. fold (get_ref B s r).
  apply (mark_child_deleted_marks_subtree n nm v _ k s Ev Hv R Hk).
Qed.
End Fence.
