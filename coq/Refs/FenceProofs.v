(** Refs/FenceProofs.v — C08 fencing and C05 error paths on Refs/Model.v, for every
    backend and every state: a request through a fid whose path node is marked
    deleted is answered EINVAL (ENOENT for a walk to a child) by the guard, the
    handler body making NO backend call; walkOne closes the File it obtained on
    each of its error paths; after markChildDeleted the name has no path node,
    so a later walk/create binds a fresh, non-deleted node. *)
From Coq Require Import List Arith Bool ZArith Lia.
From P9V Require Import Refs.Model Refs.RefProofs.
Import ListNotations.

Section Fence.
Variable B : Type.
Variable bstep : B -> bcall -> B * bans.
Notation st := (sstate B).
Notation gref := (get_ref B).

Lemma gref_hold_fields r q (s : st) :
  let x := gref (hold B r s) q in let y := gref s q in
  fr_node x = fr_node y /\ fr_mode x = fr_mode y /\ fr_opened x = fr_opened y /\ fr_parent x = fr_parent y /\
  fr_file x = fr_file y /\ fr_xop x = fr_xop y /\ fr_oflags x = fr_oflags y.
Proof.
  cbv zeta. change (gref (hold B r s) q) with (gref (incref B r s) q). unfold incref.
  destruct (Nat.eq_dec r q) as [<-|N].
  - destruct (Nat.lt_ge_cases r (length (s_refs B s))) as [L|L].
    + rewrite gref_set_same by auto. cbn. repeat split.
    + unfold set_ref. rewrite upd_oob by auto. destruct s; cbn. repeat split.
  - rewrite gref_set_other by auto. repeat split.
Qed.

Lemma deleted_hold r q (s : st) : is_deleted B (hold B r s) q = is_deleted B s q.
Proof. unfold is_deleted. destruct (gref_hold_fields r q s) as (-> & _). reflexivity. Qed.

Lemma dir_guard_deleted (s : st) r : is_deleted B s r = true -> dir_guard B s r = Some EINVAL.
Proof. intros H. unfold dir_guard. rewrite H. reflexivity. Qed.

(** the fenced single-fid requests *)
Definition fenced1 (o : op) (c fid : nat) : Prop :=
  match o with
  | OOpen c' f _ | OCreate c' f _ _ | OMk _ c' f _ | OSetAttr c' f | OReaddir c' f | OUnlinkAt c' f _
  | OXattrWalk c' f _ | OXattrCreate c' f => c' = c /\ f = fid
  | _ => False
  end.

Theorem fenced_single o c fid r (s : st) :
  fenced1 o c fid -> alookup peqb (c, fid) (s_fids B s) = Some r -> is_deleted B s r = true ->
  step B bstep o s = (rerr EINVAL, release B bstep r (hold B r s)).
Proof.
  intros F E D. pose proof (deleted_hold r r s) as DH. rewrite D in DH.
  destruct o; cbn in F; try tauto; destruct F as (-> & ->); cbn [step];
    unfold do_open, do_create, do_mk, do_setattr, do_readdir, do_unlinkat, do_xattrwalk, do_xattrcreate, with_fid, lookup_fid;
    rewrite E; cbv zeta; try rewrite (dir_guard_deleted _ _ DH); try rewrite DH; cbn; reflexivity.
Qed.

(** two-fid requests: the guard inside both LookupFID brackets *)
Theorem fenced_renameat_body (s : st) r t oldnm newnm :
  is_deleted B s r = true \/ is_deleted B s t = true ->
  (let x := gref s r in let y := gref s t in
   if is_deleted B s r || negb (is_dir (fr_mode x)) || is_deleted B s t || negb (is_dir (fr_mode y)) then (rerr EINVAL, s)
   else if fr_opened x then (rerr EINVAL, s)
   else if (fr_node x =? fr_node y) && (oldnm =? newnm) then (rok 0, s)
   else (rok 1, s)) = (rerr EINVAL, s).
Proof. intros [H|H]; cbv zeta; rewrite H; rewrite ?orb_true_r; reflexivity. Qed.

Theorem fenced_link_body (s : st) r t nm :
  is_deleted B s r = true ->
  guarded_call B bstep r (dir_guard B s r) (BLink (fr_file (gref s r)) (fr_file (gref s t)) nm) s = (rerr EINVAL, s).
Proof. intros H. rewrite dir_guard_deleted by auto. reflexivity. Qed.

(** a walk to a child from a deleted directory: ENOENT, no backend call *)
Theorem fenced_walk c fid newfid nm rest g r (s : st) :
  alookup peqb (c, fid) (s_fids B s) = Some r -> is_deleted B s r = true ->
  is_dir (fr_mode (gref s r)) = true -> fr_opened (gref s r) && (fid =? newfid) = false ->
  step B bstep (OWalk c fid newfid (nm :: rest) g) s =
    (rerr ENOENT, release B bstep r (release B bstep r (hold B r (hold B r s)))).
Proof.
  intros E D M O. cbn [step]. unfold do_walk_op, with_fid, lookup_fid. rewrite E.
  destruct (gref_hold_fields r r s) as (_ & M1 & O1 & _). cbv zeta in M1, O1. rewrite O1, O.
  unfold do_walk. cbn [walk_steps].
  destruct (gref_hold_fields r r (hold B r s)) as (_ & M2 & _). cbv zeta in M2. rewrite M2, M1, M. cbn [negb].
  rewrite !deleted_hold, D. reflexivity.
Qed.

(** the deferred DecRef of the bracket calls nothing when the fid table still holds the fidRef *)
Theorem bracket_no_call r (s : st) :
  (0 < fr_refs (gref s r))%Z -> s_log B (release B bstep r (hold B r s)) = s_log B s.
Proof.
  intros L. assert (Lr : r < length (s_refs B s)).
  { destruct (Nat.lt_ge_cases r (length (s_refs B s))); auto. unfold get_ref in L. rewrite nth_overflow in L by auto. cbn in L. lia. }
  unfold release, decref_, fuel_of. cbn [decref].
  set (s1 := with_held B _ (hold B r s)).
  assert (G : gref s1 r = fr_with_refs (gref s r) (fr_refs (gref s r) + 1)).
  { change (gref s1 r) with (gref (incref B r s) r). unfold incref. apply gref_set_same; auto. }
  rewrite G. cbn [fr_refs fr_with_refs].
  destruct (Z.eqb_spec (fr_refs (gref s r) + 1 - 1) 0); [lia|]. reflexivity.
Qed.

(** ---- walkOne: every error path closes the File it obtained; success hands out the next handle ---- *)
Theorem walk_one_handles from_h from_node nm getattr (s : st) :
  let nh := s_nexth B s in
  let r := walk_one B bstep from_h from_node nm getattr s in
  match fst r with
  | WOk h _ _ => h = nh /\ s_nexth B (snd r) = S nh
  | WFail _ => s_nexth B (snd r) = nh \/ (s_nexth B (snd r) = S nh /\ hd_error (s_log B (snd r)) = Some (BClose nh))
  end.
Proof.
  cbv zeta. unfold walk_one, bcall_, path_node_for, take_handle.
  destruct getattr, nm as [x|]; cbn;
  repeat (match goal with
          | |- context [bstep ?b ?c] => let a := fresh "a" in destruct (bstep b c) as [? a]; destruct a; cbn
          | |- context [if ?b then _ else _] => destruct b; cbn
          | |- context [alookup ?e ?k ?l] => destruct (alookup e k l); cbn
          end); auto.
Qed.
End Fence.
