(** Refs/CoherentRenLoop.v — C08_coherent, level 0 of a rename: the loop of
    removeWithName over childRefs[old name] with renameChildTo's callback.
    Every fidRef of the list that is live when visited is re-parented to the
    target and its File is told target-path/new-name; nothing else changes a
    File path; registrations of the other nodes only lose dead fidRefs.  (pathB) *)
From Coq Require Import List Arith Bool ZArith Lia.
From P9V Require Import Refs.Model Refs.PathFS Refs.RefProofs Refs.RefStep Refs.FenceProofs Refs.NotifiedDeep
  Refs.CoherentTree Refs.CoherentDefs Refs.CoherentFs Refs.CoherentFrame Refs.CoherentStep Refs.CoherentRenFs Refs.CoherentRenFrame.
Import ListNotations.

(** [rframe], plus: registrations of the nodes other than n1, n2 only lose dead fidRefs *)
Record lframe (n1 n2 : nat) (s s' : st) : Prop := mkLF {
  LF_rf : rframe s s';
  LF_sub : forall n q nm, n <> n1 -> n <> n2 -> inreg s' n q nm -> inreg s n q nm;
  LF_keep : rkeys s -> forall n q nm, n <> n1 -> n <> n2 -> inreg s n q nm -> live s' q -> inreg s' n q nm }.

Lemma lf_refl n1 n2 s : lframe n1 n2 s s.
Proof. constructor; auto. apply rf_refl. Qed.

Lemma lf_trans n1 n2 a b c : lframe n1 n2 a b -> lframe n1 n2 b c -> lframe n1 n2 a c.
Proof.
  intros X Y. constructor.
  - eapply rf_trans; [apply X | apply Y].
  - intros n q nm N1 N2 H. apply (LF_sub _ _ _ _ X); auto. apply (LF_sub _ _ _ _ Y); auto.
  - intros K n q nm N1 N2 H L. apply (LF_keep _ _ _ _ Y); auto.
    + apply (RF_keys _ _ (LF_rf _ _ _ _ X)). exact K.
    + apply (LF_keep _ _ _ _ X); auto. apply (RF_live _ _ (LF_rf _ _ _ _ Y)). exact L.
Qed.

Lemma lf_of_cf n1 n2 s s' : cframe s s' -> lframe n1 n2 s s'.
Proof. intros X. constructor; [apply X | intros; apply (CF_sub _ _ X); auto | intros; apply (CF_keep _ _ X); auto]. Qed.

(** a node among n1, n2 gets other registrations *)
Lemma lf_set_node n1 n2 n x (s : st) : n = n1 \/ n = n2 ->
  pn_nodes x = pn_nodes (gnode s n) -> pn_deleted x = pn_deleted (gnode s n) ->
  (pkeys (gnode s n) -> pkeys x) -> lframe n1 n2 s (set_node pfs n x s).
Proof.
  intros Hn E D Kx.
  assert (GN : forall m, gnode (set_node pfs n x s) m = if (m =? n) && (n <? nlen s) then x else gnode s m) by (intros; apply gnode_set_node).
  assert (Oth : forall m, m <> n1 -> m <> n2 -> gnode (set_node pfs n x s) m = gnode s m).
  { intros m A1 A2. rewrite GN. destruct (Nat.eqb_spec m n); [destruct Hn; congruence | reflexivity]. }
  constructor.
  - constructor; auto.
    + unfold nlen, set_node. cbn. apply upd_length.
    + intros m. rewrite GN. destruct ((m =? n) && (n <? nlen s)) eqn:X; auto.
      apply andb_prop in X. destruct X as (X & _). apply Nat.eqb_eq in X. subst m. auto.
    + intros q. repeat split; auto.
    + intros K m. rewrite GN. destruct ((m =? n) && (n <? nlen s)) eqn:X; [|apply K].
      apply andb_prop in X. destruct X as (X & _). apply Nat.eqb_eq in X. subst m. apply Kx. apply K.
  - intros m q nm A1 A2. unfold inreg. rewrite Oth by auto. auto.
  - intros _ m q nm A1 A2. unfold inreg. rewrite Oth by auto. auto.
Qed.

Lemma lf_add_child n1 n2 n r nm (s : st) : n = n1 \/ n = n2 -> lframe n1 n2 s (add_child pfs n r nm s).
Proof.
  intros Hn. unfold add_child. destruct (alookup _ _ _); [apply lf_of_cf; apply cf_set_panic|].
  apply lf_set_node; auto. intros K. apply pkeys_with_refs; auto. apply (gaset_nodup Nat.eqb Nat.eqb_spec). apply K.
Qed.

Lemma pfs_step_renamed fs h ph nm : pfs_step fs (BRenamed h ph nm) = pfs_do (bump fs) (BRenamed h ph nm).
Proof. unfold pfs_step. destruct (alookup Nat.eqb (p_calls fs) (p_inject fs)); reflexivity. Qed.

(** the Renamed call: one File gets a new path *)
Lemma renamed_be h ph nm (s : st) :
  let s' := snd (bcall_ pfs pfs_step (BRenamed h ph nm) s) in
  s_refs pfs s' = s_refs pfs s /\ s_nodes pfs s' = s_nodes pfs s /\ s_nexth pfs s' = s_nexth pfs s /\
  p_entries (s_be pfs s') = p_entries (s_be pfs s) /\ p_dirs (s_be pfs s') = p_dirs (s_be pfs s) /\
  p_nextino (s_be pfs s') = p_nextino (s_be pfs s) /\
  forall h', hpath (s_be pfs s') h' = if h' =? h then hpath (s_be pfs s) ph ++ [nm] else hpath (s_be pfs s) h'.
Proof.
  destruct (bcall_be (BRenamed h ph nm) s) as (E1 & _ & E3 & E4 & E5 & _). cbv zeta.
  rewrite E1, pfs_step_renamed. cbn [pfs_do fst]. repeat split; auto.
  intros h'. rewrite hpath_bind. reflexivity.
Qed.

Lemma lf_renamed n1 n2 h ph nm (s : st) : lframe n1 n2 s (snd (bcall_ pfs pfs_step (BRenamed h ph nm) s)).
Proof.
  destruct (renamed_be h ph nm s) as (R & N & H & E & D & I & _).
  set (s' := snd (bcall_ pfs pfs_step (BRenamed h ph nm) s)) in *.
  assert (GN : forall n, gnode s' n = gnode s n) by (intros; unfold get_node; rewrite N; reflexivity).
  assert (GR : forall q, gref s' q = gref s q) by (intros; unfold get_ref; rewrite R; reflexivity).
  constructor.
  - apply mkRF.
    + unfold nlen. rewrite N. reflexivity.
    + intros n. rewrite GN. auto.
    + unfold rlen. rewrite R. reflexivity.
    + intros q. rewrite GR. repeat split; auto.
    + exact H.
    + auto.
    + intros q. unfold live. rewrite GR. auto.
    + intros K n. rewrite GN. apply K.
  - intros n q x _ _. unfold inreg. rewrite GN. auto.
  - intros _ n q x _ _. unfold inreg. rewrite GN. auto.
Qed.

Lemma add_child_same n r nm (s : st) : s_refs pfs (add_child pfs n r nm s) = s_refs pfs s /\ s_be pfs (add_child pfs n r nm s) = s_be pfs s.
Proof. unfold add_child. destruct (alookup Nat.eqb r (pn_names (get_node pfs s n))); split; reflexivity. Qed.

Lemma gref_incref_other r q (s : st) : q <> r -> gref (incref pfs r s) q = gref s q.
Proof. intros N. unfold incref. rewrite gref_set_ref. destruct (Nat.eqb_spec q r); [congruence | reflexivity]. Qed.

Lemma add_child_log n r nm (s : st) : s_log pfs (add_child pfs n r nm s) = s_log pfs s.
Proof. unfold add_child. destruct (alookup Nat.eqb r (pn_names (get_node pfs s n))); reflexivity. Qed.

Lemma up_local (s s' : st) : forall a b, (forall z, up s a z -> fr_parent (gref s' z) = fr_parent (gref s z) /\ fr_xattrOf (gref s' z) = fr_xattrOf (gref s z)) -> up s' a b -> up s a b.
Proof.
  intros a b H U. induction U as [r | r p q E U IH | r o q E U IH].
  - apply up_refl.
  - destruct (H r (up_refl s r)) as (E1 & _). rewrite E1 in E. eapply up_par; [exact E|]. apply IH. intros z Hz. apply H. eapply up_par; eauto.
  - destruct (H r (up_refl s r)) as (_ & E2). rewrite E2 in E. eapply up_xat; [exact E|]. apply IH. intros z Hz. apply H. eapply up_xat; eauto.
Qed.

Section Loop.
Variables (SA : st) (fnode old t new : nat) (P2new : list nat) (allm : list nat) (d : list nat).
Let tn := fr_node (gref SA t).
Hypothesis Hk : rkeys SA.
Hypothesis Ht : t < rlen SA /\ tref SA t /\ ~ In t allm.
Hypothesis Hp2 : hpath (s_be pfs SA) (fr_file (gref SA t)) ++ [new] = P2new.
Hypothesis Hm : forall r, In r allm -> r < rlen SA /\ tref SA r /\ fr_parent (gref SA r) <> None.
Hypothesis Hinj : forall q q', q < rlen SA -> q' < rlen SA -> tref SA q -> tref SA q' ->
                  fr_file (gref SA q) = fr_file (gref SA q') -> q = q'.
Hypothesis Hlive : forall r, In r allm -> live SA r.
Hypothesis Hchain : forall r p q', In r allm -> fr_parent (gref SA r) = Some p -> up SA p q' -> ~ In q' allm.

(** what a fidRef registered under the old name is told *)
Definition told0 (r : nat) : bcall := BRenamed (fr_file (gref SA r)) (fr_file (gref SA t)) new.

Record LI (cur : st) (T done : list nat) : Prop := mkLI {
  L_lf : lframe fnode tn SA cur;
  L_inv : RInvD cur d /\ 0 < hc cur t;
  L_par : forall q, fr_parent (gref cur q) = fr_parent (gref SA q) \/ (In q T /\ fr_parent (gref cur q) = Some t);
  L_told : forall q, In q T -> hpath (s_be pfs cur) (fr_file (gref SA q)) = P2new;
  L_rest : forall h, (forall q, In q T -> fr_file (gref SA q) <> h) -> hpath (s_be pfs cur) h = hpath (s_be pfs SA) h;
  L_T : incl T done /\ forall q, In q done -> live cur q -> In q T;
  L_all : T = rev done;
  L_log : rcalls cur = rcalls SA ++ map told0 done;
  L_cnt : forall q, In q allm -> ~ In q done -> fr_refs (gref cur q) = fr_refs (gref SA q) }.

Lemma file_t_untold cur T done : LI cur T done -> incl done allm -> forall q, In q T -> fr_file (gref SA q) <> fr_file (gref SA t).
Proof.
  intros L Hd q Hq E. destruct Ht as (Lt & Tt & Nt). destruct (L_T _ _ _ L) as (I & _).
  destruct (Hm q (Hd q (I q Hq))) as (Lq & Tq & _). apply Nt. rewrite <- (Hinj q t Lq Lt Tq Tt E). apply Hd, I, Hq.
Qed.

Lemma loop_step cur T done r :
  LI cur T done -> incl (done ++ [r]) allm -> ~ In r done ->
  forall held : list nat,
  let s1 := set_node pfs fnode (pn_with_refs (gnode cur fnode)
              (aset Nat.eqb old (remove_nat r (match alookup Nat.eqb old (pn_refs (gnode cur fnode)) with Some l => l | None => [] end)) (pn_refs (gnode cur fnode)))
              (adel Nat.eqb r (pn_names (gnode cur fnode)))) cur in
  let '(okk, s2) := try_incref pfs r s1 in
  exists T', LI (if okk then rename_cb pfs pfs_step t new r (with_held pfs (r :: s_held pfs s2) s2) else s2) T' (done ++ [r]).
Proof.
  intros L Hd Nr held s1.
  destruct L as [Llf (Linv & Lhc) Lpar Ltold Lrest (LT1 & LT2) Lall Llog Lcnt].
  assert (L0 : LI cur T done) by (constructor; auto).
  assert (Hr : In r allm) by (apply Hd, in_or_app; right; left; reflexivity).
  assert (Hdone : incl done allm) by (intros q Hq; apply Hd, in_or_app; auto).
  destruct (Hm r Hr) as (Lr & Tr & Pr). destruct Ht as (Lt & Tt & Nt).
  (* unregister r under the old name *)
  assert (LF1 : lframe fnode tn cur s1).
  { unfold s1. apply lf_set_node; auto. intros K. apply pkeys_with_refs; auto. apply (gaset_nodup Nat.eqb Nat.eqb_spec). apply K. }
  assert (SC1 : same_core pfs cur s1) by (repeat split; auto).
  destruct (sc_ok pfs cur s1 d SC1 Linv) as (I1 & Ld1).
  assert (Ht1 : 0 < hc s1 t) by (eapply led_hc_pos; [exact Ld1 | lia | reflexivity]).
  assert (BE1 : s_be pfs s1 = s_be pfs cur) by reflexivity.
  assert (GR1 : forall q, gref s1 q = gref cur q) by reflexivity.
  unfold try_incref.
  destruct (Z.leb_spec (fr_refs (gref s1 r)) 0) as [Le|Gt].
  - (* being destroyed: impossible, the count is what it was *)
    exfalso. rewrite GR1, (Lcnt r Hr Nr) in Le. pose proof (Hlive r Hr) as X. unfold live in X. lia.
  - (* told *)
    assert (Lr1 : r < length (s_refs pfs s1)).
    { destruct (Nat.lt_ge_cases r (length (s_refs pfs s1))); auto. unfold get_ref in Gt. rewrite nth_overflow in Gt by auto. cbn in Gt. lia. }
    change (with_held pfs (r :: s_held pfs (incref pfs r s1)) (incref pfs r s1)) with (hold pfs r s1).
    set (s2 := hold pfs r s1).
    pose proof (hold_inv_live pfs s1 d r I1 Lr1 Gt) as I2. fold s2 in I2.
    assert (Ld2 : led [r] [] s1 s2).
    { split; [intro; auto|]. unfold RefStep.hc, s2, hold; cbn. split; intros; rewrite !cnt_cons, !cnt_nil; lia. }
    assert (Hr2 : 0 < hc s2 r) by (eapply led_hc_pos; [exact Ld2 | rewrite cnt_cons, ind_same; lia | reflexivity]).
    assert (Ht2 : 0 < hc s2 t) by (eapply led_hc_pos; [exact Ld2 | lia | reflexivity]).
    assert (CF2 : cframe s1 s2).
    { unfold s2, hold. eapply cf_trans; [apply cf_incref; exact Gt | apply cf_with_held]. }
    destruct (rename_cb_ok pfs pfs_step t new r s2 d I2 ltac:(pose proof (C_hc pfs s2 r); lia) ltac:(pose proof (C_hc pfs s2 t); lia)) as (I3 & Ld3).
    assert (Ht3 : 0 < hc (rename_cb pfs pfs_step t new r s2) t) by (eapply led_hc_pos; [exact Ld3 | lia | reflexivity]).
    (* inside the callback *)
    assert (LF02 : lframe fnode tn SA s2).
    { eapply lf_trans; [exact Llf|]. eapply lf_trans; [exact LF1 | apply lf_of_cf; exact CF2]. }
    assert (Par2 : forall q, fr_parent (gref s2 q) = fr_parent (gref cur q)).
    { intros q. rewrite (CF_par _ _ CF2). apply f_equal. apply GR1. }
    assert (Path2 : forall h, hpath (s_be pfs s2) h = hpath (s_be pfs cur) h).
    { intros h. rewrite (CF_path _ _ CF2). rewrite BE1. reflexivity. }
    unfold rename_cb in *.
    destruct (fr_parent (gref s2 r)) as [p|] eqn:EP.
    2:{ exfalso. rewrite Par2 in EP. destruct (Lpar r) as [E|(_ & E)]; [rewrite E in EP; auto | congruence]. }
    set (sa := set_ref pfs r (fr_with_parent (gref s2 r) (Some t)) s2) in *.
    set (sb := incref pfs t sa) in *.
    set (sc := add_child pfs (fr_node (gref sb t)) r new sb) in *.
    set (sd := snd (bcall_ pfs pfs_step (BRenamed (fr_file (gref sc r)) (fr_file (gref sc t)) new) sc)) in *.
    assert (Nrt : r <> t) by (intros ->; auto).
    destruct (held_live s2 d t I2 Ht2) as (Lt2 & Lvt2).
    assert (Lr2 : r < rlen s2). { rewrite (RF_rlen _ _ (LF_rf _ _ _ _ LF02)). exact Lr. }
    (* sa: the parent link *)
    assert (GRa : forall q, gref sa q = if q =? r then fr_with_parent (gref s2 r) (Some t) else gref s2 q).
    { intros q. unfold sa. rewrite gref_set_ref. destruct (Nat.eqb_spec q r); cbn [andb]; auto.
      destruct (Nat.ltb_spec r (rlen s2)); [reflexivity | lia]. }
    assert (LFa : lframe fnode tn s2 sa).
    { constructor.
      - constructor; try reflexivity.
        + intros n. split; reflexivity.
        + unfold rlen, sa, set_ref. cbn. apply upd_length.
        + intros q. rewrite GRa. destruct (Nat.eqb_spec q r) as [->|]; [|repeat split; auto].
          unfold xmode. cbn [fr_file fr_node fr_xattrOf fr_parent fr_mode fr_with_parent]. rewrite EP. repeat split; auto; discriminate.
        + repeat split; reflexivity.
        + intros q. unfold live. rewrite GRa. destruct (q =? r) eqn:X; auto. apply Nat.eqb_eq in X. subst. auto.
        + auto.
      - intros n q x _ _ H. exact H.
      - intros _ n q x _ _ H _. exact H. }
    assert (Lvta : live sa t). { unfold live. rewrite GRa. destruct (Nat.eqb_spec t r); [congruence | exact Lvt2]. }
    assert (CFb : cframe sa sb) by (apply cf_incref; exact Lvta).
    assert (Ntn : fr_node (gref sb t) = tn).
    { unfold tn. destruct (RF_refs _ _ (CF_rf _ _ CFb) t) as (_ & -> & _). destruct (RF_refs _ _ (LF_rf _ _ _ _ LFa) t) as (_ & -> & _).
      destruct (RF_refs _ _ (LF_rf _ _ _ _ LF02) t) as (_ & -> & _). reflexivity. }
    assert (LFc : lframe fnode tn sb sc) by (unfold sc; apply lf_add_child; right; exact Ntn).
    assert (LFd : lframe fnode tn sc sd) by apply lf_renamed.
    pose proof (cf_decref (fuel_of pfs sd) p sd) as CFe. fold (decref_ pfs pfs_step p sd) in CFe.
    set (se := snd (decref_ pfs pfs_step p sd)) in *.
    assert (LF0e : lframe fnode tn SA se).
    { eapply lf_trans; [exact LF02|]. eapply lf_trans; [exact LFa|]. eapply lf_trans; [apply lf_of_cf; exact CFb|].
      eapply lf_trans; [exact LFc|]. eapply lf_trans; [exact LFd | apply lf_of_cf; exact CFe]. }
    (* links and paths along the callback *)
    assert (GRc : forall q, gref sc q = gref sb q).
    { intros q. unfold get_ref, sc. rewrite (proj1 (add_child_same _ _ _ _)). reflexivity. }
    assert (BEc : s_be pfs sc = s_be pfs s2).
    { unfold sc. rewrite (proj2 (add_child_same _ _ _ _)). unfold sb, incref, sa. reflexivity. }
    assert (Fr : fr_file (gref sc r) = fr_file (gref SA r)).
    { rewrite GRc. destruct (RF_refs _ _ (CF_rf _ _ CFb) r) as (-> & _). destruct (RF_refs _ _ (LF_rf _ _ _ _ LFa) r) as (-> & _).
      destruct (RF_refs _ _ (LF_rf _ _ _ _ LF02) r) as (-> & _). reflexivity. }
    assert (Ft : fr_file (gref sc t) = fr_file (gref SA t)).
    { rewrite GRc. destruct (RF_refs _ _ (CF_rf _ _ CFb) t) as (-> & _). destruct (RF_refs _ _ (LF_rf _ _ _ _ LFa) t) as (-> & _).
      destruct (RF_refs _ _ (LF_rf _ _ _ _ LF02) t) as (-> & _). reflexivity. }
    destruct (renamed_be (fr_file (gref sc r)) (fr_file (gref sc t)) new sc) as (Rd & _ & _ & _ & _ & _ & Pd). fold sd in Rd, Pd.
    rewrite Fr, Ft, BEc in Pd.
    assert (Pt : hpath (s_be pfs s2) (fr_file (gref SA t)) = hpath (s_be pfs SA) (fr_file (gref SA t))).
    { rewrite Path2. apply Lrest. intros q Hq. eapply file_t_untold; eauto. }
    rewrite Pt, Hp2 in Pd.
    assert (Pare : forall q, fr_parent (gref se q) = if q =? r then Some t else fr_parent (gref cur q)).
    { intros q. assert (GRd : gref sd q = gref sc q) by (unfold get_ref; rewrite Rd; reflexivity).
      unfold se. rewrite (CF_par _ _ CFe). rewrite GRd, GRc.
      rewrite (CF_par _ _ CFb). rewrite GRa. destruct (q =? r); [reflexivity | apply Par2]. }
    exists (r :: T). constructor.
    + exact LF0e.
    + split; [exact I3 | exact Ht3].
    + intros q. rewrite Pare. destruct (Nat.eqb_spec q r) as [->|N]; [right; split; auto; left; reflexivity|].
      destruct (Lpar q) as [E|(E1 & E2)]; [left; exact E | right; split; auto; right; exact E1].
    + intros q Hq. unfold se. rewrite (CF_path _ _ CFe). rewrite Pd. destruct Hq as [<-|Hq]; [rewrite Nat.eqb_refl; reflexivity|].
      destruct (Nat.eqb_spec (fr_file (gref SA q)) (fr_file (gref SA r))) as [E|N]; [reflexivity|].
      rewrite Path2. apply Ltold. exact Hq.
    + intros h Hh. unfold se. rewrite (CF_path _ _ CFe). rewrite Pd.
      destruct (Nat.eqb_spec h (fr_file (gref SA r))) as [->|N]; [exfalso; apply (Hh r); [left; reflexivity | reflexivity]|].
      rewrite Path2. apply Lrest. intros q Hq. apply Hh. right. exact Hq.
    + split.
      * intros q [<-|Hq]; apply in_or_app; [right; left; reflexivity | left; auto].
      * intros q Hq Lq. apply in_app_or in Hq. destruct Hq as [Hq|[<-|[]]]; [|left; reflexivity]. right. apply LT2; auto.
        apply (RF_live _ _ (LF_rf _ _ _ _ (lf_trans _ _ _ _ _ LF1 (lf_trans _ _ _ _ _ (lf_of_cf _ _ _ _ CF2)
                (lf_trans _ _ _ _ _ LFa (lf_trans _ _ _ _ _ (lf_of_cf _ _ _ _ CFb) (lf_trans _ _ _ _ _ LFc (lf_trans _ _ _ _ _ LFd (lf_of_cf _ _ _ _ CFe))))))))). exact Lq.
    + rewrite rev_app_distr. cbn [rev app]. rewrite Lall. reflexivity.
    + rewrite (CF_rlog _ _ CFe).
      assert (Ld : rcalls sd = rcalls sc ++ [told0 r]).
      { unfold sd, rcalls, calls, bcall_. destruct (pfs_step (s_be pfs sc) _). cbn [snd s_log rev]. rewrite filter_app. cbn [filter is_renamed].
        unfold told0. rewrite Fr, Ft. reflexivity. }
      rewrite Ld. assert (Lc : rcalls sc = rcalls cur).
      { unfold rcalls, calls, sc. rewrite add_child_log. unfold sb, incref, sa. cbn [s_log set_ref with_refs].
        change (s_log pfs s2) with (s_log pfs cur). reflexivity. }
      rewrite Lc, Llog, map_app, <- app_assoc. reflexivity.
    + intros q Hq Nq. assert (Nqr : q <> r) by (intros ->; apply Nq; apply in_or_app; right; left; reflexivity).
      assert (Nqd : ~ In q done) by (intros H; apply Nq; apply in_or_app; left; exact H).
      assert (Nqt : q <> t) by (intros ->; auto).
      rewrite <- (Lcnt q Hq Nqd).
      assert (Rd' : fr_refs (gref sd q) = fr_refs (gref cur q)).
      { assert (GRd : gref sd q = gref sc q) by (unfold get_ref; rewrite Rd; reflexivity). rewrite GRd, GRc.
        unfold sb. rewrite gref_incref_other by auto. rewrite GRa.
        destruct (Nat.eqb_spec q r); [congruence|]. change (gref s2 q) with (gref (incref pfs r s1) q).
        rewrite gref_incref_other by auto. apply f_equal. apply GR1. }
      rewrite <- Rd'. unfold se, decref_. apply decref_cnt.
      intros U.
      (* the chain from the old parent is the chain it was in SA, which avoids the list *)
      assert (EpA : fr_parent (gref SA r) = Some p).
      { rewrite Par2 in EP. destruct (Lpar r) as [E|(Hin & _)]; [congruence|]. exfalso. apply Nr. apply LT1. exact Hin. }
      assert (LK : forall z, up SA p z -> fr_parent (gref sd z) = fr_parent (gref SA z) /\ fr_xattrOf (gref sd z) = fr_xattrOf (gref SA z)).
      { intros z Uz. pose proof (Hchain r p z Hr EpA Uz) as Nz.
        assert (Nzr : z <> r) by (intros ->; auto).
        split.
        - assert (GRd : gref sd z = gref sc z) by (unfold get_ref; rewrite Rd; reflexivity). rewrite GRd, GRc.
          rewrite (CF_par _ _ CFb). rewrite GRa. destruct (Nat.eqb_spec z r); [congruence|]. rewrite Par2.
          destruct (Lpar z) as [E|(Hin & _)]; [exact E|]. exfalso. apply Nz. apply Hdone. apply LT1. exact Hin.
        - destruct (RF_refs _ _ (LF_rf _ _ _ _ (lf_trans _ _ _ _ _ LF02 (lf_trans _ _ _ _ _ LFa (lf_trans _ _ _ _ _ (lf_of_cf _ _ _ _ CFb) (lf_trans _ _ _ _ _ LFc LFd))))) z) as (_ & _ & E & _). exact E. }
      apply (Hchain r p q Hr EpA); auto. eapply up_local; eauto.
Qed.

Lemma loop_all m : forall cur T done held,
  LI cur T done -> incl (done ++ m) allm -> NoDup (done ++ m) ->
  exists T', LI (snd (rwn_loop pfs fnode old (Some (rename_cb pfs pfs_step t new)) m held cur)) T' (done ++ m).
Proof.
  induction m as [|r m IH]; intros cur T done held L Hd ND.
  - cbn [rwn_loop snd]. rewrite app_nil_r. eauto.
  - cbn [rwn_loop]. cbv zeta.
    assert (Hd1 : incl (done ++ [r]) allm). { intros q Hq. apply Hd. apply in_app_or in Hq. apply in_or_app. destruct Hq as [Hq|[<-|[]]]; [left; auto | right; left; auto]. }
    assert (Nr : ~ In r done). { apply NoDup_remove_2 in ND. intros H. apply ND. apply in_or_app. auto. }
    pose proof (loop_step cur T done r L Hd1 Nr held) as ST. cbv zeta in ST.
    fold (gnode cur fnode). destruct (try_incref pfs r _) as [okk s2]. destruct ST as (T' & L').
    replace (done ++ r :: m) with ((done ++ [r]) ++ m) in * by (rewrite <- app_assoc; reflexivity).
    destruct okk; apply (IH _ T' _ _ L' Hd ND).
Qed.
End Loop.
