(** Refs/PathFS.v — the path-addressed backend the server model runs against for
    C08 (and, with injected failures, for C05): a tree of objects with inode
    ids; every File (handle) holds a path (list of name ids, the semantics of
    fsimpl/localfs: Walk resolves path/name, Renamed rewrites the path from
    parent.path/name).  Its Go twin is harness/p9/vhfs_backend_test.go; twin
    and model are compared by the same differential (Refs/Cases.v).

    Choices of this backend (a legitimate p9.File implementation, not POSIX in
    every detail): UnlinkAt removes a directory with its whole subtree; RenameAt
    over an existing target replaces it (with its subtree) but refuses with
    ENOTEMPTY when the target is the source directory or one of its ancestors,
    and with EINVAL when a directory would move into itself or a descendant
    (assumption B2); GetAttr always resolves the path, Read/Write/FSync use the
    inode fixed by Open/Create; Symlink is ENOSYS and Link EPERM (logged,
    no effect).  Failure injection: [p_inject] maps the index of a backend call
    to an errno (the call fails without effect; Close still closes; Renamed has
    no result and is never failed) or to [injBadQ] (a Walk/WalkGetAttr that
    succeeds but reports a QID list of the wrong length). *)
From Coq Require Import List Arith Bool Lia.
From P9V Require Import Refs.Model.
Import ListNotations.

Definition injBadQ := 1000.

Record pfile := mkpfile { pf_path : list nat; pf_fd : option nat }.

Record pfs := mkpfs {
  p_entries : list ((nat * nat) * nat);      (* (directory inode, name) -> child inode *)
  p_dirs : list nat;                         (* inodes that are directories *)
  p_nextino : nat;
  p_files : list (nat * pfile);              (* handle -> File *)
  p_calls : nat;                             (* index of the next backend call *)
  p_inject : list (nat * nat);
  p_wga : bool }.                            (* WalkGetAttr implemented (else ENOSYS) *)

Definition root_ino := 1.
Definition pfs_init (wga : bool) (inject : list (nat * nat)) : pfs :=
  mkpfs [] [root_ino] 2 [] 0 inject wga.

Definition isdir (fs : pfs) (i : nat) : bool := existsb (Nat.eqb i) (p_dirs fs).
Definition mode_of (fs : pfs) (i : nat) : fmode := if isdir fs i then MDir else MReg.
Definition entry (fs : pfs) (d nm : nat) : option nat := alookup peqb (d, nm) (p_entries fs).

Fixpoint resolve_from (fs : pfs) (cur : nat) (path : list nat) : option nat :=
  match path with
  | [] => Some cur
  | nm :: rest => match entry fs cur nm with Some c => resolve_from fs c rest | None => None end
  end.
Definition resolve (fs : pfs) (path : list nat) : option nat := resolve_from fs root_ino path.

(** parent directory of an inode (objects have one name: no hard links) *)
Fixpoint parent_in (l : list ((nat * nat) * nat)) (i : nat) : option nat :=
  match l with
  | [] => None
  | ((d, _), c) :: r => if c =? i then Some d else parent_in r i
  end.

(** is [a] equal to [i] or an ancestor of [i]? *)
Fixpoint anc_or_eq (fuel : nat) (fs : pfs) (a i : nat) : bool :=
  if a =? i then true
  else match fuel with
       | 0 => false
       | S f => match parent_in (p_entries fs) i with Some d => anc_or_eq f fs a d | None => false end
       end.

(** is [i] reachable from the root (does it still have a path)? *)
Definition alive (fs : pfs) (i : nat) : bool := anc_or_eq (S (length (p_entries fs))) fs root_ino i.

Definition file_of (fs : pfs) (h : nat) : pfile :=
  match alookup Nat.eqb h (p_files fs) with Some f => f | None => mkpfile [] None end.

Definition with_entries e (fs : pfs) := mkpfs e (p_dirs fs) (p_nextino fs) (p_files fs) (p_calls fs) (p_inject fs) (p_wga fs).
Definition with_files f (fs : pfs) := mkpfs (p_entries fs) (p_dirs fs) (p_nextino fs) f (p_calls fs) (p_inject fs) (p_wga fs).
Definition bind_file (h : nat) (f : pfile) (fs : pfs) := with_files (aset Nat.eqb h f (p_files fs)) fs.
Definition new_obj (d nm : nat) (dir : bool) (fs : pfs) : nat * pfs :=
  let i := p_nextino fs in
  (i, mkpfs (aset peqb (d, nm) i (p_entries fs)) (if dir then i :: p_dirs fs else p_dirs fs) (S i)
           (p_files fs) (p_calls fs) (p_inject fs) (p_wga fs)).

Definition ok_ino (fs : pfs) (i : nat) : bans := AOk (mode_of fs i) i.

Definition walk_to (fs : pfs) (h : nat) (nm : option nat) (nh : nat) : pfs * bans :=
  let p := pf_path (file_of fs h) in
  match nm with
  | None => (bind_file nh (mkpfile p None) fs, AOk MNone 0)
  | Some x =>
      match resolve fs (p ++ [x]) with
      | Some i => (bind_file nh (mkpfile (p ++ [x]) None) fs, ok_ino fs i)
      | None => (fs, AErr ENOENT)
      end
  end.

(** the effect of one call when no failure is injected *)
Definition pfs_do (fs : pfs) (c : bcall) : pfs * bans :=
  match c with
  | BAttach nh => (bind_file nh (mkpfile [] None) fs, AOk MDir root_ino)
  | BWalk h nm nh => walk_to fs h nm nh
  | BWalkGetAttr h nm nh =>
      if negb (p_wga fs) then (fs, AErr ENOSYS)
      else match nm with
           | Some _ => walk_to fs h nm nh
           | None =>
               match resolve fs (pf_path (file_of fs h)) with
               | Some i => (bind_file nh (mkpfile (pf_path (file_of fs h)) None) fs, ok_ino fs i)
               | None => (fs, AErr ENOENT)
               end
           end
  | BGetAttr h =>
      match resolve fs (pf_path (file_of fs h)) with Some i => (fs, ok_ino fs i) | None => (fs, AErr ENOENT) end
  | BOpen h _ =>
      match resolve fs (pf_path (file_of fs h)) with
      | Some i => (bind_file h (mkpfile (pf_path (file_of fs h)) (Some i)) fs, ok_ino fs i)
      | None => (fs, AErr ENOENT)
      end
  | BCreate h nm nh =>
      match resolve fs (pf_path (file_of fs h)) with
      | None => (fs, AErr ENOENT)
      | Some d =>
          if negb (isdir fs d) then (fs, AErr ENOTDIR)
          else match entry fs d nm with
               | Some _ => (fs, AErr EEXIST)
               | None => let '(i, fs1) := new_obj d nm false fs in
                         (bind_file nh (mkpfile (pf_path (file_of fs h) ++ [nm]) (Some i)) fs1, AOk MReg i)
               end
      end
  | BMk k h nm =>
      if 2 <=? k then (fs, AErr ENOSYS)
      else match resolve fs (pf_path (file_of fs h)) with
           | None => (fs, AErr ENOENT)
           | Some d =>
               if negb (isdir fs d) then (fs, AErr ENOTDIR)
               else match entry fs d nm with
                    | Some _ => (fs, AErr EEXIST)
                    | None => let '(i, fs1) := new_obj d nm (k =? 0) fs in (fs1, AOk MNone 0)
                    end
           end
  | BLink _ _ _ => (fs, AErr EPERM)
  | BUnlinkAt h nm =>
      match resolve fs (pf_path (file_of fs h)) with
      | None => (fs, AErr ENOENT)
      | Some d =>
          match entry fs d nm with
          | None => (fs, AErr ENOENT)
          | Some _ => (with_entries (adel peqb (d, nm) (p_entries fs)) fs, AOk MNone 0)
          end
      end
  | BRenameAt h old h2 new =>
      match resolve fs (pf_path (file_of fs h)), resolve fs (pf_path (file_of fs h2)) with
      | Some d1, Some d2 =>
          match entry fs d1 old with
          | None => (fs, AErr ENOENT)
          | Some x =>
              let fuel := S (length (p_entries fs)) in
              if negb (isdir fs d2) then (fs, AErr ENOTDIR)
              else if isdir fs x && anc_or_eq fuel fs x d2 then (fs, AErr EINVAL)
              else if (d1 =? d2) && (old =? new) then (fs, AOk MNone 0)
              else match entry fs d2 new with
                   | Some v =>
                       if anc_or_eq fuel fs v d1 then (fs, AErr ENOTEMPTY)
                       else (with_entries (aset peqb (d2, new) x (adel peqb (d1, old) (adel peqb (d2, new) (p_entries fs)))) fs, AOk MNone 0)
                   | None => (with_entries (aset peqb (d2, new) x (adel peqb (d1, old) (p_entries fs))) fs, AOk MNone 0)
                   end
          end
      | _, _ => (fs, AErr ENOENT)
      end
  | BRenamed h ph nm =>
      (bind_file h (mkpfile (pf_path (file_of fs ph) ++ [nm]) (pf_fd (file_of fs h))) fs, AOk MNone 0)
  | BClose _ => (fs, AOk MNone 0)
  | BUse k h =>
      if k <=? uFsync then
        match pf_fd (file_of fs h) with Some i => (fs, AOk MNone i) | None => (fs, AErr EBADF) end
      else match resolve fs (pf_path (file_of fs h)) with Some i => (fs, AOk MNone i) | None => (fs, AErr ENOENT) end
  end.

Definition bump (fs : pfs) := mkpfs (p_entries fs) (p_dirs fs) (p_nextino fs) (p_files fs) (S (p_calls fs)) (p_inject fs) (p_wga fs).

Definition pfs_step (fs : pfs) (c : bcall) : pfs * bans :=
  let inj := alookup Nat.eqb (p_calls fs) (p_inject fs) in
  let fs0 := bump fs in
  match c, inj with
  | BRenamed _ _ _, _ => pfs_do fs0 c
  | _, None => pfs_do fs0 c
  | (BWalk _ _ _ | BWalkGetAttr _ _ _), Some e =>
      if e =? injBadQ then
        match pfs_do fs0 c with
        | (fs1, AOk m i) => (fs1, ABadQ m i)
        | other => other
        end
      else (fs0, AErr e)
  | _, Some e => if e =? injBadQ then pfs_do fs0 c else (fs0, AErr e)
  end.
