(** Refs/RankedFs.v — assumption B2 discharged for PathFS: the backend refuses a RenameAt whose
    target directory is the moved entry or below it ([CoherentRenFs.b2_paths], read on the paths its
    Files hold); by path coherence (pathB's invariant [Good]: a File's path, read in the server's node
    tree, leads to the fidRef's node) and the tree invariant, the target's chain of parents then contains
    none of the fidRefs registered under the moved name: [Ranked.rsafe] holds before every request of
    every PathFS history, and C05_disconnect follows without hypothesis on the parent links. *)
From Coq Require Import List Arith Bool ZArith Lia.
From P9V Require Import Refs.Model Refs.PathFS Refs.RefProofs Refs.RefStep Refs.LifeProofs Refs.LifeStep Refs.Disconnect Refs.Ranked.
From P9V Require Import Refs.TreeInv Refs.CoherentTree Refs.CoherentDefs Refs.CoherentRenFs Refs.CoherentHist.
From P9V Require Refs.TreeStep Refs.NotifiedRename.
Import ListNotations.

Section Fs.
Variable s : st.
Variable g : list (option nat).
Hypothesis RI : RefInv pfs s.
Hypothesis G : Good s g.
Hypothesis T : tree_ok pfs s.

Lemma live_parent r p : r < rlen s -> live s r -> fr_parent (gref s r) = Some p -> live s p.
Proof. intros Hr L E. apply (inv_live pfs s [] p RI (C_parent pfs s r p Hr L E)). Qed.

(** the nodes of the target's parent chain are the ancestors of the target's node *)
Lemma chain_nodes k : forall t a, t < rlen s -> live s t -> tref s t -> nonf s t -> anc pfs s t k = Some a ->
  a < rlen s /\ live s a /\ tref s a /\ nonf s a /\
  exists sg, walk (nch s) (fr_node (gref s a)) sg = Some (fr_node (gref s t)).
Proof.
  induction k as [|k IH]; intros t a Ht Lt Tt Nt E; cbn [anc] in E.
  - injection E as <-. repeat split; auto. exists []. reflexivity.
  - unfold up in E. destruct (fr_parent (gref s t)) as [p|] eqn:EP; [|unfold tref in Tt; rewrite Tt in E; discriminate].
    destruct (G_parent s g G t p Ht EP) as (_ & Tp & Hp).
    pose proof (live_parent t p Ht Lt EP) as Lp.
    pose proof (G_pnonf s g G t p Ht Lt Nt EP) as Np.
    destruct (IH p a Hp Lp Tp Np E) as (Ha & La & Ta & Na & sg & W).
    repeat split; auto.
    destruct (T_live pfs s T t p Ht Lt EP Nt) as (nm & Reg).
    destruct (T_reg pfs s T (fr_node (gref s p)) t nm (T_node_bound pfs s T p Hp) Reg) as (_ & _ & p' & EP' & _ & _ & Ch).
    exists (sg ++ [nm]). rewrite walk_snoc, W. exact Ch.
Qed.

Lemma clear_core D t old new :
  D < rlen s -> live s D -> tref s D -> nonf s D ->
  t < rlen s -> live s t -> tref s t -> nonf s t ->
  (fr_node (gref s D) =? fr_node (gref s t)) && (old =? new) = false ->
  ans_ok (snd (pfs_step (s_be pfs s) (BRenameAt (fr_file (gref s D)) old (fr_file (gref s t)) new))) ->
  chain_clear pfs s (crefs pfs s (fr_node (gref s D)) old) t.
Proof.
  intros HD LD TD ND Ht Lt Tt Nt Same A.
  pose proof (G_node s g G D HD LD TD ND) as WD. pose proof (G_node s g G t Ht Lt Tt Nt) as Wt.
  unfold node_at in WD, Wt.
  destruct (pfs_step_renameat (s_be pfs s) (fr_file (gref s D)) old (fr_file (gref s t)) new (G_fs s g G))
    as [((e & Ee) & _) | [(_ & R & -> & RN) | (_ & d1 & d2 & x & M)]].
  - exfalso. apply (A e Ee).
  - (* the backend sees the same entry: then so does the server, which answers without asking *)
    exfalso. fold (fpath s D) (fpath s t) in R, RN.
    destruct (resolve (s_be pfs s) (fpath s D)) as [i|] eqn:R1; [|contradiction]. symmetry in R.
    rewrite resolve_walk in R1, R.
    pose proof (walk_inj (entry (s_be pfs s)) root_ino (F_up _ (G_fs s g G)) (F_noroot _ (G_fs s g G)) _ _ _ R1 R) as EPth.
    rewrite <- EPth in Wt. rewrite WD in Wt. injection Wt as Wt. rewrite Wt, !Nat.eqb_refl in Same. discriminate.
  - intros k a Ea Hin.
    destruct (chain_nodes k t a Ht Lt Tt Nt Ea) as (Ha & La & Ta & Na & sg & W).
    assert (HnD : fr_node (gref s D) < TreeInv.nlen pfs s) by (apply (T_node_bound pfs s T D HD)).
    assert (Reg : registered pfs s (fr_node (gref s D)) a old).
    { apply (T_agree pfs s T _ a old HnD). unfold in_refs, crefs in *.
      destruct (alookup Nat.eqb old (pn_refs (get_node pfs s (fr_node (gref s D))))) as [m|]; [|contradiction]. exists m. auto. }
    destruct (T_reg pfs s T _ a old HnD Reg) as (_ & _ & p' & _ & _ & _ & Ch).
    apply (M_b2 _ _ _ _ _ _ _ _ _ M). fold (fpath s D) (fpath s t). exists sg.
    assert (W2 : walk (nch s) 0 ((fpath s D ++ [old]) ++ sg) = Some (fr_node (gref s t))).
    { rewrite walk_app, walk_snoc, WD. change (nch s (fr_node (gref s D)) old) with (alookup Nat.eqb old (pn_nodes (get_node pfs s (fr_node (gref s D))))).
      unfold child_node in Ch. rewrite Ch. exact W. }
    exact (walk_inj (nch s) 0 (N_up s (G_nt s g G)) (N_noroot s (G_nt s g G)) _ _ _ Wt W2).
Qed.

Lemma fid_live c fid r : alookup peqb (c, fid) (s_fids pfs s) = Some r -> r < rlen s /\ live s r.
Proof. intros E. apply (inv_live pfs s [] r RI (C_fid pfs s r (alookup_in peqb peqb_spec _ _ _ E))). Qed.

Lemma dir_tref r : r < rlen s -> is_dir (fr_mode (gref s r)) = true -> tref s r.
Proof.
  intros Hr D. unfold tref. destruct (fr_xattrOf (gref s r)) as [o|] eqn:E; auto.
  rewrite (G_xmode s g G r o Hr E) in D. discriminate.
Qed.

Lemma rsafe_pfs o : rsafe pfs pfs_step s o.
Proof.
  intros fn old t new h1 Ep A. unfold rparams in Ep. destruct o; try discriminate.
  - destruct (alookup peqb (c, fid) (s_fids pfs s)) as [r|] eqn:E1; [|discriminate].
    destruct (alookup peqb (c, dirfid) (s_fids pfs s)) as [t'|] eqn:E2; [|discriminate].
    destruct (fr_parent (gref s r)) as [p|] eqn:EP; [|discriminate].
    destruct (is_deleted pfs s r || is_deleted pfs s t' || negb (is_dir (fr_mode (gref s t')))) eqn:G1; [discriminate|].
    destruct (is_deleted pfs s p) eqn:G2; [discriminate|].
    destruct (name_for pfs (fr_node (gref s p)) r s) as [old'|]; [|discriminate].
    destruct ((fr_node (gref s p) =? fr_node (gref s t')) && (old' =? nm)) eqn:G3; [discriminate|].
    injection Ep as <- <- <- <- <-.
    apply orb_false_elim in G1. destruct G1 as (G1 & Gd). apply orb_false_elim in G1. destruct G1 as (Gr & Gt).
    apply negb_false_iff in Gd.
    destruct (fid_live _ _ _ E1) as (Hr & Lr). destruct (fid_live _ _ _ E2) as (Ht & Lt).
    destruct (G_parent s g G r p Hr EP) as (_ & Tp & Hp).
    apply (clear_core p t' old' nm); auto; [apply (live_parent r p Hr Lr EP) | apply dir_tref; auto].
  - destruct (alookup peqb (c, fid) (s_fids pfs s)) as [r|] eqn:E1; [|discriminate].
    destruct (alookup peqb (c, fid2) (s_fids pfs s)) as [t'|] eqn:E2; [|discriminate].
    destruct (is_deleted pfs s r || negb (is_dir (fr_mode (gref s r))) || is_deleted pfs s t' || negb (is_dir (fr_mode (gref s t')))) eqn:G1; [discriminate|].
    destruct (fr_opened (gref s r)); [discriminate|].
    destruct ((fr_node (gref s r) =? fr_node (gref s t')) && (oldnm =? newnm)) eqn:G3; [discriminate|].
    injection Ep as <- <- <- <- <-.
    apply orb_false_elim in G1. destruct G1 as (G1 & Gd2). apply orb_false_elim in G1. destruct G1 as (G1 & Gt).
    apply orb_false_elim in G1. destruct G1 as (Gr & Gd1). apply negb_false_iff in Gd1. apply negb_false_iff in Gd2.
    destruct (fid_live _ _ _ E1) as (Hr & Lr). destruct (fid_live _ _ _ E2) as (Ht & Lt).
    apply (clear_core r t' oldnm newnm); auto; apply dir_tref; auto.
Qed.
End Fs.

(** before every request of every PathFS history (pathB: NotifiedRename.reach_inv_history gives the
    invariants after every history and excludes the panics of the path-tree code) *)
Theorem rsafe_history_pfs ops wga inj : rsafe_history pfs pfs_step ops (init_state pfs (pfs_init wga inj)).
Proof.
  intros pre o post E.
  assert (TH0 : forall pre' post', pre = pre' ++ post' -> tree_ok pfs (snd (run pfs pfs_step pre' (init_state pfs (pfs_init wga inj))))).
  { intros pre' post' E'. apply (TreeStep.tree_inv_history pfs pfs_step pre' (pfs_init wga inj)). }
  destruct (NotifiedRename.reach_inv_history pre wga inj TH0) as ((g & RI & TH1 & Gd) & _).
  exact (rsafe_pfs _ g RI Gd TH1 o).
Qed.

(** C05_disconnect for PathFS: every history (renames included), any failure injection, no hypothesis *)
Theorem disconnect_pfs ops wga inj cs :
  let s0 := snd (run pfs pfs_step ops (init_state pfs (pfs_init wga inj))) in
  let s := snd (run pfs pfs_step (map OStop cs) s0) in
  (forall k, In k (fkeys pfs s0) -> In (fst k) cs) ->
  s_fids pfs s = [] /\ s_panic pfs s = false /\
  forall h, h < s_nexth pfs s -> close_count h (s_log pfs s) = 1.
Proof.
  cbv zeta. intros Cover. split; [apply all_stopped_empty; exact Cover|].
  assert (Hp : s_panic pfs (snd (run pfs pfs_step (map OStop cs) (snd (run pfs pfs_step ops (init_state pfs (pfs_init wga inj)))))) = false).
  { rewrite <- run_app. apply (NotifiedRename.reach_inv_history (ops ++ map OStop cs) wga inj).
    intros pre' post' E'. apply (TreeStep.tree_inv_history pfs pfs_step pre' (pfs_init wga inj)). }
  split; [exact Hp|].
  exact (proj2 (disconnect_rsafe pfs pfs_step ops (pfs_init wga inj) cs (rsafe_history_pfs ops wga inj) Cover) Hp).
Qed.

(** B2 is necessary: a backend that lets a directory be renamed below itself (here: one that says yes
    to everything).  "a" is moved into "a/b": the fidRefs of a and a/b become each other's parent, keep
    each other alive after the last fid is gone, and their Files are never closed. *)
Definition yes_step (b : unit) (c : bcall) : unit * bans := (b, AOk MDir 0).
Definition cyc_ops : list op := [OAttach 0 0 []; OWalk 0 0 1 [1] false; OWalk 0 1 2 [2] false; ORenameAt 0 0 1 2 3].
Theorem disconnect_refuted :
  let s0 := snd (run unit yes_step cyc_ops (init_state unit tt)) in
  let s := snd (run unit yes_step (map OStop [0]) s0) in
  (forall k, In k (fkeys unit s0) -> In (fst k) [0]) /\ s_fids unit s = [] /\ s_panic unit s = false /\
  s_nexth unit s = 3 /\ close_count 1 (s_log unit s) = 0 /\ close_count 2 (s_log unit s) = 0 /\
  map (fun x => (fr_refs x, fr_parent x)) (s_refs unit s) = [(0%Z, None); (1%Z, Some 2); (1%Z, Some 1)] /\
  ~ ranked unit s.
Proof.
  cbv zeta.
  assert (Cover : forall k, In k (fkeys unit (snd (run unit yes_step cyc_ops (init_state unit tt)))) -> In (fst k) [0]).
  { vm_compute. intros k [<-|[<-|[<-|[]]]]; left; reflexivity. }
  split; [exact Cover|].
  assert (E : close_count 1 (s_log unit (snd (run unit yes_step (map OStop [0]) (snd (run unit yes_step cyc_ops (init_state unit tt)))))) = 0) by (vm_compute; reflexivity).
  assert (P : s_panic unit (snd (run unit yes_step (map OStop [0]) (snd (run unit yes_step cyc_ops (init_state unit tt))))) = false) by (vm_compute; reflexivity).
  repeat split; try (vm_compute; reflexivity); auto.
  intros Rk. destruct (disconnect_closes_all unit yes_step cyc_ops tt [0] Cover) as (_ & H).
  specialize (H P Rk 1). rewrite E in H. assert (X : 1 < 3) by lia.
  replace (s_nexth unit _) with 3 in H by (vm_compute; reflexivity). specialize (H X). discriminate.
Qed.
