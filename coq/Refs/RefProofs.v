(** Refs/RefProofs.v — the reference-count invariant of Refs/Model.v (C05_inv):
    for every fidRef, refs = #fid-table entries + #transient holders + #live
    children + #live xattr fidRefs borrowing it; proved for every primitive
    (hold / release with the DecRef cascade / InsertFID / DeleteFID / new
    fidRefs / re-parenting in renameChildTo), for every backend. *)
From Coq Require Import List Arith Bool ZArith Lia Permutation.
From P9V Require Import Refs.Model.
Import ListNotations.

(** ---- generic list facts ---- *)
Lemma upd_length {A} (l : list A) i x : length (upd l i x) = length l.
Proof. revert i; induction l as [|y l IH]; intros [|i]; cbn; auto. Qed.

Lemma nth_upd_same {A} (l : list A) i x d : i < length l -> nth i (upd l i x) d = x.
Proof. revert i; induction l as [|y l IH]; intros [|i] H; cbn in *; try lia; auto. apply IH; lia. Qed.

Lemma nth_upd_other {A} (l : list A) i j x d : i <> j -> nth j (upd l i x) d = nth j l d.
Proof. revert i j; induction l as [|y l IH]; intros [|i] [|j] H; cbn; auto; try congruence. Qed.

Lemma upd_oob {A} (l : list A) i x : length l <= i -> upd l i x = l.
Proof. revert i; induction l as [|y l IH]; intros [|i] H; cbn in *; auto; try lia. f_equal; apply IH; lia. Qed.

Definition cnt (l : list nat) (r : nat) : nat := count_occ Nat.eq_dec l r.
Definition ind (a b : nat) : nat := if Nat.eq_dec a b then 1 else 0.
Arguments cnt : simpl never.
Arguments ind : simpl never.

Lemma cnt_app a b r : cnt (a ++ b) r = cnt a r + cnt b r.
Proof. apply count_occ_app. Qed.

Lemma cnt_cons x l r : cnt (x :: l) r = ind x r + cnt l r.
Proof. unfold cnt, ind; simpl. destruct (Nat.eq_dec x r); lia. Qed.

Lemma cnt_nil r : cnt [] r = 0. Proof. reflexivity. Qed.

Lemma cnt_in l r : 0 < cnt l r -> In r l.
Proof. unfold cnt. intros H. apply (count_occ_In Nat.eq_dec). lia. Qed.

Lemma in_cnt l r : In r l -> 0 < cnt l r.
Proof. unfold cnt. intros H. apply (count_occ_In Nat.eq_dec) in H. lia. Qed.

Lemma cnt_remove_one x l r : In x l -> cnt (remove_one x l) r + ind x r = cnt l r.
Proof.
  induction l as [|y l IH]; cbn; [tauto|].
  intros H. destruct (Nat.eqb_spec x y) as [->|N].
  - rewrite cnt_cons. lia.
  - destruct H as [H|H]; [congruence|]. rewrite !cnt_cons. specialize (IH H). lia.
Qed.

Lemma flat_map_upd {A} (f : A -> list nat) (l : list A) i x d r :
  i < length l ->
  cnt (flat_map f (upd l i x)) r + cnt (f (nth i l d)) r = cnt (flat_map f l) r + cnt (f x) r.
Proof.
  revert i; induction l as [|y l IH]; intros [|i] H; cbn in *; try lia.
  - rewrite !cnt_app. lia.
  - rewrite !cnt_app. specialize (IH i ltac:(lia)). lia.
Qed.

(** ---- association lists ---- *)
Lemma peqb_spec a b : reflect (a = b) (peqb a b).
Proof.
  unfold peqb. destruct a as [a1 a2], b as [b1 b2]; cbn.
  destruct (Nat.eqb_spec a1 b1), (Nat.eqb_spec a2 b2); cbn; constructor; congruence.
Qed.

Section AL.
  Context {K : Type} (eqb : K -> K -> bool) (eqb_spec : forall a b, reflect (a = b) (eqb a b)).
  Definition keys (l : list (K * nat)) := map fst l.

  Lemma adel_notin k (l : list (K * nat)) : ~ In k (keys (adel eqb k l)).
  Proof.
    induction l as [|[k' v] l IH]; cbn; auto.
    destruct (eqb_spec k k'); cbn; auto. intros [H|H]; auto.
  Qed.

  Lemma adel_keys_incl k k0 (l : list (K * nat)) : In k0 (keys (adel eqb k l)) -> In k0 (keys l).
  Proof.
    induction l as [|[k' v] l IH]; cbn; auto.
    destruct (eqb_spec k k'); cbn; auto. intros [H|H]; auto.
  Qed.

  Lemma adel_nodup k (l : list (K * nat)) : NoDup (keys l) -> NoDup (keys (adel eqb k l)).
  Proof.
    induction l as [|[k' v] l IH]; cbn; auto. intros H. inversion H; subst.
    destruct (eqb_spec k k'); cbn; auto. constructor; auto. intros X. apply adel_keys_incl in X. auto.
  Qed.

  Lemma aset_keys k k0 v (l : list (K * nat)) : In k0 (keys (aset eqb k v l)) -> k0 = k \/ In k0 (keys l).
  Proof.
    induction l as [|[k' v'] l IH]; cbn; [intros [H|[]]; auto|].
    destruct (eqb_spec k k'); cbn.
    - intros [H|H]; auto. apply adel_keys_incl in H. auto.
    - intros [H|H]; auto. apply IH in H. tauto.
  Qed.

  Lemma aset_nodup k v (l : list (K * nat)) : NoDup (keys l) -> NoDup (keys (aset eqb k v l)).
  Proof.
    induction l as [|[k' v'] l IH]; cbn; intros H.
    - constructor; [intros [] | constructor].
    - inversion H; subst. destruct (eqb_spec k k'); cbn.
      + subst. constructor; [apply adel_notin | apply adel_nodup; auto].
      + constructor; auto. intros X. apply aset_keys in X. destruct X; [congruence | contradiction].
  Qed.

  Lemma alookup_none_notin k (l : list (K * nat)) : alookup eqb k l = None -> ~ In k (keys l).
  Proof.
    induction l as [|[k' v] l IH]; cbn; auto.
    destruct (eqb_spec k k'); [discriminate|]. intros H [X|X]; [congruence|]. apply IH; auto.
  Qed.

  Lemma adel_notin_id k (l : list (K * nat)) : ~ In k (keys l) -> adel eqb k l = l.
  Proof.
    induction l as [|[k' v] l IH]; cbn; auto. intros H.
    destruct (eqb_spec k k'); [subst; tauto|]. f_equal. apply IH. tauto.
  Qed.

  Lemma alookup_in k v (l : list (K * nat)) : alookup eqb k l = Some v -> In v (map snd l).
  Proof.
    induction l as [|[k' v'] l IH]; cbn; [discriminate|].
    destruct (eqb_spec k k'); [intros [= ->]; auto | auto].
  Qed.

  Lemma cnt_adel k o (l : list (K * nat)) r :
    NoDup (keys l) -> alookup eqb k l = Some o ->
    cnt (map snd (adel eqb k l)) r + ind o r = cnt (map snd l) r.
  Proof.
    induction l as [|[k' v] l IH]; cbn; [discriminate|]. intros N. inversion N; subst.
    destruct (eqb_spec k k').
    - subst. intros [= ->]. rewrite adel_notin_id by auto. rewrite cnt_cons. lia.
    - intros H. cbn. rewrite !cnt_cons. specialize (IH H2 H). lia.
  Qed.

  Lemma cnt_aset_some k v o (l : list (K * nat)) r :
    NoDup (keys l) -> alookup eqb k l = Some o ->
    cnt (map snd (aset eqb k v l)) r + ind o r = cnt (map snd l) r + ind v r.
  Proof.
    induction l as [|[k' v'] l IH]; cbn; [discriminate|]. intros N. inversion N; subst.
    destruct (eqb_spec k k').
    - subst. intros [= ->]. rewrite adel_notin_id by auto. cbn. rewrite !cnt_cons. lia.
    - intros H. cbn. rewrite !cnt_cons. specialize (IH H2 H). lia.
  Qed.

  Lemma cnt_aset_none k v (l : list (K * nat)) r :
    alookup eqb k l = None -> cnt (map snd (aset eqb k v l)) r = cnt (map snd l) r + ind v r.
  Proof.
    induction l as [|[k' v'] l IH]; cbn.
    - intros _. rewrite cnt_cons. cbn. lia.
    - destruct (eqb_spec k k'); [discriminate|]. intros H. cbn. rewrite !cnt_cons, IH by auto. lia.
  Qed.

  Lemma in_adel_vals k x (l : list (K * nat)) : In x (map snd (adel eqb k l)) -> In x (map snd l).
  Proof.
    induction l as [|[k' v] l IH]; cbn; auto.
    destruct (eqb_spec k k'); cbn; auto. intros [H|H]; auto.
  Qed.

  Lemma in_aset_vals k v x (l : list (K * nat)) : In x (map snd (aset eqb k v l)) -> x = v \/ In x (map snd l).
  Proof.
    induction l as [|[k' v'] l IH]; cbn; [intros [H|[]]; auto|].
    destruct (eqb_spec k k'); cbn.
    - intros [H|H]; auto. apply in_adel_vals in H. auto.
    - intros [H|H]; auto. apply IH in H. tauto.
  Qed.
End AL.

(** ---- the invariant ---- *)
Section Inv.
Variable B : Type.
Variable bstep : B -> bcall -> B * bans.
Notation st := (sstate B).
Notation gref := (get_ref B).

Definition live (x : fidref) : bool := (0 <? fr_refs x)%Z.
Definition io (o : option nat) (q : nat) : nat := match o with Some p => ind p q | None => 0 end.
Definition olist (o : option nat) : list nat := match o with Some p => [p] | None => [] end.

(** the references a fidRef holds on others while it is live *)
Definition out_refs (x : fidref) : list nat :=
  if live x then olist (fr_parent x) ++ olist (fr_xattrOf x) else [].

(** every counted reference: fid-table entries, transient holders, parent / xattrOf links of live fidRefs *)
Definition all_refs (s : st) : list nat :=
  map snd (s_fids B s) ++ s_held B s ++ flat_map out_refs (s_refs B s).

Definition C (s : st) (q : nat) : nat := cnt (all_refs s) q.

(** [d]: references already dropped from [all_refs] whose DecRef is still to come *)
Definition RefInvD (s : st) (d : list nat) : Prop :=
  NoDup (map fst (s_fids B s)) /\
  (forall r, r < length (s_refs B s) -> fr_refs (gref s r) = Z.of_nat (C s r + cnt d r)) /\
  (forall r, 0 < C s r + cnt d r -> r < length (s_refs B s)).
Definition RefInv (s : st) : Prop := RefInvD s [].

Lemma cnt_olist o q : cnt (olist o) q = io o q.
Proof. destruct o; cbn; [rewrite cnt_cons, cnt_nil; lia | reflexivity]. Qed.

Lemma cnt_out_refs x q :
  cnt (out_refs x) q = if live x then io (fr_parent x) q + io (fr_xattrOf x) q else 0.
Proof. unfold out_refs. destruct (live x); [rewrite cnt_app, !cnt_olist; lia | reflexivity]. Qed.

Lemma C_eq s q : C s q = cnt (map snd (s_fids B s)) q + cnt (s_held B s) q + cnt (flat_map out_refs (s_refs B s)) q.
Proof. unfold C, all_refs. rewrite !cnt_app. lia. Qed.

(** states that agree on fid table, holders and fidRefs *)
Definition same_core (s s' : st) : Prop :=
  s_fids B s' = s_fids B s /\ s_held B s' = s_held B s /\ s_refs B s' = s_refs B s /\
  (s_panic B s = true -> s_panic B s' = true).

Lemma same_core_refl s : same_core s s. Proof. repeat split; auto. Qed.
Lemma same_core_trans a b c : same_core a b -> same_core b c -> same_core a c.
Proof. unfold same_core; intros (?&?&?&?) (?&?&?&?); repeat split; try congruence; auto. Qed.

Lemma same_core_inv s s' d : same_core s s' -> RefInvD s d -> RefInvD s' d.
Proof.
  intros (F & H & R & _) (N & I2 & I3). unfold RefInvD, C, all_refs, get_ref in *. rewrite F, H, R. auto.
Qed.

Lemma sc_set_node n x s : same_core s (set_node B n x s). Proof. repeat split; auto. Qed.
Lemma sc_set_panic s : same_core s (set_panic B s). Proof. repeat split; auto. Qed.
Lemma sc_set_oof s : same_core s (set_oof B s). Proof. repeat split; auto. Qed.
Lemma sc_with_nodes f s : same_core s (with_nodes B f s). Proof. repeat split; auto. Qed.
Lemma sc_with_nexth f s : same_core s (with_nexth B f s). Proof. repeat split; auto. Qed.
Lemma sc_bcall c s : same_core s (snd (bcall_ B bstep c s)).
Proof. unfold bcall_. destruct (bstep (s_be B s) c). repeat split; auto. Qed.

Lemma sc_remove_child n r s : same_core s (remove_child B n r s).
Proof.
  unfold remove_child. destruct (alookup _ _ _); [|apply same_core_refl].
  destruct (alookup _ _ _); [apply sc_set_node | apply sc_set_panic].
Qed.

(** effect of overwriting one fidRef *)
Lemma gref_set_same s r x : r < length (s_refs B s) -> gref (set_ref B r x s) r = x.
Proof. intros H. unfold get_ref, set_ref; cbn. apply nth_upd_same; auto. Qed.

Lemma gref_set_other s r q x : r <> q -> gref (set_ref B r x s) q = gref s q.
Proof. intros H. unfold get_ref, set_ref; cbn. apply nth_upd_other; auto. Qed.

Lemma len_set_ref s r x : length (s_refs B (set_ref B r x s)) = length (s_refs B s).
Proof. unfold set_ref; cbn. apply upd_length. Qed.

Lemma C_set_ref s r x q : r < length (s_refs B s) ->
  C (set_ref B r x s) q + cnt (out_refs (gref s r)) q = C s q + cnt (out_refs x) q.
Proof.
  intros H. rewrite !C_eq. unfold set_ref; cbn.
  pose proof (flat_map_upd out_refs (s_refs B s) r x dead_ref q H) as E. unfold get_ref. lia.
Qed.

(** stickiness of the out-of-fuel flag *)
Lemma oof_bcall c s : s_oof B (snd (bcall_ B bstep c s)) = s_oof B s.
Proof. unfold bcall_. destruct (bstep (s_be B s) c). reflexivity. Qed.

Lemma oof_remove_child n r s : s_oof B (remove_child B n r s) = s_oof B s.
Proof. unfold remove_child. destruct (alookup _ _ _); auto. destruct (alookup _ _ _); auto. Qed.

Lemma oof_decref fuel : forall r s, s_oof B s = true -> s_oof B (snd (decref B bstep fuel r s)) = true.
Proof.
  induction fuel as [|f IH]; intros r s H; cbn; auto.
  destruct (Z.eqb_spec (fr_refs (gref s r) - 1) 0); cbn; auto.
  set (s1 := set_ref B r _ s).
  assert (H1 : s_oof B s1 = true) by exact H.
  assert (H2 : s_oof B (snd (match fr_xattrOf (gref s r) with
                             | Some o => decref B bstep f o s1
                             | None => let '(a, s2) := bcall_ B bstep (BClose (fr_file (gref s r))) s1 in
                                       (match a with AErr e => Some e | _ => None end, s2)
                             end)) = true).
  { destruct (fr_xattrOf (gref s r)) as [o|]; [apply IH; auto|].
    pose proof (oof_bcall (BClose (fr_file (gref s r))) s1) as E.
    destruct (bcall_ B bstep _ s1) as [a s2]; cbn in *. congruence. }
  destruct (match fr_xattrOf (gref s r) with Some o => _ | None => _ end) as [e1 s2]; cbn in H2.
  destruct (fr_parent (gref s r)) as [p|]; cbn; auto.
  pose proof (IH p (remove_child B (fr_node (gref s2 p)) r s2)) as E.
  rewrite oof_remove_child in E. specialize (E H2).
  destruct (decref B bstep f p _) as [e2 s4]; cbn in *. auto.
Qed.

Lemma ind_same a : ind a a = 1.
Proof. unfold ind. destruct (Nat.eq_dec a a); congruence. Qed.
Lemma ind_diff a b : a <> b -> ind a b = 0.
Proof. unfold ind. destruct (Nat.eq_dec a b); congruence. Qed.

Lemma live_refs x z : live (fr_with_refs x z) = (0 <? z)%Z. Proof. reflexivity. Qed.

Lemma out_refs_with_refs x z q :
  cnt (out_refs (fr_with_refs x z)) q = if (0 <? z)%Z then io (fr_parent x) q + io (fr_xattrOf x) q else 0.
Proof. rewrite cnt_out_refs. reflexivity. Qed.

(** ---- number of live fidRefs ---- *)
Definition b2n (b : bool) : nat := if b then 1 else 0.
Definition lc (l : list fidref) : nat := length (filter live l).
Definition live_count (s : st) : nat := lc (s_refs B s).
Arguments lc : simpl never.
Arguments b2n : simpl never.

Lemma lc_upd l i x : i < length l -> lc (upd l i x) + b2n (live (nth i l dead_ref)) = lc l + b2n (live x).
Proof.
  revert i; induction l as [|y l IH]; intros [|i] H; cbn in *; try lia.
  - unfold lc, b2n; cbn. destruct (live x), (live y); cbn; lia.
  - specialize (IH i ltac:(lia)). unfold lc, b2n in *; cbn. destruct (live y); cbn; lia.
Qed.

Lemma lc_le l : lc l <= length l.
Proof. unfold lc. induction l as [|y l IH]; cbn; [lia|]. destruct (live y); cbn; lia. Qed.

(** what DecRef leaves alone *)
Definition keeps (s s' : st) : Prop :=
  s_fids B s' = s_fids B s /\ s_held B s' = s_held B s /\ s_nexth B s' = s_nexth B s /\
  length (s_refs B s') = length (s_refs B s) /\
  (s_panic B s = true -> s_panic B s' = true) /\
  forall q, fr_with_refs (gref s' q) 0 = fr_with_refs (gref s q) 0.

Lemma keeps_refl s : keeps s s. Proof. repeat split; auto. Qed.
Lemma keeps_trans a b c : keeps a b -> keeps b c -> keeps a c.
Proof. intros (?&?&?&?&?&HA) (?&?&?&?&?&HB). repeat split; try congruence; auto. Qed.

Lemma keeps_same_core s s' : same_core s s' -> s_nexth B s' = s_nexth B s -> keeps s s'.
Proof. intros (F & H & R & P) N. unfold keeps, get_ref. rewrite F, H, R. repeat split; auto. Qed.

Lemma keeps_set_refs s r z : keeps s (set_ref B r (fr_with_refs (gref s r) z) s).
Proof.
  repeat split; try reflexivity; [apply len_set_ref | auto |]. intros q.
  destruct (Nat.eq_dec r q) as [<-|N].
  - destruct (Nat.lt_ge_cases r (length (s_refs B s))) as [L|L].
    + rewrite gref_set_same by auto. reflexivity.
    + unfold set_ref. rewrite upd_oob by auto. destruct s; reflexivity.
  - rewrite gref_set_other by auto. reflexivity.
Qed.

Lemma keeps_field {A} (f : fidref -> A) s s' q :
  (forall x z, f (fr_with_refs x z) = f x) -> keeps s s' -> f (gref s' q) = f (gref s q).
Proof. intros Hf (_&_&_&_&_&H). rewrite <- (Hf (gref s' q) 0%Z), <- (Hf (gref s q) 0%Z), H. reflexivity. Qed.

Lemma nexth_bcall c s : s_nexth B (snd (bcall_ B bstep c s)) = s_nexth B s.
Proof. unfold bcall_. destruct (bstep (s_be B s) c). reflexivity. Qed.

Lemma nexth_remove_child n r s : s_nexth B (remove_child B n r s) = s_nexth B s.
Proof. unfold remove_child. destruct (alookup _ _ _); auto. destruct (alookup _ _ _); auto. Qed.

(** the first step of a cascade that reaches zero *)
Lemma decref_inv2 fuel : forall r s d,
  RefInvD s (r :: d) -> live_count s < fuel ->
  let s' := snd (decref B bstep fuel r s) in
  RefInvD s' d /\ live_count s' <= live_count s /\ s_oof B s' = s_oof B s /\ keeps s s'.
Proof.
  induction fuel as [|f IH]; intros r s d Inv Hf; [lia|].
  destruct Inv as (N & I2 & I3).
  assert (Hr : r < length (s_refs B s)). { apply I3. rewrite cnt_cons, ind_same. lia. }
  pose proof (I2 r Hr) as Er. rewrite cnt_cons, ind_same in Er.
  cbv zeta. cbn [decref].
  set (x := gref s r) in *.
  set (s1 := set_ref B r (fr_with_refs x (fr_refs x - 1)) s) in *.
  assert (Lx : live x = true). { unfold live. apply Z.ltb_lt. lia. }
  assert (Cs1 : forall q, C s1 q + cnt (out_refs x) q = C s q + cnt (out_refs (fr_with_refs x (fr_refs x - 1))) q).
  { intros q. apply C_set_ref; auto. }
  assert (G1 : gref s1 r = fr_with_refs x (fr_refs x - 1)) by (apply gref_set_same; auto).
  assert (G2 : forall q, r <> q -> gref s1 q = gref s q) by (intros; apply gref_set_other; auto).
  assert (L1 : length (s_refs B s1) = length (s_refs B s)) by apply len_set_ref.
  assert (K1 : keeps s s1) by apply keeps_set_refs.
  assert (O1 : s_oof B s1 = s_oof B s) by reflexivity.
  assert (LC1 : live_count s1 + 1 = live_count s + b2n (0 <? fr_refs x - 1)%Z).
  { unfold live_count. change (s_refs B s1) with (upd (s_refs B s) r (fr_with_refs x (fr_refs x - 1))).
    pose proof (lc_upd (s_refs B s) r (fr_with_refs x (fr_refs x - 1)) Hr) as E.
    fold (gref s r) in E. fold x in E. rewrite Lx, live_refs in E. unfold b2n at 1 in E. lia. }
  destruct (Z.eqb_spec (fr_refs x - 1) 0) as [Z0|NZ].
  - replace (0 <? fr_refs x - 1)%Z with false in LC1 by (symmetry; apply Z.ltb_ge; lia). unfold b2n in LC1.
    assert (Cs1' : forall q, C s1 q + (io (fr_parent x) q + io (fr_xattrOf x) q) = C s q).
    { intros q. specialize (Cs1 q). rewrite out_refs_with_refs, cnt_out_refs, Lx in Cs1.
      replace (0 <? fr_refs x - 1)%Z with false in Cs1 by (symmetry; apply Z.ltb_ge; lia). lia. }
    assert (D1 : RefInvD s1 (olist (fr_xattrOf x) ++ olist (fr_parent x) ++ d)).
    { split; [exact N|]. split.
      - intros q Hq. rewrite L1 in Hq. rewrite !cnt_app, !cnt_olist. specialize (Cs1' q).
        destruct (Nat.eq_dec r q) as [<-|Nq].
        + rewrite G1. cbn. lia.
        + rewrite G2 by auto. rewrite (I2 q Hq), cnt_cons, ind_diff by auto. lia.
      - intros q Hq. rewrite L1. apply I3. rewrite !cnt_app, !cnt_olist in Hq. specialize (Cs1' q).
        rewrite cnt_cons. lia. }
    assert (Hf1 : live_count s1 < f) by lia.
    clearbody s1. clear Cs1 Cs1' G1 G2 I2 I3 Er.
    assert (D2 : forall s2,
               s2 = snd (match fr_xattrOf x with
                         | Some o => decref B bstep f o s1
                         | None => let '(a, s2) := bcall_ B bstep (BClose (fr_file x)) s1 in
                                   (match a with AErr e => Some e | _ => None end, s2)
                         end) ->
               RefInvD s2 (olist (fr_parent x) ++ d) /\ live_count s2 <= live_count s1 /\ s_oof B s2 = s_oof B s1 /\ keeps s1 s2).
    { intros s2 ->. destruct (fr_xattrOf x) as [o|]; cbn [olist app] in D1.
      - apply IH; auto.
      - pose proof (sc_bcall (BClose (fr_file x)) s1) as SC.
        pose proof (oof_bcall (BClose (fr_file x)) s1) as OB.
        pose proof (nexth_bcall (BClose (fr_file x)) s1) as NB.
        destruct (bcall_ B bstep (BClose (fr_file x)) s1) as [a s2]. cbn [snd] in *.
        split; [eapply same_core_inv; eauto|]. split; [|split; [exact OB | apply keeps_same_core; auto]].
        destruct SC as (_ & _ & R & _). unfold live_count. rewrite R. lia. }
    destruct (match fr_xattrOf x with Some o => _ | None => _ end) as [e1 s2] eqn:E2.
    destruct (D2 s2 eq_refl) as (D3 & LC2 & O2 & K2).
    destruct (fr_parent x) as [p|]; cbn [olist app] in D3.
    + set (s3 := remove_child B (fr_node (gref s2 p)) r s2).
      pose proof (sc_remove_child (fr_node (gref s2 p)) r s2) as SC3. fold s3 in SC3.
      assert (D4 : RefInvD s3 (p :: d)) by (eapply same_core_inv; eauto).
      assert (LC3 : live_count s3 = live_count s2). { destruct SC3 as (_ & _ & R & _). unfold live_count. rewrite R. reflexivity. }
      destruct (IH p s3 d D4 ltac:(lia)) as (D5 & LC5 & O5 & K5).
      destruct (decref B bstep f p s3) as [e2 s4]. cbn [snd] in *.
      split; [exact D5|]. split; [lia|]. split.
      * rewrite O5. unfold s3. rewrite oof_remove_child. congruence.
      * eapply keeps_trans; [exact K1|]. eapply keeps_trans; [exact K2|].
        eapply keeps_trans; [|exact K5]. apply keeps_same_core; auto. apply nexth_remove_child.
    + cbn [snd]. split; [exact D3|]. split; [lia|]. split; [congruence|].
      eapply keeps_trans; eauto.
  - cbn [snd].
    replace (0 <? fr_refs x - 1)%Z with true in LC1 by (symmetry; apply Z.ltb_lt; lia). unfold b2n in LC1.
    assert (Cs1' : forall q, C s1 q = C s q).
    { intros q. specialize (Cs1 q). rewrite out_refs_with_refs, cnt_out_refs, Lx in Cs1.
      replace (0 <? fr_refs x - 1)%Z with true in Cs1 by (symmetry; apply Z.ltb_lt; lia). lia. }
    split; [|split; [lia | split; [reflexivity | exact K1]]].
    split; [exact N|]. split.
    + intros q Hq. rewrite L1 in Hq. rewrite Cs1'.
      destruct (Nat.eq_dec r q) as [<-|Nq].
      * rewrite G1. cbn. lia.
      * rewrite G2 by auto. rewrite (I2 q Hq), cnt_cons, ind_diff by auto. lia.
    + intros q Hq. rewrite L1. apply I3. rewrite Cs1' in Hq. rewrite cnt_cons. lia.
Qed.

(** the state right after the count of [r] reached zero: its parent / xattrOf references are owed *)
Lemma death_step r s d :
  RefInvD s (r :: d) -> (fr_refs (gref s r) - 1 = 0)%Z ->
  let s1 := set_ref B r (fr_with_refs (gref s r) 0) s in
  RefInvD s1 (olist (fr_xattrOf (gref s r)) ++ olist (fr_parent (gref s r)) ++ d) /\
  live_count s1 + 1 = live_count s /\ r < length (s_refs B s) /\ live (gref s r) = true.
Proof.
  intros (N & I2 & I3) Z0. cbv zeta.
  assert (Hr : r < length (s_refs B s)). { apply I3. rewrite cnt_cons, ind_same. lia. }
  set (x := gref s r) in *. set (s1 := set_ref B r (fr_with_refs x 0) s).
  assert (Lx : live x = true). { unfold live. apply Z.ltb_lt. lia. }
  pose proof (fun q => C_set_ref s r (fr_with_refs x 0) q Hr) as Cs1. fold x in Cs1. fold s1 in Cs1.
  assert (Cs1' : forall q, C s1 q + (io (fr_parent x) q + io (fr_xattrOf x) q) = C s q).
  { intros q. specialize (Cs1 q). rewrite out_refs_with_refs, cnt_out_refs, Lx in Cs1. cbn in Cs1. lia. }
  assert (G1 : gref s1 r = fr_with_refs x 0) by (apply gref_set_same; auto).
  assert (G2 : forall q, r <> q -> gref s1 q = gref s q) by (intros; apply gref_set_other; auto).
  assert (L1 : length (s_refs B s1) = length (s_refs B s)) by apply len_set_ref.
  pose proof (I2 r Hr) as Er. rewrite cnt_cons, ind_same in Er. fold x in Er.
  split; [|split; [|split; auto]].
  - split; [exact N|]. split.
    + intros q Hq. rewrite L1 in Hq. rewrite !cnt_app, !cnt_olist. specialize (Cs1' q).
      destruct (Nat.eq_dec r q) as [<-|Nq].
      * rewrite G1. cbn. lia.
      * rewrite G2 by auto. rewrite (I2 q Hq), cnt_cons, ind_diff by auto. lia.
    + intros q Hq. rewrite L1. apply I3. rewrite !cnt_app, !cnt_olist in Hq. specialize (Cs1' q). rewrite cnt_cons. lia.
  - unfold live_count. change (s_refs B s1) with (upd (s_refs B s) r (fr_with_refs x 0)).
    pose proof (lc_upd (s_refs B s) r (fr_with_refs x 0) Hr) as E. fold (gref s r) in E. fold x in E.
    rewrite Lx, live_refs in E. unfold b2n in E. cbn in E. lia.
Qed.

Lemma fuel_enough s : live_count s < fuel_of B s.
Proof. unfold live_count, fuel_of. pose proof (lc_le (s_refs B s)). lia. Qed.

(** DecRef as the handlers call it *)
Lemma decref_ok r s d :
  RefInvD s (r :: d) ->
  let s' := snd (decref_ B bstep r s) in
  RefInvD s' d /\ s_oof B s' = s_oof B s /\ keeps s s'.
Proof.
  intros Inv. destruct (decref_inv2 (fuel_of B s) r s d Inv (fuel_enough s)) as (A & _ & O & K). auto.
Qed.


(** ---- the other primitives ---- *)
Lemma flat_map_ge {A} (f : A -> list nat) (l : list A) i d q : i < length l -> cnt (f (nth i l d)) q <= cnt (flat_map f l) q.
Proof.
  revert i; induction l as [|y l IH]; intros [|i] H; cbn in *; try lia; rewrite cnt_app; [lia|].
  specialize (IH i ltac:(lia)). lia.
Qed.

Lemma inv_live s d r : RefInvD s d -> 0 < C s r -> r < length (s_refs B s) /\ (0 < fr_refs (gref s r))%Z.
Proof. intros (N & I2 & I3) H. assert (L : r < length (s_refs B s)) by (apply I3; lia). split; auto. rewrite I2 by auto. lia. Qed.

Lemma C_held s r : In r (s_held B s) -> 0 < C s r.
Proof. intros H. rewrite C_eq. apply in_cnt in H. lia. Qed.

Lemma C_fid s r : In r (map snd (s_fids B s)) -> 0 < C s r.
Proof. intros H. rewrite C_eq. apply in_cnt in H. lia. Qed.

(** a live fidRef's parent and xattrOf are counted *)
Lemma C_parent s r p : r < length (s_refs B s) -> (0 < fr_refs (gref s r))%Z -> fr_parent (gref s r) = Some p -> 0 < C s p.
Proof.
  intros L Lv E. rewrite C_eq. pose proof (flat_map_ge out_refs (s_refs B s) r dead_ref p L) as G.
  fold (gref s r) in G. rewrite cnt_out_refs in G. unfold live in G.
  replace (0 <? fr_refs (gref s r))%Z with true in G by (symmetry; apply Z.ltb_lt; auto).
  rewrite E in G. cbn in G. rewrite ind_same in G. lia.
Qed.

(** IncRef of a live fidRef creates a surplus of one on it: stated with the new reference already recorded *)
Lemma incref_C s r : r < length (s_refs B s) -> (0 < fr_refs (gref s r))%Z -> forall q, C (incref B r s) q = C s q.
Proof.
  intros L Lv q. unfold incref. pose proof (C_set_ref s r (fr_with_refs (gref s r) (fr_refs (gref s r) + 1)) q L) as E.
  rewrite out_refs_with_refs, cnt_out_refs in E. unfold live in E.
  replace (0 <? fr_refs (gref s r))%Z with true in E by (symmetry; apply Z.ltb_lt; auto).
  replace (0 <? fr_refs (gref s r) + 1)%Z with true in E by (symmetry; apply Z.ltb_lt; lia). lia.
Qed.

Lemma hold_inv_live s d r : RefInvD s d -> r < length (s_refs B s) -> (0 < fr_refs (gref s r))%Z -> RefInvD (hold B r s) d.
Proof.
  intros Inv L Lv. destruct Inv as (N & I2 & I3).
  pose proof (incref_C s r L Lv) as EC.
  assert (CH : forall q, C (hold B r s) q = C s q + ind r q).
  { intros q. specialize (EC q). rewrite !C_eq in *. unfold hold; cbn in *. rewrite cnt_cons. lia. }
  split; [exact N|]. split.
  - intros q Hq. unfold hold in Hq; cbn in Hq. rewrite upd_length in Hq. rewrite CH.
    change (gref (hold B r s) q) with (gref (incref B r s) q). unfold incref.
    destruct (Nat.eq_dec r q) as [<-|Nq].
    + rewrite gref_set_same by auto. cbn. rewrite I2, ind_same by auto. lia.
    + rewrite gref_set_other by auto. rewrite I2, ind_diff by auto. lia.
  - intros q Hq. unfold hold; cbn. rewrite upd_length. rewrite CH in Hq.
    destruct (Nat.eq_dec r q) as [<-|Nq]; auto. rewrite ind_diff in Hq by auto. apply I3. lia.
Qed.

Lemma hold_inv s d r : RefInvD s d -> 0 < C s r -> RefInvD (hold B r s) d.
Proof. intros Inv H. destruct (inv_live s d r Inv H) as (L & Lv). apply hold_inv_live; auto. Qed.

Lemma release_inv s d r : RefInvD s d -> In r (s_held B s) -> RefInvD (release B bstep r s) d.
Proof.
  intros (N & I2 & I3) H. unfold release. apply decref_ok.
  assert (CH : forall q, C (with_held B (remove_one r (s_held B s)) s) q + ind r q = C s q).
  { intros q. rewrite !C_eq; cbn. pose proof (cnt_remove_one r (s_held B s) q H). lia. }
  split; [exact N|]. split.
  - intros q Hq. cbn in Hq. change (gref (with_held B (remove_one r (s_held B s)) s) q) with (gref s q).
    rewrite I2 by auto. rewrite cnt_cons. specialize (CH q). lia.
  - intros q Hq. cbn. apply I3. rewrite cnt_cons in Hq. specialize (CH q). lia.
Qed.

Lemma insert_fid_inv s d c fid r :
  RefInvD s d -> 0 < C s r -> RefInvD (insert_fid B bstep c fid r s) d.
Proof.
  intros Inv H. destruct (inv_live s d r Inv H) as (L & Lv). destruct Inv as (N & I2 & I3).
  pose proof (incref_C s r L Lv) as EC. unfold insert_fid in *.
  set (s1 := with_fids B (aset peqb (c, fid) r (s_fids B s)) (incref B r s)) in *.
  assert (G : forall q, fr_refs (gref s1 q) = (fr_refs (gref s q) + Z.of_nat (ind r q))%Z).
  { intros q. change (gref s1 q) with (gref (incref B r s) q). unfold incref.
    destruct (Nat.eq_dec r q) as [<-|Nq].
    - rewrite gref_set_same, ind_same by auto. cbn. lia.
    - rewrite gref_set_other, ind_diff by auto. lia. }
  assert (L1 : length (s_refs B s1) = length (s_refs B s)) by (cbn; apply upd_length).
  assert (N1 : NoDup (map fst (s_fids B s1))) by (cbn; apply (aset_nodup peqb peqb_spec); auto).
  destruct (alookup peqb (c, fid) (s_fids B s)) as [o|] eqn:E.
  - apply decref_ok.
    assert (CH : forall q, C s1 q + ind o q = C s q + ind r q).
    { intros q. specialize (EC q). rewrite !C_eq in *. cbn in *.
      pose proof (cnt_aset_some peqb peqb_spec (c, fid) r o (s_fids B s) q N E). lia. }
    split; [exact N1|]. split.
    + intros q Hq. rewrite L1 in Hq. rewrite G, I2 by auto. rewrite cnt_cons. specialize (CH q). lia.
    + intros q Hq. rewrite L1. rewrite cnt_cons in Hq. specialize (CH q).
      destruct (Nat.eq_dec r q) as [<-|Nq]; auto. rewrite (ind_diff r q) in CH by auto. apply I3. lia.
  - assert (CH : forall q, C s1 q = C s q + ind r q).
    { intros q. specialize (EC q). rewrite !C_eq in *. cbn in *.
      pose proof (cnt_aset_none peqb peqb_spec (c, fid) r (s_fids B s) q E). lia. }
    split; [exact N1|]. split.
    + intros q Hq. rewrite L1 in Hq. rewrite G, I2, CH by auto. lia.
    + intros q Hq. rewrite L1. rewrite CH in Hq.
      destruct (Nat.eq_dec r q) as [<-|Nq]; auto. rewrite (ind_diff r q) in Hq by auto. apply I3. lia.
Qed.

Lemma delete_fid_inv s d c fid :
  RefInvD s d -> RefInvD (snd (delete_fid B bstep c fid s)) d.
Proof.
  intros (N & I2 & I3). unfold delete_fid in *.
  destruct (alookup peqb (c, fid) (s_fids B s)) as [r|] eqn:E; [|cbn; repeat split; auto].
  apply decref_ok.
  assert (CH : forall q, C (with_fids B (adel peqb (c, fid) (s_fids B s)) s) q + ind r q = C s q).
  { intros q. rewrite !C_eq. cbn. pose proof (cnt_adel peqb peqb_spec (c, fid) r (s_fids B s) q N E). lia. }
  split; [cbn; apply (adel_nodup peqb peqb_spec); auto|]. split.
  - intros q Hq. cbn in Hq. change (gref (with_fids B (adel peqb (c, fid) (s_fids B s)) s) q) with (gref s q).
    rewrite I2 by auto. rewrite cnt_cons. specialize (CH q). lia.
  - intros q Hq. cbn. apply I3. rewrite cnt_cons in Hq. specialize (CH q). lia.
Qed.

(** new fidRefs *)
Lemma new_ref_facts x s :
  let nr := length (s_refs B s) in
  let s1 := snd (new_ref B x s) in
  fst (new_ref B x s) = nr /\
  length (s_refs B s1) = S nr /\
  gref s1 nr = fr_with_refs x 1 /\
  (forall q, q < nr -> gref s1 q = gref s q) /\
  s_fids B s1 = s_fids B s /\ s_held B s1 = nr :: s_held B s /\
  (forall q, C s1 q = C s q + ind nr q + (io (fr_parent x) q + io (fr_xattrOf x) q)).
Proof.
  cbn. repeat split.
  - rewrite app_length. cbn. lia.
  - unfold get_ref; cbn. rewrite app_nth2 by lia. rewrite Nat.sub_diag. reflexivity.
  - intros q Hq. unfold get_ref; cbn. apply app_nth1; auto.
  - intros q. rewrite !C_eq. cbn. rewrite flat_map_app, cnt_app, cnt_cons. cbn [flat_map]. rewrite app_nil_r.
    rewrite out_refs_with_refs. cbn. lia.
Qed.

Lemma fresh_uncounted s d : RefInvD s d -> C s (length (s_refs B s)) + cnt d (length (s_refs B s)) = 0.
Proof.
  intros (N & I2 & I3). destruct (C s (length (s_refs B s)) + cnt d (length (s_refs B s))) eqn:E; auto.
  specialize (I3 (length (s_refs B s))). lia.
Qed.

Lemma new_ref_inc_inv s d x :
  RefInvD s d ->
  (forall p, fr_parent x = Some p -> 0 < C s p /\ fr_xattrOf x = None) ->
  (forall o, fr_xattrOf x = Some o -> 0 < C s o) ->
  RefInvD (snd (new_ref_inc B x s)) d.
Proof.
  intros Inv HP HX. pose proof (fresh_uncounted s d Inv) as F0.
  destruct (new_ref_facts x s) as (E0 & L1 & Gn & Go & Ff & Fh & FC).
  unfold new_ref_inc. destruct (new_ref B x s) as [nr s1] eqn:ENR. cbn [fst snd] in *. subst nr.
  set (n := length (s_refs B s)) in *.
  assert (Base : forall t, 0 < C s t ->
            (io (fr_parent x) = ind t /\ io (fr_xattrOf x) = (fun _ => 0) \/ io (fr_parent x) = (fun _ => 0) /\ io (fr_xattrOf x) = ind t) ->
            RefInvD (incref B t s1) d).
  { intros t Ht Hio. destruct (inv_live s d t Inv Ht) as (Lt & Lvt). destruct Inv as (N & I2 & I3).
    assert (Lt1 : t < length (s_refs B s1)) by lia.
    assert (Lvt1 : (0 < fr_refs (gref s1 t))%Z) by (rewrite Go by auto; auto).
    pose proof (incref_C s1 t Lt1 Lvt1) as EC.
    assert (FC' : forall q, C (incref B t s1) q = C s q + ind n q + ind t q).
    { intros q. rewrite EC, FC. destruct Hio as [(->&->)|(->&->)]; lia. }
    split; [cbn; rewrite Ff; exact N|]. split.
    - intros q Hq. unfold incref in Hq |- *. rewrite len_set_ref in Hq. rewrite L1 in Hq.
      fold (incref B t s1). rewrite FC'. unfold incref.
      destruct (Nat.eq_dec t q) as [<-|Nq].
      + rewrite gref_set_same by auto. cbn. rewrite Go, I2 by auto. rewrite ind_same, (ind_diff n t) by lia. lia.
      + rewrite gref_set_other by auto. rewrite (ind_diff t q) by auto.
        destruct (Nat.eq_dec n q) as [<-|Nn].
        * rewrite Gn. cbn. rewrite ind_same. lia.
        * rewrite Go by lia. rewrite I2 by lia. rewrite ind_diff by auto. lia.
    - intros q Hq. unfold incref. rewrite len_set_ref, L1. rewrite FC' in Hq.
      destruct (Nat.eq_dec n q) as [<-|Nn]; [lia|]. rewrite (ind_diff n q) in Hq by auto.
      destruct (Nat.eq_dec t q) as [<-|Nq]; [lia|]. rewrite (ind_diff t q) in Hq by auto.
      assert (q < n) by (apply I3; lia). lia. }
  destruct (fr_parent x) as [p|] eqn:EP.
  - destruct (HP p eq_refl) as (Hp & EX). rewrite EX in *. apply Base; auto.
  - destruct (fr_xattrOf x) as [o|] eqn:EX.
    + apply Base; auto.
    + destruct Inv as (N & I2 & I3). split; [rewrite Ff; exact N|]. split.
      * intros q Hq. rewrite L1 in Hq. rewrite FC. cbn.
        destruct (Nat.eq_dec n q) as [<-|Nn].
        -- rewrite Gn. cbn. rewrite ind_same. lia.
        -- rewrite Go by lia. rewrite I2 by lia. rewrite ind_diff by auto. lia.
      * intros q Hq. rewrite L1. rewrite FC in Hq. cbn in Hq.
        destruct (Nat.eq_dec n q) as [<-|Nn]; [lia|]. rewrite (ind_diff n q) in Hq by auto.
        assert (q < n) by (apply I3; lia). lia.
Qed.

(** doWalk: the walk reference on [wr] becomes the parent reference of the new fidRef *)
Lemma new_ref_handover_inv s d wr x :
  RefInvD s d -> In wr (s_held B s) -> fr_parent x = Some wr -> fr_xattrOf x = None ->
  RefInvD (snd (new_ref_handover B wr x s)) d.
Proof.
  intros (N & I2 & I3) Hw EP EX. unfold new_ref_handover.
  set (s0 := with_held B (remove_one wr (s_held B s)) s).
  assert (C0 : forall q, C s0 q + ind wr q = C s q).
  { intros q. rewrite !C_eq; cbn. pose proof (cnt_remove_one wr (s_held B s) q Hw). lia. }
  destruct (new_ref_facts x s0) as (E0 & L1 & Gn & Go & Ff & Fh & FC).
  change (length (s_refs B s0)) with (length (s_refs B s)) in *. set (n := length (s_refs B s)) in *.
  rewrite EP, EX in FC. cbn in FC.
  assert (F0 : forall q, n <= q -> C s q + cnt d q = 0).
  { intros q Hq. destruct (C s q + cnt d q) eqn:E; auto. specialize (I3 q). lia. }
  split; [rewrite Ff; exact N|]. split.
  - intros q Hq. rewrite L1 in Hq. rewrite FC. specialize (C0 q).
    destruct (Nat.eq_dec n q) as [<-|Nn].
    + rewrite Gn. cbn. rewrite ind_same. specialize (F0 n ltac:(lia)). lia.
    + rewrite Go by lia. change (gref s0 q) with (gref s q). rewrite I2 by lia. rewrite (ind_diff n q) by auto. lia.
  - intros q Hq. rewrite L1. rewrite FC in Hq. specialize (C0 q).
    destruct (Nat.eq_dec n q) as [<-|Nn]; [lia|]. rewrite (ind_diff n q) in Hq by auto.
    assert (q < n) by (apply I3; lia). lia.
Qed.

(** renameChildTo's callback: parent := target, target.IncRef(); the old parent's DecRef is still owed *)
Lemma reparent_inv s d r p tgt :
  RefInvD s d -> 0 < C s r -> fr_parent (gref s r) = Some p -> 0 < C s tgt ->
  RefInvD (incref B tgt (set_ref B r (fr_with_parent (gref s r) (Some tgt)) s)) (p :: d).
Proof.
  intros Inv Hr EP Ht. destruct (inv_live s d r Inv Hr) as (Lr & Lvr). destruct (inv_live s d tgt Inv Ht) as (Lt & Lvt).
  destruct Inv as (N & I2 & I3).
  set (x' := fr_with_parent (gref s r) (Some tgt)). set (sA := set_ref B r x' s).
  assert (CA : forall q, C sA q + ind p q = C s q + ind tgt q).
  { intros q. pose proof (C_set_ref s r x' q Lr) as E. rewrite !cnt_out_refs in E. unfold live in E. cbn in E.
    replace (0 <? fr_refs (gref s r))%Z with true in E by (symmetry; apply Z.ltb_lt; auto).
    rewrite EP in E. cbn in E. unfold sA. lia. }
  assert (RA : forall q, fr_refs (gref sA q) = fr_refs (gref s q)).
  { intros q. unfold sA. destruct (Nat.eq_dec r q) as [<-|Nq]; [rewrite gref_set_same by auto; reflexivity | rewrite gref_set_other by auto; reflexivity]. }
  assert (LA : length (s_refs B sA) = length (s_refs B s)) by apply len_set_ref.
  pose proof (incref_C sA tgt ltac:(lia) ltac:(rewrite RA; auto)) as EC.
  split; [exact N|]. split.
  - intros q Hq. unfold incref in Hq. rewrite len_set_ref, LA in Hq. rewrite EC, cnt_cons. specialize (CA q).
    unfold incref. destruct (Nat.eq_dec tgt q) as [<-|Nq].
    + rewrite gref_set_same by lia. cbn [fr_refs fr_with_refs]. rewrite RA, I2 by auto. rewrite ind_same in CA. lia.
    + rewrite gref_set_other by auto. rewrite RA, I2 by auto. rewrite (ind_diff tgt q) in CA by auto. lia.
  - intros q Hq. unfold incref. rewrite len_set_ref, LA. rewrite EC, cnt_cons in Hq. specialize (CA q).
    destruct (Nat.eq_dec tgt q) as [<-|Nq]; auto. rewrite (ind_diff tgt q) in CA by auto. apply I3. lia.
Qed.

(** updates of fields other than refs / parent / xattrOf do not matter *)
Lemma set_fields_inv s d r x' :
  RefInvD s d -> fr_refs x' = fr_refs (gref s r) -> fr_parent x' = fr_parent (gref s r) -> fr_xattrOf x' = fr_xattrOf (gref s r) ->
  RefInvD (set_ref B r x' s) d.
Proof.
  intros (N & I2 & I3) E1 E2 E3.
  destruct (Nat.lt_ge_cases r (length (s_refs B s))) as [L|L].
  - assert (CA : forall q, C (set_ref B r x' s) q = C s q).
    { intros q. pose proof (C_set_ref s r x' q L) as E. rewrite !cnt_out_refs in E. unfold live in E. rewrite E1, E2, E3 in E. lia. }
    split; [exact N|]. split.
    + intros q Hq. rewrite len_set_ref in Hq. rewrite CA.
      destruct (Nat.eq_dec r q) as [<-|Nq]; [rewrite gref_set_same by auto; rewrite E1; auto | rewrite gref_set_other by auto; auto].
    + intros q Hq. rewrite len_set_ref. rewrite CA in Hq. auto.
  - unfold set_ref. rewrite upd_oob by auto. destruct s; cbn. repeat split; auto.
Qed.

(** the initial state satisfies the invariant *)
Lemma init_inv b : RefInv (init_state B b).
Proof.
  split; [constructor|]. split; intros r H; [cbn in H; lia|].
  unfold C, all_refs in H. cbn in H. rewrite !cnt_nil in H. lia.
Qed.
End Inv.
