(** Refs/CoherentRename.v — C08_coherent through Trenameat / Trename (same or
    other directory, leaf or subtree, over an existing target or not), against
    PathFS, under serverB's tree invariant at the start of the request.
    PathFS and the node tree undergo the same MOVE (Refs/CoherentTree.v);
    the victim subtree, if any, is fenced first (markChildDeleted); the
    fidRefs registered under the old name are told target/new-name
    (Refs/CoherentRenLoop.v), the fidRefs below them parent-path/name in
    pre-order (Refs/NotifiedDeep.v, Refs/CoherentRenDeep.v).  (pathB) *)
From Coq Require Import List Arith Bool ZArith Lia.
From P9V Require Import Refs.Model Refs.PathFS Refs.RefProofs Refs.RefStep Refs.FenceProofs Refs.TreeInv Refs.NotifiedDeep
  Refs.CoherentTree Refs.CoherentDefs Refs.CoherentFs Refs.CoherentFrame Refs.CoherentStep Refs.CoherentTreeHyp Refs.CoherentUnlink
  Refs.CoherentRemove Refs.CoherentRenFs Refs.CoherentRenFrame Refs.CoherentRenLoop Refs.CoherentRenDeep Refs.CoherentRenGlue
  Refs.CoherentPanic Refs.CoherentPanicLoop.
Import ListNotations.

Lemma prefix_dec (a p : list nat) : prefix a p \/ ~ prefix a p.
Proof.
  destruct (list_eq_dec Nat.eq_dec (firstn (length a) p) a) as [E|E].
  - left. exists (skipn (length a) p). rewrite <- E at 1. symmetry. apply firstn_skipn.
  - right. intros (sg & E'). apply E. rewrite E'. rewrite firstn_app, Nat.sub_diag, firstn_all. cbn. apply app_nil_r.
Qed.

(** what holds between any two states of the rename pass *)
Record wframe (s s' : st) : Prop := mkWF {
  W_nlen : nlen s' = nlen s;
  W_rlen : rlen s' = rlen s;
  W_refs : forall q, fr_file (gref s' q) = fr_file (gref s q) /\ fr_node (gref s' q) = fr_node (gref s q) /\
                     fr_xattrOf (gref s' q) = fr_xattrOf (gref s q) /\ xmode (gref s' q) = xmode (gref s q) /\
                     (fr_parent (gref s' q) = None <-> fr_parent (gref s q) = None);
  W_nexth : s_nexth pfs s' = s_nexth pfs s;
  W_dirs : p_dirs (s_be pfs s') = p_dirs (s_be pfs s) /\ p_nextino (s_be pfs s') = p_nextino (s_be pfs s);
  W_live : forall q, live s' q -> live s q;
  W_keys : rkeys s -> rkeys s';
  W_del : forall n, pn_deleted (gnode s n) = true -> pn_deleted (gnode s' n) = true }.

Lemma wf_refl s : wframe s s.
Proof. constructor; auto. intros q. repeat split; auto. Qed.

Lemma wf_trans a b c : wframe a b -> wframe b c -> wframe a c.
Proof.
  intros X Y. constructor.
  - rewrite (W_nlen _ _ Y). apply X.
  - rewrite (W_rlen _ _ Y). apply X.
  - intros q. destruct (W_refs _ _ X q) as (A1 & A2 & A3 & A4 & A5). destruct (W_refs _ _ Y q) as (B1 & B2 & B3 & B4 & B5).
    repeat split; try congruence; tauto.
  - rewrite (W_nexth _ _ Y). apply X.
  - destruct (W_dirs _ _ X), (W_dirs _ _ Y). split; congruence.
  - intros q H. apply X. apply Y. exact H.
  - intros K. apply (W_keys _ _ Y). apply (W_keys _ _ X). exact K.
  - intros n H. apply (W_del _ _ Y). apply (W_del _ _ X). exact H.
Qed.

Lemma wf_of_rf s s' : rframe s s' -> wframe s s'.
Proof.
  intros X. apply mkWF.
  - apply X. - apply X. - apply X. - apply X.
  - destruct (RF_fs _ _ X) as (_ & A & B). auto.
  - apply X. - apply X.
  - intros n H. destruct (RF_nodes _ _ X n) as (_ & ->). exact H.
Qed.

(** a node gets other childNodes *)
Lemma set_nodes_facts n f (s : st) :
  let s' := set_node pfs n (pn_with_nodes (gnode s n) f) s in
  NoDup (map fst f) ->
  wframe s s' /\ (forall q, gref s' q = gref s q) /\ s_be pfs s' = s_be pfs s /\
  (forall m, pn_refs (gnode s' m) = pn_refs (gnode s m) /\ pn_deleted (gnode s' m) = pn_deleted (gnode s m)) /\
  (forall m, pn_nodes (gnode s' m) = if (m =? n) && (n <? nlen s) then f else pn_nodes (gnode s m)) /\
  s_panic pfs s' = s_panic pfs s.
Proof.
  intros s' ND.
  assert (GN : forall m, gnode s' m = if (m =? n) && (n <? nlen s) then pn_with_nodes (gnode s n) f else gnode s m) by (intros; apply gnode_set_node).
  assert (RD : forall m, pn_refs (gnode s' m) = pn_refs (gnode s m) /\ pn_deleted (gnode s' m) = pn_deleted (gnode s m)).
  { intros m. rewrite GN. destruct ((m =? n) && (n <? nlen s)) eqn:X; auto.
    apply andb_prop in X. destruct X as (X & _). apply Nat.eqb_eq in X. subst. auto. }
  split; [|split; [reflexivity|split; [reflexivity|split; [exact RD|split; [|reflexivity]]]]].
  - constructor; auto.
    + unfold nlen, s', set_node. cbn. apply upd_length.
    + intros q. repeat split; auto.
    + intros K m. rewrite GN. destruct ((m =? n) && (n <? nlen s)) eqn:X; [|apply K].
      apply pkeys_with_nodes; auto.
    + intros m H. destruct (RD m) as (_ & ->). exact H.
  - intros m. rewrite GN. destruct ((m =? n) && (n <? nlen s)); reflexivity.
Qed.

(** markChildDeleted calls nothing *)
Lemma log_notify_delete fuel : forall n (s : st), s_log pfs (notify_delete pfs fuel n s) = s_log pfs s.
Proof.
  induction fuel as [|f IH]; intros n s; cbn [notify_delete]; [reflexivity|].
  assert (E1 : s_log pfs (set_node pfs n (pn_with_deleted (get_node pfs s n)) s) = s_log pfs s) by reflexivity.
  revert E1. generalize (set_node pfs n (pn_with_deleted (get_node pfs s n)) s). generalize (pn_nodes (get_node pfs s n)).
  intros l. induction l as [|a l IHl]; intros s0 E0; cbn [fold_left]; auto. apply IHl. rewrite IH. exact E0.
Qed.

Lemma log_rwn_none n nm m : forall held (s : st), s_log pfs (snd (rwn_loop pfs n nm None m held s)) = s_log pfs s.
Proof. induction m as [|r m IH]; intros held s; cbn [rwn_loop]; [reflexivity|]. cbv zeta. rewrite IH. reflexivity. Qed.

Lemma log_mcd n nm (s : st) : s_log pfs (mark_child_deleted pfs pfs_step n nm s) = s_log pfs s.
Proof.
  unfold mark_child_deleted, remove_with_name.
  set (lp := match alookup Nat.eqb nm (pn_refs (get_node pfs s n)) with
             | Some m => rwn_loop pfs n nm None m [] s | None => ([], s) end).
  assert (H1 : fst lp = [] /\ s_log pfs (snd lp) = s_log pfs s).
  { unfold lp. destruct (alookup Nat.eqb nm (pn_refs (get_node pfs s n))); [|auto]. split; [apply held_rwn_none | apply log_rwn_none]. }
  destruct lp as [held s1]. cbn [fst snd] in H1. destruct H1 as (-> & L1). cbn [release_all].
  destruct (alookup Nat.eqb nm (pn_nodes (get_node pfs s1 n))); [rewrite log_notify_delete|]; exact L1.
Qed.

Lemma tell_renamed (s : st) e : filter is_renamed (tell pfs s e) = tell pfs s e.
Proof. unfold tell. destruct (liveb pfs s (fst e)); auto. destruct (fr_parent (gref s (fst e))); reflexivity. Qed.

Lemma tells_renamed (s : st) L : filter is_renamed (flat_map (tell pfs s) L) = flat_map (tell pfs s) L.
Proof. induction L as [|e L IH]; cbn; auto. rewrite filter_app, tell_renamed, IH. reflexivity. Qed.

Section Ren.
Variables (s : st) (d : list nat) (g : list (option nat)) (xr t old new : nat) (s1 : st) (d1 d2 x : nat).
Hypothesis Inv : RInvD s d.
Hypothesis T : TH s.
Hypothesis G : Good s g.
Hypothesis Hct : 0 < hc s t.
Hypothesis Hxr : xr < rlen s /\ live s xr /\ tref s xr /\ nonf s xr.
Hypothesis Htt : tref s t /\ nonf s t.
Let fnode := fr_node (gref s xr).
Let tn := fr_node (gref s t).
Let p1 := fpath s xr.
Let p2 := fpath s t.
Hypothesis NE : (fnode, old) <> (tn, new).
Hypothesis E1 : s_refs pfs s1 = s_refs pfs s /\ s_nodes pfs s1 = s_nodes pfs s /\ s_nexth pfs s1 = s_nexth pfs s /\
                s_fids pfs s1 = s_fids pfs s /\ s_held pfs s1 = s_held pfs s /\ s_panic pfs s1 = s_panic pfs s.
Hypothesis M : moved (s_be pfs s) (s_be pfs s1) p1 p2 old new d1 d2 x.

Let Lt : t < rlen s /\ live s t := held_live s d t Inv Hct.
Let N := G_nt _ _ G.
Let F := G_fs _ _ G.

Lemma r_gr1 q : gref s1 q = gref s q. Proof. unfold get_ref. destruct E1 as (-> & _). reflexivity. Qed.
Lemma r_gn1 n : gnode s1 n = gnode s n. Proof. unfold get_node. destruct E1 as (_ & -> & _). reflexivity. Qed.
Lemma r_nch1 a y : nch s1 a y = nch s a y. Proof. unfold nch. rewrite r_gn1. reflexivity. Qed.

Lemma r_wn1 : node_at s p1 = Some fnode.
Proof. destruct Hxr as (A & B & C & D). apply (G_node _ _ G); auto. Qed.
Lemma r_wn2 : node_at s p2 = Some tn.
Proof. destruct Lt, Htt. apply (G_node _ _ G); auto. Qed.
Lemma r_fn : fnode < nlen s. Proof. apply (G_nbound _ _ G). apply Hxr. Qed.
Lemma r_tn : tn < nlen s. Proof. apply (G_nbound _ _ G). apply Lt. Qed.

Lemma r_sc1 : same_core pfs s s1.
Proof. destruct E1 as (A & B & C & D & E & P). repeat split; auto. intros H. rewrite P. exact H. Qed.

Lemma r_i1 : RInvD s1 d /\ 0 < hc s1 t.
Proof.
  destruct (sc_ok pfs s s1 d r_sc1 Inv) as (I & L). split; auto. eapply led_hc_pos; [exact L | lia | reflexivity].
Qed.

Lemma r_hp h : hpath (s_be pfs s1) h = hpath (s_be pfs s) h.
Proof. unfold hpath, file_of. rewrite (M_files _ _ _ _ _ _ _ _ _ M). reflexivity. Qed.

Lemma r_wf1 : wframe s s1.
Proof.
  destruct E1 as (A & B & C & _). apply mkWF.
  - unfold nlen. rewrite B. reflexivity.
  - unfold rlen. rewrite A. reflexivity.
  - intros q. rewrite r_gr1. repeat split; auto.
  - exact C.
  - split; [apply (M_dirs _ _ _ _ _ _ _ _ _ M) | apply (M_ino _ _ _ _ _ _ _ _ _ M)].
  - intros q. unfold live. rewrite r_gr1. auto.
  - intros K n. rewrite r_gn1. apply K.
  - intros n. rewrite r_gn1. auto.
Qed.

(** ---- after markChildDeleted ---- *)
Definition SA : st := mark_child_deleted pfs pfs_step tn new s1.

Lemma r_tn1 : tn < nlen s1. Proof. unfold nlen. destruct E1 as (_ & -> & _). apply r_tn. Qed.

Lemma r_sa :
  (forall q, gref SA q = gref s q) /\ s_be pfs SA = s_be pfs s1 /\ s_nexth pfs SA = s_nexth pfs s /\ nlen SA = nlen s /\
  (forall a y, nch SA a y = if peqb (a, y) (tn, new) then None else nch s a y) /\
  (forall m, pn_deleted (gnode s m) = true -> pn_deleted (gnode SA m) = true) /\ rkeys SA /\
  (RInvD SA d /\ 0 < hc SA t) /\ s_panic pfs SA = s_panic pfs s.
Proof.
  destruct (mcd_spec tn new s1 r_tn1) as ((_ & R & H & _ & B & P) & L & _ & D). fold SA in R, H, B, L, D, P.
  split; [intros q; unfold get_ref; rewrite R; apply r_gr1|]. split; [exact B|].
  split; [rewrite H; apply E1|]. split; [rewrite L; unfold nlen; destruct E1 as (_ & -> & _); reflexivity|].
  split; [intros a y; unfold SA; rewrite nch_mcd by apply r_tn1; rewrite r_nch1; reflexivity|].
  split; [intros m Hm; apply D; rewrite r_gn1; exact Hm|].
  split; [apply rk_mcd; intros n; rewrite r_gn1; apply (G_keys _ _ G)|].
  split; [|rewrite P; apply E1].
  destruct r_i1 as (I & Hh). destruct (sc_ok pfs s1 SA d (sc_mark_child_deleted pfs pfs_step tn new s1) I) as (I2 & L2).
  split; auto. eapply led_hc_pos; [exact L2 | lia | reflexivity].
Qed.

Lemma r_sa_refs :
  (forall k, k <> tn -> pn_refs (gnode SA k) = pn_refs (gnode s k)) /\
  (forall y, y <> new -> alookup Nat.eqb y (pn_refs (gnode SA tn)) = alookup Nat.eqb y (pn_refs (gnode s tn))).
Proof.
  destruct (mcd_refs tn new s1) as (A & B). fold SA in A, B. split.
  - intros k Hk. rewrite A by auto. rewrite r_gn1. reflexivity.
  - intros y Hy. rewrite B by auto. rewrite r_gn1. reflexivity.
Qed.

(** the fidRefs registered under the old name *)
Definition ml : list nat := match alookup Nat.eqb old (pn_refs (gnode SA fnode)) with Some m => m | None => [] end.

Lemma r_ml_lookup : alookup Nat.eqb old (pn_refs (gnode SA fnode)) = alookup Nat.eqb old (pn_refs (gnode s fnode)).
Proof.
  destruct r_sa_refs as (A & B). destruct (Nat.eq_dec fnode tn) as [E|E].
  - rewrite E. apply B. intros ->. apply NE. rewrite E. reflexivity.
  - rewrite A by auto. reflexivity.
Qed.

Lemma r_ml r : In r ml ->
  r < rlen s /\ live s r /\ tref s r /\ nch s fnode old = Some (fr_node (gref s r)) /\
  exists p, fr_parent (gref s r) = Some p /\ p < rlen s /\ fr_node (gref s p) = fnode.
Proof.
  unfold ml. rewrite r_ml_lookup. destruct (alookup Nat.eqb old (pn_refs (gnode s fnode))) as [m|] eqn:E; [|intros []].
  intros Hr. pose proof T as TO.
  assert (Rg : registered pfs s fnode r old) by (apply (T_agree pfs s TO fnode r old r_fn); exists m; auto).
  destruct (T_reg pfs s TO fnode r old r_fn Rg) as (A1 & A2 & p & A3 & A4 & A5 & A6).
  split; [exact A1|]. split; [exact A2|]. split; [apply (G_parent _ _ G r p A1 A3)|]. split; [exact A6|]. eauto.
Qed.

Lemma r_ml_nodup : NoDup ml.
Proof.
  unfold ml. rewrite r_ml_lookup. destruct (alookup Nat.eqb old (pn_refs (gnode s fnode))) as [m|] eqn:E; [|constructor].
  pose proof T as TO. apply (T_nodup pfs s TO fnode old m r_fn E).
Qed.

Lemma r_b2 : ~ prefix (p1 ++ [old]) p2. Proof. apply (M_b2 _ _ _ _ _ _ _ _ _ M). Qed.

Lemma r_t_notin : ~ In t ml.
Proof.
  intros H. destruct (r_ml t H) as (_ & _ & _ & C & _). fold tn in C.
  assert (W : node_at s (p1 ++ [old]) = Some tn) by (unfold node_at; rewrite walk_snoc; fold (node_at s p1); rewrite r_wn1; exact C).
  pose proof (walk_inj (nch s) 0 (N_up _ N) (N_noroot _ N) _ _ _ W r_wn2) as E. apply r_b2. rewrite <- E. apply prefix_refl.
Qed.

(** the parent chain of a fidRef whose node is on the way to the source directory stays on that way *)
Lemma r_chain p q' : up s p q' -> p < rlen s -> live s p -> tref s p -> nonf s p ->
  (exists rho, prefix rho p1 /\ node_at s rho = Some (fr_node (gref s p))) ->
  exists rho', prefix rho' p1 /\ node_at s rho' = Some (fr_node (gref s q')).
Proof.
  intros U. induction U as [r | r pp q E U IH | r o q E U IH]; intros Lr Lv Tr Nf (rho & Pr & Wr).
  - eauto.
  - destruct (G_parent _ _ G r pp Lr E) as (_ & Tpp & Lpp).
    destruct (inv_live pfs s d pp Inv (C_parent pfs s r pp Lr Lv E)) as (_ & Lvpp).
    pose proof (G_pnonf _ _ G r pp Lr Lv Nf E) as Nfpp.
    destruct (p3_of_tree s r pp T Lr Lv Nf E) as (y & Cy).
    apply IH; auto.
    destruct rho as [|y0 rho0] using rev_ind.
    + exfalso. cbn in Wr. injection Wr as W0. rewrite <- W0 in Cy. eapply (N_noroot _ N); eauto.
    + clear IHrho0. unfold node_at in Wr. rewrite walk_snoc in Wr. destruct (walk (nch s) 0 rho0) as [m|] eqn:Wm; [|discriminate].
      destruct (N_up _ N _ _ _ _ _ Wr Cy) as (-> & _). exists rho0. split; [|exact Wm].
      eapply prefix_trans; [apply prefix_app | exact Pr].
  - unfold tref in Tr. congruence.
Qed.

(** ---- level 0 ---- *)
Definition P2new : list nat := p2 ++ [new].
Definition lp : list nat * st :=
  match alookup Nat.eqb old (pn_refs (gnode SA fnode)) with
  | Some m => rwn_loop pfs fnode old (Some (rename_cb pfs pfs_step t new)) m [] SA
  | None => ([], SA)
  end.
Definition SB1 : st := snd lp.

Lemma r_tnA : fr_node (gref SA t) = tn.
Proof. destruct r_sa as (A & _). rewrite A. reflexivity. Qed.

Lemma r_loop : exists T', LI SA fnode t new P2new ml d SB1 T' ml.
Proof.
  destruct r_sa as (GA & BA & HA & LA & CA & DA & KA & (IA & HcA) & PA).
  assert (L0 : forall al, LI SA fnode t new P2new al d SA [] []).
  { intros al. apply mkLI; auto.
    - apply lf_refl.
    - intros q [].
    - split; [apply incl_refl | intros q []].
    - cbn. rewrite app_nil_r. reflexivity. }
  assert (Eml0 : alookup Nat.eqb old (pn_refs (gnode SA fnode)) = None -> ml = []) by (intros E; unfold ml; rewrite E; reflexivity).
  unfold SB1, lp. destruct (alookup Nat.eqb old (pn_refs (gnode SA fnode))) as [m|] eqn:E; [|exists []; rewrite (Eml0 eq_refl); apply L0].
  assert (Eml : ml = m) by (unfold ml; rewrite E; reflexivity). rewrite Eml.
  assert (RL : rlen SA = rlen s).
  { unfold rlen. destruct (mcd_spec tn new s1 r_tn1) as ((_ & R' & _) & _). fold SA in R'. rewrite R'. destruct E1 as (R & _). rewrite R. reflexivity. }
  assert (H1 : t < rlen SA /\ tref SA t /\ ~ In t m).
  { rewrite <- Eml, RL. unfold tref. rewrite GA. split; [apply Lt|]. split; [apply Htt | apply r_t_notin]. }
  assert (H2 : hpath (s_be pfs SA) (fr_file (gref SA t)) ++ [new] = P2new).
  { unfold P2new, p2, fpath. rewrite GA, BA, r_hp. reflexivity. }
  assert (H3 : forall r, In r m -> r < rlen SA /\ tref SA r /\ fr_parent (gref SA r) <> None).
  { intros r Hr. rewrite <- Eml in Hr. destruct (r_ml r Hr) as (A1 & A2 & A3 & A4 & p & A5 & _).
    rewrite RL. unfold tref. rewrite GA. split; [exact A1|]. split; [exact A3 | congruence]. }
  assert (H4 : forall q q', q < rlen SA -> q' < rlen SA -> tref SA q -> tref SA q' -> fr_file (gref SA q) = fr_file (gref SA q') -> q = q').
  { intros q q'. rewrite RL. unfold tref. rewrite !GA. apply (G_file_inj _ _ G). }
  assert (H5 : NoDup ([] ++ m)) by (cbn [app]; rewrite <- Eml; apply r_ml_nodup).
  assert (H6 : forall r, In r m -> live SA r).
  { intros r Hr. rewrite <- Eml in Hr. destruct (r_ml r Hr) as (_ & A2 & _). unfold live. rewrite GA. exact A2. }
  assert (H7 : forall r p q', In r m -> fr_parent (gref SA r) = Some p -> up SA p q' -> ~ In q' m).
  { intros r p q' Hr Ep U Hq'. rewrite <- Eml in Hr, Hq'. rewrite GA in Ep.
    destruct (r_ml r Hr) as (Lr & Lvr & Tr & Cr & p0 & Ep0 & Lp0 & Np0). rewrite Ep in Ep0. injection Ep0 as <-.
    assert (Us : up s p q') by (eapply up_links; [|exact U]; intros z; rewrite GA; auto).
    destruct (G_parent _ _ G r p Lr Ep) as (_ & Tp & _).
    destruct (inv_live pfs s d p Inv (C_parent pfs s r p Lr Lvr Ep)) as (_ & Lvp).
    assert (Nfp : nonf s p). { unfold nonf, is_deleted. rewrite Np0. apply Hxr. }
    destruct (r_chain p q' Us Lp0 Lvp Tp Nfp) as (rho' & Pr' & Wr').
    { exists p1. split; [apply prefix_refl | rewrite Np0; apply r_wn1]. }
    destruct (r_ml q' Hq') as (_ & _ & _ & Cq & _).
    assert (W2 : node_at s (p1 ++ [old]) = Some (fr_node (gref s q'))) by (unfold node_at; rewrite walk_snoc; fold (node_at s p1); rewrite r_wn1; exact Cq).
    pose proof (walk_inj (nch s) 0 (N_up _ N) (N_noroot _ N) _ _ _ Wr' W2) as Erho. subst rho'.
    apply prefix_length in Pr'. rewrite app_length in Pr'. cbn in Pr'. lia. }
  exact (loop_all SA fnode old t new P2new m d H1 H2 H3 H4 H6 H7 m SA [] [] [] (L0 m) (incl_refl _) H5).
Qed.

(** ---- the states after level 0 ---- *)
Record At (S : st) (T' : list nat) (sp : nat -> nat -> option nat) : Prop := mkAt {
  A_wf : wframe SA S;
  A_nch : forall a y, nch S a y = sp a y;
  A_del : forall m, pn_deleted (gnode S m) = pn_deleted (gnode SA m);
  A_par : forall q, fr_parent (gref S q) = fr_parent (gref SA q) \/ (In q T' /\ fr_parent (gref S q) = Some t);
  A_told : forall q, In q T' -> hpath (s_be pfs S) (fr_file (gref SA q)) = P2new;
  A_rest : forall h, (forall q, In q T' -> fr_file (gref SA q) <> h) -> hpath (s_be pfs S) h = hpath (s_be pfs SA) h;
  A_T : incl T' ml /\ forall q, In q ml -> live S q -> In q T';
  A_sub : forall n q nm, n <> fnode -> n <> tn -> inreg S n q nm -> inreg SA n q nm;
  A_keep : forall n q nm, n <> fnode -> n <> tn -> inreg SA n q nm -> live S q -> inreg S n q nm;
  A_ent : p_entries (s_be pfs S) = p_entries (s_be pfs SA);
  A_log : rcalls S = rcalls SA ++ map (told0 SA t new) ml }.

Lemma at_loop T' : LI SA fnode t new P2new ml d SB1 T' ml -> At SB1 T' (nch SA).
Proof.
  intros [Llf Linv Lpar Ltold Lrest LT Lall Llog Lcnt]. rewrite r_tnA in Llf. destruct r_sa as (_ & _ & _ & _ & _ & _ & KA & _).
  apply mkAt.
  - apply wf_of_rf. apply Llf.
  - intros a y. unfold nch. destruct (RF_nodes _ _ (LF_rf _ _ _ _ Llf) a) as (-> & _). reflexivity.
  - intros m. apply (RF_nodes _ _ (LF_rf _ _ _ _ Llf) m).
  - exact Lpar.
  - exact Ltold.
  - exact Lrest.
  - exact LT.
  - intros n q nm A1 A2. apply (LF_sub _ _ _ _ Llf); auto.
  - intros n q nm A1 A2. apply (LF_keep _ _ _ _ Llf); auto.
  - apply (RF_fs _ _ (LF_rf _ _ _ _ Llf)).
  - exact Llog.
Qed.

Lemma at_cf S T' sp S' : At S T' sp -> cframe S S' -> At S' T' sp.
Proof.
  intros [Awf Anch Adel Apar Atold Arest (AT1 & AT2) Asub Akeep Aent Alog] C.
  pose proof (CF_rf _ _ C) as R.
  constructor.
  - eapply wf_trans; [exact Awf | apply wf_of_rf; exact R].
  - intros a y. unfold nch. destruct (RF_nodes _ _ R a) as (-> & _). apply Anch.
  - intros m. destruct (RF_nodes _ _ R m) as (_ & ->). apply Adel.
  - intros q. rewrite (CF_par _ _ C). apply Apar.
  - intros q Hq. rewrite (CF_path _ _ C). apply Atold. exact Hq.
  - intros h Hh. rewrite (CF_path _ _ C). apply Arest. exact Hh.
  - split; auto. intros q Hq Lq. apply AT2; auto. apply (RF_live _ _ R). exact Lq.
  - intros n q nm A1 A2 H. apply Asub; auto. apply (CF_sub _ _ C). exact H.
  - intros n q nm A1 A2 H Lq. apply (CF_keep _ _ C); auto.
    + apply (W_keys _ _ Awf). apply r_sa.
    + apply Akeep; auto. apply (RF_live _ _ R). exact Lq.
  - destruct (RF_fs _ _ R) as (-> & _). exact Aent.
  - rewrite (CF_rlog _ _ C). exact Alog.
Qed.

Lemma at_nodes S T' sp n f : At S T' sp -> n < nlen S -> NoDup (map fst f) ->
  At (set_node pfs n (pn_with_nodes (gnode S n) f) S) T' (fun a y => if a =? n then alookup Nat.eqb y f else sp a y).
Proof.
  intros [Awf Anch Adel Apar Atold Arest (AT1 & AT2) Asub Akeep Aent Alog] Hn ND.
  destruct (set_nodes_facts n f S ND) as (W & GR & BE & RD & PN & _). cbv zeta in *.
  set (S' := set_node pfs n (pn_with_nodes (gnode S n) f) S) in *.
  assert (IR : forall m q nm, inreg S' m q nm <-> inreg S m q nm).
  { intros m q nm. unfold inreg, regs_of. destruct (RD m) as (-> & _). tauto. }
  constructor.
  - eapply wf_trans; eauto.
  - intros a y. unfold nch. rewrite PN. destruct (Nat.eqb_spec a n) as [->|]; cbn [andb].
    + destruct (Nat.ltb_spec n (nlen S)); [reflexivity | lia].
    + apply Anch.
  - intros m. destruct (RD m) as (_ & ->). apply Adel.
  - intros q. rewrite GR. apply Apar.
  - intros q Hq. rewrite BE. apply Atold. exact Hq.
  - intros h Hh. rewrite BE. apply Arest. exact Hh.
  - split; auto.
  - intros m q nm A1 A2 H. apply Asub; auto. apply IR. exact H.
  - intros m q nm A1 A2 H Lq. apply IR. apply Akeep; auto.
  - rewrite BE. exact Aent.
  - exact Alog.
Qed.

Definition SB2 : st := set_node pfs fnode (pn_with_nodes (gnode SB1 fnode) (adel Nat.eqb old (pn_nodes (gnode SB1 fnode)))) SB1.
Definition SB : st := release_all pfs pfs_step (fst lp) SB2.
Definition orig : option nat := alookup Nat.eqb old (pn_nodes (gnode SB1 fnode)).

Lemma r_rwn : remove_with_name pfs pfs_step fnode old (Some (rename_cb pfs pfs_step t new)) SA = (orig, SB).
Proof.
  unfold remove_with_name, orig, SB, SB2, SB1. fold (gnode SA fnode). fold lp. destruct lp as [held sb1]. reflexivity.
Qed.

Definition spB (a y : nat) : option nat := if peqb (a, y) (fnode, old) then None else if peqb (a, y) (tn, new) then None else nch s a y.

Lemma r_atB : exists T', At SB T' spB /\ orig = nch s fnode old.
Proof.
  destruct r_loop as (T' & L). pose proof (at_loop T' L) as A1.
  destruct r_sa as (_ & _ & _ & LA & CA & _).
  assert (Hn : fnode < nlen SB1). { rewrite (W_nlen _ _ (A_wf _ _ _ A1)), LA. apply r_fn. }
  assert (ND : NoDup (map fst (adel Nat.eqb old (pn_nodes (gnode SB1 fnode))))).
  { apply (gadel_nodup Nat.eqb Nat.eqb_spec). apply (W_keys _ _ (A_wf _ _ _ A1)). apply r_sa. }
  pose proof (at_nodes SB1 T' (nch SA) fnode _ A1 Hn ND) as A2. fold SB2 in A2.
  pose proof (at_cf SB2 T' _ SB A2 (cf_release_all (fst lp) SB2)) as A3.
  exists T'. split.
  - destruct A3 as [Awf Anch Adel Apar Atold Arest AT Asub Akeep Aent Alog]. constructor; auto.
    intros a y. rewrite Anch. unfold spB, peqb. cbn [fst snd].
    destruct (Nat.eqb_spec a fnode) as [->|Na]; cbn [andb].
    + rewrite (alookup_adel Nat.eqb Nat.eqb_spec). fold (nch SB1 fnode y). rewrite (A_nch _ _ _ A1), CA. unfold peqb. cbn [fst snd].
      destruct (y =? old); reflexivity.
    + rewrite CA. unfold peqb. cbn [fst snd]. reflexivity.
  - unfold orig. fold (nch SB1 fnode old). rewrite (A_nch _ _ _ A1), CA. rewrite peqb_false by exact NE. reflexivity.
Qed.

(** ---- the invariant in the final state ---- *)
Lemma r_wfA : wframe s SA.
Proof.
  eapply wf_trans; [apply r_wf1|].
  destruct (mcd_spec tn new s1 r_tn1) as ((_ & R & H & _ & B & _) & L & _ & D). fold SA in R, H, B, L, D.
  assert (GR : forall q, gref SA q = gref s1 q) by (intros; unfold get_ref; rewrite R; reflexivity).
  apply mkWF; auto.
  - unfold rlen. rewrite R. reflexivity.
  - intros q. rewrite GR. repeat split; auto.
  - rewrite B. auto.
  - intros q. unfold live. rewrite GR. auto.
  - intros _. apply r_sa.
Qed.

Definition spF (a y : nat) : option nat :=
  if peqb (a, y) (tn, new) then nch s fnode old else if peqb (a, y) (fnode, old) then None else nch s a y.

Lemma fsinv_same fs fs' : p_entries fs' = p_entries fs -> p_dirs fs' = p_dirs fs -> p_nextino fs' = p_nextino fs -> FsInv fs -> FsInv fs'.
Proof. intros A B C H. destruct (fext_same 0 fs fs' A B C ltac:(intros; lia)) as (X & _). apply (X H). Qed.

Lemma victim_fenced q sg : fpath s q = p2 ++ [new] ++ sg -> q < rlen s -> live s q -> tref s q -> nonf s q -> is_deleted pfs SA q = true.
Proof.
  intros E Lq Lv Tq Nf.
  assert (N1 : NT s1).
  { destruct N as [U R Bd Ps]. constructor.
    - intros a y a' y' c. rewrite !r_nch1. apply U.
    - intros a y. rewrite r_nch1. apply R.
    - intros a y c. rewrite r_nch1. unfold nlen. destruct E1 as (_ & -> & _). apply Bd.
    - unfold nlen. destruct E1 as (_ & -> & _). exact Ps. }
  assert (NA : forall p, node_at s1 p = node_at s p) by (intros; unfold node_at; apply walk_eq; apply r_nch1).
  pose proof (below_victim_fenced tn new s1 p2 sg q N1 r_tn1) as X. rewrite !NA, r_gr1 in X.
  unfold SA. apply X; [apply r_wn2|]. rewrite <- E. apply (G_node _ _ G); auto.
Qed.

Lemma spF_tree (S' : st) : (forall a y, nch S' a y = spF a y) -> nlen S' = nlen s ->
  NT S' /\ (forall p, ~ prefix (p1 ++ [old]) p -> ~ prefix (p2 ++ [new]) p -> node_at S' p = node_at s p) /\
  (forall sg, node_at s (p1 ++ [old] ++ sg) <> None -> node_at S' (p2 ++ [new] ++ sg) = node_at s (p1 ++ [old] ++ sg)).
Proof.
  intros Hnch NL.
  pose proof r_wn1 as W1. pose proof r_wn2 as W2. unfold node_at in W1, W2.
  assert (Hm3 : forall a y, (a, y) <> (tn, new) -> (a, y) <> (fnode, old) -> nch S' a y = nch s a y).
  { intros a y A1 A2. rewrite Hnch. unfold spF. rewrite !peqb_false by auto. reflexivity. }
  destruct (nch s fnode old) as [c|] eqn:Ec.
  - assert (Hm1 : nch S' tn new = Some c) by (rewrite Hnch; unfold spF; rewrite peqb_true; exact Ec).
    assert (Hm2 : nch S' fnode old = None).
    { rewrite Hnch. unfold spF. rewrite peqb_false by exact NE. rewrite peqb_true. reflexivity. }
    split; [|split].
    + constructor.
      * eapply (move_uparent (nch s) (nch S')); eauto. apply N.
      * eapply (move_noroot (nch s) (nch S') 0 (N_noroot _ N)); eauto.
      * intros a y c'. rewrite Hnch, NL. unfold spF. destruct (peqb (a, y) (tn, new)); [apply (N_bound _ N)|].
        destruct (peqb (a, y) (fnode, old)); [discriminate | apply (N_bound _ N)].
      * rewrite NL. apply N.
    + intros p A1 A2. unfold node_at. eapply (move_walk_other (nch s) (nch S') 0 (N_up _ N) (N_noroot _ N) p1 p2 fnode tn old new W1 W2 Hm3); auto.
    + intros sg _. unfold node_at. apply (move_walk_moved (nch s) (nch S') 0 (N_up _ N) (N_noroot _ N) p1 p2 fnode tn old new c W1 W2 Ec r_b2 Hm1 Hm3).
  - assert (Hdl : forall a y, (a, y) <> (tn, new) -> nch S' a y = nch s a y).
    { intros a y A1. destruct (pair_dec (a, y) (fnode, old)) as [[= -> ->]|A2]; [|apply Hm3; auto].
      rewrite Hnch. unfold spF. rewrite peqb_false by exact NE. rewrite peqb_true. symmetry. exact Ec. }
    assert (Hgn : nch S' tn new = None) by (rewrite Hnch; unfold spF; rewrite peqb_true; exact Ec).
    split; [|split].
    + constructor.
      * eapply (del_uparent (nch s) (nch S')); eauto. apply N.
      * eapply (del_noroot (nch s) (nch S') 0 (N_noroot _ N)); eauto.
      * intros a y c'. rewrite Hnch, NL. unfold spF. destruct (peqb (a, y) (tn, new)); [rewrite Ec; discriminate|].
        destruct (peqb (a, y) (fnode, old)); [discriminate | apply (N_bound _ N)].
      * rewrite NL. apply N.
    + intros p _ A2. unfold node_at. eapply (del_walk (nch s) (nch S') 0 (N_up _ N) (N_noroot _ N)); eauto.
    + intros sg H. exfalso. apply H. unfold node_at. rewrite walk_app, W1. cbn [app walk]. rewrite Ec. reflexivity.
Qed.

Lemma final_good (S' : st) :
  wframe SA S' ->
  (forall a y, nch S' a y = spF a y) ->
  (forall m, pn_deleted (gnode S' m) = pn_deleted (gnode SA m)) ->
  (forall q, fr_parent (gref S' q) = fr_parent (gref s q) \/ (fr_parent (gref S' q) = Some t /\ fr_parent (gref s q) <> None)) ->
  p_entries (s_be pfs S') = p_entries (s_be pfs s1) ->
  (forall q, q < rlen s -> live S' q -> tref s q -> nonf S' q ->
     (forall sg, fpath s q = p1 ++ [old] ++ sg -> hpath (s_be pfs S') (fr_file (gref s q)) = p2 ++ [new] ++ sg) /\
     (~ prefix (p1 ++ [old]) (fpath s q) -> hpath (s_be pfs S') (fr_file (gref s q)) = fpath s q)) ->
  Good S' g.
Proof.
  intros WA Hnch Hdel Hpar Hent Hpaths.
  pose proof (wf_trans _ _ _ r_wfA WA) as W.
  pose proof (moved_inv _ _ _ _ _ _ _ _ _ F M) as F1.
  assert (FS' : FsInv (s_be pfs S')).
  { apply (fsinv_same (s_be pfs s1)); auto.
    - destruct (W_dirs _ _ W) as (A & _). rewrite A. symmetry. apply (M_dirs _ _ _ _ _ _ _ _ _ M).
    - destruct (W_dirs _ _ W) as (_ & A). rewrite A. symmetry. apply (M_ino _ _ _ _ _ _ _ _ _ M). }
  assert (RES : forall p, resolve (s_be pfs S') p = resolve (s_be pfs s1) p) by (intros; apply entries_resolve; exact Hent).
  assert (RF : forall q, fr_file (gref S' q) = fr_file (gref s q) /\ fr_node (gref S' q) = fr_node (gref s q) /\
                         fr_xattrOf (gref S' q) = fr_xattrOf (gref s q) /\ xmode (gref S' q) = xmode (gref s q) /\
                         (fr_parent (gref S' q) = None <-> fr_parent (gref s q) = None)) by apply W.
  assert (TR : forall q, tref S' q <-> tref s q) by (intros q; unfold tref; destruct (RF q) as (_ & _ & -> & _); tauto).
  assert (NFA : forall q, nonf S' q -> nonf SA q /\ nonf s q).
  { intros q. unfold nonf, is_deleted. destruct (RF q) as (_ & -> & _). rewrite Hdel. destruct r_sa as (GA & _ & _ & _ & _ & DA & _).
    rewrite GA. intros H. split; auto. destruct (pn_deleted (gnode s (fr_node (gref s q)))) eqn:X; auto. apply DA in X. congruence. }
  assert (RL : rlen S' = rlen s) by apply W.
  assert (NL : nlen S' = nlen s) by apply W.
  destruct (spF_tree S' Hnch NL) as (NT' & NOther & NMoved).
  (* per fidRef *)
  assert (PER : forall q, q < rlen s -> live S' q -> tref s q -> nonf S' q ->
            node_at S' (fpath S' q) = Some (fr_node (gref s q)) /\
            exists i, walk (entry (s_be pfs S')) root_ino (fpath S' q) = Some i /\ (q < length g -> nth q g None = Some i)).
  { intros q Lq Lv Tq Nf. destruct (NFA q Nf) as (NfA & Nfs). pose proof (W_live _ _ W q Lv) as Lvs.
    pose proof (G_node _ _ G q Lq Lvs Tq Nfs) as GN. destruct (G_obj _ _ G q Lq Lvs Tq Nfs) as (i & Ri & Gi).
    rewrite resolve_walk in Ri.
    assert (FP : fpath S' q = hpath (s_be pfs S') (fr_file (gref s q))) by (unfold fpath; destruct (RF q) as (-> & _); reflexivity).
    assert (NV : ~ prefix (p2 ++ [new]) (fpath s q)).
    { intros (sg & E). rewrite <- app_assoc in E. pose proof (victim_fenced q sg E Lq Lvs Tq Nfs) as X. unfold nonf in NfA. congruence. }
    destruct (Hpaths q Lq Lv Tq Nf) as (PM & PO).
    assert (DEC : (exists sg, fpath s q = p1 ++ [old] ++ sg) \/ ~ prefix (p1 ++ [old]) (fpath s q)).
    { destruct (prefix_dec (p1 ++ [old]) (fpath s q)) as [(sg & E)|E]; [left; exists sg; rewrite E, <- app_assoc; reflexivity | right; exact E]. }
    destruct DEC as [(sg & E)|NP].
    - rewrite FP, (PM sg E). split.
      + rewrite NMoved; [rewrite <- E; exact GN | rewrite <- E, GN; discriminate].
      + exists i. split; auto. rewrite <- resolve_walk, RES, (moved_resolve_moved _ _ _ _ _ _ _ _ _ F M). rewrite resolve_walk, <- E. exact Ri.
    - rewrite FP, (PO NP). split.
      + rewrite NOther; auto.
      + exists i. split; auto. rewrite <- resolve_walk, RES, (moved_resolve_other _ _ _ _ _ _ _ _ _ F M); auto. rewrite resolve_walk. exact Ri. }
  constructor.
  - exact FS'.
  - exact NT'.
  - intros r Hr Lv Tr Nf. rewrite RL in Hr. destruct (RF r) as (_ & -> & _). apply PER; auto. apply TR; auto.
  - intros r Hr Lv Tr Nf. rewrite RL in Hr. rewrite resolve_walk. apply PER; auto. apply TR; auto.
  - intros r o Hr E. rewrite RL in Hr. destruct (RF r) as (Ef & En & Ex & _ & Ep). rewrite Ex in E.
    destruct (G_xattr _ _ G r o Hr E) as (A1 & A2 & A3 & A4 & A5). destruct (RF o) as (Ef' & En' & _).
    rewrite Ef, En, Ef', En'. repeat split; auto; [apply Ep; auto|].
    intros Lv Nf. apply A5; [apply (W_live _ _ W); auto | apply NFA; auto].
  - intros r Hr. rewrite RL in Hr. destruct (RF r) as (-> & _). rewrite (W_nexth _ _ W). apply (G_file _ _ G); auto.
  - intros r r' Hr Hr' Tr Tr' E. rewrite RL in *. destruct (RF r) as (Ef & _). destruct (RF r') as (Ef' & _). rewrite Ef, Ef' in E.
    apply (G_file_inj _ _ G); auto; apply TR; auto.
  - intros r p Hr E. rewrite RL in *. destruct (Hpar r) as [E'|(E' & NN)].
    + rewrite E' in E. destruct (G_parent _ _ G r p Hr E) as (A & A' & A''). repeat split; auto; apply TR; auto.
    + rewrite E' in E. injection E as <-. destruct (fr_parent (gref s r)) as [p0|] eqn:E0; [|congruence].
      destruct (G_parent _ _ G r p0 Hr E0) as (A & _). split; [apply TR; auto|]. split; [apply TR; apply Htt | apply Lt].
  - intros r Hr. rewrite RL in Hr. destruct (RF r) as (_ & -> & _). rewrite NL. apply (G_nbound _ _ G); auto.
  - intros r o Hr E. rewrite RL in Hr. destruct (RF r) as (_ & _ & Ex & Em & _). rewrite Ex in E.
    pose proof (G_xmode _ _ G r o Hr E) as X. unfold xmode in Em. rewrite Ex, E in Em. rewrite Em. exact X.
  - intros r Hr Ep Tr. rewrite RL in Hr. destruct (RF r) as (_ & -> & _ & _ & Epn). apply (G_root _ _ G); auto; [apply Epn; auto | apply TR; auto].
  - intros r p Hr Lv Nf Ep. rewrite RL in Hr. destruct (NFA r Nf) as (NfA & Nfs). pose proof (W_live _ _ W r Lv) as Lvs.
    assert (K1 : rkeys s1) by (intros n; rewrite r_gn1; apply (G_keys _ _ G)).
    unfold nonf, is_deleted. destruct (RF p) as (_ & -> & _). rewrite Hdel.
    destruct (pn_deleted (gnode SA (fr_node (gref s p)))) eqn:X; auto. exfalso.
    destruct (mcd_only tn new s1 _ r_tn1 K1 X) as [Hd|(v & sg & Hv & Wv)].
    + rewrite r_gn1 in Hd. destruct (Hpar r) as [E'|(E' & NN)]; rewrite E' in Ep.
      * pose proof (G_pnonf _ _ G r p Hr Lvs Nfs Ep) as Nfp. unfold nonf, is_deleted in Nfp. congruence.
      * injection Ep as <-. destruct Htt as (_ & Nft). unfold nonf, is_deleted in Nft. congruence.
    + rewrite r_nch1 in Hv. rewrite (walk_eq _ _ r_nch1) in Wv.
      assert (Wp : node_at s (p2 ++ [new] ++ sg) = Some (fr_node (gref s p))).
      { unfold node_at. rewrite walk_app. fold (node_at s p2). rewrite r_wn2. cbn [app walk]. rewrite Hv. exact Wv. }
      destruct (Hpar r) as [E'|(E' & NN)]; rewrite E' in Ep.
      * destruct (p3_of_tree s r p T Hr Lvs Nfs Ep) as (y & Cy). destruct (G_parent _ _ G r p Hr Ep) as (Tr & _).
        assert (Wq : node_at s (p2 ++ [new] ++ sg ++ [y]) = Some (fr_node (gref s r))).
        { rewrite !app_assoc. unfold node_at. rewrite walk_snoc. rewrite <- !app_assoc. fold (node_at s (p2 ++ [new] ++ sg)). rewrite Wp. exact Cy. }
        pose proof (walk_inj (nch s) 0 (N_up _ N) (N_noroot _ N) _ _ _ (G_node _ _ G r Hr Lvs Tr Nfs) Wq) as E.
        pose proof (victim_fenced r (sg ++ [y]) E Hr Lvs Tr Nfs) as Y. unfold nonf in NfA. congruence.
      * injection Ep as <-. fold tn in Wp.
        pose proof (walk_inj (nch s) 0 (N_up _ N) (N_noroot _ N) _ _ _ Wp r_wn2) as E.
        apply (f_equal (@length nat)) in E. rewrite !app_length in E. cbn in E. lia.
  - apply (W_keys _ _ W). apply (G_keys _ _ G).
  - rewrite RL. apply (G_len _ _ G).
Qed.

(** a live, non-fenced fidRef whose node is the moved node is registered under the old name *)
Lemma r_level0 q : q < rlen s -> live s q -> tref s q -> nonf s q -> nch s fnode old = Some (fr_node (gref s q)) -> In q ml.
Proof.
  intros Lq Lv Tq Nf Hc. pose proof T as TO.
  destruct (fr_parent (gref s q)) as [pp|] eqn:Ep.
  2:{ exfalso. pose proof (G_root _ _ G q Lq Ep Tq) as E0. rewrite E0 in Hc. eapply (N_noroot _ N); eauto. }
  destruct (T_live pfs s TO q pp Lq Lv Ep Nf) as (nm & Rg).
  assert (Hpp : pp < TreeInv.rlen pfs s) by (eapply (T_parent_bound pfs s TO); eauto).
  pose proof (T_node_bound pfs s TO pp Hpp) as Hn.
  destruct (T_reg pfs s TO _ q nm Hn Rg) as (_ & _ & p' & Ep' & _ & En & Cn).
  destruct (N_up _ N _ _ _ _ _ Cn Hc) as (E1' & E2'). rewrite E1', E2' in Rg.
  apply (T_agree pfs s TO fnode q old r_fn) in Rg. destruct Rg as (m & Em & Hin).
  unfold ml. rewrite r_ml_lookup. rewrite Em. exact Hin.
Qed.

Lemma r_none : orig = None -> Good SB g.
Proof.
  intros On. destruct r_atB as (T' & A & Eo). rewrite On in Eo. symmetry in Eo.
  destruct r_sa as (GA & BA & HA & LA & CA & DA & KA & _).
  assert (Eml : ml = []).
  { destruct ml as [|r l] eqn:E; auto. exfalso. destruct (r_ml r) as (_ & _ & _ & C & _); [rewrite E; left; reflexivity | congruence]. }
  assert (ET : T' = []).
  { destruct (A_T _ _ _ A) as (I & _). rewrite Eml in I. destruct T' as [|q l]; auto. destruct (I q (or_introl eq_refl)). }
  subst T'.
  apply final_good.
  - apply (A_wf _ _ _ A).
  - intros a y. rewrite (A_nch _ _ _ A). unfold spB, spF. rewrite Eo.
    destruct (peqb (a, y) (fnode, old)), (peqb (a, y) (tn, new)); reflexivity.
  - apply (A_del _ _ _ A).
  - intros q. destruct (A_par _ _ _ A q) as [E|([] & _)]. left. rewrite E, GA. reflexivity.
  - rewrite (A_ent _ _ _ A), BA. reflexivity.
  - intros q Lq Lv Tq Nf.
    assert (HP : hpath (s_be pfs SB) (fr_file (gref s q)) = fpath s q).
    { rewrite (A_rest _ _ _ A) by (intros q' []). rewrite BA, r_hp. reflexivity. }
    split; [|intros _; exact HP]. intros sg E. exfalso.
    assert (Lvs : live s q) by (apply (W_live _ _ r_wfA); apply (W_live _ _ (A_wf _ _ _ A)); exact Lv).
    assert (Nfs : nonf s q).
    { unfold nonf, is_deleted in *. destruct (W_refs _ _ (wf_trans _ _ _ r_wfA (A_wf _ _ _ A)) q) as (_ & En & _). rewrite En in Nf.
      rewrite (A_del _ _ _ A) in Nf. destruct (pn_deleted (gnode s (fr_node (gref s q)))) eqn:X; auto. apply DA in X. congruence. }
    pose proof (G_node _ _ G q Lq Lvs Tq Nfs) as GNq. rewrite E in GNq. unfold node_at in GNq.
    rewrite walk_app in GNq. fold (node_at s p1) in GNq. rewrite r_wn1 in GNq. cbn [app walk] in GNq. rewrite Eo in GNq. discriminate.
Qed.

(** ---- the moved node is put under the target ---- *)
Definition SC (c : nat) : st := set_node pfs tn (pn_with_nodes (gnode SB tn) (aset Nat.eqb new c (pn_nodes (gnode SB tn)))) SB.

Lemma r_atC c : orig = Some c ->
  nch s fnode old = Some c /\ add_path_node_for pfs tn new c SB = SC c /\ exists T', At (SC c) T' spF.
Proof.
  intros Oc. destruct r_atB as (T' & A & Eo). rewrite Oc in Eo. symmetry in Eo.
  destruct r_sa as (GA & BA & HA & LA & CA & DA & KA & _).
  assert (Hn : tn < nlen SB). { rewrite (W_nlen _ _ (A_wf _ _ _ A)), LA. apply r_tn. }
  assert (Enone : alookup Nat.eqb new (pn_nodes (gnode SB tn)) = None).
  { fold (nch SB tn new). rewrite (A_nch _ _ _ A). unfold spB. rewrite peqb_false by (intros E; apply NE; auto). rewrite peqb_true. reflexivity. }
  split; [exact Eo|]. split.
  - unfold add_path_node_for. fold (gnode SB tn). rewrite Enone. reflexivity.
  - exists T'.
    assert (ND : NoDup (map fst (aset Nat.eqb new c (pn_nodes (gnode SB tn))))).
    { apply (gaset_nodup Nat.eqb Nat.eqb_spec). apply (W_keys _ _ (A_wf _ _ _ A)). exact KA. }
    pose proof (at_nodes SB T' spB tn _ A Hn ND) as A2. fold (SC c) in A2.
    destruct A2 as [Awf Anch Adel Apar Atold Arest AT Asub Akeep Aent Alog]. constructor; auto.
    intros a y. rewrite Anch. unfold spF, spB, peqb. cbn [fst snd].
    destruct (Nat.eqb_spec a tn) as [->|Na]; cbn [andb].
    + rewrite (alookup_aset Nat.eqb Nat.eqb_spec). destruct (Nat.eqb_spec y new) as [->|Ny]; [symmetry; exact Eo|].
      fold (nch SB tn y). rewrite (A_nch _ _ _ A). unfold spB, peqb. cbn [fst snd]. rewrite Nat.eqb_refl.
      destruct (Nat.eqb_spec y new); [congruence|]. cbn [andb]. destruct ((tn =? fnode) && (y =? old)); reflexivity.
    + destruct ((a =? fnode) && (y =? old)); reflexivity.
Qed.

Lemma node_at_bound (S : st) p m : NT S -> node_at S p = Some m -> m < nlen S.
Proof.
  intros NS. destruct p as [|y p] using rev_ind; [cbn; intros [= <-]; apply NS|].
  unfold node_at. rewrite walk_snoc. destruct (walk (nch S) 0 p); [|discriminate]. apply (N_bound _ NS).
Qed.

Section SomeCase.
Variables (c : nat) (T' : list nat).
Hypothesis Ec : nch s fnode old = Some c.
Hypothesis A : At (SC c) T' spF.
Hypothesis IC : RInvD (SC c) d.
Let Pc := p2 ++ [new].
Let WC := wf_trans _ _ _ r_wfA (A_wf _ _ _ A).

Lemma c_rf q : fr_file (gref (SC c) q) = fr_file (gref s q) /\ fr_node (gref (SC c) q) = fr_node (gref s q) /\
               fr_xattrOf (gref (SC c) q) = fr_xattrOf (gref s q).
Proof. destruct (W_refs _ _ WC q) as (A1 & A2 & A3 & _). auto. Qed.

Lemma c_tree : NT (SC c) /\ (forall p, ~ prefix (p1 ++ [old]) p -> ~ prefix Pc p -> node_at (SC c) p = node_at s p) /\
  (forall sg, node_at s (p1 ++ [old] ++ sg) <> None -> node_at (SC c) (Pc ++ sg) = node_at s (p1 ++ [old] ++ sg)).
Proof.
  destruct (spF_tree (SC c) (A_nch _ _ _ A) (W_nlen _ _ WC)) as (X & Y & Z). split; [exact X|]. split; [exact Y|].
  intros sg H. unfold Pc. rewrite <- app_assoc. apply Z. exact H.
Qed.

Lemma c_pc : node_at (SC c) Pc = Some c.
Proof.
  destruct c_tree as (_ & _ & Z). specialize (Z []). rewrite !app_nil_r in Z. rewrite Z.
  - unfold node_at. rewrite walk_snoc. fold (node_at s p1). rewrite r_wn1. exact Ec.
  - unfold node_at. rewrite walk_snoc. fold (node_at s p1). rewrite r_wn1, Ec. discriminate.
Qed.

Lemma c_inj p p' m : node_at (SC c) p = Some m -> node_at (SC c) p' = Some m -> p = p'.
Proof. destruct c_tree as (NC & _). apply (walk_inj (nch (SC c)) 0 (N_up _ NC) (N_noroot _ NC)). Qed.

Lemma c_notft tau m : node_at (SC c) (Pc ++ tau) = Some m -> m <> fnode /\ m <> tn.
Proof.
  intros W. destruct c_tree as (_ & Y & _). split; intros ->.
  - assert (W1 : node_at (SC c) p1 = Some fnode).
    { rewrite Y; [apply r_wn1 | | apply (M_nv _ _ _ _ _ _ _ _ _ M)].
      intros (sg & E). apply (f_equal (@length nat)) in E. rewrite !app_length in E. cbn in E. lia. }
    pose proof (c_inj _ _ _ W W1) as E. apply (M_nv _ _ _ _ _ _ _ _ _ M). exists tau. rewrite <- E. reflexivity.
  - assert (W2 : node_at (SC c) p2 = Some tn).
    { rewrite Y; [apply r_wn2 | apply r_b2 |]. intros (sg & E). apply (f_equal (@length nat)) in E. unfold Pc in E. rewrite !app_length in E. cbn in E. lia. }
    pose proof (c_inj _ _ _ W W2) as E. apply (f_equal (@length nat)) in E. unfold Pc in E. rewrite !app_length in E. cbn in E. lia.
Qed.

Lemma c_live q : live (SC c) q -> live s q. Proof. apply (W_live _ _ WC). Qed.

Lemma c_nonf q : nonf (SC c) q -> nonf SA q /\ nonf s q.
Proof.
  unfold nonf, is_deleted. destruct (c_rf q) as (_ & -> & _). rewrite (A_del _ _ _ A). destruct r_sa as (GA & _ & _ & _ & _ & DA & _).
  rewrite GA. intros H. split; auto. destruct (pn_deleted (gnode s (fr_node (gref s q)))) eqn:X; auto. apply DA in X. congruence.
Qed.

(** registrations in the nodes that are neither the source nor the target directory *)
Lemma c_reg_s m q nm : m <> fnode -> m <> tn -> m < nlen s -> inreg (SC c) m q nm ->
  q < rlen s /\ live s q /\ tref s q /\
  exists p, fr_parent (gref s q) = Some p /\ p < rlen s /\ fr_node (gref s p) = m /\ nch s m nm = Some (fr_node (gref s q)) /\ tref s p.
Proof.
  intros N1 N2 Hm H. apply (A_sub _ _ _ A) in H; auto. unfold inreg in H. destruct r_sa_refs as (RS & _).
  unfold regs_of in H. rewrite (RS m N2) in H. fold (regs_of (gnode s m)) in H. apply in_regs_of in H. destruct H as (mm & H1 & H2).
  pose proof T as TO.
  assert (Rg : registered pfs s m q nm).
  { apply (T_agree pfs s TO m q nm Hm). exists mm. split; auto. apply (In_alookup Nat.eqb Nat.eqb_spec); auto. apply (G_keys _ _ G). }
  destruct (T_reg pfs s TO m q nm Hm Rg) as (A1 & A2 & p & A3 & A4 & A5 & A6).
  destruct (G_parent _ _ G q p A1 A3) as (B1 & B2 & _). repeat split; auto. exists p. repeat split; auto.
Qed.

Lemma c_parent q p : q < rlen s -> live (SC c) q -> nonf (SC c) q -> fr_parent (gref s q) = Some p -> ~ In q T' ->
  fr_parent (gref (SC c) q) = Some p /\ good (SC c) p.
Proof.
  intros Lq Lv Nf Ep NT'.
  assert (EpC : fr_parent (gref (SC c) q) = Some p).
  { destruct (A_par _ _ _ A q) as [E|(E & _)]; [|contradiction]. rewrite E. destruct r_sa as (GA & _). rewrite GA. exact Ep. }
  split; [exact EpC|].
  destruct (G_parent _ _ G q p Lq Ep) as (Tq & Tp & Lp).
  assert (LqC : q < rlen (SC c)) by (rewrite (W_rlen _ _ WC); exact Lq).
  destruct (inv_live pfs (SC c) d p IC (C_parent pfs (SC c) q p LqC Lv EpC)) as (LpC & LvpC).
  split; [exact LpC|]. split; [exact LvpC|]. split; [unfold tref; destruct (c_rf p) as (_ & _ & ->); exact Tp|].
  (* the parent is not fenced either *)
  destruct (c_nonf q Nf) as (NfA & Nfs). pose proof (c_live q Lv) as Lvs.
  pose proof (parent_nonf s g q p G Lq Lvs Nfs Ep) as Nfp.
  unfold nonf, is_deleted. destruct (c_rf p) as (_ & -> & _). rewrite (A_del _ _ _ A).
  destruct (pn_deleted (gnode SA (fr_node (gref s p)))) eqn:X; auto. exfalso.
  assert (K1 : rkeys s1) by (intros n; rewrite r_gn1; apply (G_keys _ _ G)).
  destruct (mcd_only tn new s1 _ r_tn1 K1 X) as [Hd|(v & sg & Hv & Wv)].
  { rewrite r_gn1 in Hd. unfold nonf, is_deleted in Nfp. congruence. }
  rewrite r_nch1 in Hv. rewrite (walk_eq _ _ r_nch1) in Wv.
  (* then q's own path runs through the victim *)
  pose proof T as TO. destruct (T_live pfs s TO q p Lq Lvs Ep Nfs) as (nm & Rg).
  pose proof (T_node_bound pfs s TO p Lp) as Hn.
  destruct (T_reg pfs s TO _ q nm Hn Rg) as (_ & _ & p' & Ep' & _ & En & Cn). 
  assert (Wq : node_at s (p2 ++ [new] ++ sg ++ [nm]) = Some (fr_node (gref s q))).
  { unfold node_at. rewrite walk_app. fold (node_at s p2). rewrite r_wn2. cbn [app walk]. rewrite Hv. rewrite walk_snoc, Wv. exact Cn. }
  pose proof (walk_inj (nch s) 0 (N_up _ N) (N_noroot _ N) _ _ _ (G_node _ _ G q Lq Lvs Tq Nfs) Wq) as E.
  pose proof (victim_fenced q (sg ++ [nm]) E Lq Lvs Tq Nfs) as Y. unfold nonf in NfA. congruence.
Qed.

Lemma c_T_level0 q : In q T' -> fr_node (gref s q) = c.
Proof.
  intros H. destruct (A_T _ _ _ A) as (I & _). destruct (r_ml q (I q H)) as (_ & _ & _ & C & _). congruence.
Qed.

Lemma c_sound tau m q nm : node_at (SC c) (Pc ++ tau) = Some m -> In (q, nm) (regs_of (gnode (SC c) m)) -> live (SC c) q ->
  q < rlen (SC c) /\ tref (SC c) q /\
  (nonf (SC c) q -> exists p, fr_parent (gref (SC c) q) = Some p /\ fr_node (gref (SC c) p) = m /\
                     nch (SC c) m nm = Some (fr_node (gref (SC c) q)) /\ good (SC c) p).
Proof.
  intros W Hin Lv. destruct (c_notft tau m W) as (N1 & N2). destruct c_tree as (NC & _).
  assert (Hm : m < nlen s). { rewrite <- (W_nlen _ _ WC). eapply node_at_bound; eauto. }
  destruct (c_reg_s m q nm N1 N2 Hm Hin) as (Lq & Lvs & Tq & p & Ep & Lp & En & Cn & Tp).
  split; [rewrite (W_rlen _ _ WC); exact Lq|]. split; [unfold tref; destruct (c_rf q) as (_ & _ & ->); exact Tq|].
  intros Nf.
  assert (NT' : ~ In q T').
  { intros H. destruct (A_T _ _ _ A) as (I & _). destruct (r_ml q (I q H)) as (_ & _ & _ & _ & p0 & Ep0 & _ & En0).
    rewrite Ep in Ep0. injection Ep0 as <-. congruence. }
  destruct (c_parent q p Lq Lv Nf Ep NT') as (EpC & Gp).
  exists p. split; [exact EpC|]. split; [destruct (c_rf p) as (_ & -> & _); exact En|]. split; [|exact Gp].
  rewrite (A_nch _ _ _ A). unfold spF. rewrite !peqb_false by (intros [= -> _]; auto). destruct (c_rf q) as (_ & -> & _). exact Cn.
Qed.

Lemma c_compl q tau : good (SC c) q -> tau <> [] -> node_at (SC c) (Pc ++ tau) = Some (fr_node (gref (SC c) q)) ->
  exists p nm, fr_parent (gref (SC c) q) = Some p /\ In (q, nm) (regs_of (gnode (SC c) (fr_node (gref (SC c) p)))) /\
               nch (SC c) (fr_node (gref (SC c) p)) nm = Some (fr_node (gref (SC c) q)).
Proof.
  intros (LqC & Lv & TqC & Nf) Ht W. destruct c_tree as (NC & _).
  assert (Lq : q < rlen s) by (rewrite <- (W_rlen _ _ WC); exact LqC).
  assert (Tq : tref s q) by (unfold tref in *; destruct (c_rf q) as (_ & _ & E); rewrite <- E; exact TqC).
  destruct (c_nonf q Nf) as (NfA & Nfs). pose proof (c_live q Lv) as Lvs.
  destruct (c_rf q) as (_ & Enq & _). rewrite Enq in W.
  (* the last step of the path *)
  destruct tau as [|y0 tau0] using rev_ind; [congruence|]. clear IHtau0.
  rewrite app_assoc in W. unfold node_at in W. rewrite walk_snoc in W.
  destruct (walk (nch (SC c)) 0 (Pc ++ tau0)) as [m|] eqn:Wm; [|discriminate]. fold (node_at (SC c) (Pc ++ tau0)) in Wm.
  destruct (c_notft tau0 m Wm) as (N1 & N2).
  assert (Cs : nch s m y0 = Some (fr_node (gref s q))).
  { rewrite (A_nch _ _ _ A) in W. unfold spF in W. rewrite !peqb_false in W by (intros [= -> _]; auto). exact W. }
  (* q has a parent, and is registered in its node *)
  destruct (fr_parent (gref s q)) as [p|] eqn:Ep.
  2:{ exfalso. pose proof (G_root _ _ G q Lq Ep Tq) as E0. rewrite E0 in Cs. eapply (N_noroot _ N); eauto. }
  pose proof T as TO. destruct (T_live pfs s TO q p Lq Lvs Ep Nfs) as (nm & Rg).
  destruct (G_parent _ _ G q p Lq Ep) as (_ & Tp & Lp).
  pose proof (T_node_bound pfs s TO p Lp) as Hn.
  destruct (T_reg pfs s TO _ q nm Hn Rg) as (_ & _ & p' & Ep' & _ & En & Cn).
  destruct (N_up _ N _ _ _ _ _ Cn Cs) as (Em & Enm).
  assert (NT' : ~ In q T').
  { intros H. pose proof (c_T_level0 q H) as E0. rewrite E0 in W.
    assert (W2 : node_at (SC c) ((Pc ++ tau0) ++ [y0]) = Some c) by (unfold node_at; rewrite walk_snoc; fold (node_at (SC c) (Pc ++ tau0)); rewrite Wm; exact W).
    pose proof (c_inj _ _ _ W2 c_pc) as E. apply (f_equal (@length nat)) in E. rewrite !app_length in E. cbn in E. lia. }
  destruct (c_parent q p Lq Lv Nf Ep NT') as (EpC & Gp).
  exists p, nm. split; [exact EpC|]. destruct (c_rf p) as (_ & -> & _). rewrite Em, Enm. split.
  - apply (A_keep _ _ _ A); auto.
    apply (T_agree pfs s TO _ q nm Hn) in Rg. destruct Rg as (mm & H1 & H2). rewrite Em in H1.
    unfold inreg. destruct r_sa_refs as (RS & _). unfold regs_of. rewrite (RS m N2). fold (regs_of (gnode s m)).
    apply in_regs_of. exists mm. split; auto. apply (alookup_In Nat.eqb Nat.eqb_spec). rewrite <- Enm. exact H1.
  - rewrite Enq. rewrite (A_nch _ _ _ A). unfold spF. rewrite !peqb_false by (intros [= -> _]; auto). exact Cs.
Qed.

Lemma c_inj_files q q' : q < rlen (SC c) -> q' < rlen (SC c) -> tref (SC c) q -> tref (SC c) q' ->
  fr_file (gref (SC c) q) = fr_file (gref (SC c) q') -> q = q'.
Proof.
  rewrite (W_rlen _ _ WC). unfold tref. destruct (c_rf q) as (-> & _ & ->). destruct (c_rf q') as (-> & _ & ->). apply (G_file_inj _ _ G).
Qed.

Lemma c_pre : PreN (SC c) Pc c [] (hpath (s_be pfs (SC c))).
Proof.
  intros p (LpC & Lv & TpC & Nf) En. rewrite app_nil_r.
  assert (Lp : p < rlen s) by (rewrite <- (W_rlen _ _ WC); exact LpC).
  assert (Tp : tref s p) by (unfold tref in *; destruct (c_rf p) as (_ & _ & E); rewrite <- E; exact TpC).
  destruct (c_nonf p Nf) as (_ & Nfs). destruct (c_rf p) as (Ef & Enp & _). rewrite Enp in En.
  assert (Hin : In p ml) by (apply r_level0; auto; [apply c_live; auto | rewrite En; exact Ec]).
  destruct (A_T _ _ _ A) as (_ & AT2). rewrite Ef. destruct r_sa as (GA & _). rewrite <- (GA p).
  apply (A_told _ _ _ A). apply AT2; auto.
Qed.

(** ---- below the moved node, and the end ---- *)
Definition hsD : list nat * st := notify_name_change pfs pfs_step (node_fuel pfs (SC c)) c ([], SC c).
Definition SD : st := snd hsD.
Definition SF : st := release_all pfs pfs_step (fst hsD) SD.
Let L := below pfs (node_fuel pfs (SC c)) (SC c) c.
Let F0 := hpath (s_be pfs (SC c)).
Let F1 := replayP (SC c) L F0.

Lemma d_be : (forall h, hpath (s_be pfs SD) h = F1 h) /\ p_entries (s_be pfs SD) = p_entries (s_be pfs (SC c)) /\
             p_dirs (s_be pfs SD) = p_dirs (s_be pfs (SC c)) /\ p_nextino (s_be pfs SD) = p_nextino (s_be pfs (SC c)).
Proof.
  unfold SD, hsD. rewrite (notified_below_be pfs pfs_step). apply (replay_be (SC c) L (s_be pfs (SC c)) F0). reflexivity.
Qed.

Lemma d_f2 : frame2 pfs (SC c) SD.
Proof. apply (notify_name_change_frame2 pfs pfs_step (node_fuel pfs (SC c)) c ([], SC c)). Qed.

Lemma d_gr q : fr_file (gref SD q) = fr_file (gref (SC c) q) /\ fr_node (gref SD q) = fr_node (gref (SC c) q) /\
               fr_parent (gref SD q) = fr_parent (gref (SC c) q) /\ fr_xattrOf (gref SD q) = fr_xattrOf (gref (SC c) q) /\
               xmode (gref SD q) = xmode (gref (SC c) q).
Proof.
  destruct d_f2 as (_ & _ & _ & Q & _). specialize (Q q).
  assert (FD : forall {X} (f : fidref -> X), (forall x z, f (fr_with_refs x z) = f x) -> f (gref SD q) = f (gref (SC c) q)).
  { intros X f Hf. rewrite <- (Hf (gref SD q) 0%Z), <- (Hf (gref (SC c) q) 0%Z), Q. reflexivity. }
  repeat split; apply FD; reflexivity.
Qed.

Lemma d_wf : wframe (SC c) SD.
Proof.
  destruct d_f2 as (Nd & Rl & Nh & Q & Cn). destruct d_be as (_ & _ & Dd & Ni).
  assert (GN : forall n, gnode SD n = gnode (SC c) n) by (intros; unfold get_node; rewrite Nd; reflexivity).
  apply mkWF.
  - unfold nlen. rewrite Nd. reflexivity.
  - exact Rl.
  - intros q. destruct (d_gr q) as (A1 & A2 & A3 & A4 & A5). rewrite A1, A2, A3, A4, A5. repeat split; auto.
  - exact Nh.
  - split; auto.
  - intros q. apply Cn.
  - intros K n. rewrite GN. apply K.
  - intros n. rewrite GN. auto.
Qed.

Lemma d_deep : Q1 (SC c) Pc F1 /\ (forall h, ~ touched (SC c) Pc h -> F1 h = F0 h).
Proof.
  destruct c_tree as (NC & _).
  pose proof (deep_pure (SC c) Pc NC (W_keys _ _ WC (G_keys _ _ G)) c_sound c_compl c_inj_files (node_fuel pfs (SC c)) c [] F0) as D.
  rewrite !app_nil_r in D. apply D.
  - exact c_pc.
  - unfold node_fuel, nlen. lia.
  - exact c_pre.
Qed.

Lemma d_paths q : q < rlen s -> live SF q -> tref s q -> nonf SF q ->
  (forall sg, fpath s q = p1 ++ [old] ++ sg -> hpath (s_be pfs SF) (fr_file (gref s q)) = p2 ++ [new] ++ sg) /\
  (~ prefix (p1 ++ [old]) (fpath s q) -> hpath (s_be pfs SF) (fr_file (gref s q)) = fpath s q).
Proof.
  intros Lq LvF Tq NfF.
  pose proof (cf_release_all (fst hsD) SD) as CF. fold SF in CF.
  assert (HP : forall h, hpath (s_be pfs SF) h = F1 h) by (intros h; rewrite (CF_path _ _ CF); apply d_be).
  assert (LvD : live SD q) by (apply (RF_live _ _ (CF_rf _ _ CF)); exact LvF).
  assert (LvC : live (SC c) q) by (apply (W_live _ _ d_wf); exact LvD).
  assert (NfC : nonf (SC c) q).
  { unfold nonf, is_deleted in *. destruct (RF_refs _ _ (CF_rf _ _ CF) q) as (_ & En & _). rewrite En in NfF.
    destruct (RF_nodes _ _ (CF_rf _ _ CF) (fr_node (gref SD q))) as (_ & Ed). rewrite Ed in NfF.
    destruct (d_gr q) as (_ & En2 & _). rewrite En2 in NfF. destruct d_f2 as (Nd & _). unfold get_node in NfF |- *. rewrite Nd in NfF. exact NfF. }
  destruct (c_nonf q NfC) as (NfA & Nfs). pose proof (c_live q LvC) as Lvs.
  destruct (c_rf q) as (Efq & Enq & Exq).
  assert (Gq : good (SC c) q).
  { split; [rewrite (W_rlen _ _ WC); exact Lq|]. split; [exact LvC|]. split; [unfold tref; rewrite Exq; exact Tq | exact NfC]. }
  pose proof (G_node _ _ G q Lq Lvs Tq Nfs) as GNq.
  destruct d_deep as (DQ1 & DU). destruct c_tree as (NC & NOther & NMoved).
  destruct r_sa as (GA & BA & _).
  (* a File is touched below c only if its fidRef's node is strictly below c *)
  assert (Tch : touched (SC c) Pc (fr_file (gref s q)) -> exists tau y, node_at (SC c) (Pc ++ tau ++ [y]) = Some (fr_node (gref s q))).
  { intros (q' & nm & m & sg & W & Hin & Lv' & E).
    destruct (c_sound sg m q' nm W Hin Lv') as (Lq' & Tq' & Snd). rewrite <- Efq in E.
    pose proof (c_inj_files q' q Lq' (proj1 Gq) Tq' (proj1 (proj2 (proj2 Gq))) E) as ->.
    destruct (Snd NfC) as (_ & _ & _ & Cn & _). rewrite Enq in Cn. exists sg, nm. rewrite app_assoc. unfold node_at in *. rewrite walk_snoc, W. exact Cn. }
  split.
  - intros sg E. rewrite HP. rewrite E in GNq.
    assert (WqC : node_at (SC c) (Pc ++ sg) = Some (fr_node (gref s q))) by (rewrite NMoved; [exact GNq | rewrite GNq; discriminate]).
    destruct sg as [|y sg].
    + (* level 0 *)
      rewrite app_nil_r in *. rewrite DU.
      * unfold F0. assert (Hin : In q ml).
        { apply r_level0; auto. unfold node_at in GNq. rewrite walk_snoc in GNq. fold (node_at s p1) in GNq. rewrite r_wn1 in GNq. exact GNq. }
        destruct (A_T _ _ _ A) as (_ & AT2). rewrite <- (GA q). apply (A_told _ _ _ A). apply AT2; auto.
      * intros X. destruct (Tch X) as (tau & y & W2). pose proof (c_inj _ _ _ W2 WqC) as E2.
        apply (f_equal (@length nat)) in E2. rewrite !app_length in E2. cbn in E2. lia.
    + rewrite <- Efq. replace (p2 ++ [new] ++ y :: sg) with (Pc ++ y :: sg) by (unfold Pc; rewrite <- app_assoc; reflexivity).
      apply DQ1; [exact Gq | discriminate | rewrite Enq; exact WqC].
  - intros NP. rewrite HP.
    assert (NV : ~ prefix Pc (fpath s q)).
    { intros (sg & E). unfold Pc in E. rewrite <- app_assoc in E. pose proof (victim_fenced q sg E Lq Lvs Tq Nfs) as X. unfold nonf in NfA. congruence. }
    assert (WqC : node_at (SC c) (fpath s q) = Some (fr_node (gref s q))) by (rewrite NOther; auto).
    rewrite DU.
    + unfold F0. rewrite (A_rest _ _ _ A); [rewrite BA, r_hp; reflexivity|].
      intros q' Hq' E. rewrite GA in E. destruct (A_T _ _ _ A) as (I & _). destruct (r_ml q' (I q' Hq')) as (Lq' & _ & Tq' & C' & _).
      pose proof (G_file_inj _ _ G q' q Lq' Lq Tq' Tq E) as ->. apply NP.
      assert (W0 : node_at s (p1 ++ [old]) = Some (fr_node (gref s q))) by (unfold node_at; rewrite walk_snoc; fold (node_at s p1); rewrite r_wn1; exact C').
      rewrite (walk_inj (nch s) 0 (N_up _ N) (N_noroot _ N) _ _ _ GNq W0). apply prefix_refl.
    + intros X. destruct (Tch X) as (tau & y & W2). pose proof (c_inj _ _ _ W2 WqC) as E2. apply NV. exists (tau ++ [y]). rewrite <- E2. reflexivity.
Qed.

Lemma d_good : Good SF g.
Proof.
  pose proof (cf_release_all (fst hsD) SD) as CF. fold SF in CF. pose proof (CF_rf _ _ CF) as R.
  destruct d_f2 as (Nd & _). destruct d_be as (_ & De & _).
  assert (GN : forall n, gnode SD n = gnode (SC c) n) by (intros; unfold get_node; rewrite Nd; reflexivity).
  destruct r_sa as (GA & BA & _).
  apply final_good.
  - eapply wf_trans; [apply (A_wf _ _ _ A)|]. eapply wf_trans; [apply d_wf | apply wf_of_rf; exact R].
  - intros a y. unfold nch. destruct (RF_nodes _ _ R a) as (-> & _). rewrite GN. apply (A_nch _ _ _ A).
  - intros m. destruct (RF_nodes _ _ R m) as (_ & ->). rewrite GN. apply (A_del _ _ _ A).
  - intros q. rewrite (CF_par _ _ CF). destruct (d_gr q) as (_ & _ & -> & _).
    destruct (A_par _ _ _ A q) as [E|(Hq & E)]; [left; rewrite E, GA; reflexivity|]. right. split; auto.
    destruct (A_T _ _ _ A) as (I & _). destruct (r_ml q (I q Hq)) as (_ & _ & _ & _ & p & Ep & _). congruence.
  - destruct (RF_fs _ _ R) as (-> & _). rewrite De, (A_ent _ _ _ A), BA. reflexivity.
  - apply d_paths.
Qed.
Lemma d_log : rcalls SF = rcalls s1 ++ map (told0 SA t new) ml ++ flat_map (tell pfs (SC c)) L.
Proof.
  pose proof (cf_release_all (fst hsD) SD) as CF. fold SF in CF. rewrite (CF_rlog _ _ CF).
  destruct (notify_name_change_tr pfs pfs_step (node_fuel pfs (SC c)) c ([], SC c)) as ((C1 & _) & _). cbn [snd] in C1. fold hsD in C1. fold SD in C1. fold L in C1.
  unfold rcalls at 1. rewrite C1, filter_app, tells_renamed. fold (rcalls (SC c)). rewrite (A_log _ _ _ A).
  unfold rcalls at 1. unfold calls, SA. rewrite log_mcd. fold (calls pfs s1). fold (rcalls s1). rewrite <- app_assoc. reflexivity.
Qed.
Lemma down_walk (S : st) : rkeys S -> forall k n m, down pfs S n m k -> exists tau, walk (nch S) n tau = Some m.
Proof.
  intros K k. induction k as [|k IH]; intros n m; cbn [down].
  - intros ->. exists []. reflexivity.
  - intros (y & c1 & Hin & Hd). destruct (IH _ _ Hd) as (tau & W). exists (y :: tau). cbn [walk].
    assert (E : nch S n y = Some c1) by (unfold nch; apply (In_alookup Nat.eqb Nat.eqb_spec); [apply (proj2 (K n)) | exact Hin]).
    rewrite E. exact W.
Qed.

Lemma d_np : NPI (SC c) -> s_panic pfs (SC c) = false -> NPI SF /\ s_panic pfs SF = false.
Proof.
  intros NC PC.
  assert (Cond : forall e, In e (below pfs (node_fuel pfs (SC c)) (SC c) c) -> liveb pfs (SC c) (fst e) = true -> fr_parent (gref (SC c) (fst e)) <> None).
  { intros [q nm] He _. cbn [fst]. apply in_below in He. destruct He as (k & m & _ & Hd & Hin).
    destruct (down_walk (SC c) (W_keys _ _ WC (G_keys _ _ G)) k c m Hd) as (tau & Wt).
    assert (Wm : node_at (SC c) (Pc ++ tau) = Some m). { unfold node_at. rewrite walk_app. fold (node_at (SC c) Pc). rewrite c_pc. exact Wt. }
    destruct (c_notft tau m Wm) as (N1 & N2). destruct c_tree as (NTC & _).
    assert (Hm : m < nlen s). { rewrite <- (W_nlen _ _ WC). eapply node_at_bound; eauto. }
    destruct (c_reg_s m q nm N1 N2 Hm Hin) as (_ & _ & _ & p & Ep & _).
    destruct (A_par _ _ _ A q) as [E|(_ & E)]; [|congruence]. rewrite E. destruct r_sa as (GA & _). rewrite GA. congruence. }
  destruct (notify_name_change_tp pfs pfs_step (node_fuel pfs (SC c)) c ([], SC c) Cond) as (_ & PD). cbn [snd] in PD. fold hsD in PD. fold SD in PD.
  destruct d_f2 as (Nd & Rl & _).
  assert (PfD : pf (SC c) SD) by (apply pf_same_nodes; auto; unfold rlen; lia).
  pose proof (pf_release_all (fst hsD) SD) as PfF. fold SF in PfF.
  split; [apply (P_inv _ _ PfF), (P_inv _ _ PfD NC) | rewrite (P_np _ _ PfF (P_inv _ _ PfD NC)), PD; exact PC].
Qed.
End SomeCase.

(** renameChildTo as a whole *)
Lemma r_result :
  s_panic pfs (rename_child_to pfs pfs_step fnode old t new s1) = false ->
  Good (rename_child_to pfs pfs_step fnode old t new s1) g.
Proof.
  unfold rename_child_to. rewrite r_gr1. fold tn. fold SA. rewrite r_rwn.
  destruct orig as [c|] eqn:Oc; [|intros _; apply r_none; exact Oc].
  destruct (r_atC c Oc) as (Ec & Eadd & T' & A). rewrite Eadd.
  destruct r_sa as (_ & _ & _ & _ & _ & _ & _ & (IA & HcA) & _).
  pose proof (remove_with_name_ok pfs pfs_step fnode old t new SA d IA HcA) as RW. cbv zeta in RW. rewrite r_rwn in RW. cbn [snd] in RW.
  destruct RW as (IB & _).
  pose proof (sc_add_path_node_for pfs tn new c SB) as SCC. rewrite Eadd in SCC.
  destruct (sc_ok pfs SB (SC c) d SCC IB) as (IC & _).
  destruct (s_panic pfs (SC c)) eqn:PC; [intros H; congruence|]. intros _.
  change (notify_name_change pfs pfs_step (node_fuel pfs (SC c)) c ([], SC c)) with (hsD c).
  pose proof (d_good c T' Ec A IC) as GF. unfold SF, SD in GF. destruct (hsD c) as [held s4]. exact GF.
Qed.
(** no run-time panic in renameChildTo *)
Lemma r_nopanic : s_panic pfs s = false ->
  NPI (rename_child_to pfs pfs_step fnode old t new s1) /\ s_panic pfs (rename_child_to pfs pfs_step fnode old t new s1) = false.
Proof.
  intros P0. pose proof (npi_of_tree s T) as N0.
  assert (N1 : NPI s1 /\ s_panic pfs s1 = false).
  { destruct E1 as (R & Nd & _ & _ & _ & Pp). assert (X : pf s s1) by (apply pf_same_nodes; auto; unfold rlen; rewrite R; lia).
    split; [apply (P_inv _ _ X N0) | rewrite (P_np _ _ X N0); exact P0]. }
  destruct N1 as (N1 & P1).
  assert (NA : NPI SA /\ s_panic pfs SA = false).
  { pose proof (pf_mcd tn new s1) as X. fold SA in X. split; [apply (P_inv _ _ X N1) | rewrite (P_np _ _ X N1); exact P1]. }
  destruct NA as (NA & PA).
  destruct r_sa as (GA & _ & _ & LA & _ & _ & KA & (IA & HcA) & _).
  assert (RLA : rlen SA = rlen s).
  { unfold rlen. destruct (mcd_spec tn new s1 r_tn1) as ((_ & R' & _) & _). fold SA in R'. rewrite R'. destruct E1 as (R & _). rewrite R. reflexivity. }
  assert (PL0 : PL fnode tn t SA ml).
  { constructor; auto; [rewrite GA; reflexivity|].
    intros q Hq. destruct (r_ml q Hq) as (Lq & Lvq & _ & _ & p & Ep & Lp & Np).
    split; [rewrite RLA; exact Lq|]. split; [rewrite GA, Ep; discriminate|].
    intros n Hn. destruct (alookup Nat.eqb q (pn_names (gnode SA n))) as [nm|] eqn:E; auto. exfalso.
    assert (X : alookup Nat.eqb q (pn_names (gnode s1 n)) <> None) by (apply (nsub_mcd tn new s1); fold SA; congruence).
    rewrite r_gn1 in X. destruct (alookup Nat.eqb q (pn_names (gnode s n))) as [nm'|] eqn:E'; [|congruence].
    assert (Hnl : n < nlen s).
    { destruct (Nat.lt_ge_cases n (nlen s)) as [L|L]; auto. unfold get_node in E'. rewrite nth_overflow in E' by exact L. discriminate. }
    destruct (T_reg pfs s T n q nm' Hnl E') as (_ & _ & p' & Ep' & _ & Np' & _). congruence. }
  unfold rename_child_to. rewrite r_gr1. fold tn. fold SA. rewrite r_rwn.
  assert (NB1 : NPI SB1 /\ s_panic pfs SB1 = false).
  { unfold SB1, lp. destruct (alookup Nat.eqb old (pn_refs (gnode SA fnode))) as [m|] eqn:E; [|cbn [snd]; auto].
    assert (Eml : ml = m) by (unfold ml; rewrite E; reflexivity).
    apply (loop_np fnode tn old t new m [] SA); [rewrite <- Eml; exact PL0 | rewrite <- Eml; apply r_ml_nodup]. }
  destruct NB1 as (NB1 & PB1).
  assert (NB : NPI SB /\ s_panic pfs SB = false).
  { assert (X : pf SB1 SB).
    { unfold SB. eapply pf_trans; [|apply pf_release_all]. unfold SB2.
      apply (pf_set_node_same fnode (pn_with_nodes (gnode SB1 fnode) (adel Nat.eqb old (pn_nodes (gnode SB1 fnode)))) SB1); reflexivity. }
    split; [apply (P_inv _ _ X NB1) | rewrite (P_np _ _ X NB1); exact PB1]. }
  destruct NB as (NB & PB).
  destruct orig as [c|] eqn:Oc; [|split; [exact NB | exact PB]].
  destruct (r_atC c Oc) as (Ec & Eadd & T' & A). rewrite Eadd.
  assert (NC : NPI (SC c) /\ s_panic pfs (SC c) = false).
  { assert (X : pf SB (SC c)).
    { unfold SC. apply (pf_set_node_same tn (pn_with_nodes (gnode SB tn) (aset Nat.eqb new c (pn_nodes (gnode SB tn)))) SB); reflexivity. }
    split; [apply (P_inv _ _ X NB) | rewrite (P_np _ _ X NB); exact PB]. }
  destruct NC as (NC & PC). rewrite PC.
  pose proof (remove_with_name_ok pfs pfs_step fnode old t new SA d IA HcA) as RW. cbv zeta in RW. rewrite r_rwn in RW. cbn [snd] in RW.
  destruct RW as (IB & _).
  pose proof (sc_add_path_node_for pfs tn new c SB) as SCC. rewrite Eadd in SCC.
  destruct (sc_ok pfs SB (SC c) d SCC IB) as (IC & _).
  change (notify_name_change pfs pfs_step (node_fuel pfs (SC c)) c ([], SC c)) with (hsD c).
  pose proof (d_np c T' Ec A NC PC) as PF. unfold SF, SD in PF. destruct (hsD c) as [held s4]. exact PF.
Qed.

(** the Renamed calls of renameChildTo *)
Definition deep_calls : list bcall :=
  match orig with
  | Some c => flat_map (tell pfs (SC c)) (below pfs (node_fuel pfs (SC c)) (SC c) c)
  | None => []
  end.

Lemma r_result_log :
  s_panic pfs (rename_child_to pfs pfs_step fnode old t new s1) = false ->
  rcalls (rename_child_to pfs pfs_step fnode old t new s1) = rcalls s1 ++ map (told0 SA t new) ml ++ deep_calls.
Proof.
  unfold rename_child_to, deep_calls. rewrite r_gr1. fold tn. fold SA. rewrite r_rwn.
  destruct orig as [c|] eqn:Oc.
  - destruct (r_atC c Oc) as (Ec & Eadd & T' & A). rewrite Eadd.
    destruct r_sa as (_ & _ & _ & _ & _ & _ & _ & (IA & HcA) & _).
    pose proof (remove_with_name_ok pfs pfs_step fnode old t new SA d IA HcA) as RW. cbv zeta in RW. rewrite r_rwn in RW. cbn [snd] in RW.
    destruct RW as (IB & _).
    pose proof (sc_add_path_node_for pfs tn new c SB) as SCC. rewrite Eadd in SCC.
    destruct (sc_ok pfs SB (SC c) d SCC IB) as (IC & _).
    destruct (s_panic pfs (SC c)) eqn:PC; [intros H; congruence|]. intros _.
    change (notify_name_change pfs pfs_step (node_fuel pfs (SC c)) c ([], SC c)) with (hsD c).
    pose proof (d_log c T' A) as DL. unfold SF, SD in DL. destruct (hsD c) as [held s4]. exact DL.
  - intros _. destruct r_atB as (T' & A & _). rewrite (A_log _ _ _ A), app_nil_r.
    unfold rcalls at 1. unfold calls, SA. rewrite log_mcd. reflexivity.
Qed.
End Ren.

(** Trenameat / Trename after the guards: the backend call and renameChildTo *)
Lemma rename_ok (s : st) d g xr t old new :
  RInvD s d -> TH s -> Good s g -> 0 < hc s t ->
  xr < rlen s -> live s xr -> tref s xr -> nonf s xr -> tref s t -> nonf s t ->
  (fr_node (gref s xr), old) <> (fr_node (gref s t), new) ->
  let r := bcall_ pfs pfs_step (BRenameAt (fr_file (gref s xr)) old (fr_file (gref s t)) new) s in
  let res := match fst r with
             | AErr e => snd r
             | _ => rename_child_to pfs pfs_step (fr_node (gref s xr)) old t new (snd r)
             end in
  s_panic pfs res = false -> Good res g.
Proof.
  intros Inv TT G Hc Lx Lvx Tx Nfx Tt Nft NE. cbv zeta.
  destruct (bcall_be (BRenameAt (fr_file (gref s xr)) old (fr_file (gref s t)) new) s) as (E1 & E2 & E3 & E4 & E5 & E6 & E7 & E8).
  destruct (held_live s d t Inv Hc) as (Lt & Lvt).
  pose proof (pfs_step_renameat (s_be pfs s) (fr_file (gref s xr)) old (fr_file (gref s t)) new (G_fs _ _ G)) as PR. cbv zeta in PR.
  rewrite <- E1, <- E2 in PR.
  destruct (bcall_ pfs pfs_step (BRenameAt (fr_file (gref s xr)) old (fr_file (gref s t)) new) s) as [a s1]. cbn [fst snd] in *.
  assert (Same : fs_same (s_be pfs s) (s_be pfs s1) -> Good s1 g).
  { intros (A1 & A2 & A3 & A4). eapply shrink_good; [|exact G]. apply shrink_be; auto; [lia|]. apply fext_same; auto.
    intros h _. unfold hpath, file_of. rewrite A4. reflexivity. }
  destruct PR as [((e & Ea) & FS) | [(FS & R12 & Eon & RS) | (Ea & dd1 & dd2 & xx & M)]].
  - rewrite Ea. intros _. apply Same. exact FS.
  - exfalso. apply NE. subst new. f_equal.
    fold (fpath s xr) (fpath s t) in R12, RS.
    destruct (resolve (s_be pfs s) (fpath s xr)) as [i|] eqn:R1; [|congruence]. symmetry in R12.
    rewrite resolve_walk in R1, R12.
    pose proof (walk_inj (entry (s_be pfs s)) root_ino (F_up _ (G_fs _ _ G)) (F_noroot _ (G_fs _ _ G)) _ _ _ R1 R12) as EP.
    pose proof (G_node _ _ G xr Lx Lvx Tx Nfx) as W1. pose proof (G_node _ _ G t Lt Lvt Tt Nft) as W2. rewrite EP in W1. congruence.
  - rewrite Ea. apply (r_result s d g xr t old new s1 dd1 dd2 xx Inv TT G Hc); auto. repeat split; auto.
Qed.

Lemma dir_tref (s : st) g r : Good s g -> r < rlen s -> is_dir (fr_mode (gref s r)) = true -> tref s r.
Proof.
  intros G Lr M. unfold tref. destruct (fr_xattrOf (gref s r)) as [o|] eqn:EX; auto. rewrite (G_xmode _ _ G r o Lr EX) in M. discriminate.
Qed.

Lemma pair_ne a b c e : (a =? b) && (c =? e) = false -> (a, c) <> (b, e).
Proof. intros H [= -> ->]. rewrite !Nat.eqb_refl in H. discriminate. Qed.

Lemma gokT_renameat c fid oldnm fid2 newnm : gokT [] (fun s => snd (do_renameat pfs pfs_step c fid oldnm fid2 newnm s)).
Proof.
  unfold do_renameat. apply with_fid_gokT. intros r. apply with_fid_gokT. intros t s d g Inv HP TT G. cbv zeta.
  assert (Hr : 0 < hc s r) by (apply HP; right; left; reflexivity).
  assert (Ht : 0 < hc s t) by (apply HP; left; reflexivity).
  destruct (held_live s d r Inv Hr) as (Lr & Lvr). destruct (held_live s d t Inv Ht) as (Lt & Lvt).
  destruct (is_deleted pfs s r) eqn:Dr; cbn [orb]; [intros _; exact G|].
  destruct (is_dir (fr_mode (gref s r))) eqn:Mr; cbn [negb orb]; [|intros _; exact G].
  destruct (is_deleted pfs s t) eqn:Dt; cbn [orb]; [intros _; exact G|].
  destruct (is_dir (fr_mode (gref s t))) eqn:Mt; cbn [negb orb]; [|intros _; exact G].
  destruct (fr_opened (gref s r)); [intros _; exact G|].
  destruct ((fr_node (gref s r) =? fr_node (gref s t)) && (oldnm =? newnm)) eqn:Same; [intros _; exact G|].
  pose proof (rename_ok s d g r t oldnm newnm Inv TT G Ht Lr Lvr (dir_tref s g r G Lr Mr) Dr (dir_tref s g t G Lt Mt) Dt (pair_ne _ _ _ _ Same)) as RO.
  cbv zeta in RO.
  destruct (bcall_ pfs pfs_step (BRenameAt (fr_file (gref s r)) oldnm (fr_file (gref s t)) newnm) s) as [a s1]. cbn [fst snd] in RO.
  destruct a; cbn [snd]; exact RO.
Qed.

Lemma gokT_rename c fid dirfid nm : gokT [] (fun s => snd (do_rename pfs pfs_step c fid dirfid nm s)).
Proof.
  unfold do_rename. apply with_fid_gokT. intros r. apply with_fid_gokT. intros t s d g Inv HP TT G. cbv zeta.
  assert (Hr : 0 < hc s r) by (apply HP; right; left; reflexivity).
  assert (Ht : 0 < hc s t) by (apply HP; left; reflexivity).
  destruct (held_live s d r Inv Hr) as (Lr & Lvr). destruct (held_live s d t Inv Ht) as (Lt & Lvt).
  destruct (fr_parent (gref s r)) as [p|] eqn:Ep; [|intros _; exact G].
  destruct (is_deleted pfs s r) eqn:Dr; cbn [orb]; [intros _; exact G|].
  destruct (is_deleted pfs s t) eqn:Dt; cbn [orb]; [intros _; exact G|].
  destruct (is_dir (fr_mode (gref s t))) eqn:Mt; cbn [negb]; [|intros _; exact G].
  destruct (is_deleted pfs s p) eqn:Dp; [intros _; cbn [snd]; eapply shrink_good; [apply sh_set_panic | exact G]|].
  destruct (name_for pfs (fr_node (gref s p)) r s) as [old|]; [|intros _; cbn [snd]; eapply shrink_good; [apply sh_set_panic | exact G]].
  destruct ((fr_node (gref s p) =? fr_node (gref s t)) && (old =? nm)) eqn:Same; [intros _; exact G|].
  destruct (G_parent _ _ G r p Lr Ep) as (_ & Tp & Lp).
  assert (Lvp : live s p). { destruct (inv_live pfs s d p Inv (C_parent pfs s r p Lr Lvr Ep)) as (_ & X). exact X. }
  pose proof (rename_ok s d g p t old nm Inv TT G Ht Lp Lvp Tp Dp (dir_tref s g t G Lt Mt) Dt (pair_ne _ _ _ _ Same)) as RO.
  cbv zeta in RO.
  destruct (bcall_ pfs pfs_step (BRenameAt (fr_file (gref s p)) old (fr_file (gref s t)) nm) s) as [a s1]. cbn [fst snd] in RO.
  destruct a; cbn [snd]; exact RO.
Qed.

(** ---- no run-time panic in Trenameat / Trename ---- *)
Lemma rename_np (s : st) d g xr t old new :
  RInvD s d -> TH s -> Good s g -> 0 < hc s t ->
  xr < rlen s -> live s xr -> tref s xr -> nonf s xr -> tref s t -> nonf s t ->
  (fr_node (gref s xr), old) <> (fr_node (gref s t), new) ->
  NPI s -> s_panic pfs s = false ->
  let r := bcall_ pfs pfs_step (BRenameAt (fr_file (gref s xr)) old (fr_file (gref s t)) new) s in
  let res := match fst r with
             | AErr e => snd r
             | _ => rename_child_to pfs pfs_step (fr_node (gref s xr)) old t new (snd r)
             end in
  NPI res /\ s_panic pfs res = false.
Proof.
  intros Inv TT G Hc Lx Lvx Tx Nfx Tt Nft NE N0 P0. cbv zeta.
  destruct (bcall_be (BRenameAt (fr_file (gref s xr)) old (fr_file (gref s t)) new) s) as (E1 & E2 & E3 & E4 & E5 & E6 & E7 & E8).
  destruct (held_live s d t Inv Hc) as (Lt & Lvt).
  pose proof (pfs_step_renameat (s_be pfs s) (fr_file (gref s xr)) old (fr_file (gref s t)) new (G_fs _ _ G)) as PR. cbv zeta in PR.
  rewrite <- E1, <- E2 in PR.
  pose proof (pf_bcall (BRenameAt (fr_file (gref s xr)) old (fr_file (gref s t)) new) s) as PB.
  destruct (bcall_ pfs pfs_step (BRenameAt (fr_file (gref s xr)) old (fr_file (gref s t)) new) s) as [a s1]. cbn [fst snd] in *.
  destruct PR as [((e & Ea) & FS) | [(FS & R12 & Eon & RS) | (Ea & dd1 & dd2 & xx & M)]].
  - rewrite Ea. split; [apply (P_inv _ _ PB N0) | rewrite (P_np _ _ PB N0); exact P0].
  - exfalso. apply NE. subst new. f_equal.
    fold (fpath s xr) (fpath s t) in R12, RS.
    destruct (resolve (s_be pfs s) (fpath s xr)) as [i|] eqn:R1; [|congruence]. symmetry in R12.
    rewrite resolve_walk in R1, R12.
    pose proof (walk_inj (entry (s_be pfs s)) root_ino (F_up _ (G_fs _ _ G)) (F_noroot _ (G_fs _ _ G)) _ _ _ R1 R12) as EP.
    pose proof (G_node _ _ G xr Lx Lvx Tx Nfx) as W1. pose proof (G_node _ _ G t Lt Lvt Tt Nft) as W2. rewrite EP in W1. congruence.
  - rewrite Ea. apply (r_nopanic s d g xr t old new s1 dd1 dd2 xx Inv TT G Hc); auto. repeat split; auto.
Qed.

Lemma np_renameat c fid oldnm fid2 newnm : np [] (fun s => snd (do_renameat pfs pfs_step c fid oldnm fid2 newnm s)).
Proof.
  unfold do_renameat. apply with_fid_np. intros r. apply with_fid_np. intros t s d g Inv HP TT G N0 P0. cbv zeta.
  assert (Hr : 0 < hc s r) by (apply HP; right; left; reflexivity).
  assert (Ht : 0 < hc s t) by (apply HP; left; reflexivity).
  destruct (held_live s d r Inv Hr) as (Lr & Lvr). destruct (held_live s d t Inv Ht) as (Lt & Lvt).
  destruct (is_deleted pfs s r) eqn:Dr; cbn [orb]; [auto|].
  destruct (is_dir (fr_mode (gref s r))) eqn:Mr; cbn [negb orb]; [|auto].
  destruct (is_deleted pfs s t) eqn:Dt; cbn [orb]; [auto|].
  destruct (is_dir (fr_mode (gref s t))) eqn:Mt; cbn [negb orb]; [|auto].
  destruct (fr_opened (gref s r)); [auto|].
  destruct ((fr_node (gref s r) =? fr_node (gref s t)) && (oldnm =? newnm)) eqn:Same; [auto|].
  pose proof (rename_np s d g r t oldnm newnm Inv TT G Ht Lr Lvr (dir_tref s g r G Lr Mr) Dr (dir_tref s g t G Lt Mt) Dt (pair_ne _ _ _ _ Same) N0 P0) as RO.
  cbv zeta in RO.
  destruct (bcall_ pfs pfs_step (BRenameAt (fr_file (gref s r)) oldnm (fr_file (gref s t)) newnm) s) as [a s1]. cbn [fst snd] in RO.
  destruct a; cbn [snd]; exact RO.
Qed.

Lemma np_rename c fid dirfid nm : np [] (fun s => snd (do_rename pfs pfs_step c fid dirfid nm s)).
Proof.
  unfold do_rename. apply with_fid_np. intros r. apply with_fid_np. intros t s d g Inv HP TT G N0 P0. cbv zeta.
  assert (Hr : 0 < hc s r) by (apply HP; right; left; reflexivity).
  assert (Ht : 0 < hc s t) by (apply HP; left; reflexivity).
  destruct (held_live s d r Inv Hr) as (Lr & Lvr). destruct (held_live s d t Inv Ht) as (Lt & Lvt).
  destruct (fr_parent (gref s r)) as [p|] eqn:Ep; [|auto].
  destruct (is_deleted pfs s r) eqn:Dr; cbn [orb]; [auto|].
  destruct (is_deleted pfs s t) eqn:Dt; cbn [orb]; [auto|].
  destruct (is_dir (fr_mode (gref s t))) eqn:Mt; cbn [negb]; [|auto].
  pose proof (G_pnonf _ _ G r p Lr Lvr Dr Ep) as Dp. unfold nonf in Dp. rewrite Dp.
  destruct (T_live pfs s TT r p Lr Lvr Ep Dr) as (old & Rg). unfold name_for. fold (gnode s (fr_node (gref s p))).
  unfold registered in Rg. rewrite Rg.
  destruct ((fr_node (gref s p) =? fr_node (gref s t)) && (old =? nm)) eqn:Same; [auto|].
  destruct (G_parent _ _ G r p Lr Ep) as (_ & Tp & Lp).
  assert (Lvp : live s p). { destruct (inv_live pfs s d p Inv (C_parent pfs s r p Lr Lvr Ep)) as (_ & X). exact X. }
  pose proof (rename_np s d g p t old nm Inv TT G Ht Lp Lvp Tp Dp (dir_tref s g t G Lt Mt) Dt (pair_ne _ _ _ _ Same) N0 P0) as RO.
  cbv zeta in RO.
  destruct (bcall_ pfs pfs_step (BRenameAt (fr_file (gref s p)) old (fr_file (gref s t)) nm) s) as [a s1]. cbn [fst snd] in RO.
  destruct a; cbn [snd]; exact RO.
Qed.

(** every request *)
Theorem step_np o : np [] (fun s => snd (step pfs pfs_step o s)).
Proof.
  destruct o; cbn [step].
  - apply np_of_pf; intros; apply pf_attach.
  - apply np_walk_op.
  - apply np_of_pf; intros; apply pf_clunk.
  - apply np_remove.
  - apply np_of_pf; intros; apply pf_open.
  - apply np_of_pf; intros; apply pf_create.
  - apply np_of_pf; intros; apply pf_mk.
  - apply np_of_pf; intros; apply pf_link.
  - apply np_of_pf; intros; apply pf_getattr.
  - apply np_of_pf; intros; apply pf_use.
  - apply np_of_pf; intros; apply pf_io.
  - apply np_of_pf; intros; apply pf_setattr.
  - apply np_of_pf; intros; apply pf_readdir.
  - apply np_of_pf; intros; apply pf_readlink.
  - apply np_of_pf; intros; apply pf_unlinkat.
  - apply np_rename.
  - apply np_renameat.
  - apply np_of_pf; intros; apply pf_xattrwalk.
  - apply np_of_pf; intros; apply pf_xattrcreate.
  - apply np_of_pf; intros; apply pf_stop.
Qed.
